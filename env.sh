# sourced by check / build.sh / setup.sh: offline Go environment for building against /repo
export GOFLAGS=-mod=mod
export GOPROXY=off
unset GOSUMDB 2>/dev/null || true
GO124=/root/go/pkg/mod/golang.org/toolchain@v0.0.1-go1.24.1.linux-amd64/bin/go
if [ -x "$GO124" ]; then export VGO="$GO124"; export GOTOOLCHAIN=local; else export VGO=go; fi
export REPO=/repo
