// vinstr: rewrites every iteration whose order Go leaves unspecified in the
// given packages of the j5 module so that the order is chosen by vorder:
//   for k, v := range m (m a map)      -> range vorder.Map(m, site)
//   x.Range(f) (protoreflect Message / Map, any Range(func(A,B) bool))
//                                      -> vorder.Range2(x.Range, f, site)
//   x.RangeFiles(f) etc (func(A) bool) -> vorder.Range1(x.RangeFiles, f, site)
//   proto.RangeExtensions(m, f)        -> vorder.Ext(proto.RangeExtensions, m, f, site)
// Output: rewritten files under <out>/ and an overlay JSON. Sites are listed in <out>/sites.json.
//
// usage: vinstr <repo> <out> <pkg-dir>...   (pkg-dir relative to repo)
package main

import (
	"encoding/json"
	"fmt"
	"go/ast"
	"go/importer"
	"go/parser"
	"go/token"
	"go/types"
	"io"
	"os"
	"os/exec"
	"path/filepath"
	"sort"
	"strings"
)

const vorderPath = "github.com/pentops/j5/internal/zzverif/vorder"
const modPath = "github.com/pentops/j5"

type edit struct {
	off  int
	del  int
	text string
	seq  int
}

type site struct {
	ID   string `json:"id"`
	Kind string `json:"kind"`
	Type string `json:"type"`
}

func main() {
	repo, out := os.Args[1], os.Args[2]
	dirs := os.Args[3:]
	// export data of every dependency
	args := []string{"list", "-export", "-deps", "-f", "{{.ImportPath}}\t{{.Export}}"}
	for _, d := range dirs {
		args = append(args, "./"+d)
	}
	cmd := exec.Command(os.Getenv("VGO"), args...)
	cmd.Dir = repo
	cmd.Stderr = os.Stderr
	lst, err := cmd.Output()
	if err != nil {
		fmt.Fprintln(os.Stderr, "go list failed:", err)
		os.Exit(2)
	}
	exports := map[string]string{}
	for _, l := range strings.Split(string(lst), "\n") {
		p := strings.SplitN(l, "\t", 2)
		if len(p) == 2 && p[1] != "" {
			exports[p[0]] = p[1]
		}
	}
	fset := token.NewFileSet()
	imp := importer.ForCompiler(fset, "gc", func(path string) (io.ReadCloser, error) {
		f, ok := exports[path]
		if !ok {
			return nil, fmt.Errorf("no export data for %s", path)
		}
		return os.Open(f)
	})
	overlay := map[string]string{}
	var sites []site
	var unhandled []string
	var skipped []string
	for _, d := range dirs {
		abs := filepath.Join(repo, d)
		pkgs, err := parser.ParseDir(fset, abs, func(fi os.FileInfo) bool { return !strings.HasSuffix(fi.Name(), "_test.go") }, parser.ParseComments)
		if err != nil {
			fmt.Fprintln(os.Stderr, err)
			os.Exit(2)
		}
		for _, pkg := range pkgs {
			var files []*ast.File
			var names []string
			for n := range pkg.Files {
				names = append(names, n)
			}
			sort.Strings(names)
			for _, n := range names {
				files = append(files, pkg.Files[n])
			}
			info := &types.Info{Types: map[ast.Expr]types.TypeAndValue{}, Selections: map[*ast.SelectorExpr]*types.Selection{}, Uses: map[*ast.Ident]types.Object{}}
			conf := types.Config{Importer: imp, Error: func(err error) { fmt.Fprintln(os.Stderr, "type error:", err) }}
			if _, err := conf.Check(modPath+"/"+d, fset, files, info); err != nil {
				fmt.Fprintln(os.Stderr, "type check failed for", d, err)
				os.Exit(2)
			}
			for fi, file := range files {
				name := names[fi]
				src, _ := os.ReadFile(name)
				var edits []edit
				seq := 0
				add := func(pos token.Pos, del int, text string) {
					edits = append(edits, edit{fset.Position(pos).Offset, del, text, seq})
					seq++
				}
				rel, _ := filepath.Rel(repo, name)
				ast.Inspect(file, func(n ast.Node) bool {
					switch n := n.(type) {
					case *ast.RangeStmt:
						t := info.TypeOf(n.X)
						if t == nil {
							return true
						}
						if _, ok := t.Underlying().(*types.Map); ok {
							id := fmt.Sprintf("%s:%d", rel, fset.Position(n.Pos()).Line)
							add(n.X.Pos(), 0, "vorder.Map(")
							add(n.X.End(), 0, fmt.Sprintf(", %q)", id))
							sites = append(sites, site{id, "range-map", t.String()})
						}
					}
					if n, ok := n.(*ast.CallExpr); ok {
						// maps.Keys / maps.Values (x/exp slices and std iterators) return map order
						if sel, ok := n.Fun.(*ast.SelectorExpr); ok && len(n.Args) == 1 {
							if pn, ok := info.Uses[identOf(sel.X)].(*types.PkgName); ok {
								path := pn.Imported().Path()
								fn := map[string]string{
									"golang.org/x/exp/maps|Keys": "Keys", "golang.org/x/exp/maps|Values": "Values",
									"maps|Keys": "SeqKeys", "maps|Values": "SeqValues", "maps|All": "SeqAll",
								}[path+"|"+sel.Sel.Name]
								if fn != "" {
									id := fmt.Sprintf("%s:%d", rel, fset.Position(n.Pos()).Line)
									add(n.Pos(), 0, "vorder."+fn+"(")
									add(n.Lparen, 1, ", ")
									add(n.Rparen, 0, fmt.Sprintf(", %q", id))
									sites = append(sites, site{id, "func-" + path + "." + sel.Sel.Name, info.TypeOf(n.Args[0]).String()})
									return true
								}
							}
						}
					}
					switch n := n.(type) {
					case *ast.CallExpr:
						sel, ok := n.Fun.(*ast.SelectorExpr)
						if !ok || !strings.HasPrefix(sel.Sel.Name, "Range") || len(n.Args) == 0 {
							return true
						}
						ft, ok := info.TypeOf(n.Args[len(n.Args)-1]).Underlying().(*types.Signature)
						if !ok || ft.Results().Len() != 1 {
							return true
						}
						id := fmt.Sprintf("%s:%d", rel, fset.Position(n.Pos()).Line)
						if s := info.Selections[sel]; s != nil && len(n.Args) == 1 {
							// method call x.RangeXxx(f): only receivers whose order is unspecified
							fn := map[string]string{
								"google.golang.org/protobuf/reflect/protoreflect.Message|Range":       "Msg",
								"google.golang.org/protobuf/reflect/protoreflect.Map|Range":           "PMap",
								"*google.golang.org/protobuf/reflect/protoregistry.Files|RangeFiles": "Files",
							}[s.Recv().String()+"|"+sel.Sel.Name]
							if fn == "" {
								skipped = append(skipped, id+" "+s.Recv().String()+"."+sel.Sel.Name)
								return true
							}
							add(n.Pos(), 0, "vorder."+fn+"(")
							add(sel.X.End(), int(n.Lparen-sel.X.End())+1, ", ")
							add(n.Rparen, 0, fmt.Sprintf(", %q", id))
							sites = append(sites, site{id, "method-" + sel.Sel.Name, s.Recv().String()})
						} else if s == nil && len(n.Args) == 2 && ft.Params().Len() == 2 {
							// package function proto.RangeExtensions(m, f)
							add(n.Pos(), 0, "vorder.Ext(")
							add(n.Lparen, 1, ", ")
							add(n.Rparen, 0, fmt.Sprintf(", %q", id))
							sites = append(sites, site{id, "func-" + sel.Sel.Name, info.TypeOf(n.Args[0]).String()})
						} else {
							unhandled = append(unhandled, id+" "+sel.Sel.Name)
						}
					}
					return true
				})
				if len(edits) == 0 {
					continue
				}
				// import on the package clause line keeps every line number
				add(file.Name.End(), 0, "; import vorder \""+vorderPath+"\"")
				sort.Slice(edits, func(i, j int) bool {
					if edits[i].off != edits[j].off {
						return edits[i].off < edits[j].off
					}
					return edits[i].seq < edits[j].seq
				})
				var sb strings.Builder
				cur := 0
				for _, e := range edits {
					sb.Write(src[cur:e.off])
					sb.WriteString(e.text)
					cur = e.off + e.del
				}
				sb.Write(src[cur:])
				dst := filepath.Join(out, rel)
				os.MkdirAll(filepath.Dir(dst), 0o755) //nolint:errcheck
				if err := os.WriteFile(dst, []byte(sb.String()), 0o644); err != nil {
					fmt.Fprintln(os.Stderr, err)
					os.Exit(2)
				}
				overlay[name] = dst
			}
		}
	}
	sort.Slice(sites, func(i, j int) bool { return sites[i].ID < sites[j].ID })
	sort.Strings(unhandled)
	b, _ := json.MarshalIndent(map[string]any{"Replace": overlay}, "", " ")
	os.WriteFile(filepath.Join(out, "overlay.json"), b, 0o644) //nolint:errcheck
	b, _ = json.MarshalIndent(map[string]any{"sites": sites, "unhandled": unhandled, "skipped_own_iterators": skipped, "packages": dirs}, "", " ")
	os.WriteFile(filepath.Join(out, "sites.json"), b, 0o644) //nolint:errcheck
	fmt.Printf("vinstr: %d sites in %d files, %d unhandled\n", len(sites), len(overlay), len(unhandled))
}

func identOf(e ast.Expr) *ast.Ident {
	if id, ok := e.(*ast.Ident); ok {
		return id
	}
	return nil
}
