module vinstr

go 1.24
