#!/usr/bin/env python3
# mkseedmeta.py: write seeded/<name>/meta.json for every seed from its notes.md and seeded/RESULTS.tsv;
# existing hand-written fields (needs, detected_by for C14-C16) are kept. Prints the seeds<->checks table.
import json, os, re, collections
root = '/verif/seeded'
res = collections.defaultdict(list)
for l in open(os.path.join(root, 'RESULTS.tsv')):
    p = l.rstrip('\n').split('\t')
    if len(p) >= 6:
        res[p[0]].append(dict(check=p[1], tier=p[2], exit=p[3], violations=p[4], signature=p[5]))
rows = []
for name in sorted(os.listdir(root)):
    d = os.path.join(root, name)
    if not os.path.isdir(d) or not re.match(r'C\d+-\d+$', name):
        continue
    notes = open(os.path.join(d, 'notes.md')).read() if os.path.exists(os.path.join(d, 'notes.md')) else ''
    title = ''
    m = re.search(r'^#\s*(.+)$', notes, re.M)
    if m:
        title = re.sub(r'^C\d+ seed \d+\s*[—-]\s*', '', m.group(1)).strip()
    needs = ''
    m = re.search(r'^##[^\n]*(needed|manifest)[^\n]*\n(.+?)(?=^## |\Z)', notes, re.M | re.S | re.I)
    if m:
        needs = ' '.join(m.group(2).strip().split('\n\n')[0].split())
    mp = os.path.join(d, 'meta.json')
    old = json.load(open(mp)) if os.path.exists(mp) else {}
    runs = res.get(name, [])
    caught = [r for r in runs if r['exit'] == '1']
    meta = {
        'property': name.split('-')[0],
        'change': title or old.get('change', ''),
        'needs': old.get('needs') or needs,
        'verified': 'seedverify.sh in a scratch worktree of /repo HEAD: patch applies, project builds, the whole existing test suite passes with it, the demonstration test (demo_test.go.txt) fails with the patch and passes without it',
        'runs': [dict(command='seedrun.sh %s %s %s (git apply to /repo, ./check, git checkout -- .)' % (name, r['check'], r['tier']), exit=r['exit'], violations=r['violations'], first_signature=r['signature']) for r in runs],
        'detected_by': [dict(check=r['check'], tier=r['tier'], signature=r['signature']) for r in caught],
    }
    json.dump(meta, open(mp, 'w'), indent=1)
    rows.append((name, title, ', '.join('%s (%s)' % (r['check'], r['signature'][:70]) for r in caught) or 'NOT DETECTED'))
print('| seed | change | caught by (quick tier; first signature) |')
print('|---|---|---|')
for r in rows:
    print('| %s | %s | %s |' % (r[0], r[1].replace('|', '/'), r[2].replace('|', '/')))
