#!/bin/bash
# setup.sh: pre-build every harness binary offline so the first check does not pay the cold build.
HERE="$(cd "$(dirname "$0")" && pwd)"
. "$HERE/env.sh"
mkdir -p "$HERE/bin" "$HERE/.work" "$HERE/evidence"
rc=0
for id in $(python3 -c "import json;print(' '.join(c['property_id'].lower() for c in json.load(open('$HERE/MANIFEST.json'))['checks']))"); do
  echo "setup: building $id"
  "$HERE/build.sh" "$id" "$HERE/bin/$id" || rc=1
done
exit $rc
