#!/usr/bin/env python3
# overlay.py <out.json> [extra-json-to-merge ...]: map harness sources into the j5 module.
import json, os, sys
root = '/verif/harness'
rep = {}
for d, _, files in os.walk(root):
    rel = os.path.relpath(d, root)
    if rel.startswith('bcl/') or rel == 'bcl':
        virt = '/repo/internal/bcl/zzverif/' + rel[4:]
    elif rel.startswith('_'):
        continue
    else:
        virt = '/repo/internal/zzverif/' + rel
    for f in files:
        if f.endswith('.go'):
            rep[os.path.normpath(os.path.join(virt, f))] = os.path.join(d, f)
# files injected into existing packages (export shims), overlay only
INJECT = {
    '_inject/genlsp_zzverif.go': '/repo/internal/bcl/genlsp/zz_verif_export.go',
    '_inject/source_zzverif.go': '/repo/internal/source/zz_verif_export.go',
}
for src, dst in INJECT.items():
    if os.path.exists(os.path.join(root, src)):
        rep[dst] = os.path.join(root, src)
# source files shared between main packages
SHARE = {
    'c18/gen.go': ['c15/zz_gen_c18.go'],
}
for src, dsts in SHARE.items():
    for dst in dsts:
        rep['/repo/internal/zzverif/' + dst] = os.path.join(root, src)
for extra in sys.argv[2:]:
    rep.update(json.load(open(extra))['Replace'])
json.dump({'Replace': rep}, open(sys.argv[1], 'w'), indent=1)
