#!/bin/bash
# build.sh <id_lc> <out> [extra go build flags...]
# Compiles /verif/harness/** into the j5 module via an overlay:
#   harness/<pkg>      -> /repo/internal/zzverif/<pkg>
#   harness/bcl/<pkg>  -> /repo/internal/bcl/zzverif/<pkg>
set -u
HERE="$(cd "$(dirname "$0")" && pwd)"
. "$HERE/env.sh"
id="$1"; out="$2"; shift; shift
if [ -x "$HERE/harness/$id/build.sh" ]; then
  exec "$HERE/harness/$id/build.sh" "$out" "$@"
fi
mkdir -p "$HERE/.work"
ov="$HERE/.work/overlay-$id.json"
python3 "$HERE/overlay.py" "$ov" || exit 2
if [ -d "$HERE/harness/bcl/$id" ]; then
  pkg=./internal/bcl/zzverif/$id
else
  pkg=./internal/zzverif/$id
fi
cd "$REPO" && "$VGO" build -overlay "$ov" "$@" -o "$out" "$pkg"
