#!/usr/bin/env python3
# mkmanifest.py: writes /verif/MANIFEST.json from the table below (kept valid at all times).
import json

TECH_E1 = "bounded-exhaustive explicit enumeration of inputs/programs executed on the real code (small-scope model checking, no sampling)"

CHECKS = {
 "C20": dict(
  engine="E1",
  technique=TECH_E1 + "; structured subsets of the 2^128 id space and all short strings over a 12-character alphabet",
  text="Every identifier in the structured subsets (<=2 bits set, <=3 non-zero boundary bytes, powers of 62 and neighbours, every leading-zero count, top of range) renders to 22 pattern-conforming characters and parses back; renderings are pairwise distinct; every string of length <=3 over a 12-character alphabet plus overflow/long strings is parsed without panic and never accepted with a value >= 2^128; NewHash is equal across calls and across processes. Bounded: the 2^128 space is covered on boundary families only. Hash purity: 5 namespaces x ~150 input lists including lists that coincide once joined with one of 7 separators, computed in list order and in reverse order in fresh processes.",
  note="math/big, crypto/sha1, regexp trusted; values outside the enumerated families rest on the stated arithmetic argument",
  design="3/C20"),

 "C11": dict(
  engine="E1",
  technique=TECH_E1 + "; all lexical-symbol sequences up to a length bound plus all single-chunk mutations of fixtures, both parser modes, hang watchdog",
  text="Every concatenation of <=4 (quick) / <=5 (thorough) symbols of a 40-symbol lexical alphabet (identifiers incl. non-ASCII, numbers, every string/regex/comment/description form incl. unterminated ones, every operator, NUL, CR, 4-byte rune) and every single-chunk deletion, truncation, adjacent swap and alphabet insertion of the repository's BCL fixtures is parsed in fail-fast and collect-all mode: no panic, no hang, (tree,nil) xor non-empty diagnostics, every diagnostic and every tree node span (reflective walk, unexported fields included) lies inside the input with start<=end, first collect-all diagnostic equals the fail-fast one, HumanString does not fail.",
  note="termination decided by a 120 s progress watchdog per few-byte input, not a proof; inputs longer than the bound / other runes not covered",
  design="3/C11"),
 "C09": dict(
  engine="E1",
  technique=TECH_E1 + "; all token sequences / small files / literal characters / description blocks, oracle = position-free AST equivalence + re-parse + idempotence",
  text="For every source in the enumerated space that the parser accepts (all lines of <=5/6 symbols over a 27-symbol literal-rich alphabet; all files of <=3/4 lines over 24 statement representatives x 3 indentations; every ASCII and 10 non-ASCII characters in string/regex/comment/description positions; all description blocks of <=5/7 lines; width-boundary families; fixtures and their single-chunk deletions): Fmt succeeds, its output parses, the position-free tree (types, tags, marks, qualifiers, keys, operators, literal kinds and values, attached comments, descriptions as paragraphs of words) and the ordered comment tokens are unchanged, and Fmt(Fmt(x)) == Fmt(x). Lines ending in CR LF (as a symbol of the line alphabet and as the line terminator of whole files).",
  note="tree equivalence is the explicit dump in harness/bcl/bgen/tree.go; larger files and other runes are outside the bound",
  design="3/C09"),
 "C19": dict(
  engine="E1",
  technique=TECH_E1 + "; same source space as C09 plus layout families; oracle = edits well-formed, applied edits == Fmt, LSP edits == FmtDiffs",
  text="For every source in C09's space plus layout families (trailing comments, several statements per line, multi-line tokens, blank runs) that the formatter accepts: FmtDiffs returns without failure; edits ascending, non-overlapping, 0<=from<=to<=#lines; applying them bottom-up to the line array equals Fmt(source) modulo trailing blank lines; the LSP astFormatter offers the same ranges and texts. Lines ending in CR LF (as a symbol of the line alphabet and as the line terminator of whole files).",
  note="edit semantics taken from genlsp/format.go (whole-line ranges); astFormatter reached through an overlay-only export shim",
  design="3/C19"),
 "C01": dict(
  engine="E1",
  technique=TECH_E1 + "; every (kind x label x context) schema and every ordered field pair x every message in the product of boundary value alphabets, oracle decode(encode(m)) == m",
  text="Every single-field message type over 23 field kinds x 4 labels x 8 contexts (top, nested, flattened, oneof arm, array element, map value, scalar oneof arm, exposed oneof) and every ordered pair of top-level fields over a 14-kind alphabet, built as raw proto descriptors, plus every object declared by the j5s single-field / nesting / enum / reference / annotation / bundle programs with the descriptors the real j5s compiler produced for it (~1900 schemas; the value model is derived from the j5s source, not from the compiled descriptor), plus (thorough) every single-field schema placed one level deeper below an object / flattened object / oneof arm / array element / map value, is round-tripped for every message in the product of the per-field boundary alphabets (integer extremes, escapes / controls / non-BMP text, float extremes, base64 edge bytes, date/timestamp/decimal boundaries, every enum option incl. gaps and prefix-like names, list and map shapes, optional-with-zero): encode succeeds, decode of the output succeeds, decoded == original under the property's normalisation. Enums in which one option's short name is another option's prefixed name (HIGH next to LEVEL_HIGH), in both declaration orders.",
  note="values outside the alphabets, >2 top-level fields, nesting >3 not covered; j5s-compiled schemas are linked against the process-wide registry for well-known types (as generated code is); Any fields of j5s schemas are skipped",
  design="3/C01"),
 "C03": dict(
  engine="E1",
  technique=TECH_E1 + "; documented spelling variations and exactly-one-fault injection at every node of every canonical document",
  text="For the canonical document (independent reference encoder) of every message of C01's single-field corpus and a slice of the pair corpus: white space, reversed member order, explicit nulls, every alternate spelling at every leaf (quoted/bare numbers incl. decimal and 64-bit extremes, 4 base64 forms, enum prefix, timestamp offsets) and scalars as url.Values must decode to the same message as the canonical spelling (strict equality) and to the original; and one fault per node from the listed classes (wrong JSON type, unparsable / out-of-range numbers quoted and bare, invalid base64/date/decimal/timestamp, unknown enum name, unknown key, two keys in a oneof, contradicting or unknown \"!type\", scalar for array) must be rejected with an error. Enums in which one option's short name is another option's prefixed name: the canonical spelling always denotes its own option.",
  note="single variation / single fault per document; Any payload internals are opaque and not varied",
  design="3/C03"),
 "C06": dict(
  engine="E1",
  technique=TECH_E1 + "; all JSON token sequences up to a length bound per target type, shape matrix, all prefixes / byte substitutions, nesting bombs, url.Values menus; crash / hang oracle with subprocess isolation",
  text="No panic, runtime fatal, stack exhaustion or hang for: every concatenation of <=4 (quick) / <=5 (thorough) tokens of a 16-symbol JSON alphabet into 12 target types (every structural kind incl. recursive types and a oneof root); every kind x label x context schema x 45 JSON values of depth <=2 in the field position; every prefix and every single-byte substitution (12 bytes) of a canonical document per schema; nesting bombs to depth 10^4 (10^5 thorough) through every recursive path, 10^5-digit numbers / keys / escapes; growth oracle without a clock: for 20 input shapes (every recursive path closed / truncated, many keys / elements / map keys / unknown keys, long strings / digits) a 4x larger input may allocate at most 10x more bytes (linear = 4x, quadratic = 16x); url.Values with 22 keys x 12 value lists per schema and all key pairs of a 17-key menu. Also: 9 target types the reflection does not support (maps with non-string keys, fixed64 / sfixed32, Empty, StringValue, FieldMask; singular and repeated) x 16 documents and 8 queries, each decoded twice on one codec; an amplification oracle (documents of at most ~60 bytes, e.g. decimals with 3,000,000 as exponent, must not allocate more than 1 MiB). Any envelopes: 22 type names (messages, unknown names, names registered as enum / extension / package, malformed names, non-strings) x 13 value shapes x member order, on codecs with and without WithProtoToAny.",
  note="termination by a 120 s watchdog; url.Values iteration order inside QueryToProto is a Go map order that is repeated, not owned",
  design="3/C06"),
 "C08": dict(
  engine="E1",
  technique=TECH_E1 + "; C01's enumeration, oracle = strict JSON re-read matched against an independent reference encoder; 2-step histories on one codec",
  text="Every encoding of C01's corpus (raw descriptors, j5s-compiled descriptors with the wire model derived from the j5s source, two-level contexts in the thorough tier) is re-read with a strict tokenizer (one value, no trailing data, number/string distinction kept) and matched against a reference encoder written from the README table: bare 32-bit ints / floats / bools, quoted 64-bit ints and decimals, padded std base64, RFC 3339 UTC timestamps, zero-padded dates, short enum names, oneof = {\"!type\", arm}, Any = {\"!type\", \"value\"}, flattened members inlined, unset members omitted, schema JSON names, no duplicate members. History oracles: bytes returned by an earlier call stay intact after the next call on the same codec; EncodeAny followed by encoding the parent. Non-representable values (NaN, +-Inf, year 0/10000, month 13, nanos out of range, undefined enum number, invalid UTF-8) must fail or still give valid JSON.",
  note="member order and float digits unconstrained (not documented)",
  design="3/C08"),
 "C18": dict(
  engine="E1",
  technique=TECH_E1 + "; full (proto field type x label x annotation) matrix of raw descriptor sets plus structural families; oracle = total + path/kind/name consistency + codec usable",
  text="Every descriptor set of the matrix 31 field types (all 15 proto scalar kinds, enums with and without UNSPECIFIED, messages, oneof wrapper, self reference, well-known and j5 types) x 4 labels x 90 annotations ((j5.ext.v1.field) of every type, (buf.validate.field) of every type at boundary values, (j5.list.v1.field) of every type, PSM key options; consistent with the field or not) and ~60 structural sets (message options, enum shapes, real/synthetic/exposed oneofs, recursion through field/array/map/oneof/flatten, flatten chains, JSON-name collisions, nested-name collisions) is reflected through SchemaSetFromFiles and SchemaCache.Schema: no panic / fatal / hang, (schema xor error), every property path resolves to a field of the matching kind, client property names unique, and the codec encodes and decodes the empty and a populated message of every reflected type. Thorough adds all pairs of annotations on one field. Also: a proto oneof named type next to an ordinary field, two-level flatten chains with a repeated property name; for every type whose schema does not build, the lookup is repeated on the same cache and NewRoot / the codec are called twice (must fail again, never (nil, nil), never crash). The oracle classifies oneof wrappers by its own reading of the rule. Exposed oneofs declared by a message that is flattened into its parent (overlapping field numbers); reference cycles in which one member does not reflect, looked up in both orders: every lookup on the shared cache must agree with a fresh cache asked for that type alone.",
  note="options are typed extension messages (protodesc, no protoc); 10 open known findings (Duration / Struct / array-of-Any / map-of-Any codec support, nested-name collision) are listed in known_findings.json",
  design="3/C18"),
 "C10": dict(
  engine="E2",
  technique="stateless depth-first exploration of thread interleavings of the real codec under a cooperative scheduler (preemption-bounded, iterated), with the real Go race detector as per-execution access monitor; not sampling",
  text="14 driver scenarios (2-3 goroutines, 1-2 encode / decode / query-decode / NewHash calls each on one shared codec, fresh or warm, incl. the package-level default; types forced to share sub-schemas, enums, recursion, a failing reflection, prefixed enum spellings, same-type pairs) are executed under every interleaving at scheduling points (thread start, call boundaries and every sync / atomic operation of lib/j5schema, lib/j5reflect, internal/codec, lib/j5codec, lib/id62, reached by rewriting their sync imports to a shim at check time) with <=3 preemptions (quick; <=2 for 3-thread / 4-call scenarios) or without bound (thorough). Oracles per execution: no data race (real -race runtime, hand-off invisible to it), no panic, no deadlock, every call's result equals its result on a fresh codec alone. Default schedule replayed twice for determinism; a racing schedule is replayed twice before it is reported. Scenarios O-T: a type whose reflection fails used twice (and after a warm failing call), a message with every leaf kind (bytes scratch state) encoded and decoded by several threads, Any fields carrying only a proto payload; the free-running pass has a 240 s time-out (blocked goroutines are reported as deadlock). Scenarios U / V: first concurrent use of a type with a flattened field; decoded Any payloads are kept by the caller and compared again after all later calls have finished (retained-result oracle, applied to every scenario).",
  note="trusted: Go race detector; sync operations outside the shimmed packages are not scheduling points; a free-running -race pass of the same bodies is reported as cross-check",
  design="3/C10"),
 "C02": dict(
  engine="E1",
  technique=TECH_E1 + "; j5s programs enumerated by feature families, compiled by the real pipeline, compared with an independent reference compiler (structural contract diff)",
  text="~1200 (quick) j5s programs from a Go program model: single-field matrix (22 field types x plain/array/map x 5 presence spellings, each alone in its file), numbering (0-6 fields in 11 kinds of holder incl. request/response/publish/reqres/upsert/entity data and events, implicit leading fields), nesting (inline types to depth 3 with/without name override, 5 leaf shapes), enums (0-3 options, explicit UNSPECIFIED, prefix override, top-level/inline), references (3 declaration kinds x 10 reference forms: same file, qualified, cross-file, import by short/full name, alias, 3-segment packages, sibling prefixes x plain/array/map x a second similarly named package imported with and without alias), hand-written proto3 files and j5s files referring to one another (j5s uses proto, proto uses j5s, across packages, both ways x object / enum x plain / array / map), services (5 verbs x 6 path-parameter patterns x response/empty/none x 3 basePath forms), topics, mixed multi-file packages, entities; thorough adds every ordered pair of field types x containers in one object (4356 programs). For each: the program compiles and links, and the compiled files, packages, user/type imports, messages with nesting, fields (name, JSON name, number, type, type name, label, proto3-optional with the presence it stands for, oneof membership, map value type), enum values, services, methods, input/output types, HTTP verb and path, messaging role and topic name equal the reference compiler's contract exactly.",
  note="reference compiler (harness/gj5s) written from README.md; identifier alphabet avoids digits/acronyms; declaration order and options not compared (C04/C12)",
  design="3/C02"),
 "C17": dict(
  engine="E1",
  technique=TECH_E1 + "; entity declarations crossed over 8 dimensions, compared with a reference expansion incl. annotations",
  text="Every entity in the enumeration (6 name casings x 5 key sets x 3 data sets x 3 status sets x 3 event sets x 3 summary sets x 3 command sets x 4 query settings; all single and pairwise deviations from a default in quick, the small dimensions fully crossed in thorough) compiles, and the output equals the reference expansion: Keys/Data/Status/State/EventType/Event, query service with Get/List/Events (verbs, paths with primary keys in declaration order), command services, publish topic, one upsert topic per summary, all names derived from the entity name; plus annotations: same entity name and the right part on every component, primary-key markers and required-ness, tenant/foreign markers, flattened keys in State/Event, required wrapper fields, state_query / state_command service options and method roles, entity name on topics. Key sets include several markers on one key, shard keys before and after the primary key; command blocks that declare service options; types declared inside the entity block. The default status filter of the List method is compared for every position of the default status.",
  note="shard keys not generated (undocumented path effect); 1 open known finding (adjacent capitals in the entity name)",
  design="3/C17"),
 "C07": dict(
  engine="E1",
  technique=TECH_E1 + "; all token sequences up to a length bound over two alphabets, all single-chunk mutations of valid files, one semantic error per class, and the full rule x type acceptance matrix; crash / hang oracle with subprocess isolation",
  text="Rejecting side: every concatenation of <=3 (quick) / <=4 (thorough) symbols of the 40-symbol BCL alphabet and <=4 / <=5 symbols of a 22-symbol j5s keyword alphabet, every single-chunk deletion / swap / truncation / keyword insertion of ~60 rendered valid files, and ~45 semantic-error bundles (unknown type / ref / attribute / import, duplicates, required+optional, bad formats, service and topic shape errors, cross-file and cross-package cycles, proto syntax error next to a j5s file) are offered to CompilePackage and LintFile: no panic, no fatal, no hang, (files xor error), every error carries a position inside the offending file. Accepting side: every program of C02's families and the full matrix of ~900 rule declarations (each rule kind on each field type, alone in a file that contains nothing else) compiles and links. The accepting side also covers hand-written proto files mixed with j5s, external dependencies in sibling directories (t.v1 next to t/v1beta1, t/v10), names with acronyms and digits in every container, enum info fields, shard keys, types declared inside entity blocks, command blocks with options, the pipeline families. Source files whose base names sort around service/ and topic/, alone and next to other files.",
  note="token sequences share a PackageSet per 1500 cases, candidates are re-run alone before being reported; 12 open known findings (10 error classes without position, float rules unimplemented, inline type named like its parent)",
  design="3/C07"),
 "C13": dict(
  engine="E1",
  technique="explicit-state breadth-first search over append-edit histories (states = programs deduplicated by canonical source text, transitions = single append edits), invariant checked on every transition and against the seed; every state is compiled by the real pipeline",
  text="From 10 seed programs (object, oneof, enum, nested inline types, multi-file / multi-package references, service, publish / reqres / upsert topics, entity) every history of <=2 (quick) / <=3 (thorough) append edits is explored: a field of 6 kinds (string, inline object, inline enum, array of ref, inline types named like existing top-level types) at the end of every object / oneof / request / response / topic message / entity data / event; an option, status, event, method or message at the end of every enum / entity / service / publish topic; 7 kinds of top-level declaration at the end of every file (incl. names an existing inline type already has). Invariant on every transition and against the seed: every message, field (name, number, type, type name, label, JSON name, optionality, oneof), enum value (name, number), service and method (types, verb, path) of the earlier program is present and identical. The wire identity of a method includes the google.api.http body; append kinds include enum options and statuses named *_UNSPECIFIED. Seeds include enums whose names and prefixes contain UNSPECIFIED.",
  note="successor states are rebuilt by replaying the history on a freshly built seed; programs the compiler rejects are left to C07",
  design="3/C13"),
 "C12": dict(
  engine="E1",
  technique=TECH_E1 + "; every rule declaration of the matrix x boundary candidate values, oracle = standard validator verdict == reference predicate",
  text="~900 declarations (integers x 4 formats x minimum / maximum x each exclusive flag; strings x length bounds x pattern; keys plain / id62 / uuid / custom; bytes lengths; bool const; enum in / notIn incl. the explicit zero option; arrays x minItems / maxItems / uniqueItems x 4 item types with and without item rules; each x required), every one compiled alone in its file, are validated with protovalidate-go on dynamic messages for every candidate value around each induced boundary (below / at / above each bound, rune-counted string lengths with multi-byte runes, matching / non-matching patterns, valid / invalid id62 and uuid, defined / undefined enum numbers, list lengths with duplicates and invalid items, absent vs zero for required fields): the validator accepts iff the reference predicate (JSON-Schema semantics, inclusive unless exclusive=true) accepts. Also: map pair counts and rules of map values; enums declared in a hand-written proto file with numbers 1, 5, 10; every declaration next to a second declaration of the same family in one object (partner valid, or absent when it is an explicitly optional scalar). Explicitly optional fields (a present zero value is then a candidate), zero options spelled with the enum prefix, string formats next to length rules.",
  note="the proto3 zero value of a non-required field is treated as absent and not used as a candidate; protovalidate-go v0.9.2 is the trusted validator",
  design="3/C12"),
 "C04": dict(
  engine="E1",
  technique=TECH_E1 + "; programs of the schema families compiled and reflected back, compared with an expected schema built from the program model; memory path vs text path vs cache path",
  text="~1350 programs (single-field matrix, nesting with name overrides, enums, 10 reference forms x 3 kinds, descriptions / flatten / foreign keys, nested-vs-top-level name collisions, and the full rule matrix incl. list rules, date / decimal / timestamp / float rules and large INT64 literals) are compiled; every object, oneof and enum reflected by SchemaSetFromFiles equals the expected schema (property names, order, proto field paths, types and formats, required / optional, flatten, key formats and entity keys, descriptions, validation and list rules with inclusivity); SchemaCache.Schema gives the same schema in three query orders; and reflecting the printed .proto text re-parsed with protocompile gives exactly the same schemas. Also: Keys / Data objects of every entity (primary / foreign / tenant markers, several on one key, shard keys), enum info fields, inline descriptions after nested messages, empty oneofs, string formats, any options, list rules of oneof fields and of array items, map pair counts / value rules / ext.singleForm, uniqueness and counts on arrays of every item kind, enums declared in hand-written proto files with gaps in their numbers. Enum names and prefixes containing UNSPECIFIED; a first option that claims the zero slot by suffix.",
  note="empty rule / ext messages == absent, exclusive=false == absent; 4 open known findings (plain key in array / map, id62 / uuid keys in maps)",
  design="3/C04"),
 "C05": dict(
  engine="E1",
  technique=TECH_E1 + "; every file the compiler emits for the program families, every hand-written repo proto and a raw option-value matrix are printed, re-parsed with protocompile and compared by an order-insensitive descriptor dump; second print must be byte-identical",
  text="~2450 bundles: all files compiled from C02's families, the rule matrix, annotations and 8 shape programs (self / mutual references, nested types shadowing top-level ones, overlapping package prefixes, optional message fields, multi-paragraph / unicode descriptions, patterns with escapes); all 37 hand-written protos under /repo/proto; and 7 option hosts x 55 extension values (strings with every escape / control / non-BMP rune, integer and float boundaries, +-inf, NaN, bytes, enums, nested / empty / repeated messages, repeated scalars, maps). Oracle: the printed text parses and links; package, imports, messages and nesting, fields (name, number, kind, type, cardinality, proto3 optional, JSON name, real-oneof membership, map types), enums and values, services and methods, every option value (re-serialised through one resolver) and leading comments (exact) are equal; printing the re-parsed file reproduces the text. Also compared for compiled files: declaration order within each kind of child; option strings with control characters followed by hex digits; siblings of which only some carry a description; field names whose JSON name protoc would not derive (byUserID); external dependencies are linked from their rendered text. A family of hand-written proto shapes (leading comments with blank lines at the start, in the middle and at the end, detached comments, nested declarations).",
  note="declaration order is not compared; 1 open known finding (blank-line layout of hand-written protos not stable on the second print)",
  design="3/C05"),
 "C16": dict(
  engine="E1",
  technique=TECH_E1 + "; every program of the service / topic / entity / mixed / pipeline families is pushed through the whole chain compile -> print -> ReadFSImage -> APIFromImage -> APIFromSource -> J5 JSON -> BuildSwagger -> json.Marshal, each case in a crash / stack-overflow / hang isolated worker",
  text="~800 programs: services (5 verbs x 6 path patterns x response / empty response / no response x 3 basePath forms), topics, entities (all single and pairwise deviations of the entity model), a multi-file package, every field type x {body, query, response, path} x {plain, array, map}, one list rule on one field x 13 field types x {top, nested, below a oneof arm, in a recursive item}, self- and mutually-recursive objects and oneofs in request, response, list items and entity data. Oracle: no stage errors, panics, overflows the stack or hangs; the client API JSON is valid; the client API lists exactly the declared methods (incl. the entity query and command services) with the declared verb and path; path / query / body split as the verb dictates; every path parameter occurs in the path; state entities carry name, primary key, events, state schema; every schema referenced anywhere in the client API is present in it. Also: names with acronyms and digits for topics, messages, methods, services and fields; cycles that only pass through oneofs; request properties whose names are prefixes of path parameters; entity keys named like the generated request fields. Path parameters with acronym names and path parameters of referenced types on methods that also have a body.",
  note="which fields a list request offers is recorded as an outcome class, not judged (not part of the statement)",
  design="3/C16"),
 "C15": dict(
  engine="E1",
  technique=TECH_E1 + "; for every descriptor set: APIFromImage -> PackageSetFromSourceAPI -> ToJ5Root of every schema compared with the first export (proto.Equal), repeated on the re-exported API (second round trip), plus an independent walk of the rebuilt set for references without a target",
  text="~14400 descriptor sets: (a) every j5s program family of C02 / C04 / C16 compiled in memory, listed in the image with all packages and with each single package; (b) raw sets: 31 proto field types x 4 labels x ~90 annotations, the 50 structures of C18 (message options, entity markers, any-membership, enum shapes and info fields, oneofs, recursion, flatten chains, one message carrying every rule / list-rule kind the reflection can produce); (c) package layouts: prefix-related package names (shop.v1 / shop.v10), sub-packages of listed and of indirect packages, cross-package object / enum / oneof references, 10 single reference edges and all together x all 15 ordered package listings. Oracle: import succeeds, no unresolved reference, every exported schema present and equal on re-export (two rounds), nothing invented. Raw annotations include open / closed any fields with and without type lists.",
  note="descriptor sets the reflection rejects are counted as a class (C18 decides whether it may); a field-coverage probe (C15_FIELDCOV) lists the schema fields no generated set populates: only fields the reflection cannot produce remain (inline object/oneof/enum, ext, object rules, oneof rules, tenant_key, multiple_of, EntityJoin)",
  design="3/C15"),
 "C14": dict(
  engine="E1+E3",
  technique=TECH_E1 + "; E3: stateless deviation-bounded exploration of every iteration order the compile / print code consumes: tools/vinstr (go/types) rewrites each range over a Go map, protoreflect Message / Map Range, RangeFiles, RangeExtensions and maps.Keys / Values call in the 14 compile / print packages (overlay build, /repo untouched) so that the explorer picks the order at each dynamic choice point; every execution runs the real compiler and printer to completion and is compared byte for byte with the canonical run",
  text="7 rich multi-file / multi-package bundles (two with hand-written proto files in the mix) + ~230 multi-file programs of the reference / service / shape families: (1) every permutation of the file listing x of the package listing returned by the file source (~5300 runs); (2) every sequence of <= 3 CompilePackage calls with repetition on one PackageSet, each call's output compared (~6800); (3) every ordered pair 'compile bundle X, then Y' in one process (~1300); (4) E3: all alternatives (all n! orders for n <= 4, else reversal / rotations / adjacent transpositions) at each of the ~115 dynamic choice points with <= 1 deviating point (quick) / <= 2 (thorough), replay divergence is a hard error; (5) reported: 3 fresh processes. Observed: deterministic-marshal bytes of every FileDescriptorProto, printed text of every file, and the sequence of files CompilePackage returns. Bundles with several map-valued option entries per option, with stale and orphaned generated .j5s.proto files in the listing, and with external dependencies offered through the tool's own dependency set (internal/source, also instrumented) whose directories are prefixes of one another (d/v1, d/v1beta1, d/v10, d/v1/sub) and declare the same type names.",
  note="iteration inside protocompile / protobuf-go not visible at their API is not owned; choice points that only run while process-wide caches fill are covered by the fresh-process family only",
  design="3/C14"),
}

PENDING = {
}

ALL = ["C%02d" % i for i in range(1, 21)]

def main():
    checks = []
    for pid in ALL:
        c = CHECKS.get(pid)
        if not c:
            continue
        checks.append({
            "property_id": pid,
            "quick_cmd": "./check %s quick" % pid,
            "thorough_cmd": "./check %s thorough" % pid,
            "evidence_file": "/verif/evidence/%s.json" % pid,
            "replay_cmd_template": "./check %s quick --replay {path}" % pid,
            "engine": c["engine"],
            "level_claimed": {"category": "model_checking", "text": c["text"], "design_ref": c["design"]},
            "level_note": c["note"],
            "technique": c["technique"],
        })
    na = []
    for pid in ALL:
        if pid not in CHECKS:
            na.append({"property_id": pid, "reason": PENDING.get(pid, "not claimed yet: the check for this property is designed (DESIGN.md section 3) but not built at this commit")})
    m = {
        "version": 1,
        "setup_cmd": "./setup.sh",
        "hooks": {
            "guard": "verif",
            "enable": "no source hooks in /repo: harness packages are compiled into the module with `go build -overlay` (virtual paths /repo/internal/zzverif/..., /repo/internal/bcl/zzverif/...) and instrumented copies (sync shim for C10, iteration-order shim for C14) are generated from the working tree at check time; two overlay-only export shims (harness/_inject: the LSP formatter for C19, the source-image dependency set of internal/source for C14 / C02 / C07) are added to existing packages the same way, never written into /repo",
            "baseline_off_cmd": "cd /repo && GOFLAGS=-mod=mod GOPROXY=off go test -vet=off -count=1 ./...",
            "source_commits": [],
            "add_only": True,
        },
        "engines": [
            {"name": "E1", "path": "/verif/harness/vk", "serves_properties": [p for p in ALL if p in CHECKS and CHECKS[p]["engine"] == "E1"],
             "kind_free_text": "bounded-exhaustive explorer: deterministic enumeration of choice vectors, sharded worker subprocesses, crash/hang isolation, signature-grouped violations, known-findings matcher, evidence writer"},
            {"name": "E2", "path": "/verif/harness/c10", "serves_properties": [p for p in ALL if p in CHECKS and CHECKS[p]["engine"] == "E2"],
             "kind_free_text": "stateless DFS over thread interleavings of the real codec under a cooperative scheduler invisible to the race detector (preemption-bounded), real -race runtime as access monitor"},
            {"name": "E3", "path": "/verif/harness/c14", "serves_properties": [p for p in ALL if p in CHECKS and CHECKS[p]["engine"] == "E3"],
             "kind_free_text": "owned iteration order: instrumented overlay copies in which map range / protoreflect Range order is chosen by the explorer, deviation-bounded"},
        ],
        "checks": checks,
        "notes": "All checks: ./check <ID> <quick|thorough> [--replay <path>]; see DESIGN.md. Known findings: /verif/known_findings.json.",
        "not_applicable": na,
    }
    json.dump(m, open('/verif/MANIFEST.json', 'w'), indent=1)
    print("MANIFEST.json: %d checks, %d not claimed" % (len(checks), len(na)))

main()
