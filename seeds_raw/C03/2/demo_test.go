// copy to: internal/codec/
package codec

import (
	"fmt"
	"math"
	"testing"

	"github.com/pentops/j5/gen/test/schema/v1/schema_testpb"
	"google.golang.org/protobuf/encoding/prototext"
)

// A bare JSON number that does not fit the 32-bit signed target field must be
// rejected, never stored as some other value. In-range boundary values must be
// stored exactly.
func TestSeedC03_2_Int32BareNumberRange(t *testing.T) {
	codec := NewCodec()

	decode := func(doc string) (*schema_testpb.FullSchema, error) {
		msg := &schema_testpb.FullSchema{}
		err := codec.JSONToProto([]byte(doc), msg.ProtoReflect())
		return msg, err
	}

	// in range: exact
	for _, v := range []int64{0, 1, -1, math.MaxInt32, math.MinInt32} {
		for _, field := range []string{"sInt32", "sSint32"} {
			doc := fmt.Sprintf(`{%q: %d}`, field, v)
			msg, err := decode(doc)
			if err != nil {
				t.Fatalf("%s: unexpected error %v", doc, err)
			}
			got := int64(msg.SInt32)
			if field == "sSint32" {
				got = int64(msg.SSint32)
			}
			if got != v {
				t.Fatalf("%s: stored %d", doc, got)
			}
		}
	}

	// out of range: rejected
	for _, v := range []int64{
		math.MaxInt32 + 1,
		3000000000,
		math.MaxUint32,
		math.MaxUint32 + 1,
		math.MinInt32 - 1,
		math.MaxInt64,
	} {
		for _, field := range []string{"sInt32", "sSint32"} {
			doc := fmt.Sprintf(`{%q: %d}`, field, v)
			t.Run(doc, func(t *testing.T) {
				msg, err := decode(doc)
				if err == nil {
					t.Fatalf("out-of-range int32 accepted: %s\n  decoded as: %s", doc, prototext.MarshalOptions{}.Format(msg))
				}
			})
		}
	}
}
