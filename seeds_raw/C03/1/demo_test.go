// copy to: internal/codec/
package codec

import (
	"testing"

	"github.com/pentops/j5/gen/test/schema/v1/schema_testpb"
	"google.golang.org/protobuf/encoding/prototext"
)

// A "!type" member that contradicts the key present in a oneof must be
// rejected wherever the "!type" member appears in the object: JSON members are
// unordered, so `{"key": v, "!type": "other"}` denotes the same (contradictory)
// document as `{"!type": "other", "key": v}`.
func TestSeedC03_1_OneofTypeContradictionAnyOrder(t *testing.T) {
	codec := NewCodec()

	rejected := []struct{ name, doc string }{
		{"property, !type first", `{"wrappedOneof":{"!type":"wOneofBar","wOneofString":"x"}}`},
		{"property, !type last", `{"wrappedOneof":{"wOneofString":"x","!type":"wOneofBar"}}`},
		{"array element, !type first", `{"wrappedOneofs":[{"!type":"wOneofFloat","wOneofString":"x"}]}`},
		{"array element, !type last", `{"wrappedOneofs":[{"wOneofString":"x","!type":"wOneofFloat"}]}`},
		{"exposed oneof, !type first", `{"nestedExposedOneof":{"type":{"!type":"de2","de1":"x"}}}`},
		{"exposed oneof, !type last", `{"nestedExposedOneof":{"type":{"de1":"x","!type":"de2"}}}`},
	}
	for _, tc := range rejected {
		t.Run("reject/"+tc.name, func(t *testing.T) {
			msg := &schema_testpb.FullSchema{}
			err := codec.JSONToProto([]byte(tc.doc), msg.ProtoReflect())
			if err == nil {
				t.Fatalf("contradictory !type was accepted: %s\n  decoded as: %s", tc.doc, prototext.MarshalOptions{}.Format(msg))
			}
			t.Logf("rejected as expected: %v", err)
		})
	}

	accepted := []string{
		`{"wrappedOneof":{"!type":"wOneofString","wOneofString":"x"}}`,
		`{"wrappedOneof":{"wOneofString":"x","!type":"wOneofString"}}`,
	}
	for _, doc := range accepted {
		msg := &schema_testpb.FullSchema{}
		if err := codec.JSONToProto([]byte(doc), msg.ProtoReflect()); err != nil {
			t.Fatalf("consistent !type was rejected: %s: %v", doc, err)
		}
		if msg.GetWrappedOneof().GetWOneofString() != "x" {
			t.Fatalf("wrong value for %s: %s", doc, prototext.MarshalOptions{}.Format(msg))
		}
	}
}
