// copy to: internal/codec/
package codec

import (
	"testing"

	"github.com/pentops/j5/gen/test/schema/v1/schema_testpb"
	"google.golang.org/protobuf/encoding/prototext"
	"google.golang.org/protobuf/proto"
)

// An explicit null for an absent member denotes the same message as leaving
// the member out. That has to hold for every scalar member, including the
// members hoisted into the parent object from a flattened message.
func TestSeedC03_3_ExplicitNullIsAbsent(t *testing.T) {
	codec := NewCodec()

	decode := func(t *testing.T, doc string) *schema_testpb.FullSchema {
		t.Helper()
		msg := &schema_testpb.FullSchema{}
		if err := codec.JSONToProto([]byte(doc), msg.ProtoReflect()); err != nil {
			t.Fatalf("decode %s: %v", doc, err)
		}
		return msg
	}

	for _, tc := range []struct {
		name     string
		base     string
		withNull string
	}{
		{"plain scalars", `{}`, `{"sString": null, "oString": null, "sInt32": null, "sBool": null, "sBytes": null, "keyString": null}`},
		{"message-backed scalars", `{}`, `{"ts": null, "date": null, "decimal": null}`},
		{"oneof arm scalar", `{"wrappedOneof": {}}`, `{"wrappedOneof": {"wOneofString": null}}`},
		{"nested object scalar", `{"sBar": {"barId": "x"}}`, `{"sBar": {"barId": "x", "barField": null}}`},
		{"flattened, one null", `{}`, `{"fieldFromFlattened": null}`},
		{"flattened, both null", `{}`, `{"fieldFromFlattened": null, "field2FromFlattened": null}`},
		{"flattened, null among others", `{"sString": "a"}`, `{"sString": "a", "field2FromFlattened": null}`},
		{"flattened, null next to set sibling", `{"fieldFromFlattened": "v"}`, `{"fieldFromFlattened": "v", "field2FromFlattened": null}`},
	} {
		t.Run(tc.name, func(t *testing.T) {
			want := decode(t, tc.base)
			got := decode(t, tc.withNull)
			if !proto.Equal(want, got) {
				t.Fatalf("explicit null changed the message\n  without nulls %s -> [%s]\n  with nulls    %s -> [%s]",
					tc.base, prototext.MarshalOptions{}.Format(want),
					tc.withNull, prototext.MarshalOptions{}.Format(got))
			}

			// and the re-encoded documents are identical too
			wantJSON, err := codec.ProtoToJSON(want.ProtoReflect())
			if err != nil {
				t.Fatal(err)
			}
			gotJSON, err := codec.ProtoToJSON(got.ProtoReflect())
			if err != nil {
				t.Fatal(err)
			}
			if string(wantJSON) != string(gotJSON) {
				t.Fatalf("re-encoding differs: %s vs %s", wantJSON, gotJSON)
			}
		})
	}
}
