// copy to: internal/codec/   (run with: go test -race -vet=off -count=1 -run TestSeedC10_3 ./internal/codec/)
package codec

// Demonstration for seeded change C10/3.
//
// Scenario: one shared codec whose schema cache has been warmed by ENCODING
// (so all schemas, including the enum test.schema.v1.Enum, are built, but no
// enum has been looked up by name yet). Then N goroutines concurrently perform
// their first DECODES (JSON and query-string) of messages that carry that enum
// as a string: a singular field, a repeated field, and a oneof member of a
// different message type that shares the enum sub-schema.
// Every call must succeed and produce the same message as when run alone, and
// the run must be free of data races (the test is meant to be run with -race).

import (
	"net/url"
	"sync"
	"testing"

	"github.com/pentops/j5/gen/test/schema/v1/schema_testpb"
	"google.golang.org/protobuf/proto"
)

func TestSeedC10_3(t *testing.T) {
	type call struct {
		name string
		run  func(c *Codec) (proto.Message, error)
	}
	calls := []call{{
		name: "json singular",
		run: func(c *Codec) (proto.Message, error) {
			m := &schema_testpb.FullSchema{}
			return m, c.JSONToProto([]byte(`{"enum":"VALUE2"}`), m.ProtoReflect())
		},
	}, {
		name: "json repeated",
		run: func(c *Codec) (proto.Message, error) {
			m := &schema_testpb.FullSchema{}
			return m, c.JSONToProto([]byte(`{"rEnum":["VALUE2","ENUM_VALUE1","VALUE1"]}`), m.ProtoReflect())
		},
	}, {
		name: "json oneof member",
		run: func(c *Codec) (proto.Message, error) {
			m := &schema_testpb.WrappedOneof{}
			return m, c.JSONToProto([]byte(`{"!type":"wOneofEnum","wOneofEnum":"VALUE1"}`), m.ProtoReflect())
		},
	}, {
		name: "query singular",
		run: func(c *Codec) (proto.Message, error) {
			m := &schema_testpb.FullSchema{}
			return m, c.QueryToProto(url.Values{"enum": []string{"VALUE2"}}, m.ProtoReflect())
		},
	}}

	// reference results: each call run alone on its own codec
	want := make([]proto.Message, len(calls))
	for i, cc := range calls {
		m, err := cc.run(NewCodec())
		if err != nil {
			t.Fatalf("%s alone: %v", cc.name, err)
		}
		want[i] = m
	}

	warm := []proto.Message{
		&schema_testpb.FullSchema{Enum: schema_testpb.Enum_ENUM_VALUE1, REnum: []schema_testpb.Enum{schema_testpb.Enum_ENUM_VALUE2}},
		&schema_testpb.WrappedOneof{Type: &schema_testpb.WrappedOneof_WOneofEnum{WOneofEnum: schema_testpb.Enum_ENUM_VALUE2}},
	}

	const copies = 2 // goroutines per call
	for round := 0; round < 100; round++ {
		c := NewCodec()
		for _, m := range warm {
			if _, err := c.ProtoToJSON(m.ProtoReflect()); err != nil {
				t.Fatal(err)
			}
		}

		n := len(calls) * copies
		got := make([]proto.Message, n)
		errs := make([]error, n)
		start := make(chan struct{})
		var wg sync.WaitGroup
		for g := 0; g < n; g++ {
			wg.Add(1)
			go func(g int) {
				defer wg.Done()
				<-start
				got[g], errs[g] = calls[g%len(calls)].run(c)
			}(g)
		}
		close(start)
		wg.Wait()

		for g := 0; g < n; g++ {
			cc := calls[g%len(calls)]
			if errs[g] != nil {
				t.Fatalf("round %d, %s: %v (alone it succeeds)", round, cc.name, errs[g])
			}
			if !proto.Equal(got[g], want[g%len(calls)]) {
				t.Fatalf("round %d, %s: got %v, alone it returns %v", round, cc.name, got[g], want[g%len(calls)])
			}
		}
	}
}
