// copy to: internal/codec/   (run with: go test -race -vet=off -count=1 -run TestSeedC10_1 ./internal/codec/)
package codec

// Demonstration for seeded change C10/1.
//
// Scenario: one shared codec whose schema cache is already warm for package
// test.schema.v1. Several goroutines keep encoding those warm types while
// other goroutines perform the very first use of types that live in a package
// the cache has not seen yet (test.foo.v1). Every result must equal the result
// of the same call made alone, and the run must be free of data races
// (the test is meant to be run with -race).

import (
	"bytes"
	"sync"
	"testing"

	"github.com/pentops/j5/gen/test/foo/v1/foo_testpb"
	"github.com/pentops/j5/gen/test/schema/v1/schema_testpb"
	"google.golang.org/protobuf/proto"
)

func TestSeedC10_1(t *testing.T) {
	warm := []proto.Message{
		&schema_testpb.FullSchema{SString: "a", SBar: &schema_testpb.Bar{BarId: "x"}, Enum: schema_testpb.Enum_ENUM_VALUE1},
		&schema_testpb.WrappedOneof{Type: &schema_testpb.WrappedOneof_WOneofBar{WOneofBar: &schema_testpb.Bar{BarId: "y"}}},
	}
	fresh := []proto.Message{
		&foo_testpb.FooState{Keys: &foo_testpb.FooKeys{FooId: "id"}, Status: foo_testpb.FooStatus_FOO_STATUS_ACTIVE, Bar: &foo_testpb.Bar{Id: "b"}},
		&foo_testpb.FooEvent{Keys: &foo_testpb.FooKeys{FooId: "id"}, Event: &foo_testpb.FooEventType{Type: &foo_testpb.FooEventType_Created_{Created: &foo_testpb.FooEventType_Created{Field: "f"}}}},
	}
	all := append(append([]proto.Message{}, warm...), fresh...)

	// reference results: each call run alone on its own codec
	want := make([][]byte, len(all))
	for i, m := range all {
		b, err := NewCodec().ProtoToJSON(m.ProtoReflect())
		if err != nil {
			t.Fatal(err)
		}
		want[i] = b
	}

	for round := 0; round < 100; round++ {
		c := NewCodec()
		for _, m := range warm { // warm the cache for test.schema.v1 only
			if _, err := c.ProtoToJSON(m.ProtoReflect()); err != nil {
				t.Fatal(err)
			}
		}

		got := make([][]byte, len(all))
		errs := make([]error, len(all))
		start := make(chan struct{})
		var wg sync.WaitGroup
		for g := range all {
			wg.Add(1)
			go func(g int) {
				defer wg.Done()
				<-start
				got[g], errs[g] = c.ProtoToJSON(all[g].ProtoReflect())
			}(g)
		}
		close(start)
		wg.Wait()

		for g := range all {
			if errs[g] != nil {
				t.Fatalf("round %d call %d: %v", round, g, errs[g])
			}
			if !bytes.Equal(got[g], want[g]) {
				t.Fatalf("round %d call %d: got %s, alone it returns %s", round, g, got[g], want[g])
			}
		}
	}
}
