// copy to: internal/codec/   (run with: go test -vet=off -count=1 -run TestSeedC10_2 ./internal/codec/   -- also fails/passes the same way with -race)
package codec

// Demonstration for seeded change C10/2.
//
// Scenario: one shared codec whose schema cache is already warm (so the schema
// cache itself is only read). N goroutines concurrently encode messages that
// carry string fields of different contents / lengths. Every result must equal
// what the same call returns when run alone.

import (
	"fmt"
	"strings"
	"sync"
	"testing"

	"github.com/pentops/j5/gen/test/schema/v1/schema_testpb"
	"google.golang.org/protobuf/proto"
)

func TestSeedC10_2(t *testing.T) {
	const goroutines = 8
	const perGoroutine = 500

	mkMsg := func(g, i int) proto.Message {
		if (g+i)%2 == 0 {
			return &schema_testpb.Bar{BarId: fmt.Sprintf("g%d-i%d", g, i), BarField: strings.Repeat("x", (g*7+i*3)%40)}
		}
		return &schema_testpb.WrappedOneof{Type: &schema_testpb.WrappedOneof_WOneofBar{
			WOneofBar: &schema_testpb.Bar{BarId: fmt.Sprintf("g%d-i%d", g, i), BarField: strings.Repeat("y", (g*5+i*11)%40)},
		}}
	}

	// reference results, each call run alone; copied into strings at once.
	ref := NewCodec()
	want := make([][]string, goroutines)
	for g := range want {
		want[g] = make([]string, perGoroutine)
		for i := range want[g] {
			b, err := ref.ProtoToJSON(mkMsg(g, i).ProtoReflect())
			if err != nil {
				t.Fatal(err)
			}
			want[g][i] = string(b)
		}
	}

	shared := NewCodec()
	// warm the shared codec's schema cache from a single goroutine
	for i := 0; i < 2; i++ {
		if _, err := shared.ProtoToJSON(mkMsg(0, i).ProtoReflect()); err != nil {
			t.Fatal(err)
		}
	}

	got := make([][][]byte, goroutines)
	errs := make([]error, goroutines)
	start := make(chan struct{})
	var wg sync.WaitGroup
	for g := 0; g < goroutines; g++ {
		got[g] = make([][]byte, perGoroutine)
		wg.Add(1)
		go func(g int) {
			defer wg.Done()
			<-start
			for i := 0; i < perGoroutine; i++ {
				b, err := shared.ProtoToJSON(mkMsg(g, i).ProtoReflect())
				if err != nil {
					errs[g] = err
					return
				}
				got[g][i] = b
			}
		}(g)
	}
	close(start)
	wg.Wait()

	bad := 0
	for g := 0; g < goroutines; g++ {
		if errs[g] != nil {
			t.Fatalf("goroutine %d: %v", g, errs[g])
		}
		for i := 0; i < perGoroutine; i++ {
			if string(got[g][i]) != want[g][i] {
				if bad < 5 {
					t.Errorf("goroutine %d call %d: result is %q, alone it returns %q", g, i, got[g][i], want[g][i])
				}
				bad++
			}
		}
	}
	if bad > 0 {
		t.Errorf("%d of %d results differ from the run-alone result", bad, goroutines*perGoroutine)
	}
}
