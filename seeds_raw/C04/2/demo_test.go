// copy to: internal/j5s/protobuild/
package protobuild

import (
	"strings"
	"testing"

	"github.com/pentops/j5/lib/j5schema"
	"google.golang.org/protobuf/reflect/protoreflect"
)

// C04 seed 2: every object of the package, including objects declared inline
// in a field (compiled to nested messages), must reflect back to the schema
// the source declared - whatever was reflected through the same SchemaCache
// before.
//
// The package has a top level object `Inner` and an inline object for the
// field Foo.inner, which j5s names Foo.Inner (schema name "Foo_Inner").
func TestC04Seed2NestedVersusTopLevelName(t *testing.T) {
	tf := newTestFiles()
	tf.tAddJ5SFile("local/v1/foo.j5s",
		"object Foo {",
		"  field name string",
		"  field inner object {",
		"    field q string",
		"    field r bool",
		"  }",
		"}",
		"object Inner {",
		"  | the top level one",
		"  field z integer:INT64",
		"}",
	)
	files := testCompile(t, tf, newTestDeps(), "local.v1")
	file := files.expectFile(t, "local/v1/foo.j5s.proto")

	foo := file.Messages().ByName("Foo")
	if foo == nil {
		t.Fatal("no message Foo")
	}
	nested := foo.Messages().ByName("Inner")
	if nested == nil {
		t.Fatal("no message Foo.Inner")
	}
	top := file.Messages().ByName("Inner")
	if top == nil {
		t.Fatal("no message Inner")
	}

	type want struct {
		desc  protoreflect.MessageDescriptor
		name  string
		descr string
		props string
	}
	wants := map[string]want{
		"Foo":       {foo, "Foo", "", "name:string,inner:object(local.v1.Foo_Inner)"},
		"Foo.Inner": {nested, "Foo_Inner", "", "q:string,r:bool"},
		"Inner":     {top, "Inner", "the top level one", "z:integer"},
	}

	for _, order := range [][]string{
		{"Foo", "Foo.Inner", "Inner"},
		{"Foo.Inner", "Inner", "Foo"},
		{"Inner", "Foo", "Foo.Inner"},
		{"Inner", "Foo.Inner", "Foo"},
		{"Foo", "Inner", "Foo.Inner"},
	} {
		t.Run(strings.Join(order, " then "), func(t *testing.T) {
			sc := j5schema.NewSchemaCache()
			for _, key := range order {
				w := wants[key]
				got, err := sc.Schema(w.desc)
				if err != nil {
					t.Fatalf("reflecting %s: %s", key, err)
				}
				obj, ok := got.(*j5schema.ObjectSchema)
				if !ok {
					t.Fatalf("%s: reflected as %T", key, got)
				}
				if obj.Name() != w.name {
					t.Errorf("%s: reflected schema is named %q, want %q", key, obj.Name(), w.name)
				}
				if obj.Description() != w.descr {
					t.Errorf("%s: reflected description %q, want %q", key, obj.Description(), w.descr)
				}
				props := []string{}
				for _, prop := range obj.Properties {
					props = append(props, prop.JSONName+":"+prop.Schema.TypeName())
				}
				if gotProps := strings.Join(props, ","); gotProps != w.props {
					t.Errorf("%s: reflected properties [%s], source declared [%s]", key, gotProps, w.props)
				}
			}
		})
	}
}
