// copy to: internal/j5s/protobuild/
package protobuild

import (
	"context"
	"strings"
	"testing"

	"github.com/pentops/j5/gen/j5/schema/v1/schema_j5pb"
	"github.com/pentops/j5/internal/j5s/protoprint"
	"github.com/pentops/j5/lib/j5schema"
	"google.golang.org/protobuf/proto"
	"google.golang.org/protobuf/reflect/protodesc"
	"google.golang.org/protobuf/reflect/protoreflect"
	"google.golang.org/protobuf/reflect/protoregistry"
	"google.golang.org/protobuf/types/descriptorpb"

	_ "github.com/pentops/j5/j5types/date_j5t"
	_ "github.com/pentops/j5/j5types/decimal_j5t"
	_ "google.golang.org/protobuf/types/known/timestamppb"
)

// c04Concrete re-links a file compiled from .proto text against the generated
// Go types, so that the custom options are the concrete extension types which
// j5schema reads (the parser leaves them as dynamic messages).
func c04Concrete(t *testing.T, file protoreflect.FileDescriptor) protoreflect.FileDescriptor {
	t.Helper()
	raw, err := proto.Marshal(protodesc.ToFileDescriptorProto(file))
	if err != nil {
		t.Fatal(err)
	}
	fdp := &descriptorpb.FileDescriptorProto{}
	if err := (proto.UnmarshalOptions{Resolver: protoregistry.GlobalTypes}).Unmarshal(raw, fdp); err != nil {
		t.Fatal(err)
	}
	out, err := protodesc.NewFile(fdp, protoregistry.GlobalFiles)
	if err != nil {
		t.Fatal(err)
	}
	return out
}

// C04 seed 1: explicitly-optional flag of properties must survive
// j5s -> proto descriptors -> j5schema reflection, for every field type,
// both via the in-memory descriptors and via the printed .proto text.
func TestC04Seed1OptionalFlagRoundTrip(t *testing.T) {
	src := []string{
		"object Foo {",
		"  field a ? string",
		"  field b ? object:Bar",
		"  field c ? oneof:Choice",
		"  field d ? date",
		"  field e ? timestamp",
		"  field f ? enum:Status",
		"  field g ? key:id62",
		"  field h ? decimal",
		"  field i string",
		"  field j object:Bar",
		"}",
		"object Bar {",
		"  field x string",
		"}",
		"oneof Choice {",
		"  option bar object:Bar",
		"}",
		"enum Status {",
		"  option A",
		"}",
	}

	// name -> wanted explicitly_optional
	want := map[string]bool{
		"a": true, "b": true, "c": true, "d": true, "e": true,
		"f": true, "g": true, "h": true, "i": false, "j": false,
	}

	check := func(t *testing.T, foo protoreflect.MessageDescriptor) {
		t.Helper()
		sc := j5schema.NewSchemaCache()
		root, err := sc.Schema(foo)
		if err != nil {
			t.Fatalf("reflecting Foo: %s", err)
		}
		obj := root.ToJ5Root().GetObject()
		if obj == nil {
			t.Fatalf("Foo is not an object: %v", root.ToJ5Root())
		}
		got := map[string]*schema_j5pb.ObjectProperty{}
		for _, prop := range obj.Properties {
			got[prop.Name] = prop
		}
		for name, wantOptional := range want {
			prop, ok := got[name]
			if !ok {
				t.Errorf("property %q missing", name)
				continue
			}
			if prop.ExplicitlyOptional != wantOptional {
				t.Errorf("property %q: explicitly_optional = %v, source declared %v", name, prop.ExplicitlyOptional, wantOptional)
			}
			if prop.Required {
				t.Errorf("property %q: required = true, source declared false", name)
			}
		}
	}

	tf := newTestFiles()
	tf.tAddJ5SFile("local/v1/foo.j5s", src...)
	files := testCompile(t, tf, newTestDeps(), "local.v1")
	ff := files.expectFile(t, "local/v1/foo.j5s.proto")

	t.Run("descriptors", func(t *testing.T) {
		check(t, ff.Messages().ByName("Foo"))
	})

	t.Run("proto text", func(t *testing.T) {
		text, err := protoprint.PrintFile(context.Background(), ff, "")
		if err != nil {
			t.Fatal(err)
		}
		tf2 := newTestFiles()
		tf2.localFiles["local/v1/foo.proto"] = []byte(text)
		tf2.tIncludePackage("local.v1")
		files2 := testCompile(t, tf2, newTestDeps(), "local.v1")
		ff2 := files2.expectFile(t, "local/v1/foo.proto")
		if !strings.Contains(text, "message Foo") {
			t.Fatalf("unexpected text: %s", text)
		}
		check(t, c04Concrete(t, ff2).Messages().ByName("Foo"))
	})
}
