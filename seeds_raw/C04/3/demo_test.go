// copy to: internal/j5s/protobuild/
package protobuild

import (
	"context"
	"strings"
	"testing"

	"github.com/pentops/j5/internal/j5s/protoprint"
	"github.com/pentops/j5/lib/j5schema"
	"google.golang.org/protobuf/proto"
	"google.golang.org/protobuf/reflect/protodesc"
	"google.golang.org/protobuf/reflect/protoreflect"
	"google.golang.org/protobuf/reflect/protoregistry"
	"google.golang.org/protobuf/types/descriptorpb"
)

// c04Concrete3 re-links a file compiled from .proto text against the generated
// Go types, so that the custom options are the concrete extension types which
// j5schema reads (the parser leaves them as dynamic messages).
func c04Concrete3(t *testing.T, file protoreflect.FileDescriptor) protoreflect.FileDescriptor {
	t.Helper()
	raw, err := proto.Marshal(protodesc.ToFileDescriptorProto(file))
	if err != nil {
		t.Fatal(err)
	}
	fdp := &descriptorpb.FileDescriptorProto{}
	if err := (proto.UnmarshalOptions{Resolver: protoregistry.GlobalTypes}).Unmarshal(raw, fdp); err != nil {
		t.Fatal(err)
	}
	out, err := protodesc.NewFile(fdp, protoregistry.GlobalFiles)
	if err != nil {
		t.Fatal(err)
	}
	return out
}

// C04 seed 3: the in / not-in rules of enum fields must read back exactly as
// declared, for every option of the enum including the zero option when the
// source declares it.
func TestC04Seed3EnumInNotInRoundTrip(t *testing.T) {
	src := []string{
		"enum Status {",
		"  option UNSPECIFIED",
		"  option ACTIVE {",
		"    number = 1",
		"  }",
		"  option DELETED {",
		"    number = 2",
		"  }",
		"}",
		"object Foo {",
		"  field none enum:Status",
		"  field notLast enum:Status {",
		"    rules.notIn = [\"DELETED\"]",
		"  }",
		"  field notZero enum:Status {",
		"    rules.notIn = [\"UNSPECIFIED\"]",
		"  }",
		"  field notZeroOrLast enum:Status {",
		"    rules.notIn = [\"UNSPECIFIED\", \"DELETED\"]",
		"  }",
		"  field notAny enum:Status {",
		"    rules.notIn = [\"DELETED\", \"ACTIVE\", \"UNSPECIFIED\"]",
		"  }",
		"  field inZero enum:Status {",
		"    rules.in = [\"UNSPECIFIED\", \"ACTIVE\"]",
		"  }",
		"  field inOne enum:Status {",
		"    rules.in = [\"ACTIVE\"]",
		"  }",
		"}",
	}

	type rule struct{ in, notIn string }
	want := map[string]rule{
		"none":          {"", ""},
		"notLast":       {"", "DELETED"},
		"notZero":       {"", "UNSPECIFIED"},
		"notZeroOrLast": {"", "UNSPECIFIED,DELETED"},
		"notAny":        {"", "DELETED,ACTIVE,UNSPECIFIED"},
		"inZero":        {"UNSPECIFIED,ACTIVE", ""},
		"inOne":         {"ACTIVE", ""},
	}

	check := func(t *testing.T, foo protoreflect.MessageDescriptor) {
		t.Helper()
		sc := j5schema.NewSchemaCache()
		root, err := sc.Schema(foo)
		if err != nil {
			t.Fatalf("reflecting Foo: %s", err)
		}
		obj := root.ToJ5Root().GetObject()
		if obj == nil {
			t.Fatalf("Foo is not an object")
		}
		if len(obj.Properties) != len(want) {
			t.Fatalf("got %d properties, want %d", len(obj.Properties), len(want))
		}
		for _, prop := range obj.Properties {
			w, ok := want[prop.Name]
			if !ok {
				t.Errorf("unexpected property %q", prop.Name)
				continue
			}
			enum := prop.Schema.GetEnum()
			if enum == nil {
				t.Errorf("property %q is not an enum: %v", prop.Name, prop.Schema)
				continue
			}
			got := rule{
				in:    strings.Join(enum.GetRules().GetIn(), ","),
				notIn: strings.Join(enum.GetRules().GetNotIn(), ","),
			}
			if got != w {
				t.Errorf("property %q: reflected rules in=[%s] notIn=[%s], source declared in=[%s] notIn=[%s]",
					prop.Name, got.in, got.notIn, w.in, w.notIn)
			}
		}
	}

	tf := newTestFiles()
	tf.tAddJ5SFile("local/v1/foo.j5s", src...)
	files := testCompile(t, tf, newTestDeps(), "local.v1")
	ff := files.expectFile(t, "local/v1/foo.j5s.proto")

	t.Run("descriptors", func(t *testing.T) {
		check(t, ff.Messages().ByName("Foo"))
	})

	t.Run("proto text", func(t *testing.T) {
		text, err := protoprint.PrintFile(context.Background(), ff, "")
		if err != nil {
			t.Fatal(err)
		}
		tf2 := newTestFiles()
		tf2.localFiles["local/v1/foo.proto"] = []byte(text)
		tf2.tIncludePackage("local.v1")
		files2 := testCompile(t, tf2, newTestDeps(), "local.v1")
		ff2 := files2.expectFile(t, "local/v1/foo.proto")
		check(t, c04Concrete3(t, ff2).Messages().ByName("Foo"))
	})
}
