// copy to: internal/structure/
package structure

// C15 seed 1 demonstration: a oneof-wrapper message defined in one package and
// referenced from a field in another package must survive
// export -> PackageSetFromSourceAPI -> export.

import (
	"testing"

	"github.com/google/go-cmp/cmp"
	"github.com/pentops/j5/gen/j5/schema/v1/schema_j5pb"
	"github.com/pentops/j5/gen/j5/source/v1/source_j5pb"
	"github.com/pentops/j5/lib/j5schema"
	"google.golang.org/protobuf/proto"
	"google.golang.org/protobuf/testing/protocmp"
	"google.golang.org/protobuf/types/descriptorpb"
)

// c15Export flattens a source API into fullPackageName -> schemaName -> root.
func c15Flatten(api *source_j5pb.API) map[string]map[string]*schema_j5pb.RootSchema {
	out := map[string]map[string]*schema_j5pb.RootSchema{}
	put := func(pkg string, schemas map[string]*schema_j5pb.RootSchema) {
		if len(schemas) == 0 {
			return
		}
		if out[pkg] == nil {
			out[pkg] = map[string]*schema_j5pb.RootSchema{}
		}
		for k, v := range schemas {
			out[pkg][k] = v
		}
	}
	for _, pkg := range api.Packages {
		put(pkg.Name, pkg.Schemas)
		for _, sub := range pkg.SubPackages {
			put(pkg.Name+"."+sub.Name, sub.Schemas)
		}
	}
	return out
}

// c15RoundTrip exports the schemas reflected from the files to the source API
// form, rebuilds a schema set from it, exports again and compares.
func c15RoundTrip(t *testing.T, packages []string, files ...*descriptorpb.FileDescriptorProto) {
	t.Helper()
	img := &source_j5pb.SourceImage{File: files}
	for _, name := range packages {
		img.Packages = append(img.Packages, &source_j5pb.PackageInfo{Name: name, Label: name})
	}
	api, err := APIFromImage(img)
	if err != nil {
		t.Fatalf("APIFromImage: %s", err)
	}
	want := c15Flatten(proto.Clone(api).(*source_j5pb.API))

	set, err := j5schema.PackageSetFromSourceAPI(api.Packages)
	if err != nil {
		t.Fatalf("re-import of exported source API failed: %s", err)
	}
	got := map[string]map[string]*schema_j5pb.RootSchema{}
	for _, pkg := range set.Packages {
		for name, ref := range pkg.Schemas {
			if ref.To == nil {
				t.Errorf("unresolved ref %s.%s after re-import", pkg.Name, name)
				continue
			}
			if got[pkg.Name] == nil {
				got[pkg.Name] = map[string]*schema_j5pb.RootSchema{}
			}
			got[pkg.Name][name] = ref.To.ToJ5Root()
		}
	}
	for pkgName, schemas := range want {
		for name, w := range schemas {
			g, ok := got[pkgName][name]
			if !ok {
				t.Errorf("schema %s.%s lost in round trip", pkgName, name)
				continue
			}
			if diff := cmp.Diff(w, g, protocmp.Transform()); diff != "" {
				t.Errorf("schema %s.%s changed in round trip (-want +got):\n%s", pkgName, name, diff)
			}
		}
	}
	for pkgName, schemas := range got {
		for name := range schemas {
			if _, ok := want[pkgName][name]; !ok {
				t.Errorf("schema %s.%s appeared in round trip", pkgName, name)
			}
		}
	}
}

func c15MsgField(name string, number int32, typeName string) *descriptorpb.FieldDescriptorProto {
	return &descriptorpb.FieldDescriptorProto{
		Name:     proto.String(name),
		JsonName: proto.String(name),
		Number:   proto.Int32(number),
		Type:     descriptorpb.FieldDescriptorProto_TYPE_MESSAGE.Enum(),
		TypeName: proto.String(typeName),
	}
}

func c15CrossPackageOneofFiles(localChoice bool) []*descriptorpb.FileDescriptorProto {
	inOneof := func(f *descriptorpb.FieldDescriptorProto) *descriptorpb.FieldDescriptorProto {
		f.OneofIndex = proto.Int32(0)
		return f
	}
	common := &descriptorpb.FileDescriptorProto{
		Syntax:  proto.String("proto3"),
		Name:    proto.String("common/v1/choice.proto"),
		Package: proto.String("common.v1"),
		MessageType: []*descriptorpb.DescriptorProto{{
			Name: proto.String("Choice"),
			Field: []*descriptorpb.FieldDescriptorProto{
				inOneof(c15MsgField("left", 1, ".common.v1.Left")),
				inOneof(c15MsgField("right", 2, ".common.v1.Right")),
			},
			OneofDecl: []*descriptorpb.OneofDescriptorProto{{Name: proto.String("type")}},
		}, {
			Name: proto.String("Left"),
			Field: []*descriptorpb.FieldDescriptorProto{{
				Name: proto.String("val"), JsonName: proto.String("val"), Number: proto.Int32(1),
				Type: descriptorpb.FieldDescriptorProto_TYPE_STRING.Enum(),
			}},
		}, {
			Name: proto.String("Right"),
		}},
	}
	app := &descriptorpb.FileDescriptorProto{
		Syntax:     proto.String("proto3"),
		Name:       proto.String("app/v1/thing.proto"),
		Package:    proto.String("app.v1"),
		Dependency: []string{"common/v1/choice.proto"},
		MessageType: []*descriptorpb.DescriptorProto{{
			Name: proto.String("Thing"),
			Field: []*descriptorpb.FieldDescriptorProto{
				c15MsgField("choice", 1, ".common.v1.Choice"),
			},
		}},
	}
	if localChoice {
		// app.v1 has its own, different, oneof called Choice as well.
		app.MessageType = append(app.MessageType, &descriptorpb.DescriptorProto{
			Name: proto.String("Choice"),
			Field: []*descriptorpb.FieldDescriptorProto{
				inOneof(c15MsgField("thing", 1, ".app.v1.Thing")),
			},
			OneofDecl: []*descriptorpb.OneofDescriptorProto{{Name: proto.String("type")}},
		})
	}
	return []*descriptorpb.FileDescriptorProto{common, app}
}

func TestC15CrossPackageOneofRoundTrip(t *testing.T) {
	t.Run("indirect", func(t *testing.T) {
		c15RoundTrip(t, []string{"app.v1"}, c15CrossPackageOneofFiles(false)...)
	})
	t.Run("both listed", func(t *testing.T) {
		c15RoundTrip(t, []string{"common.v1", "app.v1"}, c15CrossPackageOneofFiles(false)...)
	})
	t.Run("same name in both packages", func(t *testing.T) {
		c15RoundTrip(t, []string{"app.v1"}, c15CrossPackageOneofFiles(true)...)
	})
}
