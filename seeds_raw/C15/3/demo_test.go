// copy to: internal/structure/
package structure

// C15 seed 3 demonstration: a listed package references a schema that lives in
// a sub-package (dep.v1.topic) of a package which is only a dependency
// (exported as an "indirect" package). The export must re-import.

import (
	"testing"

	"github.com/google/go-cmp/cmp"
	"github.com/pentops/j5/gen/j5/schema/v1/schema_j5pb"
	"github.com/pentops/j5/gen/j5/source/v1/source_j5pb"
	"github.com/pentops/j5/lib/j5schema"
	"google.golang.org/protobuf/proto"
	"google.golang.org/protobuf/testing/protocmp"
	"google.golang.org/protobuf/types/descriptorpb"
)

// c15Export flattens a source API into fullPackageName -> schemaName -> root.
func c15Flatten(api *source_j5pb.API) map[string]map[string]*schema_j5pb.RootSchema {
	out := map[string]map[string]*schema_j5pb.RootSchema{}
	put := func(pkg string, schemas map[string]*schema_j5pb.RootSchema) {
		if len(schemas) == 0 {
			return
		}
		if out[pkg] == nil {
			out[pkg] = map[string]*schema_j5pb.RootSchema{}
		}
		for k, v := range schemas {
			out[pkg][k] = v
		}
	}
	for _, pkg := range api.Packages {
		put(pkg.Name, pkg.Schemas)
		for _, sub := range pkg.SubPackages {
			put(pkg.Name+"."+sub.Name, sub.Schemas)
		}
	}
	return out
}

// c15RoundTrip exports the schemas reflected from the files to the source API
// form, rebuilds a schema set from it, exports again and compares.
func c15RoundTrip(t *testing.T, packages []string, files ...*descriptorpb.FileDescriptorProto) {
	t.Helper()
	img := &source_j5pb.SourceImage{File: files}
	for _, name := range packages {
		img.Packages = append(img.Packages, &source_j5pb.PackageInfo{Name: name, Label: name})
	}
	api, err := APIFromImage(img)
	if err != nil {
		t.Fatalf("APIFromImage: %s", err)
	}
	want := c15Flatten(proto.Clone(api).(*source_j5pb.API))

	set, err := j5schema.PackageSetFromSourceAPI(api.Packages)
	if err != nil {
		t.Fatalf("re-import of exported source API failed: %s", err)
	}
	got := map[string]map[string]*schema_j5pb.RootSchema{}
	for _, pkg := range set.Packages {
		for name, ref := range pkg.Schemas {
			if ref.To == nil {
				t.Errorf("unresolved ref %s.%s after re-import", pkg.Name, name)
				continue
			}
			if got[pkg.Name] == nil {
				got[pkg.Name] = map[string]*schema_j5pb.RootSchema{}
			}
			got[pkg.Name][name] = ref.To.ToJ5Root()
		}
	}
	for pkgName, schemas := range want {
		for name, w := range schemas {
			g, ok := got[pkgName][name]
			if !ok {
				t.Errorf("schema %s.%s lost in round trip", pkgName, name)
				continue
			}
			if diff := cmp.Diff(w, g, protocmp.Transform()); diff != "" {
				t.Errorf("schema %s.%s changed in round trip (-want +got):\n%s", pkgName, name, diff)
			}
		}
	}
	for pkgName, schemas := range got {
		for name := range schemas {
			if _, ok := want[pkgName][name]; !ok {
				t.Errorf("schema %s.%s appeared in round trip", pkgName, name)
			}
		}
	}
}

func c15SubPackageFiles() []*descriptorpb.FileDescriptorProto {
	depTopic := &descriptorpb.FileDescriptorProto{
		Syntax:  proto.String("proto3"),
		Name:    proto.String("dep/v1/topic/notify.proto"),
		Package: proto.String("dep.v1.topic"),
		MessageType: []*descriptorpb.DescriptorProto{{
			Name: proto.String("Notification"),
			Field: []*descriptorpb.FieldDescriptorProto{{
				Name: proto.String("level"), JsonName: proto.String("level"), Number: proto.Int32(1),
				Type:     descriptorpb.FieldDescriptorProto_TYPE_ENUM.Enum(),
				TypeName: proto.String(".dep.v1.topic.Level"),
			}, {
				Name: proto.String("text"), JsonName: proto.String("text"), Number: proto.Int32(2),
				Type: descriptorpb.FieldDescriptorProto_TYPE_STRING.Enum(),
			}},
		}},
		EnumType: []*descriptorpb.EnumDescriptorProto{{
			Name: proto.String("Level"),
			Value: []*descriptorpb.EnumValueDescriptorProto{
				{Name: proto.String("LEVEL_UNSPECIFIED"), Number: proto.Int32(0)},
				{Name: proto.String("LEVEL_HIGH"), Number: proto.Int32(1)},
			},
		}},
	}
	dep := &descriptorpb.FileDescriptorProto{
		Syntax:  proto.String("proto3"),
		Name:    proto.String("dep/v1/base.proto"),
		Package: proto.String("dep.v1"),
		MessageType: []*descriptorpb.DescriptorProto{{
			Name: proto.String("Base"),
			Field: []*descriptorpb.FieldDescriptorProto{{
				Name: proto.String("id"), JsonName: proto.String("id"), Number: proto.Int32(1),
				Type: descriptorpb.FieldDescriptorProto_TYPE_STRING.Enum(),
			}},
		}},
	}
	app := &descriptorpb.FileDescriptorProto{
		Syntax:     proto.String("proto3"),
		Name:       proto.String("app/v1/thing.proto"),
		Package:    proto.String("app.v1"),
		Dependency: []string{"dep/v1/topic/notify.proto", "dep/v1/base.proto"},
		MessageType: []*descriptorpb.DescriptorProto{{
			Name: proto.String("Thing"),
			Field: []*descriptorpb.FieldDescriptorProto{{
				Name: proto.String("base"), JsonName: proto.String("base"), Number: proto.Int32(1),
				Type:     descriptorpb.FieldDescriptorProto_TYPE_MESSAGE.Enum(),
				TypeName: proto.String(".dep.v1.Base"),
			}, {
				Name: proto.String("last"), JsonName: proto.String("last"), Number: proto.Int32(2),
				Type:     descriptorpb.FieldDescriptorProto_TYPE_MESSAGE.Enum(),
				TypeName: proto.String(".dep.v1.topic.Notification"),
			}},
		}},
	}
	return []*descriptorpb.FileDescriptorProto{depTopic, dep, app}
}

func TestC15IndirectSubPackageRoundTrip(t *testing.T) {
	t.Run("dep is indirect", func(t *testing.T) {
		c15RoundTrip(t, []string{"app.v1"}, c15SubPackageFiles()...)
	})
	t.Run("dep is listed", func(t *testing.T) {
		// control: same files, but dep.v1 is a direct package
		c15RoundTrip(t, []string{"app.v1", "dep.v1"}, c15SubPackageFiles()...)
	})
}
