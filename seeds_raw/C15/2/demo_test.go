// copy to: internal/structure/
package structure

// C15 seed 2 demonstration: two versions of a package whose names are
// prefix-related (shop.v1 and shop.v10) must stay separate packages in the
// exported source API so that the export can be re-imported.

import (
	"testing"

	"github.com/google/go-cmp/cmp"
	"github.com/pentops/j5/gen/j5/schema/v1/schema_j5pb"
	"github.com/pentops/j5/gen/j5/source/v1/source_j5pb"
	"github.com/pentops/j5/lib/j5schema"
	"google.golang.org/protobuf/proto"
	"google.golang.org/protobuf/testing/protocmp"
	"google.golang.org/protobuf/types/descriptorpb"
)

// c15Export flattens a source API into fullPackageName -> schemaName -> root.
func c15Flatten(api *source_j5pb.API) map[string]map[string]*schema_j5pb.RootSchema {
	out := map[string]map[string]*schema_j5pb.RootSchema{}
	put := func(pkg string, schemas map[string]*schema_j5pb.RootSchema) {
		if len(schemas) == 0 {
			return
		}
		if out[pkg] == nil {
			out[pkg] = map[string]*schema_j5pb.RootSchema{}
		}
		for k, v := range schemas {
			out[pkg][k] = v
		}
	}
	for _, pkg := range api.Packages {
		put(pkg.Name, pkg.Schemas)
		for _, sub := range pkg.SubPackages {
			put(pkg.Name+"."+sub.Name, sub.Schemas)
		}
	}
	return out
}

// c15RoundTrip exports the schemas reflected from the files to the source API
// form, rebuilds a schema set from it, exports again and compares.
func c15RoundTrip(t *testing.T, packages []string, files ...*descriptorpb.FileDescriptorProto) {
	t.Helper()
	img := &source_j5pb.SourceImage{File: files}
	for _, name := range packages {
		img.Packages = append(img.Packages, &source_j5pb.PackageInfo{Name: name, Label: name})
	}
	api, err := APIFromImage(img)
	if err != nil {
		t.Fatalf("APIFromImage: %s", err)
	}
	want := c15Flatten(proto.Clone(api).(*source_j5pb.API))

	set, err := j5schema.PackageSetFromSourceAPI(api.Packages)
	if err != nil {
		t.Fatalf("re-import of exported source API failed: %s", err)
	}
	got := map[string]map[string]*schema_j5pb.RootSchema{}
	for _, pkg := range set.Packages {
		for name, ref := range pkg.Schemas {
			if ref.To == nil {
				t.Errorf("unresolved ref %s.%s after re-import", pkg.Name, name)
				continue
			}
			if got[pkg.Name] == nil {
				got[pkg.Name] = map[string]*schema_j5pb.RootSchema{}
			}
			got[pkg.Name][name] = ref.To.ToJ5Root()
		}
	}
	for pkgName, schemas := range want {
		for name, w := range schemas {
			g, ok := got[pkgName][name]
			if !ok {
				t.Errorf("schema %s.%s lost in round trip", pkgName, name)
				continue
			}
			if diff := cmp.Diff(w, g, protocmp.Transform()); diff != "" {
				t.Errorf("schema %s.%s changed in round trip (-want +got):\n%s", pkgName, name, diff)
			}
		}
	}
	for pkgName, schemas := range got {
		for name := range schemas {
			if _, ok := want[pkgName][name]; !ok {
				t.Errorf("schema %s.%s appeared in round trip", pkgName, name)
			}
		}
	}
}

func c15VersionFiles() []*descriptorpb.FileDescriptorProto {
	v10 := &descriptorpb.FileDescriptorProto{
		Syntax:  proto.String("proto3"),
		Name:    proto.String("shop/v10/money.proto"),
		Package: proto.String("shop.v10"),
		MessageType: []*descriptorpb.DescriptorProto{{
			Name: proto.String("Money"),
			Field: []*descriptorpb.FieldDescriptorProto{{
				Name: proto.String("currency"), JsonName: proto.String("currency"), Number: proto.Int32(1),
				Type:     descriptorpb.FieldDescriptorProto_TYPE_ENUM.Enum(),
				TypeName: proto.String(".shop.v10.Currency"),
			}, {
				Name: proto.String("units"), JsonName: proto.String("units"), Number: proto.Int32(2),
				Type: descriptorpb.FieldDescriptorProto_TYPE_INT64.Enum(),
			}},
		}},
		EnumType: []*descriptorpb.EnumDescriptorProto{{
			Name: proto.String("Currency"),
			Value: []*descriptorpb.EnumValueDescriptorProto{
				{Name: proto.String("CURRENCY_UNSPECIFIED"), Number: proto.Int32(0)},
				{Name: proto.String("CURRENCY_USD"), Number: proto.Int32(1)},
			},
		}},
	}
	v1 := &descriptorpb.FileDescriptorProto{
		Syntax:     proto.String("proto3"),
		Name:       proto.String("shop/v1/order.proto"),
		Package:    proto.String("shop.v1"),
		Dependency: []string{"shop/v10/money.proto"},
		MessageType: []*descriptorpb.DescriptorProto{{
			Name: proto.String("Order"),
			Field: []*descriptorpb.FieldDescriptorProto{{
				Name: proto.String("total"), JsonName: proto.String("total"), Number: proto.Int32(1),
				Type:     descriptorpb.FieldDescriptorProto_TYPE_MESSAGE.Enum(),
				TypeName: proto.String(".shop.v10.Money"),
			}},
		}},
	}
	return []*descriptorpb.FileDescriptorProto{v10, v1}
}

func TestC15PrefixRelatedPackageVersions(t *testing.T) {
	t.Run("v10 indirect", func(t *testing.T) {
		c15RoundTrip(t, []string{"shop.v1"}, c15VersionFiles()...)
	})
	t.Run("both listed", func(t *testing.T) {
		c15RoundTrip(t, []string{"shop.v1", "shop.v10"}, c15VersionFiles()...)
	})
	t.Run("v10 only", func(t *testing.T) {
		// control: no prefix-related sibling
		c15RoundTrip(t, []string{"shop.v10"}, c15VersionFiles()[:1]...)
	})
}
