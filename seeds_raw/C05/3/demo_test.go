// copy to: internal/j5s/protoprint/
package protoprint

// C05 seed 3: proto3 `optional` on a message-typed field.
//
// Run:  go test -vet=off -count=1 ./internal/j5s/protoprint -run TestC05Seed3

import (
	"context"
	"io"
	"os"
	"strings"
	"testing"

	"github.com/bufbuild/protocompile"
	"github.com/google/go-cmp/cmp"
	"github.com/pentops/j5/internal/protosrc"
	"google.golang.org/protobuf/proto"
	"google.golang.org/protobuf/reflect/protodesc"
	"google.golang.org/protobuf/reflect/protoreflect"
	"google.golang.org/protobuf/testing/protocmp"
	"google.golang.org/protobuf/types/descriptorpb"
)

func c05s3Parse(t *testing.T, files map[string]string, name string) protoreflect.FileDescriptor {
	t.Helper()
	res := protocompile.CompositeResolver{
		&protocompile.SourceResolver{Accessor: func(fn string) (io.ReadCloser, error) {
			s, ok := files[fn]
			if !ok {
				return nil, os.ErrNotExist
			}
			return io.NopCloser(strings.NewReader(s)), nil
		}},
		protosrc.BuiltinResolver,
	}
	out, err := protosrc.NewCompiler(res).CompileToLinkers(context.Background(), []string{name})
	if err != nil {
		t.Fatalf("%s does not parse: %s\n%s", name, err, files[name])
	}
	return out[0]
}

func c05s3Norm(t *testing.T, fd protoreflect.FileDescriptor) *descriptorpb.FileDescriptorProto {
	t.Helper()
	p := protodesc.ToFileDescriptorProto(fd)
	p.SourceCodeInfo = nil
	b, err := proto.MarshalOptions{Deterministic: true}.Marshal(p)
	if err != nil {
		t.Fatal(err)
	}
	p2 := &descriptorpb.FileDescriptorProto{}
	if err := proto.Unmarshal(b, p2); err != nil {
		t.Fatal(err)
	}
	return p2
}

// print -> parse+link -> compare descriptors -> print again -> compare text
func c05s3RoundTrip(t *testing.T, name string, src string) {
	t.Helper()
	fd := c05s3Parse(t, map[string]string{name: src}, name)
	text, err := PrintFile(context.Background(), fd, "gen")
	if err != nil {
		t.Fatalf("print: %s", err)
	}
	t.Logf("printed:\n%s", text)
	fd2 := c05s3Parse(t, map[string]string{name: text}, name)
	if a, b := c05s3Norm(t, fd), c05s3Norm(t, fd2); !proto.Equal(a, b) {
		t.Errorf("re-parsed descriptor differs (-original +reparsed):\n%s", cmp.Diff(a, b, protocmp.Transform()))
	}
	text2, err := PrintFile(context.Background(), fd2, "gen")
	if err != nil {
		t.Fatalf("second print: %s", err)
	}
	if text2 != text {
		t.Errorf("second print differs from first:\n%s", text2)
	}
}

func TestC05Seed3OptionalMessageField(t *testing.T) {
	t.Run("inline", func(t *testing.T) {
		c05s3RoundTrip(t, "demo/v1/rules.proto", strings.Join([]string{
			`syntax = "proto3";`,
			``,
			`package demo.v1;`,
			``,
			`import "google/protobuf/timestamp.proto";`,
			``,
			`message TimestampRules {`,
			`  optional google.protobuf.Timestamp minimum = 1;`, // proto3_optional + message kind
			`  optional bool exclusive_minimum = 2;`,            // proto3_optional scalar: fine
			`  optional Unit unit = 3;`,                         // proto3_optional enum: fine
			`  google.protobuf.Timestamp not_before = 4;`,       // plain message field: fine
			`  optional Window window = 5;`,                     // proto3_optional + nested message
			``,
			`  message Window {`,
			`    int64 seconds = 1;`,
			`  }`,
			`}`,
			``,
			`enum Unit {`,
			`  UNIT_UNSPECIFIED = 0;`,
			`  UNIT_SECONDS = 1;`,
			`}`,
			``,
		}, "\n"))
	})

	// A hand-written file of the repository (FakeOptions.go is `optional GoPackageOptions`).
	t.Run("proto/j5/j5/source/v1/image.proto", func(t *testing.T) {
		data, err := os.ReadFile("../../../proto/j5/j5/source/v1/image.proto")
		if err != nil {
			t.Fatal(err)
		}
		c05s3RoundTrip(t, "j5/source/v1/image.proto", string(data))
	})
}
