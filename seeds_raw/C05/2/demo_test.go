// copy to: internal/j5s/protobuild/
package protobuild

// C05 seed 2: descriptions with an empty line between paragraphs.
//
// Run:  go test -vet=off -count=1 ./internal/j5s/protobuild -run TestC05Seed2MultiParagraphDescription

import (
	"context"
	"io"
	"os"
	"strings"
	"testing"

	"github.com/bufbuild/protocompile"
	"github.com/google/go-cmp/cmp"
	"github.com/pentops/j5/internal/j5s/protoprint"
	"github.com/pentops/j5/internal/protosrc"
	"google.golang.org/protobuf/proto"
	"google.golang.org/protobuf/reflect/protodesc"
	"google.golang.org/protobuf/reflect/protoreflect"
	"google.golang.org/protobuf/testing/protocmp"
	"google.golang.org/protobuf/types/descriptorpb"
)

// c05s2Parse parses and links proto source text (imports of the j5 / buf /
// google built-ins resolve from the global registry).
func c05s2Parse(t *testing.T, files map[string]string, name string) protoreflect.FileDescriptor {
	t.Helper()
	res := protocompile.CompositeResolver{
		&protocompile.SourceResolver{Accessor: func(fn string) (io.ReadCloser, error) {
			s, ok := files[fn]
			if !ok {
				return nil, os.ErrNotExist
			}
			return io.NopCloser(strings.NewReader(s)), nil
		}},
		protosrc.BuiltinResolver,
	}
	out, err := protosrc.NewCompiler(res).CompileToLinkers(context.Background(), []string{name})
	if err != nil {
		t.Fatalf("printed text of %s does not parse: %s\n%s", name, err, files[name])
	}
	return out[0]
}

// c05s2Norm is the descriptor without source info, with options
// re-decoded into the registered Go extension types.
func c05s2Norm(t *testing.T, fd protoreflect.FileDescriptor) *descriptorpb.FileDescriptorProto {
	t.Helper()
	p := protodesc.ToFileDescriptorProto(fd)
	p.SourceCodeInfo = nil
	b, err := proto.MarshalOptions{Deterministic: true}.Marshal(p)
	if err != nil {
		t.Fatal(err)
	}
	p2 := &descriptorpb.FileDescriptorProto{}
	if err := proto.Unmarshal(b, p2); err != nil {
		t.Fatal(err)
	}
	if p2.Options != nil && proto.Size(p2.Options) == 0 {
		p2.Options = nil // j5convert sets an empty FileOptions
	}
	return p2
}

func c05s2Comments(fd protoreflect.FileDescriptor) map[string]string {
	out := map[string]string{}
	add := func(d protoreflect.Descriptor) {
		if c := fd.SourceLocations().ByDescriptor(d).LeadingComments; c != "" {
			out[string(d.FullName())] = c
		}
	}
	walkEnum := func(e protoreflect.EnumDescriptor) {
		add(e)
		for i := 0; i < e.Values().Len(); i++ {
			add(e.Values().Get(i))
		}
	}
	var walkMsg func(m protoreflect.MessageDescriptor)
	walkMsg = func(m protoreflect.MessageDescriptor) {
		add(m)
		for i := 0; i < m.Fields().Len(); i++ {
			add(m.Fields().Get(i))
		}
		for i := 0; i < m.Oneofs().Len(); i++ {
			add(m.Oneofs().Get(i))
		}
		for i := 0; i < m.Messages().Len(); i++ {
			walkMsg(m.Messages().Get(i))
		}
		for i := 0; i < m.Enums().Len(); i++ {
			walkEnum(m.Enums().Get(i))
		}
	}
	for i := 0; i < fd.Messages().Len(); i++ {
		walkMsg(fd.Messages().Get(i))
	}
	for i := 0; i < fd.Enums().Len(); i++ {
		walkEnum(fd.Enums().Get(i))
	}
	for i := 0; i < fd.Services().Len(); i++ {
		s := fd.Services().Get(i)
		add(s)
		for j := 0; j < s.Methods().Len(); j++ {
			add(s.Methods().Get(j))
		}
	}
	return out
}

// c05s2RoundTrip: print -> parse+link -> compare descriptor and leading
// comments -> print again -> compare text.
func c05s2RoundTrip(t *testing.T, fd protoreflect.FileDescriptor) {
	t.Helper()
	text, err := protoprint.PrintFile(context.Background(), fd, "gen")
	if err != nil {
		t.Fatalf("print: %s", err)
	}
	t.Logf("printed:\n%s", text)
	fd2 := c05s2Parse(t, map[string]string{fd.Path(): text}, fd.Path())

	if a, b := c05s2Norm(t, fd), c05s2Norm(t, fd2); !proto.Equal(a, b) {
		t.Errorf("re-parsed descriptor differs (-original +reparsed):\n%s", cmp.Diff(a, b, protocmp.Transform()))
	}
	ca, cb := c05s2Comments(fd), c05s2Comments(fd2)
	for k, v := range ca {
		if cb[k] != v {
			t.Errorf("leading comment of %s changed: %q -> %q", k, v, cb[k])
		}
	}
	for k, v := range cb {
		if _, ok := ca[k]; !ok {
			t.Errorf("leading comment appeared on %s: %q", k, v)
		}
	}
	text2, err := protoprint.PrintFile(context.Background(), fd2, "gen")
	if err != nil {
		t.Fatalf("second print: %s", err)
	}
	if text2 != text {
		t.Errorf("second print differs from first:\n%s", text2)
	}
}

func TestC05Seed2MultiParagraphDescription(t *testing.T) {
	tf := newTestFiles()
	tf.tAddJ5SFile("local/v1/foo.j5s",
		"object Foo {",
		"  | Foo is the first paragraph of the description,",
		"  | which continues on a second line.",
		"  |",
		"  | A second paragraph follows an empty description line.",
		"  field name string {",
		"    | single paragraph descriptions are not affected",
		"  }",
		"  field status enum:Status",
		"}",
		"enum Status {",
		"  | Status also has two paragraphs.",
		"  |",
		"  | This is the second one.",
		"  option ACTIVE | one line",
		"  option INACTIVE",
		"}",
	)
	files := testCompile(t, tf, newTestDeps(), "local.v1")
	ff := files.expectFile(t, "local/v1/foo.j5s.proto")

	c05s2RoundTrip(t, ff)
}
