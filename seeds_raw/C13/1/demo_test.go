// copy to: internal/j5s/protobuild/
package protobuild

// Demonstration for C13 seeded change 1.
// Uses the package's own test helpers (newTestFiles, newTestDeps, testCompile).

import (
	"fmt"
	"sort"
	"testing"

	"google.golang.org/protobuf/reflect/protoreflect"
)

// c13s1Identities compiles the j5s body as local/v1/foo.j5s and returns the wire
// identity of every generated element, keyed by full name.
func c13s1Identities(t *testing.T, body ...string) map[string]string {
	t.Helper()
	tf := newTestFiles()
	tf.tAddJ5SFile("local/v1/foo.j5s", body...)
	files := testCompile(t, tf, newTestDeps(), "local.v1")

	out := map[string]string{}

	var walkEnum func(ed protoreflect.EnumDescriptor)
	walkEnum = func(ed protoreflect.EnumDescriptor) {
		out["enum "+string(ed.FullName())] = "enum"
		vals := ed.Values()
		for i := 0; i < vals.Len(); i++ {
			v := vals.Get(i)
			out["value "+string(ed.FullName())+"/"+string(v.Name())] = fmt.Sprintf("number=%d", v.Number())
		}
	}

	var walkMsg func(md protoreflect.MessageDescriptor)
	walkMsg = func(md protoreflect.MessageDescriptor) {
		if md.IsMapEntry() {
			return
		}
		out["message "+string(md.FullName())] = "message"
		fields := md.Fields()
		for i := 0; i < fields.Len(); i++ {
			f := fields.Get(i)
			typeName := f.Kind().String()
			switch {
			case f.IsMap():
				typeName = "map<" + f.MapKey().Kind().String() + "," + f.MapValue().Kind().String()
				if mv := f.MapValue().Message(); mv != nil {
					typeName += ":" + string(mv.FullName())
				}
				if ev := f.MapValue().Enum(); ev != nil {
					typeName += ":" + string(ev.FullName())
				}
				typeName += ">"
			case f.Message() != nil:
				typeName += ":" + string(f.Message().FullName())
			case f.Enum() != nil:
				typeName += ":" + string(f.Enum().FullName())
			}
			oneof := ""
			if od := f.ContainingOneof(); od != nil {
				oneof = string(od.Name())
			}
			out["field "+string(md.FullName())+"/"+string(f.Name())] = fmt.Sprintf(
				"number=%d type=%s label=%s json=%s oneof=%s",
				f.Number(), typeName, f.Cardinality(), f.JSONName(), oneof)
		}
		nested := md.Messages()
		for i := 0; i < nested.Len(); i++ {
			walkMsg(nested.Get(i))
		}
		enums := md.Enums()
		for i := 0; i < enums.Len(); i++ {
			walkEnum(enums.Get(i))
		}
	}

	for _, file := range files {
		msgs := file.Messages()
		for i := 0; i < msgs.Len(); i++ {
			walkMsg(msgs.Get(i))
		}
		enums := file.Enums()
		for i := 0; i < enums.Len(); i++ {
			walkEnum(enums.Get(i))
		}
		svcs := file.Services()
		for i := 0; i < svcs.Len(); i++ {
			sd := svcs.Get(i)
			out["service "+string(sd.FullName())] = "service"
			methods := sd.Methods()
			for j := 0; j < methods.Len(); j++ {
				m := methods.Get(j)
				out["method "+string(sd.FullName())+"/"+string(m.Name())] = fmt.Sprintf(
					"in=%s out=%s", m.Input().FullName(), m.Output().FullName())
			}
		}
	}
	return out
}

// c13s1AssertPreserved checks that every element of compile(P) is present and
// identical in compile(e(P)).
func c13s1AssertPreserved(t *testing.T, before, after map[string]string) {
	t.Helper()
	keys := make([]string, 0, len(before))
	for k := range before {
		keys = append(keys, k)
	}
	sort.Strings(keys)
	for _, k := range keys {
		got, ok := after[k]
		if !ok {
			t.Errorf("C13 violated: %s (%s) disappeared after the append", k, before[k])
			continue
		}
		if got != before[k] {
			t.Errorf("C13 violated: %s changed after the append:\n  before: %s\n  after:  %s", k, before[k], got)
		}
	}
}

var c13s1Base = []string{
	`object Foo {`,
	`  field name string`,
	`  field status enum {`,
	`    option ACTIVE`,
	`    option INACTIVE`,
	`  }`,
	`}`,
}

func c13s1With(extra ...string) []string {
	return append(append([]string{}, c13s1Base...), extra...)
}

// Control: a new top-level enum with an unrelated name is appended to the file.
func TestC13Seed1_AppendUnrelatedTopLevelEnum(t *testing.T) {
	before := c13s1Identities(t, c13s1Base...)
	after := c13s1Identities(t, c13s1With(
		`enum Outcome {`,
		`  option OK`,
		`  option FAILED`,
		`}`,
	)...)
	c13s1AssertPreserved(t, before, after)
}

// A new top-level enum is appended at the end of the file. Its name is the same
// as the (default) name of the enum declared inline in Foo.status, i.e. the
// file now has both local.v1.Foo.Status and local.v1.Status, which is valid.
func TestC13Seed1_AppendTopLevelEnumNamedLikeInlineEnum(t *testing.T) {
	before := c13s1Identities(t, c13s1Base...)
	after := c13s1Identities(t, c13s1With(
		`enum Status {`,
		`  option OK`,
		`  option FAILED`,
		`}`,
	)...)
	c13s1AssertPreserved(t, before, after)
}
