// copy to: internal/j5s/protobuild/
package protobuild

// Demonstration for C13 seeded change 3.
// Uses the package's own test helpers (newTestFiles, newTestDeps, testCompile).

import (
	"fmt"
	"sort"
	"testing"

	"google.golang.org/protobuf/reflect/protoreflect"
)

// c13s3Identities compiles the j5s body as local/v1/foo.j5s and returns the wire
// identity of every generated element, keyed by full name.
func c13s3Identities(t *testing.T, body ...string) map[string]string {
	t.Helper()
	tf := newTestFiles()
	tf.tAddJ5SFile("local/v1/foo.j5s", body...)
	files := testCompile(t, tf, newTestDeps(), "local.v1")

	out := map[string]string{}

	var walkEnum func(ed protoreflect.EnumDescriptor)
	walkEnum = func(ed protoreflect.EnumDescriptor) {
		out["enum "+string(ed.FullName())] = "enum"
		vals := ed.Values()
		for i := 0; i < vals.Len(); i++ {
			v := vals.Get(i)
			out["value "+string(ed.FullName())+"/"+string(v.Name())] = fmt.Sprintf("number=%d", v.Number())
		}
	}

	var walkMsg func(md protoreflect.MessageDescriptor)
	walkMsg = func(md protoreflect.MessageDescriptor) {
		if md.IsMapEntry() {
			return
		}
		out["message "+string(md.FullName())] = "message"
		fields := md.Fields()
		for i := 0; i < fields.Len(); i++ {
			f := fields.Get(i)
			typeName := f.Kind().String()
			switch {
			case f.IsMap():
				typeName = "map<" + f.MapKey().Kind().String() + "," + f.MapValue().Kind().String()
				if mv := f.MapValue().Message(); mv != nil {
					typeName += ":" + string(mv.FullName())
				}
				if ev := f.MapValue().Enum(); ev != nil {
					typeName += ":" + string(ev.FullName())
				}
				typeName += ">"
			case f.Message() != nil:
				typeName += ":" + string(f.Message().FullName())
			case f.Enum() != nil:
				typeName += ":" + string(f.Enum().FullName())
			}
			oneof := ""
			if od := f.ContainingOneof(); od != nil {
				oneof = string(od.Name())
			}
			out["field "+string(md.FullName())+"/"+string(f.Name())] = fmt.Sprintf(
				"number=%d type=%s label=%s json=%s oneof=%s",
				f.Number(), typeName, f.Cardinality(), f.JSONName(), oneof)
		}
		nested := md.Messages()
		for i := 0; i < nested.Len(); i++ {
			walkMsg(nested.Get(i))
		}
		enums := md.Enums()
		for i := 0; i < enums.Len(); i++ {
			walkEnum(enums.Get(i))
		}
	}

	for _, file := range files {
		msgs := file.Messages()
		for i := 0; i < msgs.Len(); i++ {
			walkMsg(msgs.Get(i))
		}
		enums := file.Enums()
		for i := 0; i < enums.Len(); i++ {
			walkEnum(enums.Get(i))
		}
		svcs := file.Services()
		for i := 0; i < svcs.Len(); i++ {
			sd := svcs.Get(i)
			out["service "+string(sd.FullName())] = "service"
			methods := sd.Methods()
			for j := 0; j < methods.Len(); j++ {
				m := methods.Get(j)
				out["method "+string(sd.FullName())+"/"+string(m.Name())] = fmt.Sprintf(
					"in=%s out=%s", m.Input().FullName(), m.Output().FullName())
			}
		}
	}
	return out
}

// c13s3AssertPreserved checks that every element of compile(P) is present and
// identical in compile(e(P)).
func c13s3AssertPreserved(t *testing.T, before, after map[string]string) {
	t.Helper()
	keys := make([]string, 0, len(before))
	for k := range before {
		keys = append(keys, k)
	}
	sort.Strings(keys)
	for _, k := range keys {
		got, ok := after[k]
		if !ok {
			t.Errorf("C13 violated: %s (%s) disappeared after the append", k, before[k])
			continue
		}
		if got != before[k] {
			t.Errorf("C13 violated: %s changed after the append:\n  before: %s\n  after:  %s", k, before[k], got)
		}
	}
}

func c13s3Package(appendedToFoo ...string) []string {
	body := []string{
		`enum Status {`,
		`  option ACTIVE`,
		`  option INACTIVE`,
		`}`,
		`object Address {`,
		`  field line string`,
		`}`,
		`object Foo {`,
		`  field name string`,
		`  field previous enum:Status`,
		`  field home object:Address`,
	}
	body = append(body, appendedToFoo...)
	body = append(body, `}`)
	return body
}

// Control: a scalar field and an inline enum with an unrelated name are appended.
func TestC13Seed3_AppendUnrelatedFields(t *testing.T) {
	before := c13s3Identities(t, c13s3Package()...)
	after := c13s3Identities(t, c13s3Package(
		`  field note string`,
		`  field mode enum {`,
		`    option FAST`,
		`    option SLOW`,
		`  }`,
	)...)
	c13s3AssertPreserved(t, before, after)
}

// A field with an inline enum is appended to Foo. The field is called
// 'status', so the inline enum gets the default name Foo.Status - the same
// short name as the top-level enum Status which the existing field
// Foo.previous refers to.
func TestC13Seed3_AppendInlineEnumNamedLikeReferencedEnum(t *testing.T) {
	before := c13s3Identities(t, c13s3Package()...)
	after := c13s3Identities(t, c13s3Package(
		`  field status enum {`,
		`    option OPEN`,
		`    option CLOSED`,
		`  }`,
	)...)
	c13s3AssertPreserved(t, before, after)
}

// Same shape with an inline object: the appended field 'address' declares
// Foo.Address, the existing field Foo.home refers to the top-level Address.
func TestC13Seed3_AppendInlineObjectNamedLikeReferencedObject(t *testing.T) {
	before := c13s3Identities(t, c13s3Package()...)
	after := c13s3Identities(t, c13s3Package(
		`  field address object {`,
		`    field street string`,
		`  }`,
	)...)
	c13s3AssertPreserved(t, before, after)
}
