// copy to: internal/j5s/protobuild/
package protobuild

import (
	"context"
	"testing"

	"github.com/pentops/j5/internal/j5s/protoprint"
	"google.golang.org/protobuf/proto"
	"google.golang.org/protobuf/reflect/protodesc"
)

// C14 demonstration: the descriptor and the printed text of package b.v1 must
// not depend on whether package a.v1 was compiled earlier (in the same
// PackageSet, or in the same process at all).
//
// a.v1 has an enum field which restricts the allowed values (rules.in),
// b.v1 has a plain enum field without any rules.
func TestC14CompileIndependentOfEarlierPackages(t *testing.T) {
	ctx := context.Background()

	tf := newTestFiles()
	tf.tAddJ5SFile("a/v1/a.j5s",
		"enum Status {",
		"  option ACTIVE",
		"  option DELETED",
		"}",
		"object Thing {",
		"  field status enum:Status {",
		"    rules.in = [\"ACTIVE\"]",
		"  }",
		"}",
	)
	tf.tAddJ5SFile("b/v1/b.j5s",
		"enum Color {",
		"  option RED",
		"  option BLUE",
		"}",
		"object Paint {",
		"  field color enum:Color",
		"}",
	)
	td := newTestDeps()

	type result struct {
		desc []byte
		text string
	}

	compile := func(cc *PackageSet, pkg string) result {
		out, err := cc.CompilePackage(ctx, pkg)
		if err != nil {
			t.Fatal(err)
		}
		if len(out) != 1 {
			t.Fatalf("expected 1 file for %s, got %d", pkg, len(out))
		}
		b, err := proto.MarshalOptions{Deterministic: true}.Marshal(protodesc.ToFileDescriptorProto(out[0]))
		if err != nil {
			t.Fatal(err)
		}
		text, err := protoprint.PrintFile(ctx, out[0], "gen")
		if err != nil {
			t.Fatal(err)
		}
		return result{desc: b, text: text}
	}

	newSet := func() *PackageSet {
		cc, err := NewPackageSet(td, tf)
		if err != nil {
			t.Fatal(err)
		}
		return cc
	}

	// 1. b.v1 on its own, nothing else compiled yet.
	alone := compile(newSet(), "b.v1")

	// 2. fresh PackageSet, a.v1 first, then b.v1.
	cc := newSet()
	_ = compile(cc, "a.v1")
	after := compile(cc, "b.v1")

	if alone.text != after.text {
		t.Errorf("printed b/v1/b.j5s.proto depends on a.v1 having been compiled before.\n--- b.v1 alone\n%s\n--- b.v1 after a.v1\n%s", alone.text, after.text)
	}
	if string(alone.desc) != string(after.desc) {
		t.Errorf("descriptor bytes of b/v1/b.j5s.proto depend on a.v1 having been compiled before")
	}

	// 3. and once more on a brand new PackageSet, b.v1 only.
	again := compile(newSet(), "b.v1")
	if alone.text != again.text || string(alone.desc) != string(again.desc) {
		t.Errorf("b.v1 compiled on a fresh PackageSet differs from the first compile in this process.\n--- first\n%s\n--- now\n%s", alone.text, again.text)
	}
}
