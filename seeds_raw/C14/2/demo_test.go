// copy to: internal/j5s/protobuild/
package protobuild

import (
	"context"
	"crypto/sha256"
	"fmt"
	"strings"
	"testing"

	"google.golang.org/protobuf/proto"
	"google.golang.org/protobuf/reflect/protodesc"
)

// C14 demonstration: CompilePackage on the same sources must always return the
// same sequence of (path, descriptor bytes), run after run, for a package that
// is made of several source files (one of which also produces a service file).
func TestC14CompileOutputSequenceDeterministic(t *testing.T) {
	ctx := context.Background()

	tf := newTestFiles()
	tf.tAddJ5SFile("local/v1/alpha.j5s",
		"object Alpha {",
		"  field name string",
		"}",
	)
	tf.tAddJ5SFile("local/v1/beta.j5s",
		"object Beta {",
		"  field alpha object:Alpha",
		"}",
	)
	tf.tAddJ5SFile("local/v1/gamma.j5s",
		"enum Gamma {",
		"  option ONE",
		"  option TWO",
		"}",
	)
	tf.tAddProtoFile("local/v1/delta.proto",
		`import "local/v1/alpha.j5s.proto";`,
		"message Delta {",
		"  Alpha alpha = 1;",
		"}",
	)
	td := newTestDeps()

	fingerprint := func() string {
		cc, err := NewPackageSet(td, tf)
		if err != nil {
			t.Fatal(err)
		}
		out, err := cc.CompilePackage(ctx, "local.v1")
		if err != nil {
			t.Fatal(err)
		}
		lines := make([]string, 0, len(out))
		for _, file := range out {
			b, err := proto.MarshalOptions{Deterministic: true}.Marshal(protodesc.ToFileDescriptorProto(file))
			if err != nil {
				t.Fatal(err)
			}
			lines = append(lines, fmt.Sprintf("%s %x", file.Path(), sha256.Sum256(b)))
		}
		return strings.Join(lines, "\n")
	}

	want := fingerprint()
	t.Logf("first compile:\n%s", want)
	for run := 1; run < 100; run++ {
		got := fingerprint()
		if got != want {
			t.Fatalf("run %d: compile output differs from the first compile.\n--- first\n%s\n--- now\n%s", run, want, got)
		}
	}
}
