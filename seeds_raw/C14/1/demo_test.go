// copy to: internal/j5s/protobuild/
package protobuild

import (
	"context"
	"testing"

	"github.com/pentops/j5/internal/j5s/protoprint"
)

// C14 demonstration: printing the same compiled file must always give the same
// text. The field below carries three extension options at once
// (buf.validate.field, j5.ext.v1.field and j5.list.v1.field).
func TestC14PrintFieldOptionsDeterministic(t *testing.T) {
	ctx := context.Background()

	tf := newTestFiles()
	tf.tAddJ5SFile("local/v1/foo.j5s",
		"object Foo {",
		"  field name ! string {",
		"    rules.minLength = 1",
		"    listRules.searching.searchable = true",
		"  }",
		"}",
	)
	td := newTestDeps()

	want := ""
	for run := 0; run < 200; run++ {
		cc, err := NewPackageSet(td, tf)
		if err != nil {
			t.Fatal(err)
		}
		out, err := cc.CompilePackage(ctx, "local.v1")
		if err != nil {
			t.Fatal(err)
		}
		if len(out) != 1 {
			t.Fatalf("expected 1 file, got %d", len(out))
		}
		// print the same descriptor several times, and fresh compiles too
		for rep := 0; rep < 5; rep++ {
			got, err := protoprint.PrintFile(ctx, out[0], "gen")
			if err != nil {
				t.Fatal(err)
			}
			if want == "" {
				want = got
				t.Logf("first print:\n%s", got)
				continue
			}
			if got != want {
				t.Fatalf("run %d rep %d: printed text differs from the first print.\n--- first\n%s\n--- now\n%s", run, rep, want, got)
			}
		}
	}
}
