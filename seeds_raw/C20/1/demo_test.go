// copy to: lib/id62/
package id62

import (
	"math/big"
	"testing"
)

// Parse must reject any string whose base62 value does not fit in 16 bytes,
// including strings that have the regular 22 character, pattern-conforming
// shape. Accepting them makes two different strings parse to the same id.
func TestSeedDemoParseRejectsOverflow(t *testing.T) {
	max := UUID{0xff, 0xff, 0xff, 0xff, 0xff, 0xff, 0xff, 0xff, 0xff, 0xff, 0xff, 0xff, 0xff, 0xff, 0xff, 0xff}
	maxStr := max.String()

	// 2^128, i.e. max+1, still renders as 22 base62 characters
	var n big.Int
	n.SetBytes(max[:])
	n.Add(&n, big.NewInt(1))
	justOver := n.Text(62)
	if len(justOver) != 22 {
		t.Fatalf("setup: expected 22 chars, got %d (%q)", len(justOver), justOver)
	}

	for _, s := range []string{
		justOver,
		"zzzzzzzzzzzzzzzzzzzzzz",
		"ZZZZZZZZZZZZZZZZZZZZZZ", // 62^22 - 1, the largest 22 character value
		"8000000000000000000000",
		maxStr[:21] + "8", // max ends in '7'
	} {
		if !Pattern.MatchString(s) {
			t.Fatalf("setup: %q should match the pattern", s)
		}
		id, err := Parse(s)
		if err == nil {
			t.Errorf("Parse(%q): expected an error for a value over 16 bytes, got id %x (renders as %q)", s, id[:], id.String())
		}
	}

	// sanity: the maximum itself is still accepted
	if got, err := Parse(maxStr); err != nil || got != max {
		t.Errorf("Parse(%q) = %x, %v", maxStr, got, err)
	}
}
