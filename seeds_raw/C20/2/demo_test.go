// copy to: lib/id62/
package id62

import (
	"strings"
	"testing"
)

// Parse must never panic, whatever string it is offered; strings that are not
// an id must come back as an error.
func TestSeedDemoParseNeverPanics(t *testing.T) {
	tryParse := func(s string) (id UUID, err error, panicked any) {
		defer func() {
			panicked = recover()
		}()
		id, err = Parse(s)
		return
	}

	for _, s := range []string{
		"0000000000000000000000",
		"0",
		"z",
		" ",
		"!",
		"\x00",
		"\xff\xfe",
		"é",
		"_",
		"0_0",
		"0x10",
		"0000000000000000000000\n",
		strings.Repeat("Z", 23),
		strings.Repeat("Z", 500),
		strings.Repeat("0", 500),
		"",
	} {
		_, err, panicked := tryParse(s)
		if panicked != nil {
			t.Errorf("Parse(%q) panicked: %v", s, panicked)
			continue
		}
		t.Logf("Parse(%q): err=%v", s, err)
	}

	// the empty string is not an id
	if _, err, panicked := tryParse(""); panicked == nil && err == nil {
		t.Errorf("Parse(\"\"): expected an error")
	}
}
