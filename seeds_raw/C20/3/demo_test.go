// copy to: lib/id62/
package id62

import (
	"fmt"
	"runtime"
	"strings"
	"sync"
	"testing"
)

func safeNewHash(namespace string, inputs ...string) (id UUID, panicked any) {
	defer func() {
		panicked = recover()
	}()
	return NewHash(namespace, inputs...), nil
}

// NewHash must be a pure function of (namespace, inputs): the same arguments
// give the same id no matter what other callers are doing at the same time.
func TestSeedDemoNewHashPureUnderConcurrency(t *testing.T) {
	if runtime.GOMAXPROCS(0) < 4 {
		defer runtime.GOMAXPROCS(runtime.GOMAXPROCS(4))
	}

	type call struct {
		namespace string
		inputs    []string
		want      UUID
	}

	// reference values, computed one at a time
	calls := make([]call, 0, 64)
	for i := 0; i < 64; i++ {
		c := call{
			namespace: fmt.Sprintf("namespace-%d", i%5),
			inputs: []string{
				fmt.Sprintf("input-%d", i),
				strings.Repeat("x", 50+i*7), // spans several sha1 blocks
				fmt.Sprintf("%d", i*i),
			},
		}
		c.want = NewHash(c.namespace, c.inputs...)
		calls = append(calls, c)
	}

	// sequential repeat: sanity
	for _, c := range calls {
		if got := NewHash(c.namespace, c.inputs...); got != c.want {
			t.Fatalf("sequential: NewHash(%q, ...) = %s, want %s", c.namespace, got, c.want)
		}
	}

	const workers = 8
	const rounds = 400

	var wg sync.WaitGroup
	var mu sync.Mutex
	mismatches := 0
	var first string

	start := make(chan struct{})
	for w := 0; w < workers; w++ {
		wg.Add(1)
		go func(w int) {
			defer wg.Done()
			<-start
			for r := 0; r < rounds; r++ {
				c := calls[(w*7+r)%len(calls)]
				got, panicked := safeNewHash(c.namespace, c.inputs...)
				if panicked != nil {
					mu.Lock()
					mismatches++
					if first == "" {
						first = fmt.Sprintf("worker %d round %d: NewHash(%q, %q...) panicked: %v", w, r, c.namespace, c.inputs[0], panicked)
					}
					mu.Unlock()
				} else if got != c.want {
					mu.Lock()
					mismatches++
					if first == "" {
						first = fmt.Sprintf("worker %d round %d: NewHash(%q, %q...) = %s, want %s", w, r, c.namespace, c.inputs[0], got, c.want)
					}
					mu.Unlock()
				}
			}
		}(w)
	}
	close(start)
	wg.Wait()

	if mismatches > 0 {
		t.Errorf("NewHash returned a different id (or panicked) for the same arguments in %d of %d concurrent calls; first: %s", mismatches, workers*rounds, first)
	}
}
