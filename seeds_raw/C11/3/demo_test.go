// copy to: internal/bcl/internal/parser/
package parser

import (
	"testing"
	"time"

	"github.com/pentops/j5/internal/bcl/errpos"
)

// C11 seed 3 demo: the parser always terminates, for any input, in either
// mode, and returns a tree or a non-empty list of diagnostics.
func TestSeedC11_3_ParserTerminates(t *testing.T) {
	inputs := []string{
		"pattern = /abc/\n",  // control: valid regex
		"pattern = /abc\n",   // control: unterminated regex, newline follows
		"pattern = /a//b/\n", // control: escaped slash
		"pattern = /abc",     // unterminated regex on the last line, no trailing newline
		"a = 1 / 2",          // stray slash on the last line
		"object Foo {\n}\n/", // a single slash as the very last character
		"pattern = /abc//",   // escaped slash is the last thing in the file
	}

	for _, input := range inputs {
		for _, failFast := range []bool{true, false} {
			type result struct {
				tree *File
				err  error
			}
			done := make(chan result, 1)
			go func() {
				tree, err := ParseFile(input, failFast)
				done <- result{tree, err}
			}()

			select {
			case res := <-done:
				if res.err == nil {
					if res.tree == nil {
						t.Errorf("input %q: no tree and no error", input)
					}
					continue
				}
				withSource, ok := errpos.AsErrorsWithSource(res.err)
				if !ok || len(withSource.Errors) == 0 {
					t.Errorf("input %q: expected a non-empty diagnostic list, got %T %v", input, res.err, res.err)
					continue
				}
				_ = withSource.HumanString(2)
			case <-time.After(3 * time.Second):
				// the runaway goroutine is abandoned, the test binary exits on failure
				t.Fatalf("input %q failFast=%v: ParseFile did not terminate within 3s", input, failFast)
			}
		}
	}
}
