// copy to: internal/bcl/internal/parser/
package parser

import (
	"testing"

	"github.com/pentops/j5/internal/bcl/errpos"
)

// C11 seed 2 demo: the parser is total - for any input, in either mode, it
// returns a tree or a non-empty list of diagnostics and never panics.
func TestSeedC11_2_ParserNeverPanics(t *testing.T) {
	inputs := []string{
		"field name :",          // qualifier colon followed by EOF
		"field name : {\n}\n",   // qualifier colon followed by a brace
		"field name ! {\n}\n",   // tag mark followed by something which is not a tag
		"field ? = 1\n",         // tag mark followed by an operator
		"object Foo /abc/ {\n}", // a regex may start a tag, but is not a valid tag
		"enum Foo:\n  | desc\n", // qualifier colon followed by EOL
		"field name :string\n",  // control: valid qualifier
		"field !name ?other\n",  // control: valid marks
	}

	for _, input := range inputs {
		for _, failFast := range []bool{true, false} {
			func() {
				defer func() {
					if r := recover(); r != nil {
						t.Errorf("input %q failFast=%v: parser panicked: %v", input, failFast, r)
					}
				}()
				tree, err := ParseFile(input, failFast)
				if err == nil {
					if tree == nil {
						t.Errorf("input %q: no tree and no error", input)
					}
					return
				}
				withSource, ok := errpos.AsErrorsWithSource(err)
				if !ok || len(withSource.Errors) == 0 {
					t.Errorf("input %q: expected a non-empty diagnostic list, got %T %v", input, err, err)
					return
				}
				_ = withSource.HumanString(2)
			}()
		}
	}
}
