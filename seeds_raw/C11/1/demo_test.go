// copy to: internal/bcl/internal/parser/
package parser

import (
	"strings"
	"testing"

	"github.com/pentops/j5/internal/bcl/errpos"
)

// C11 seed 1 demo: every diagnostic must carry start and end positions that lie
// inside the input, with start not after end.
func TestSeedC11_1_DiagnosticEndInsideFile(t *testing.T) {
	inputs := []string{
		// unexpected multi-line block comment after a complete assignment;
		// the comment starts at column 6 and ends on a 2 character line.
		"x = 1 /* a\n*/",
		// unexpected multi-line string (escaped newline) where a statement end is wanted
		"name = 1234567 \"ab\\\ncd\"\n",
		// same inside a block, with trailing content
		"block Foo {\n  key = value /* one\ntwo */\n}\n",
	}

	for _, input := range inputs {
		for _, failFast := range []bool{true, false} {
			_, err := ParseFile(input, failFast)
			if err == nil {
				t.Fatalf("input %q: expected a diagnostic", input)
			}
			withSource, ok := errpos.AsErrorsWithSource(err)
			if !ok || len(withSource.Errors) == 0 {
				t.Fatalf("input %q: expected diagnostics with source, got %T %v", input, err, err)
			}
			lines := strings.Split(input, "\n")
			for _, diag := range withSource.Errors {
				if diag.Pos == nil {
					t.Fatalf("input %q: diagnostic without position: %v", input, diag)
				}
				checkPoint(t, input, lines, "start", diag.Pos.Start)
				checkPoint(t, input, lines, "end", diag.Pos.End)
				s, e := diag.Pos.Start, diag.Pos.End
				if s.Line > e.Line || (s.Line == e.Line && s.Column > e.Column) {
					t.Errorf("input %q failFast=%v: start %v after end %v", input, failFast, s, e)
				}
			}
			// rendering must not panic either
			_ = withSource.HumanString(2)
		}
	}
}

func checkPoint(t *testing.T, input string, lines []string, name string, p errpos.Point) {
	t.Helper()
	if p.Line < 0 || p.Line >= len(lines) {
		t.Errorf("input %q: %s line %d outside file (%d lines)", input, name, p.Line, len(lines))
		return
	}
	width := len([]rune(lines[p.Line]))
	// column == width is the EOL / EOF position of that line
	if p.Column < 0 || p.Column > width {
		t.Errorf("input %q: %s column %d outside line %d (width %d)", input, name, p.Column, p.Line, width)
	}
}
