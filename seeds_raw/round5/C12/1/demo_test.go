// copy to: internal/j5s/protobuild/
package protobuild

import (
	"testing"

	"github.com/bufbuild/protovalidate-go"
	"google.golang.org/protobuf/reflect/protoreflect"
	"google.golang.org/protobuf/types/dynamicpb"
)

// An unsigned integer declared with minimum = 0 and exclusiveMinimum = true
// must be strictly positive: 0 is rejected, 1 is accepted.
func TestSeedC12R5UnsignedExclusiveZeroMinimum(t *testing.T) {
	tf := newTestFiles()
	tf.tAddJ5SFile("local/v1/foo.j5s",
		"object Foo {",
		"  field count integer:UINT32 {",
		"    rules.minimum = 0",
		"    rules.exclusiveMinimum = true",
		"  }",
		"  field total integer:UINT64 {",
		"    rules.minimum = 0",
		"    rules.exclusiveMinimum = true",
		"    rules.maximum = 10",
		"  }",
		"  field plain integer:UINT32 {",
		"    rules.minimum = 2",
		"  }",
		"}",
	)
	files := testCompile(t, tf, newTestDeps(), "local.v1")
	md := files.expectFile(t, "local/v1/foo.j5s.proto").Messages().ByName("Foo")

	v, err := protovalidate.New()
	if err != nil {
		t.Fatal(err)
	}

	check := func(name string, count uint32, total uint64, plain uint32, wantValid bool) {
		t.Helper()
		msg := dynamicpb.NewMessage(md)
		msg.Set(md.Fields().ByName("count"), protoreflect.ValueOfUint32(count))
		msg.Set(md.Fields().ByName("total"), protoreflect.ValueOfUint64(total))
		msg.Set(md.Fields().ByName("plain"), protoreflect.ValueOfUint32(plain))
		err := v.Validate(msg)
		if wantValid && err != nil {
			t.Errorf("%s: want valid, got %v", name, err)
		}
		if !wantValid && err == nil {
			t.Errorf("%s: want rejected, was accepted", name)
		}
	}

	check("all inside", 1, 1, 2, true)
	check("count at exclusive bound 0", 0, 1, 2, false)
	check("total at exclusive bound 0", 1, 0, 2, false)
	check("total above max", 1, 11, 2, false)
	check("plain below min", 1, 1, 1, false)
}
