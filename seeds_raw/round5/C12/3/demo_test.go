// copy to: internal/j5s/protobuild/
package protobuild

import (
	"testing"

	"github.com/bufbuild/protovalidate-go"
	"google.golang.org/protobuf/reflect/protoreflect"
	"google.golang.org/protobuf/types/dynamicpb"
)

// A string field that declares a well-known format together with length and
// pattern rules must enforce all of them.
func TestSeedC12R5StringFormatKeepsLengthRules(t *testing.T) {
	tf := newTestFiles()
	tf.tAddJ5SFile("local/v1/foo.j5s",
		"object Foo {",
		"  field contact string {",
		"    format = \"email\"",
		"    rules.minLength = 8",
		"    rules.maxLength = 16",
		"  }",
		"  field host string {",
		"    format = \"hostname\"",
		"    rules.pattern = \"\\\\.example\\\\.com$\"",
		"  }",
		"  field plain string {",
		"    rules.maxLength = 4",
		"  }",
		"}",
	)
	files := testCompile(t, tf, newTestDeps(), "local.v1")
	md := files.expectFile(t, "local/v1/foo.j5s.proto").Messages().ByName("Foo")

	v, err := protovalidate.New()
	if err != nil {
		t.Fatal(err)
	}

	check := func(name, contact, host, plain string, wantValid bool) {
		t.Helper()
		msg := dynamicpb.NewMessage(md)
		msg.Set(md.Fields().ByName("contact"), protoreflect.ValueOfString(contact))
		msg.Set(md.Fields().ByName("host"), protoreflect.ValueOfString(host))
		msg.Set(md.Fields().ByName("plain"), protoreflect.ValueOfString(plain))
		err := v.Validate(msg)
		if wantValid && err != nil {
			t.Errorf("%s: want valid, got %v", name, err)
		}
		if !wantValid && err == nil {
			t.Errorf("%s: want rejected, was accepted", name)
		}
	}

	check("all good", "bob@site.org", "api.example.com", "abcd", true)
	check("contact not an email", "bob-site.org", "api.example.com", "abcd", false)
	check("contact is an email but too short", "a@b.co", "api.example.com", "abcd", false)
	check("contact is an email but too long", "robert@a-long-site.org", "api.example.com", "abcd", false)
	check("host not a hostname", "bob@site.org", "api_.example.com", "abcd", false)
	check("host is a hostname but misses the pattern", "bob@site.org", "api.example.org", "abcd", false)
	check("plain too long", "bob@site.org", "api.example.com", "abcde", false)
}
