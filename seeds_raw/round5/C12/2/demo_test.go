// copy to: internal/j5s/protobuild/
package protobuild

import (
	"testing"

	"github.com/bufbuild/protovalidate-go"
	"google.golang.org/protobuf/reflect/protoreflect"
	"google.golang.org/protobuf/types/dynamicpb"
)

// The enum spells out its zero value with the full (default) prefix and does
// not declare `prefix`. The in / not_in rules of fields name the later options;
// the validator must accept exactly the named (resp. all but the named) options.
func TestSeedC12R5EnumInWithPrefixedUnspecified(t *testing.T) {
	tf := newTestFiles()
	tf.tAddJ5SFile("local/v1/foo.j5s",
		"enum Color {",
		"  option COLOR_UNSPECIFIED",
		"  option RED",
		"  option GREEN",
		"  option BLUE",
		"}",
		"object Foo {",
		"  field primary enum:Color {",
		"    rules.in = [\"RED\", \"BLUE\"]",
		"  }",
		"  field other enum:Color {",
		"    rules.notIn = [\"GREEN\"]",
		"  }",
		"}",
	)
	files := testCompile(t, tf, newTestDeps(), "local.v1")
	file := files.expectFile(t, "local/v1/foo.j5s.proto")
	md := file.Messages().ByName("Foo")
	ed := file.Enums().ByName("Color")

	num := func(name string) protoreflect.EnumNumber {
		t.Helper()
		v := ed.Values().ByName(protoreflect.Name(name))
		if v == nil {
			t.Fatalf("enum value %s not in compiled enum", name)
		}
		return v.Number()
	}
	if num("COLOR_UNSPECIFIED") != 0 || ed.Values().Len() != 4 {
		t.Fatalf("unexpected compiled enum: %d values, UNSPECIFIED=%d", ed.Values().Len(), num("COLOR_UNSPECIFIED"))
	}

	v, err := protovalidate.New()
	if err != nil {
		t.Fatal(err)
	}

	check := func(field string, value protoreflect.EnumNumber, wantValid bool) {
		t.Helper()
		msg := dynamicpb.NewMessage(md)
		// keep the other field at a value its own rule accepts
		msg.Set(md.Fields().ByName("primary"), protoreflect.ValueOfEnum(num("COLOR_RED")))
		msg.Set(md.Fields().ByName("other"), protoreflect.ValueOfEnum(num("COLOR_RED")))
		msg.Set(md.Fields().ByName(protoreflect.Name(field)), protoreflect.ValueOfEnum(value))
		err := v.Validate(msg)
		if wantValid && err != nil {
			t.Errorf("%s = %d: want valid, got %v", field, value, err)
		}
		if !wantValid && err == nil {
			t.Errorf("%s = %d: want rejected, was accepted", field, value)
		}
	}

	check("primary", num("COLOR_RED"), true)
	check("primary", num("COLOR_GREEN"), false)
	check("primary", num("COLOR_BLUE"), true)
	check("primary", 9, false)

	check("other", num("COLOR_RED"), true)
	check("other", num("COLOR_GREEN"), false)
	check("other", num("COLOR_BLUE"), true)
	check("other", 9, false)
}
