// copy to: internal/j5s/protobuild/
package protobuild

// Demonstration for seed C13/1: an enum that so far only declares its explicit
// zero value (`option METHOD_UNSPECIFIED`) gets its first real option appended.
// The explicit zero value must stay number 0.

import (
	"fmt"
	"sort"
	"testing"

	"google.golang.org/protobuf/reflect/protoreflect"
)

func c13s1Compile(t *testing.T, body ...string) map[string]string {
	t.Helper()
	tf := newTestFiles()
	tf.tAddJ5SFile("local/v1/foo.j5s", body...)
	files := testCompile(t, tf, newTestDeps(), "local.v1")
	out := map[string]string{}
	var walkMsgs func(msgs protoreflect.MessageDescriptors)
	walkEnums := func(enums protoreflect.EnumDescriptors) {
		for i := 0; i < enums.Len(); i++ {
			en := enums.Get(i)
			out["enum "+string(en.FullName())] = ""
			for j := 0; j < en.Values().Len(); j++ {
				v := en.Values().Get(j)
				out["enumvalue "+string(en.FullName())+"/"+string(v.Name())] = fmt.Sprintf("number=%d", v.Number())
			}
		}
	}
	walkMsgs = func(msgs protoreflect.MessageDescriptors) {
		for i := 0; i < msgs.Len(); i++ {
			msg := msgs.Get(i)
			out["message "+string(msg.FullName())] = ""
			for j := 0; j < msg.Fields().Len(); j++ {
				f := msg.Fields().Get(j)
				typeName := ""
				if f.Message() != nil {
					typeName = string(f.Message().FullName())
				} else if f.Enum() != nil {
					typeName = string(f.Enum().FullName())
				}
				out["field "+string(f.FullName())] = fmt.Sprintf("number=%d kind=%s type=%s card=%s optional=%v json=%s",
					f.Number(), f.Kind(), typeName, f.Cardinality(), f.HasOptionalKeyword(), f.JSONName())
			}
			walkEnums(msg.Enums())
			walkMsgs(msg.Messages())
		}
	}
	for _, file := range files {
		walkMsgs(file.Messages())
		walkEnums(file.Enums())
		for i := 0; i < file.Services().Len(); i++ {
			svc := file.Services().Get(i)
			out["service "+string(svc.FullName())] = ""
			for j := 0; j < svc.Methods().Len(); j++ {
				m := svc.Methods().Get(j)
				out["method "+string(m.FullName())] = fmt.Sprintf("in=%s out=%s", m.Input().FullName(), m.Output().FullName())
			}
		}
	}
	return out
}

func c13s1AssertPreserved(t *testing.T, before, after map[string]string) {
	t.Helper()
	keys := make([]string, 0, len(before))
	for k := range before {
		keys = append(keys, k)
	}
	sort.Strings(keys)
	for _, k := range keys {
		got, ok := after[k]
		if !ok {
			t.Errorf("after the append, %s no longer exists", k)
			continue
		}
		if got != before[k] {
			t.Errorf("after the append, %s changed: %q -> %q", k, before[k], got)
		}
	}
}

func TestC13Seed1EnumFirstRealOptionAppended(t *testing.T) {
	before := c13s1Compile(t,
		"enum Shipping {",
		"  option METHOD_UNSPECIFIED",
		"}",
		"object Order {",
		"  field shipping enum:Shipping",
		"}",
	)
	after := c13s1Compile(t,
		"enum Shipping {",
		"  option METHOD_UNSPECIFIED",
		"  option COURIER", // appended at the end of the enum
		"}",
		"object Order {",
		"  field shipping enum:Shipping",
		"}",
	)

	c13s1AssertPreserved(t, before, after)
}
