// copy to: internal/j5s/protobuild/
package protobuild

// Demonstration for seed C13/3: a service method declares an (as yet) empty
// `response { }` object; the first field is appended to that response. The
// method (name, input type, output type) must not change.

import (
	"fmt"
	"sort"
	"testing"

	"google.golang.org/protobuf/reflect/protoreflect"
)

func c13s3Compile(t *testing.T, body ...string) map[string]string {
	t.Helper()
	tf := newTestFiles()
	tf.tAddJ5SFile("local/v1/foo.j5s", body...)
	files := testCompile(t, tf, newTestDeps(), "local.v1")
	out := map[string]string{}
	var walkMsgs func(msgs protoreflect.MessageDescriptors)
	walkEnums := func(enums protoreflect.EnumDescriptors) {
		for i := 0; i < enums.Len(); i++ {
			en := enums.Get(i)
			out["enum "+string(en.FullName())] = ""
			for j := 0; j < en.Values().Len(); j++ {
				v := en.Values().Get(j)
				out["enumvalue "+string(en.FullName())+"/"+string(v.Name())] = fmt.Sprintf("number=%d", v.Number())
			}
		}
	}
	walkMsgs = func(msgs protoreflect.MessageDescriptors) {
		for i := 0; i < msgs.Len(); i++ {
			msg := msgs.Get(i)
			out["message "+string(msg.FullName())] = ""
			for j := 0; j < msg.Fields().Len(); j++ {
				f := msg.Fields().Get(j)
				typeName := ""
				if f.Message() != nil {
					typeName = string(f.Message().FullName())
				} else if f.Enum() != nil {
					typeName = string(f.Enum().FullName())
				}
				out["field "+string(f.FullName())] = fmt.Sprintf("number=%d kind=%s type=%s card=%s optional=%v json=%s",
					f.Number(), f.Kind(), typeName, f.Cardinality(), f.HasOptionalKeyword(), f.JSONName())
			}
			walkEnums(msg.Enums())
			walkMsgs(msg.Messages())
		}
	}
	for _, file := range files {
		walkMsgs(file.Messages())
		walkEnums(file.Enums())
		for i := 0; i < file.Services().Len(); i++ {
			svc := file.Services().Get(i)
			out["service "+string(svc.FullName())] = ""
			for j := 0; j < svc.Methods().Len(); j++ {
				m := svc.Methods().Get(j)
				out["method "+string(m.FullName())] = fmt.Sprintf("in=%s out=%s", m.Input().FullName(), m.Output().FullName())
			}
		}
	}
	return out
}

func c13s3AssertPreserved(t *testing.T, before, after map[string]string) {
	t.Helper()
	keys := make([]string, 0, len(before))
	for k := range before {
		keys = append(keys, k)
	}
	sort.Strings(keys)
	for _, k := range keys {
		got, ok := after[k]
		if !ok {
			t.Errorf("after the append, %s no longer exists", k)
			continue
		}
		if got != before[k] {
			t.Errorf("after the append, %s changed: %q -> %q", k, before[k], got)
		}
	}
}

func TestC13Seed3FirstFieldAppendedToEmptyResponse(t *testing.T) {
	service := func(responseFields ...string) []string {
		lines := []string{
			"service Orders {",
			"  basePath = \"/orders/v1\"",
			"  method GetOrder {",
			"    httpMethod = \"GET\"",
			"    httpPath = \"/o/:orderId\"",
			"    request {",
			"      field orderId string",
			"    }",
			"    response {",
			"      field orderId string",
			"    }",
			"  }",
			"  method CancelOrder {",
			"    httpMethod = \"POST\"",
			"    httpPath = \"/o/:orderId/cancel\"",
			"    request {",
			"      field orderId string",
			"    }",
			"    response {",
		}
		lines = append(lines, responseFields...)
		lines = append(lines,
			"    }",
			"  }",
			"}",
		)
		return lines
	}

	before := c13s3Compile(t, service()...)
	// one field appended at the end of the (empty) response of CancelOrder
	after := c13s3Compile(t, service("      field cancelledAt timestamp")...)

	if _, ok := before["method local.v1.service.OrdersService.CancelOrder"]; !ok {
		t.Fatalf("sanity: method missing: %v", before)
	}
	c13s3AssertPreserved(t, before, after)
}
