// copy to: internal/j5s/protobuild/
package protobuild

import (
	"testing"

	"google.golang.org/protobuf/reflect/protoreflect"
)

// A package whose name has three segments ("acme.billing.v1") is imported
// without an alias and referenced by its last-but-one segment ("billing").
// The reference must resolve to acme.billing.v1.Invoice and add the import of
// the defining file. (Two-segment packages, "bar.v1" referenced as "bar", are
// the only shape the project's own tests use.)
func TestSeedC02_3_ShortImportNameOfDeepPackage(t *testing.T) {
	tf := newTestFiles()
	tf.tAddJ5SFile("acme/billing/v1/invoice.j5s",
		"object Invoice {",
		"  field invoiceId string",
		"}",
		"enum Currency {",
		"  option AUD",
		"  option USD",
		"}",
	)
	tf.tAddJ5SFile("bar/v1/bar.j5s",
		"object Bar {",
		"  field barId string",
		"}",
	)
	tf.tAddJ5SFile("local/v1/foo.j5s",
		"import acme.billing.v1",
		"import bar.v1",
		"object Foo {",
		"  field bar object:bar.Bar",
		"  field invoice object:billing.Invoice",
		"  field currencies array:enum:billing.Currency",
		"}",
	)
	td := newTestDeps()
	files := testCompile(t, tf, td, "local.v1")
	ff := files.expectFile(t, "local/v1/foo.j5s.proto")

	foo := ff.Messages().ByName("Foo")
	if foo == nil {
		t.Fatal("missing message Foo")
	}

	bar := foo.Fields().ByName("bar")
	if bar == nil || bar.Message() == nil || bar.Message().FullName() != "bar.v1.Bar" {
		t.Errorf("field bar: want message bar.v1.Bar, got %v", bar)
	}

	invoice := foo.Fields().ByName("invoice")
	if invoice == nil || invoice.Number() != 2 || invoice.Message() == nil || invoice.Message().FullName() != "acme.billing.v1.Invoice" {
		t.Errorf("field invoice: want number 2, message acme.billing.v1.Invoice, got %v", invoice)
	}

	currencies := foo.Fields().ByName("currencies")
	if currencies == nil || currencies.Number() != 3 || currencies.Cardinality() != protoreflect.Repeated ||
		currencies.Enum() == nil || currencies.Enum().FullName() != "acme.billing.v1.Currency" {
		t.Errorf("field currencies: want number 3, repeated enum acme.billing.v1.Currency, got %v", currencies)
	}

	imports := map[string]bool{}
	for i := 0; i < ff.Imports().Len(); i++ {
		imports[ff.Imports().Get(i).Path()] = true
	}
	for _, want := range []string{"acme/billing/v1/invoice.j5s.proto", "bar/v1/bar.j5s.proto"} {
		if !imports[want] {
			t.Errorf("missing import %q, have %v", want, imports)
		}
	}
}
