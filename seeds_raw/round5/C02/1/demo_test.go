// copy to: internal/j5s/protobuild/
package protobuild

import (
	"testing"

	"google.golang.org/genproto/googleapis/api/annotations"
	"google.golang.org/protobuf/proto"
	"google.golang.org/protobuf/reflect/protoreflect"
)

// A service method whose path has two parameters, the first of which is a
// textual prefix of the second (":id" and ":idType"), must compile to
// get: "/foo/v1/bar/{id}/{id_type}".
func TestSeedC02_1_PathParamPrefix(t *testing.T) {
	tf := newTestFiles()
	tf.tAddJ5SFile("local/v1/foo.j5s",
		"service Foo {",
		`  basePath = "/foo/v1"`,
		"  method Bar {",
		`    httpMethod = "GET"`,
		`    httpPath = "/bar/:id/:idType"`,
		"    request {",
		"      field id string",
		"      field idType string",
		"    }",
		"    response {",
		"      field name string",
		"    }",
		"  }",
		"  method Single {",
		`    httpMethod = "GET"`,
		`    httpPath = "/single/:idType"`,
		"    request {",
		"      field idType string",
		"    }",
		"    response {",
		"      field name string",
		"    }",
		"  }",
		"}",
	)
	td := newTestDeps()
	files := testCompile(t, tf, td, "local.v1")
	ff := files.expectFile(t, "local/v1/service/foo.p.j5s.proto")

	svc := ff.Services().ByName("FooService")
	if svc == nil {
		t.Fatal("missing FooService")
	}

	for methodName, want := range map[string]string{
		"Bar":    "/foo/v1/bar/{id}/{id_type}",
		"Single": "/foo/v1/single/{id_type}",
	} {
		method := svc.Methods().ByName(protoreflect.Name(methodName))
		if method == nil {
			t.Fatalf("missing method %s", methodName)
		}
		rule, ok := proto.GetExtension(method.Options(), annotations.E_Http).(*annotations.HttpRule)
		if !ok || rule == nil {
			t.Fatalf("method %s has no http rule", methodName)
		}
		if got := rule.GetGet(); got != want {
			t.Errorf("method %s: http get path = %q, want %q", methodName, got, want)
		}
	}
}
