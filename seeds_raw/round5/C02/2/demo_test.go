// copy to: internal/j5s/protobuild/
package protobuild

import (
	"testing"
)

// Two source files of one package whose base names contain a dot
// ("orders.read.j5s", "orders.write.j5s"), each declaring a service. Each must
// produce its own <file>.p.j5s.proto in the .service sub-package, and both
// services must be present in the compiled package.
func TestSeedC02_2_DottedSourceFileNames(t *testing.T) {
	tf := newTestFiles()
	tf.tAddJ5SFile("local/v1/orders.read.j5s",
		"service OrderRead {",
		`  basePath = "/orders/v1"`,
		"  method GetOrder {",
		`    httpMethod = "GET"`,
		`    httpPath = "/:orderId"`,
		"    request {",
		"      field orderId string",
		"    }",
		"    response {",
		"      field name string",
		"    }",
		"  }",
		"}",
	)
	tf.tAddJ5SFile("local/v1/orders.write.j5s",
		"service OrderWrite {",
		`  basePath = "/orders/v1"`,
		"  method PutOrder {",
		`    httpMethod = "PUT"`,
		`    httpPath = "/:orderId"`,
		"    request {",
		"      field orderId string",
		"      field name string",
		"    }",
		"    response {",
		"      field name string",
		"    }",
		"  }",
		"}",
	)
	td := newTestDeps()
	files := testCompile(t, tf, td, "local.v1")

	files.expectFile(t, "local/v1/orders.read.j5s.proto")
	files.expectFile(t, "local/v1/orders.write.j5s.proto")

	services := map[string]string{}
	for path, file := range files {
		if file.Package() != "local.v1.service" {
			continue
		}
		for i := 0; i < file.Services().Len(); i++ {
			services[string(file.Services().Get(i).Name())] = path
		}
	}

	for svc, wantFile := range map[string]string{
		"OrderReadService":  "local/v1/service/orders.read.p.j5s.proto",
		"OrderWriteService": "local/v1/service/orders.write.p.j5s.proto",
	} {
		gotFile, ok := services[svc]
		if !ok {
			t.Errorf("service %s is missing from the compiled package (have %v)", svc, services)
			continue
		}
		if gotFile != wantFile {
			t.Errorf("service %s is in file %q, want %q", svc, gotFile, wantFile)
		}
	}
}
