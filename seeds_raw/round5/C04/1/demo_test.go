// copy to: internal/j5s/protobuild/
package protobuild

// Seed C04/1: an enum whose name (and therefore value prefix) itself contains
// the word UNSPECIFIED must read back with the option names and prefix the j5s
// source declared, both through SchemaCache (via the referencing field) and
// through SchemaSetFromFiles (as a root schema).

import (
	"testing"

	"github.com/pentops/j5/gen/j5/schema/v1/schema_j5pb"
	"github.com/pentops/j5/lib/j5schema"
	"google.golang.org/protobuf/reflect/protoreflect"
	"google.golang.org/protobuf/reflect/protoregistry"
)

func TestSeedC04_1_EnumNameContainingUnspecified(t *testing.T) {
	tf := newTestFiles()
	tf.tAddJ5SFile("local/v1/foo.j5s",
		"enum UnspecifiedReason {",
		"  option NOT_GIVEN",
		"  option WITHHELD",
		"}",
		"",
		"enum Plain {",
		"  option A",
		"  option B",
		"}",
		"",
		"object Foo {",
		"  field plain enum:Plain",
		"  field reason enum:UnspecifiedReason {",
		"    rules.notIn = [\"WITHHELD\"]",
		"  }",
		"}",
	)
	files := testCompile(t, tf, newTestDeps(), "local.v1")
	file := files.expectFile(t, "local/v1/foo.j5s.proto")

	wantOptions := func(t *testing.T, got *schema_j5pb.Enum, prefix string, names ...string) {
		t.Helper()
		if got.Prefix != prefix {
			t.Errorf("enum %s: prefix %q, source declares %q", got.Name, got.Prefix, prefix)
		}
		gotNames := []string{}
		for _, opt := range got.Options {
			gotNames = append(gotNames, opt.Name)
		}
		if len(gotNames) != len(names) {
			t.Fatalf("enum %s: options %v, source declares %v", got.Name, gotNames, names)
		}
		for idx := range names {
			if gotNames[idx] != names[idx] {
				t.Errorf("enum %s: option %d is %q, source declares %q", got.Name, idx, gotNames[idx], names[idx])
			}
		}
	}

	t.Run("SchemaCache", func(t *testing.T) {
		cache := j5schema.NewSchemaCache()
		root, err := cache.Schema(file.Messages().ByName("Foo"))
		if err != nil {
			t.Fatalf("reflecting Foo: %s", err)
		}
		obj := root.(*j5schema.ObjectSchema)

		plain := obj.Properties.ByJSONName("plain").Schema.(*j5schema.EnumField)
		wantOptions(t, plain.Schema().ToJ5Root().GetEnum(), "PLAIN_", "UNSPECIFIED", "A", "B")

		reason := obj.Properties.ByJSONName("reason").Schema.(*j5schema.EnumField)
		wantOptions(t, reason.Schema().ToJ5Root().GetEnum(), "UNSPECIFIED_REASON_", "UNSPECIFIED", "NOT_GIVEN", "WITHHELD")

		rules := reason.ToJ5Field().GetEnum().GetRules()
		if len(rules.GetNotIn()) != 1 || rules.NotIn[0] != "WITHHELD" {
			t.Errorf("reason: rules.notIn = %v, source declares [WITHHELD]", rules.GetNotIn())
		}
	})

	t.Run("SchemaSetFromFiles", func(t *testing.T) {
		reg := &protoregistry.Files{}
		if err := reg.RegisterFile(file); err != nil {
			t.Fatal(err)
		}
		set, err := j5schema.SchemaSetFromFiles(reg, func(fd protoreflect.FileDescriptor) bool {
			return fd.Path() == file.Path()
		})
		if err != nil {
			t.Fatalf("SchemaSetFromFiles: %s", err)
		}
		root, err := set.SchemaByName("local.v1", "UnspecifiedReason")
		if err != nil {
			t.Fatal(err)
		}
		wantOptions(t, root.ToJ5Root().GetEnum(), "UNSPECIFIED_REASON_", "UNSPECIFIED", "NOT_GIVEN", "WITHHELD")
	})
}
