// copy to: internal/j5s/protobuild/
package protobuild

// Seed C04/3: the required / explicitly-optional flags of every property must
// read back as declared, whatever the type of the property.

import (
	"testing"

	"github.com/pentops/j5/lib/j5schema"
)

func TestSeedC04_3_OptionalOnMessageKinds(t *testing.T) {
	tf := newTestFiles()
	tf.tAddJ5SFile("local/v1/foo.j5s",
		"object Bar {",
		"  field x string",
		"}",
		"",
		"enum Color {",
		"  option RED",
		"}",
		"",
		"object Foo {",
		"  field name ? string",
		"  field count ? integer:INT32",
		"  field color ? enum:Color",
		"  field plain string",
		"  field bar ? object:Bar",
		"  field when ? date",
		"  field at ? timestamp",
		"  field amount ? decimal",
		"  field other object:Bar",
		"  field must ! object:Bar",
		"}",
	)
	files := testCompile(t, tf, newTestDeps(), "local.v1")
	file := files.expectFile(t, "local/v1/foo.j5s.proto")

	root, err := j5schema.NewSchemaCache().Schema(file.Messages().ByName("Foo"))
	if err != nil {
		t.Fatalf("reflecting Foo: %s", err)
	}
	props := root.ToJ5Root().GetObject().GetProperties()

	want := []struct {
		name     string
		optional bool
		required bool
	}{
		{name: "name", optional: true},
		{name: "count", optional: true},
		{name: "color", optional: true},
		{name: "plain"},
		{name: "bar", optional: true},
		{name: "when", optional: true},
		{name: "at", optional: true},
		{name: "amount", optional: true},
		{name: "other"},
		{name: "must", required: true},
	}
	if len(props) != len(want) {
		t.Fatalf("Foo has %d properties, source declares %d", len(props), len(want))
	}
	for idx, w := range want {
		prop := props[idx]
		if prop.Name != w.name {
			t.Errorf("property %d is %q, source declares %q", idx, prop.Name, w.name)
			continue
		}
		if prop.ExplicitlyOptional != w.optional {
			t.Errorf("%s: explicitlyOptional = %v, source declares %v", w.name, prop.ExplicitlyOptional, w.optional)
		}
		if prop.Required != w.required {
			t.Errorf("%s: required = %v, source declares %v", w.name, prop.Required, w.required)
		}
	}
}
