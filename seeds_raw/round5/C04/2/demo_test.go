// copy to: internal/j5s/protobuild/
package protobuild

// Seed C04/2: the entity-key annotations of key fields must read back as the
// j5s source declared them, for every combination of primary / foreign / tenant.

import (
	"testing"

	"github.com/pentops/j5/lib/j5schema"
	"google.golang.org/protobuf/reflect/protoreflect"
)

func TestSeedC04_2_TenantKeyWithoutForeignKey(t *testing.T) {
	tf := newTestFiles()
	tf.tAddJ5SFile("local/v1/foo.j5s",
		"object Foo {",
		"  field foo_id key:id62 {",
		"    entity.primaryKey = true",
		"  }",
		"  field owner_id key:id62 {",
		"    entity.foreignKey = \"other.v1.User\"",
		"    entity.tenantKey = \"user\"",
		"  }",
		"  field org_id key:uuid {",
		"    entity.tenantKey = \"org\"",
		"  }",
		"  field self_id key:id62 {",
		"    entity.primaryKey = true",
		"    entity.tenantKey = \"self\"",
		"  }",
		"}",
	)
	files := testCompile(t, tf, newTestDeps(), "local.v1")
	file := files.expectFile(t, "local/v1/foo.j5s.proto")

	root, err := j5schema.NewSchemaCache().Schema(file.Messages().ByName("Foo"))
	if err != nil {
		t.Fatalf("reflecting Foo: %s", err)
	}
	props := root.ToJ5Root().GetObject().GetProperties()
	if len(props) != 4 {
		t.Fatalf("Foo has %d properties, source declares 4", len(props))
	}

	for idx, want := range []struct {
		name    string
		number  protoreflect.FieldNumber
		primary bool
		foreign string
		tenant  string // "" for absent
	}{
		{name: "foo_id", number: 1, primary: true},
		{name: "owner_id", number: 2, foreign: "User", tenant: "user"},
		{name: "org_id", number: 3, tenant: "org"},
		{name: "self_id", number: 4, primary: true, tenant: "self"},
	} {
		prop := props[idx]
		if prop.Name != want.name {
			t.Errorf("property %d is %q, source declares %q", idx, prop.Name, want.name)
			continue
		}
		key := prop.GetSchema().GetKey()
		if key == nil {
			t.Errorf("%s: read back as %T, source declares a key", want.name, prop.GetSchema().GetType())
			continue
		}
		entity := key.GetEntity()
		if entity.GetPrimaryKey() != want.primary {
			t.Errorf("%s: entity.primaryKey = %v, source declares %v", want.name, entity.GetPrimaryKey(), want.primary)
		}
		if entity.GetForeignKey().GetEntity() != want.foreign {
			t.Errorf("%s: entity.foreignKey = %q, source declares %q", want.name, entity.GetForeignKey().GetEntity(), want.foreign)
		}
		switch {
		case want.tenant == "" && entity.GetTenantKey() != "":
			t.Errorf("%s: entity.tenantKey = %q, source declares none", want.name, entity.GetTenantKey())
		case want.tenant != "" && (entity == nil || entity.TenantKey == nil):
			t.Errorf("%s: entity.tenantKey is absent, source declares %q", want.name, want.tenant)
		case want.tenant != "" && *entity.TenantKey != want.tenant:
			t.Errorf("%s: entity.tenantKey = %q, source declares %q", want.name, *entity.TenantKey, want.tenant)
		}
	}
}
