// copy to: internal/codec/
package codec

import (
	"testing"

	"github.com/pentops/j5/gen/test/schema/v1/schema_testpb"
	"google.golang.org/protobuf/proto"
)

// A j5 Any field carries the J5 JSON of the wrapped message verbatim. The
// wrapped message is encoded by this codec (EncodeAny), so the Any is exactly
// what the codec itself produces; decode(encode(m)) must hand back the same
// Any, whatever text the inner string fields hold.
func TestSeedAnyInnerTextRoundTrip(t *testing.T) {
	codec := NewCodec(WithProtoToAny())

	for name, text := range map[string]string{
		"plain":          "barId",
		"html":           "a<b>&c",
		"line separator": "para\u2028graph",
	} {
		t.Run(name, func(t *testing.T) {
			inner := &schema_testpb.Bar{BarId: text}
			anyVal, err := codec.EncodeAny(inner.ProtoReflect())
			if err != nil {
				t.Fatalf("EncodeAny: %s", err)
			}
			msg := &schema_testpb.FullSchema{J5Any: anyVal}

			encoded, err := codec.ProtoToJSON(msg.ProtoReflect())
			if err != nil {
				t.Fatalf("ProtoToJSON: %s", err)
			}
			t.Logf("json: %s", encoded)

			got := &schema_testpb.FullSchema{}
			if err := codec.JSONToProto(encoded, got.ProtoReflect()); err != nil {
				t.Fatalf("JSONToProto: %s", err)
			}

			if !proto.Equal(msg, got) {
				t.Fatalf("round trip mismatch\n want: %v\n  got: %v", msg, got)
			}
		})
	}
}
