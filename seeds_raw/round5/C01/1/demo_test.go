// copy to: internal/codec/
package codec

import (
	"testing"

	"github.com/pentops/j5/gen/test/schema/v1/schema_testpb"
	"google.golang.org/protobuf/proto"
)

// A field holding a oneof-wrapper message that is present but has no arm
// selected must survive decode(encode(m)): it is encoded as "wrappedOneof":{}
// and decoded back into an empty, present, wrapper message.
func TestSeedEmptyOneofWrapperRoundTrip(t *testing.T) {
	codec := NewCodec()

	for name, msg := range map[string]*schema_testpb.FullSchema{
		"empty wrapper": {
			SString:      "x",
			WrappedOneof: &schema_testpb.WrappedOneof{},
		},
		"empty implicit wrapper": {
			SImplicitOneof: &schema_testpb.ImplicitOneof{},
		},
		// control: a wrapper with an arm set
		"set wrapper": {
			WrappedOneof: &schema_testpb.WrappedOneof{
				Type: &schema_testpb.WrappedOneof_WOneofString{WOneofString: ""},
			},
		},
	} {
		t.Run(name, func(t *testing.T) {
			encoded, err := codec.ProtoToJSON(msg.ProtoReflect())
			if err != nil {
				t.Fatalf("ProtoToJSON: %s", err)
			}
			t.Logf("json: %s", encoded)

			got := &schema_testpb.FullSchema{}
			if err := codec.JSONToProto(encoded, got.ProtoReflect()); err != nil {
				t.Fatalf("JSONToProto: %s", err)
			}

			if !proto.Equal(msg, got) {
				t.Fatalf("round trip mismatch\n want: %v\n  got: %v", msg, got)
			}
		})
	}
}
