// copy to: internal/codec/
package codec

import (
	"testing"

	"github.com/pentops/j5/gen/test/schema/v1/schema_testpb"
	"google.golang.org/protobuf/proto"
)

// Map keys are data, not schema identifiers: any valid UTF-8 string is a legal
// key of map<string, T> and must survive decode(encode(m)).
func TestSeedMapKeyRoundTrip(t *testing.T) {
	codec := NewCodec()

	for name, msg := range map[string]*schema_testpb.FullSchema{
		"plain key": {
			MapStringString: map[string]string{"k1": "v"},
		},
		"quote in key": {
			MapStringString: map[string]string{`say "hi"`: "v"},
		},
		"backslash in key": {
			// silently becomes "C:<TAB>emp<LF>ew" when the key is not escaped
			MapStringString: map[string]string{`C:\temp\new`: "v"},
		},
		"newline in key of object map": {
			MapStringBar: map[string]*schema_testpb.Bar{
				"line1\nline2": {BarId: "id"},
			},
		},
	} {
		t.Run(name, func(t *testing.T) {
			encoded, err := codec.ProtoToJSON(msg.ProtoReflect())
			if err != nil {
				t.Fatalf("ProtoToJSON: %s", err)
			}
			t.Logf("json: %s", encoded)

			got := &schema_testpb.FullSchema{}
			if err := codec.JSONToProto(encoded, got.ProtoReflect()); err != nil {
				t.Fatalf("JSONToProto: %s", err)
			}

			if !proto.Equal(msg, got) {
				t.Fatalf("round trip mismatch\n want: %v\n  got: %v", msg, got)
			}
		})
	}
}
