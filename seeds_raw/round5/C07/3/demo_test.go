// copy to: internal/j5s/protobuild/
package protobuild

import (
	"context"
	"testing"
)

// A type of another package may be used as a plain field, as the items of an
// array or as the values of a map. Each of those uses, alone in a package,
// must be enough for the other package to be loaded and for the file to link.
func TestSeedC07_3_CrossPackageRefShapes(t *testing.T) {
	for _, tc := range []struct {
		name   string
		fields []string
	}{{
		name:   "field",
		fields: []string{"  field bar object:bar.v1.Bar"},
	}, {
		name:   "array",
		fields: []string{"  field bars array:object:bar.v1.Bar"},
	}, {
		name:   "map",
		fields: []string{"  field bars map:object:bar.v1.Bar"},
	}, {
		name:   "map of enum",
		fields: []string{"  field kinds map:enum:bar.v1.Kind"},
	}, {
		name: "map next to field",
		fields: []string{
			"  field bar object:bar.v1.Bar",
			"  field bars map:object:bar.v1.Bar",
		},
	}} {
		t.Run(tc.name, func(t *testing.T) {
			tf := newTestFiles()

			tf.tAddJ5SFile("bar/v1/bar.j5s",
				"object Bar {",
				"  field name string",
				"}",
				"",
				"enum Kind {",
				"  option ONE",
				"  option TWO",
				"}",
			)

			body := []string{
				`import "bar/v1/bar.j5s.proto"`,
				"object Foo {",
			}
			body = append(body, tc.fields...)
			body = append(body, "}")
			tf.tAddJ5SFile("foo/v1/foo.j5s", body...)

			td := newTestDeps()

			cc, err := NewPackageSet(td, tf)
			if err != nil {
				t.Fatalf("NewPackageSet: %s", err)
			}

			out, err := cc.CompilePackage(context.Background(), "foo.v1")
			if err != nil {
				t.Fatalf("valid package was rejected: %s", err)
			}
			if len(out) != 1 {
				t.Fatalf("expected 1 linked file, got %d", len(out))
			}
			if out[0].Messages().ByName("Foo") == nil {
				t.Fatalf("message Foo missing from %s", out[0].Path())
			}
		})
	}
}
