// copy to: internal/j5s/protobuild/
package protobuild

import (
	"context"
	"testing"
)

// A map property is converted to a repeated field of a synthetic nested
// '<Name>Entry' message. protoc (and protocompile) only accept that message as
// a map entry when its name is derived from the *proto* field name, so the
// property name must not influence whether the file links.
func TestSeedC07_2_MapPropertyNames(t *testing.T) {
	for _, fieldName := range []string{
		"labels",
		"labelsByKey",
		"labels_by_key",
		"labelsByID", // consecutive capitals: proto field is labels_by_id
		"tagURLs",
	} {
		t.Run(fieldName, func(t *testing.T) {
			tf := newTestFiles()
			tf.tAddJ5SFile("local/v1/foo.j5s",
				"object Foo {",
				"  field "+fieldName+" map:string",
				"}",
			)
			td := newTestDeps()

			cc, err := NewPackageSet(td, tf)
			if err != nil {
				t.Fatalf("NewPackageSet: %s", err)
			}

			out, err := cc.CompilePackage(context.Background(), "local.v1")
			if err != nil {
				t.Fatalf("valid package was rejected: %s", err)
			}

			var found bool
			for _, file := range out {
				msg := file.Messages().ByName("Foo")
				if msg == nil {
					continue
				}
				found = true
				if msg.Fields().Len() != 1 {
					t.Fatalf("expected 1 field, got %d", msg.Fields().Len())
				}
				if !msg.Fields().Get(0).IsMap() {
					t.Fatalf("field %s is not a map in the linked descriptor", msg.Fields().Get(0).FullName())
				}
			}
			if !found {
				t.Fatalf("message Foo not found in output")
			}
		})
	}
}
