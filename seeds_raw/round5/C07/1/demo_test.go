// copy to: internal/j5s/protobuild/
package protobuild

import (
	"context"
	"testing"
)

// A j5s source which declares a service (or a topic / entity) is converted
// into more than one proto file: <dir>/<name>.j5s.proto plus
// <dir>/service/<name>.p.j5s.proto, and the sub-package file imports the main
// file. Whether that links must not depend on how the source file is named.
func TestSeedC07_1_ServiceFileNameOrdering(t *testing.T) {
	body := []string{
		"object Widget {",
		"  field name string",
		"}",
		"",
		"service Widget {",
		"  basePath = \"/widget\"",
		"  method GetWidget {",
		"    httpMethod = GET",
		"    httpPath = \"/:id\"",
		"    request {",
		"      field id string",
		"    }",
		"    response {",
		"      field widget object:Widget",
		"    }",
		"  }",
		"}",
	}

	for _, name := range []string{
		"local/v1/foo.j5s",    // sorts before local/v1/service/...
		"local/v1/widget.j5s", // sorts after local/v1/service/...
	} {
		t.Run(name, func(t *testing.T) {
			tf := newTestFiles()
			tf.tAddJ5SFile(name, body...)
			td := newTestDeps()

			cc, err := NewPackageSet(td, tf)
			if err != nil {
				t.Fatalf("NewPackageSet: %s", err)
			}

			out, err := cc.CompilePackage(context.Background(), "local.v1")
			if err != nil {
				t.Fatalf("valid package was rejected: %s", err)
			}
			if len(out) != 2 {
				t.Fatalf("expected 2 linked files, got %d", len(out))
			}
		})
	}
}
