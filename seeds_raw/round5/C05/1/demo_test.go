// copy to: internal/j5s/protoprint/
package protoprint

import (
	"bytes"
	"context"
	"io"
	"os"
	"strings"
	"testing"

	"github.com/bufbuild/protocompile"
	"github.com/pentops/j5/internal/protosrc"
	"google.golang.org/protobuf/encoding/prototext"
	"google.golang.org/protobuf/proto"
	"google.golang.org/protobuf/reflect/protodesc"
	"google.golang.org/protobuf/reflect/protoreflect"
)

func demoCompile(t *testing.T, files map[string]string, target string) protoreflect.FileDescriptor {
	t.Helper()
	cc := protocompile.Compiler{
		Resolver: protocompile.WithStandardImports(protocompile.CompositeResolver{
			&protocompile.SourceResolver{
				Accessor: func(filename string) (io.ReadCloser, error) {
					src, ok := files[filename]
					if !ok {
						return nil, os.ErrNotExist
					}
					return io.NopCloser(strings.NewReader(src)), nil
				},
			},
			protosrc.BuiltinResolver,
		}),
		SourceInfoMode: protocompile.SourceInfoStandard,
	}
	out, err := cc.Compile(context.Background(), target)
	if err != nil {
		t.Fatalf("compile %s: %s\n%s", target, err, files[target])
	}
	return out[0]
}

func demoStripped(t *testing.T, fd protoreflect.FileDescriptor) ([]byte, string) {
	t.Helper()
	fdp := protodesc.ToFileDescriptorProto(fd)
	fdp.SourceCodeInfo = nil
	b, err := proto.MarshalOptions{Deterministic: true}.Marshal(fdp)
	if err != nil {
		t.Fatal(err)
	}
	return b, prototext.Format(fdp)
}

func demoComments(fd protoreflect.FileDescriptor) map[string]string {
	out := map[string]string{}
	var add func(d protoreflect.Descriptor)
	add = func(d protoreflect.Descriptor) {
		out[string(d.FullName())] = fd.SourceLocations().ByDescriptor(d).LeadingComments
	}
	var walkMsg func(m protoreflect.MessageDescriptor)
	walkEnum := func(e protoreflect.EnumDescriptor) {
		add(e)
		for i := 0; i < e.Values().Len(); i++ {
			add(e.Values().Get(i))
		}
	}
	walkMsg = func(m protoreflect.MessageDescriptor) {
		add(m)
		for i := 0; i < m.Fields().Len(); i++ {
			add(m.Fields().Get(i))
		}
		for i := 0; i < m.Oneofs().Len(); i++ {
			add(m.Oneofs().Get(i))
		}
		for i := 0; i < m.Messages().Len(); i++ {
			walkMsg(m.Messages().Get(i))
		}
		for i := 0; i < m.Enums().Len(); i++ {
			walkEnum(m.Enums().Get(i))
		}
	}
	for i := 0; i < fd.Messages().Len(); i++ {
		walkMsg(fd.Messages().Get(i))
	}
	for i := 0; i < fd.Enums().Len(); i++ {
		walkEnum(fd.Enums().Get(i))
	}
	for i := 0; i < fd.Services().Len(); i++ {
		s := fd.Services().Get(i)
		add(s)
		for j := 0; j < s.Methods().Len(); j++ {
			add(s.Methods().Get(j))
		}
	}
	return out
}

// demoRoundTrip compiles target, prints it, compiles the printed text in place
// of the original and requires an equivalent descriptor, equal leading
// comments and a stable second print.
func demoRoundTrip(t *testing.T, files map[string]string, target string) {
	t.Helper()
	orig := demoCompile(t, files, target)
	text, err := PrintFile(context.Background(), orig, "gen")
	if err != nil {
		t.Fatalf("print: %s", err)
	}
	t.Logf("printed:\n%s", text)

	files2 := map[string]string{}
	for k, v := range files {
		files2[k] = v
	}
	files2[target] = text
	again := demoCompile(t, files2, target)

	wantB, wantT := demoStripped(t, orig)
	gotB, gotT := demoStripped(t, again)
	if !bytes.Equal(wantB, gotB) {
		t.Errorf("descriptor differs after re-parse\n--- original\n%s\n--- re-parsed\n%s", wantT, gotT)
	}

	wantC, gotC := demoComments(orig), demoComments(again)
	for name, want := range wantC {
		if got := gotC[name]; got != want {
			t.Errorf("leading comment of %s: want %q, got %q", name, want, got)
		}
	}

	text2, err := PrintFile(context.Background(), again, "gen")
	if err != nil {
		t.Fatalf("print again: %s", err)
	}
	if text2 != text {
		t.Errorf("second print differs:\n%s", text2)
	}
}

// A leading comment whose last line is an empty '//' line: protocompile reports
// it as " Foo is a thing\n\n". The printed file must keep the empty line.
func TestDemoCommentEndingWithBlankLine(t *testing.T) {
	demoRoundTrip(t, map[string]string{
		"demo/v1/demo.proto": `
syntax = "proto3";

package demo.v1;

// Foo is a thing
//
message Foo {
  // plain field comment
  string name = 1;

  // the kind of thing
  //
  // two paragraphs, and then a closing blank line
  //
  Kind kind = 2;
}

// Kind has a comment ending with two blank lines
//
//
enum Kind {
  KIND_UNSPECIFIED = 0;
  KIND_A = 1;
}
`,
	}, "demo/v1/demo.proto")
}
