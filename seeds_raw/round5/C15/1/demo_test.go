// copy to: internal/structure/
package structure

// C15 seed 1 demonstration: an enum whose short option name itself begins
// with the enum prefix (prefix LEVEL_, value LEVEL_LEVEL_UP -> short name
// LEVEL_UP) must survive export -> re-import -> export unchanged.

import (
	"testing"

	"github.com/pentops/j5/gen/j5/schema/v1/schema_j5pb"
	"github.com/pentops/j5/gen/j5/source/v1/source_j5pb"
	"github.com/pentops/j5/lib/j5schema"
	"google.golang.org/protobuf/encoding/prototext"
	"google.golang.org/protobuf/proto"
	"google.golang.org/protobuf/types/descriptorpb"
)

func c15s1Flatten(api []*source_j5pb.Package) map[string]*schema_j5pb.RootSchema {
	out := map[string]*schema_j5pb.RootSchema{}
	for _, pkg := range api {
		for name, schema := range pkg.Schemas {
			out[pkg.Name+"/"+name] = proto.Clone(schema).(*schema_j5pb.RootSchema)
		}
		for _, sub := range pkg.SubPackages {
			for name, schema := range sub.Schemas {
				out[pkg.Name+"."+sub.Name+"/"+name] = proto.Clone(schema).(*schema_j5pb.RootSchema)
			}
		}
	}
	return out
}

func c15s1RoundTrip(t *testing.T, img *source_j5pb.SourceImage) {
	t.Helper()
	api, err := APIFromImage(img)
	if err != nil {
		t.Fatalf("APIFromImage: %s", err)
	}
	first := c15s1Flatten(api.Packages)

	set, err := j5schema.PackageSetFromSourceAPI(api.Packages)
	if err != nil {
		t.Fatalf("PackageSetFromSourceAPI: %s", err)
	}

	second := map[string]*schema_j5pb.RootSchema{}
	for _, pkg := range set.Packages {
		for name, ref := range pkg.Schemas {
			if ref.To == nil {
				t.Fatalf("unresolved ref %s/%s", pkg.Name, name)
			}
			second[pkg.Name+"/"+name] = ref.To.ToJ5Root()
		}
	}

	for key, want := range first {
		got, ok := second[key]
		if !ok {
			t.Errorf("schema %s missing after re-import", key)
			continue
		}
		if !proto.Equal(want, got) {
			t.Errorf("schema %s changed in round trip\nfirst:  %s\nsecond: %s", key, prototext.Format(want), prototext.Format(got))
		}
	}
	for key := range second {
		if _, ok := first[key]; !ok {
			t.Errorf("schema %s appeared after re-import", key)
		}
	}
}

func TestC15Seed1EnumOptionBeginsWithPrefix(t *testing.T) {
	img := &source_j5pb.SourceImage{
		Packages: []*source_j5pb.PackageInfo{{Label: "Demo", Name: "demo.v1"}},
		File: []*descriptorpb.FileDescriptorProto{{
			Syntax:  proto.String("proto3"),
			Name:    proto.String("demo/v1/demo.proto"),
			Package: proto.String("demo.v1"),
			EnumType: []*descriptorpb.EnumDescriptorProto{{
				Name: proto.String("Level"),
				Value: []*descriptorpb.EnumValueDescriptorProto{
					{Name: proto.String("LEVEL_UNSPECIFIED"), Number: proto.Int32(0)},
					{Name: proto.String("LEVEL_LOW"), Number: proto.Int32(1)},
					// short name is LEVEL_UP, which itself begins with the prefix
					{Name: proto.String("LEVEL_LEVEL_UP"), Number: proto.Int32(2)},
				},
			}},
			MessageType: []*descriptorpb.DescriptorProto{{
				Name: proto.String("Thing"),
				Field: []*descriptorpb.FieldDescriptorProto{{
					Name:     proto.String("level"),
					JsonName: proto.String("level"),
					Number:   proto.Int32(1),
					Type:     descriptorpb.FieldDescriptorProto_TYPE_ENUM.Enum(),
					TypeName: proto.String(".demo.v1.Level"),
				}},
			}},
		}},
	}

	c15s1RoundTrip(t, img)
}
