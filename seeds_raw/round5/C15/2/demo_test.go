// copy to: internal/structure/
package structure

// C15 seed 2 demonstration: a package with TWO sub-packages (service and
// topic) must survive export -> re-import -> export, with the schemas of both
// sub-packages found under their own package name and every ref resolved.

import (
	"testing"

	"github.com/pentops/j5/gen/j5/schema/v1/schema_j5pb"
	"github.com/pentops/j5/gen/j5/source/v1/source_j5pb"
	"github.com/pentops/j5/lib/j5schema"
	"google.golang.org/protobuf/encoding/prototext"
	"google.golang.org/protobuf/proto"
	"google.golang.org/protobuf/types/descriptorpb"
)

func c15s2Flatten(api []*source_j5pb.Package) map[string]*schema_j5pb.RootSchema {
	out := map[string]*schema_j5pb.RootSchema{}
	for _, pkg := range api {
		for name, schema := range pkg.Schemas {
			out[pkg.Name+"/"+name] = proto.Clone(schema).(*schema_j5pb.RootSchema)
		}
		for _, sub := range pkg.SubPackages {
			for name, schema := range sub.Schemas {
				out[pkg.Name+"."+sub.Name+"/"+name] = proto.Clone(schema).(*schema_j5pb.RootSchema)
			}
		}
	}
	return out
}

func c15s2RoundTrip(t *testing.T, img *source_j5pb.SourceImage) {
	t.Helper()
	api, err := APIFromImage(img)
	if err != nil {
		t.Fatalf("APIFromImage: %s", err)
	}
	first := c15s2Flatten(api.Packages)

	set, err := j5schema.PackageSetFromSourceAPI(api.Packages)
	if err != nil {
		t.Fatalf("PackageSetFromSourceAPI: %s", err)
	}

	second := map[string]*schema_j5pb.RootSchema{}
	for _, pkg := range set.Packages {
		for name, ref := range pkg.Schemas {
			if ref.To == nil {
				t.Fatalf("unresolved ref %s/%s", pkg.Name, name)
			}
			second[pkg.Name+"/"+name] = ref.To.ToJ5Root()
		}
	}

	for key, want := range first {
		got, ok := second[key]
		if !ok {
			t.Errorf("schema %s missing after re-import", key)
			continue
		}
		if !proto.Equal(want, got) {
			t.Errorf("schema %s changed in round trip\nfirst:  %s\nsecond: %s", key, prototext.Format(want), prototext.Format(got))
		}
	}
	for key := range second {
		if _, ok := first[key]; !ok {
			t.Errorf("schema %s appeared after re-import", key)
		}
	}
}

func c15s2File(name, pkg string, deps []string, msgs ...*descriptorpb.DescriptorProto) *descriptorpb.FileDescriptorProto {
	return &descriptorpb.FileDescriptorProto{
		Syntax:      proto.String("proto3"),
		Name:        proto.String(name),
		Package:     proto.String(pkg),
		Dependency:  deps,
		MessageType: msgs,
	}
}

func c15s2MsgField(name string, number int32, typeName string) *descriptorpb.FieldDescriptorProto {
	return &descriptorpb.FieldDescriptorProto{
		Name:     proto.String(name),
		JsonName: proto.String(name),
		Number:   proto.Int32(number),
		Type:     descriptorpb.FieldDescriptorProto_TYPE_MESSAGE.Enum(),
		TypeName: proto.String(typeName),
	}
}

func c15s2StringField(name string, number int32) *descriptorpb.FieldDescriptorProto {
	return &descriptorpb.FieldDescriptorProto{
		Name:     proto.String(name),
		JsonName: proto.String(name),
		Number:   proto.Int32(number),
		Type:     descriptorpb.FieldDescriptorProto_TYPE_STRING.Enum(),
	}
}

func TestC15Seed2TwoSubPackages(t *testing.T) {
	img := &source_j5pb.SourceImage{
		Packages: []*source_j5pb.PackageInfo{{Label: "Demo", Name: "demo.v1"}},
		File: []*descriptorpb.FileDescriptorProto{
			c15s2File("demo/v1/demo.proto", "demo.v1", nil,
				&descriptorpb.DescriptorProto{
					Name:  proto.String("Thing"),
					Field: []*descriptorpb.FieldDescriptorProto{c15s2StringField("name", 1)},
				},
			),
			c15s2File("demo/v1/service/thing_service.proto", "demo.v1.service", []string{"demo/v1/demo.proto"},
				&descriptorpb.DescriptorProto{
					Name: proto.String("GetThingResponse"),
					Field: []*descriptorpb.FieldDescriptorProto{
						c15s2MsgField("thing", 1, ".demo.v1.Thing"),
						c15s2MsgField("page", 2, ".demo.v1.service.PageInfo"),
					},
				},
				&descriptorpb.DescriptorProto{
					Name:  proto.String("PageInfo"),
					Field: []*descriptorpb.FieldDescriptorProto{c15s2StringField("token", 1)},
				},
			),
			c15s2File("demo/v1/topic/thing_topic.proto", "demo.v1.topic", []string{"demo/v1/demo.proto"},
				&descriptorpb.DescriptorProto{
					Name: proto.String("ThingChangedMessage"),
					Field: []*descriptorpb.FieldDescriptorProto{
						c15s2MsgField("thing", 1, ".demo.v1.Thing"),
						c15s2MsgField("cause", 2, ".demo.v1.topic.Cause"),
					},
				},
				&descriptorpb.DescriptorProto{
					Name:  proto.String("Cause"),
					Field: []*descriptorpb.FieldDescriptorProto{c15s2StringField("actor", 1)},
				},
			),
		},
	}

	c15s2RoundTrip(t, img)
}
