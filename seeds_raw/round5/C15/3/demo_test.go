// copy to: internal/structure/
package structure

// C15 seed 3 demonstration: a field of a package in the image refers to a
// message which lives in a SUB-package (other.v1.topic) of a package which is
// not itself listed in the image (a dependency). The export must carry that
// schema, so that the re-import resolves every reference.

import (
	"testing"

	"github.com/pentops/j5/gen/j5/schema/v1/schema_j5pb"
	"github.com/pentops/j5/gen/j5/source/v1/source_j5pb"
	"github.com/pentops/j5/lib/j5schema"
	"google.golang.org/protobuf/encoding/prototext"
	"google.golang.org/protobuf/proto"
	"google.golang.org/protobuf/types/descriptorpb"
)

func c15s3Flatten(api []*source_j5pb.Package) map[string]*schema_j5pb.RootSchema {
	out := map[string]*schema_j5pb.RootSchema{}
	for _, pkg := range api {
		for name, schema := range pkg.Schemas {
			out[pkg.Name+"/"+name] = proto.Clone(schema).(*schema_j5pb.RootSchema)
		}
		for _, sub := range pkg.SubPackages {
			for name, schema := range sub.Schemas {
				out[pkg.Name+"."+sub.Name+"/"+name] = proto.Clone(schema).(*schema_j5pb.RootSchema)
			}
		}
	}
	return out
}

func c15s3RoundTrip(t *testing.T, img *source_j5pb.SourceImage) {
	t.Helper()
	api, err := APIFromImage(img)
	if err != nil {
		t.Fatalf("APIFromImage: %s", err)
	}
	first := c15s3Flatten(api.Packages)

	set, err := j5schema.PackageSetFromSourceAPI(api.Packages)
	if err != nil {
		t.Fatalf("PackageSetFromSourceAPI: %s", err)
	}

	second := map[string]*schema_j5pb.RootSchema{}
	for _, pkg := range set.Packages {
		for name, ref := range pkg.Schemas {
			if ref.To == nil {
				t.Fatalf("unresolved ref %s/%s", pkg.Name, name)
			}
			second[pkg.Name+"/"+name] = ref.To.ToJ5Root()
		}
	}

	for key, want := range first {
		got, ok := second[key]
		if !ok {
			t.Errorf("schema %s missing after re-import", key)
			continue
		}
		if !proto.Equal(want, got) {
			t.Errorf("schema %s changed in round trip\nfirst:  %s\nsecond: %s", key, prototext.Format(want), prototext.Format(got))
		}
	}
	for key := range second {
		if _, ok := first[key]; !ok {
			t.Errorf("schema %s appeared after re-import", key)
		}
	}
}

func c15s3File(name, pkg string, deps []string, msgs ...*descriptorpb.DescriptorProto) *descriptorpb.FileDescriptorProto {
	return &descriptorpb.FileDescriptorProto{
		Syntax:      proto.String("proto3"),
		Name:        proto.String(name),
		Package:     proto.String(pkg),
		Dependency:  deps,
		MessageType: msgs,
	}
}

func c15s3MsgField(name string, number int32, typeName string) *descriptorpb.FieldDescriptorProto {
	return &descriptorpb.FieldDescriptorProto{
		Name:     proto.String(name),
		JsonName: proto.String(name),
		Number:   proto.Int32(number),
		Type:     descriptorpb.FieldDescriptorProto_TYPE_MESSAGE.Enum(),
		TypeName: proto.String(typeName),
	}
}

func c15s3StringField(name string, number int32) *descriptorpb.FieldDescriptorProto {
	return &descriptorpb.FieldDescriptorProto{
		Name:     proto.String(name),
		JsonName: proto.String(name),
		Number:   proto.Int32(number),
		Type:     descriptorpb.FieldDescriptorProto_TYPE_STRING.Enum(),
	}
}

func TestC15Seed3RefIntoSubPackageOfDependency(t *testing.T) {
	img := &source_j5pb.SourceImage{
		// other.v1 is a dependency only: present in File, not in Packages
		Packages: []*source_j5pb.PackageInfo{{Label: "Demo", Name: "demo.v1"}},
		File: []*descriptorpb.FileDescriptorProto{
			c15s3File("other/v1/other.proto", "other.v1", nil,
				&descriptorpb.DescriptorProto{
					Name:  proto.String("Shared"),
					Field: []*descriptorpb.FieldDescriptorProto{c15s3StringField("id", 1)},
				},
			),
			c15s3File("other/v1/topic/other_topic.proto", "other.v1.topic", []string{"other/v1/other.proto"},
				&descriptorpb.DescriptorProto{
					Name: proto.String("OtherEvent"),
					Field: []*descriptorpb.FieldDescriptorProto{
						c15s3StringField("eventId", 1),
						c15s3MsgField("shared", 2, ".other.v1.Shared"),
					},
				},
			),
			c15s3File("demo/v1/demo.proto", "demo.v1", []string{"other/v1/other.proto", "other/v1/topic/other_topic.proto"},
				&descriptorpb.DescriptorProto{
					Name: proto.String("Thing"),
					Field: []*descriptorpb.FieldDescriptorProto{
						c15s3StringField("name", 1),
						// plain cross-package reference to the dependency
						c15s3MsgField("shared", 2, ".other.v1.Shared"),
						// reference into the dependency's topic sub-package
						c15s3MsgField("lastEvent", 3, ".other.v1.topic.OtherEvent"),
					},
				},
			),
		},
	}

	c15s3RoundTrip(t, img)
}
