// copy to: internal/j5client/
package j5client

import (
	"context"
	"encoding/json"
	"fmt"
	"sort"
	"strings"
	"testing"

	"github.com/pentops/j5/gen/j5/client/v1/client_j5pb"
	"github.com/pentops/j5/gen/j5/source/v1/source_j5pb"
	"github.com/pentops/j5/internal/export"
	"github.com/pentops/j5/internal/j5s/protobuild"
	"github.com/pentops/j5/internal/structure"
	"github.com/pentops/j5/lib/j5codec"
	"google.golang.org/protobuf/proto"
	"google.golang.org/protobuf/reflect/protodesc"
	"google.golang.org/protobuf/reflect/protoreflect"
	"google.golang.org/protobuf/types/descriptorpb"
)

type demoFiles map[string]string

func (tf demoFiles) ListPackages() []string { return []string{"demo.v1"} }
func (tf demoFiles) ListSourceFiles(ctx context.Context, prefix string) ([]string, error) {
	var files []string
	for k := range tf {
		if strings.HasPrefix(k, prefix) {
			files = append(files, k)
		}
	}
	sort.Strings(files)
	return files, nil
}
func (tf demoFiles) GetLocalFile(ctx context.Context, filename string) ([]byte, error) {
	if d, ok := tf[filename]; ok {
		return []byte(d), nil
	}
	return nil, fmt.Errorf("file not found: %s", filename)
}

type demoDeps struct{}

func (demoDeps) GetDependencyFile(filename string) (*descriptorpb.FileDescriptorProto, error) {
	return nil, fmt.Errorf("file not found: %s", filename)
}
func (demoDeps) ListDependencyFiles(root string) []string { return nil }

func demoAddFile(fd protoreflect.FileDescriptor, results *[]*descriptorpb.FileDescriptorProto, seen map[string]struct{}) error {
	if _, ok := seen[fd.Path()]; ok {
		return nil
	}
	seen[fd.Path()] = struct{}{}
	imports := fd.Imports()
	for i := 0; i < imports.Len(); i++ {
		if err := demoAddFile(imports.Get(i).FileDescriptor, results, seen); err != nil {
			return err
		}
	}
	b, err := proto.Marshal(protodesc.ToFileDescriptorProto(fd))
	if err != nil {
		return err
	}
	fd2 := &descriptorpb.FileDescriptorProto{}
	if err := proto.Unmarshal(b, fd2); err != nil {
		return err
	}
	*results = append(*results, fd2)
	return nil
}

type demoResult struct {
	Source  *source_j5pb.API
	Client  *client_j5pb.API
	J5JSON  []byte
	Swagger []byte
}

// demoPipeline: j5s -> descriptors -> image -> source API -> client API -> J5 JSON + OpenAPI
func demoPipeline(t *testing.T, j5s string) *demoResult {
	t.Helper()
	ctx := context.Background()
	ps, err := protobuild.NewPackageSet(demoDeps{}, demoFiles{"demo/v1/demo.j5s": j5s})
	if err != nil {
		t.Fatalf("package set: %s", err)
	}
	out, err := ps.CompilePackage(ctx, "demo.v1")
	if err != nil {
		t.Fatalf("compile: %s", err)
	}
	img := &source_j5pb.SourceImage{
		Packages: []*source_j5pb.PackageInfo{{Name: "demo.v1", Label: "Demo"}},
	}
	seen := map[string]struct{}{}
	for _, f := range out {
		if err := demoAddFile(f, &img.File, seen); err != nil {
			t.Fatalf("image: %s", err)
		}
		img.SourceFilenames = append(img.SourceFilenames, f.Path())
	}
	res := &demoResult{}
	res.Source, err = structure.APIFromImage(img)
	if err != nil {
		t.Fatalf("APIFromImage: %s", err)
	}
	res.Client, err = APIFromSource(res.Source)
	if err != nil {
		t.Fatalf("APIFromSource: %s", err)
	}
	res.J5JSON, err = j5codec.NewCodec().ProtoToJSON(res.Client.ProtoReflect())
	if err != nil {
		t.Fatalf("ProtoToJSON: %s", err)
	}
	doc, err := export.BuildSwagger(res.Client)
	if err != nil {
		t.Fatalf("BuildSwagger: %s", err)
	}
	res.Swagger, err = json.Marshal(doc)
	if err != nil {
		t.Fatalf("swagger marshal: %s", err)
	}
	return res
}

// Property: each path parameter of a method names a request property, and the
// request properties are split into path / query / body.
// Input shape: a path parameter whose j5s name is not the lowerCamel of its
// snake_case proto name (an acronym-style name such as "thingID").
func TestDemoPathParameterAcronymName(t *testing.T) {
	res := demoPipeline(t, `package demo.v1

object Thing {
	field thingID key:id62
	field name string
}

service Thing {
	basePath = "/demo/v1"

	method GetThing {
		httpMethod = GET
		httpPath = "/thing/:accountId/:thingID"
		request {
			field accountId key:id62
			field thingID key:id62
			field verbose bool
		}
		response {
			field thing object:Thing
		}
	}

	method UpdateThing {
		httpMethod = POST
		httpPath = "/thing/:thingID"
		request {
			field thingID key:id62
			field name string
		}
		response {
			field thing object:Thing
		}
	}
}
`)

	var methods []*client_j5pb.Method
	for _, pkg := range res.Client.Packages {
		for _, svc := range pkg.Services {
			methods = append(methods, svc.Methods...)
		}
	}
	if len(methods) != 2 {
		t.Fatalf("expected 2 methods, got %d", len(methods))
	}

	for _, method := range methods {
		pathParams := map[string]bool{}
		for _, pp := range method.Request.PathParameters {
			pathParams[pp.Name] = true
		}
		nInPath := 0
		for _, part := range strings.Split(method.HttpPath, "/") {
			if !strings.HasPrefix(part, ":") {
				continue
			}
			nInPath++
			if !pathParams[part[1:]] {
				t.Errorf("%s: path %q has parameter %q which is not a path parameter property (have %v)", method.Name, method.HttpPath, part[1:], pathParams)
			}
		}
		if nInPath != len(method.Request.PathParameters) {
			t.Errorf("%s: path %q has %d parameters, request lists %d path parameters", method.Name, method.HttpPath, nInPath, len(method.Request.PathParameters))
		}
		for _, qp := range method.Request.QueryParameters {
			if qp.Name == "thingID" {
				t.Errorf("%s: thingID is a path field but was emitted as query parameter", method.Name)
			}
		}
		if method.Request.Body != nil {
			for _, bp := range method.Request.Body.Properties {
				if bp.Name == "thingID" {
					t.Errorf("%s: thingID is a path field but was emitted as body property", method.Name)
				}
			}
		}
	}

	if !strings.Contains(string(res.Swagger), `"/demo/v1/thing/:accountId/:thingID"`) {
		t.Errorf("swagger does not contain the declared path: %s", string(res.Swagger))
	}
}
