// copy to: internal/j5client/
package j5client

import (
	"context"
	"encoding/json"
	"fmt"
	"sort"
	"strings"
	"testing"

	"github.com/pentops/j5/gen/j5/client/v1/client_j5pb"
	"github.com/pentops/j5/gen/j5/source/v1/source_j5pb"
	"github.com/pentops/j5/internal/export"
	"github.com/pentops/j5/internal/j5s/protobuild"
	"github.com/pentops/j5/internal/structure"
	"github.com/pentops/j5/lib/j5codec"
	"google.golang.org/protobuf/proto"
	"google.golang.org/protobuf/reflect/protodesc"
	"google.golang.org/protobuf/reflect/protoreflect"
	"google.golang.org/protobuf/types/descriptorpb"
)

type demoFiles map[string]string

func (tf demoFiles) ListPackages() []string { return []string{"demo.v1"} }
func (tf demoFiles) ListSourceFiles(ctx context.Context, prefix string) ([]string, error) {
	var files []string
	for k := range tf {
		if strings.HasPrefix(k, prefix) {
			files = append(files, k)
		}
	}
	sort.Strings(files)
	return files, nil
}
func (tf demoFiles) GetLocalFile(ctx context.Context, filename string) ([]byte, error) {
	if d, ok := tf[filename]; ok {
		return []byte(d), nil
	}
	return nil, fmt.Errorf("file not found: %s", filename)
}

type demoDeps struct{}

func (demoDeps) GetDependencyFile(filename string) (*descriptorpb.FileDescriptorProto, error) {
	return nil, fmt.Errorf("file not found: %s", filename)
}
func (demoDeps) ListDependencyFiles(root string) []string { return nil }

func demoAddFile(fd protoreflect.FileDescriptor, results *[]*descriptorpb.FileDescriptorProto, seen map[string]struct{}) error {
	if _, ok := seen[fd.Path()]; ok {
		return nil
	}
	seen[fd.Path()] = struct{}{}
	imports := fd.Imports()
	for i := 0; i < imports.Len(); i++ {
		if err := demoAddFile(imports.Get(i).FileDescriptor, results, seen); err != nil {
			return err
		}
	}
	b, err := proto.Marshal(protodesc.ToFileDescriptorProto(fd))
	if err != nil {
		return err
	}
	fd2 := &descriptorpb.FileDescriptorProto{}
	if err := proto.Unmarshal(b, fd2); err != nil {
		return err
	}
	*results = append(*results, fd2)
	return nil
}

type demoResult struct {
	Source  *source_j5pb.API
	Client  *client_j5pb.API
	J5JSON  []byte
	Swagger []byte
}

// demoPipeline: j5s -> descriptors -> image -> source API -> client API -> J5 JSON + OpenAPI
func demoPipeline(t *testing.T, j5s string) *demoResult {
	t.Helper()
	ctx := context.Background()
	ps, err := protobuild.NewPackageSet(demoDeps{}, demoFiles{"demo/v1/demo.j5s": j5s})
	if err != nil {
		t.Fatalf("package set: %s", err)
	}
	out, err := ps.CompilePackage(ctx, "demo.v1")
	if err != nil {
		t.Fatalf("compile: %s", err)
	}
	img := &source_j5pb.SourceImage{
		Packages: []*source_j5pb.PackageInfo{{Name: "demo.v1", Label: "Demo"}},
	}
	seen := map[string]struct{}{}
	for _, f := range out {
		if err := demoAddFile(f, &img.File, seen); err != nil {
			t.Fatalf("image: %s", err)
		}
		img.SourceFilenames = append(img.SourceFilenames, f.Path())
	}
	res := &demoResult{}
	res.Source, err = structure.APIFromImage(img)
	if err != nil {
		t.Fatalf("APIFromImage: %s", err)
	}
	res.Client, err = APIFromSource(res.Source)
	if err != nil {
		t.Fatalf("APIFromSource: %s", err)
	}
	res.J5JSON, err = j5codec.NewCodec().ProtoToJSON(res.Client.ProtoReflect())
	if err != nil {
		t.Fatalf("ProtoToJSON: %s", err)
	}
	doc, err := export.BuildSwagger(res.Client)
	if err != nil {
		t.Fatalf("BuildSwagger: %s", err)
	}
	res.Swagger, err = json.Marshal(doc)
	if err != nil {
		t.Fatalf("swagger marshal: %s", err)
	}
	return res
}

// Property: everything the compiler emits is consumable by the rest of the
// toolchain (image -> source API -> client API -> JSON / OpenAPI) without error;
// the topic producer (sourcewalk) and the consumer (structure.buildTopicMethod)
// must agree on the <Method>Message naming convention.
// Input shape: a topic whose name is not UpperCamel (snake_case / lowerCamel)
// and whose single message has no explicit name, so that the rpc name and the
// message name are both derived from the topic name.
func TestDemoTopicNameShapes(t *testing.T) {
	res := demoPipeline(t, `package demo.v1

object Thing {
	field thingId key:id62
	field name string
}

topic Audit publish {
	message Recorded {
		field thingId key:id62
	}
}

topic stock_level event {
	entityName = "thing"
	message {
		field thingId key:id62
		field level integer:INT64
	}
}

topic priceCheck reqres {
	request {
		field thingId key:id62
	}
	reply {
		field price decimal
	}
}

service Thing {
	basePath = "/demo/v1"

	method GetThing {
		httpMethod = GET
		httpPath = "/thing/:thingId"
		request {
			field thingId key:id62
		}
		response {
			field thing object:Thing
		}
	}
}
`)

	var topicPkg *source_j5pb.SubPackage
	for _, pkg := range res.Source.Packages {
		if pkg.Name != "demo.v1" {
			continue
		}
		for _, sub := range pkg.SubPackages {
			if sub.Name == "topic" {
				topicPkg = sub
			}
		}
	}
	if topicPkg == nil {
		t.Fatal("no demo.v1.topic sub package in source API")
	}

	got := []string{}
	for _, topic := range topicPkg.Topics {
		for _, msg := range topic.Messages {
			got = append(got, fmt.Sprintf("%s/%s", topic.Name, msg.Name))
			if _, ok := topicPkg.Schemas[msg.Schema]; !ok {
				t.Errorf("topic %s message %s: schema %q not in sub package", topic.Name, msg.Name, msg.Schema)
			}
		}
	}
	sort.Strings(got)
	want := []string{
		"AuditTopic/Recorded",
		"PriceCheckReplyTopic/priceCheckReply",
		"PriceCheckRequestTopic/priceCheckRequest",
		"StockLevelTopic/stock_level",
	}
	if strings.Join(got, ",") != strings.Join(want, ",") {
		t.Errorf("topics: got %v, want %v", got, want)
	}
}
