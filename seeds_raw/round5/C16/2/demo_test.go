// copy to: internal/j5client/
package j5client

import (
	"context"
	"encoding/json"
	"fmt"
	"regexp"
	"sort"
	"strings"
	"testing"

	"github.com/pentops/j5/gen/j5/client/v1/client_j5pb"
	"github.com/pentops/j5/gen/j5/source/v1/source_j5pb"
	"github.com/pentops/j5/internal/export"
	"github.com/pentops/j5/internal/j5s/protobuild"
	"github.com/pentops/j5/internal/structure"
	"github.com/pentops/j5/lib/j5codec"
	"google.golang.org/protobuf/proto"
	"google.golang.org/protobuf/reflect/protodesc"
	"google.golang.org/protobuf/reflect/protoreflect"
	"google.golang.org/protobuf/types/descriptorpb"
)

type demoFiles map[string]string

func (tf demoFiles) ListPackages() []string { return []string{"demo.v1"} }
func (tf demoFiles) ListSourceFiles(ctx context.Context, prefix string) ([]string, error) {
	var files []string
	for k := range tf {
		if strings.HasPrefix(k, prefix) {
			files = append(files, k)
		}
	}
	sort.Strings(files)
	return files, nil
}
func (tf demoFiles) GetLocalFile(ctx context.Context, filename string) ([]byte, error) {
	if d, ok := tf[filename]; ok {
		return []byte(d), nil
	}
	return nil, fmt.Errorf("file not found: %s", filename)
}

type demoDeps struct{}

func (demoDeps) GetDependencyFile(filename string) (*descriptorpb.FileDescriptorProto, error) {
	return nil, fmt.Errorf("file not found: %s", filename)
}
func (demoDeps) ListDependencyFiles(root string) []string { return nil }

func demoAddFile(fd protoreflect.FileDescriptor, results *[]*descriptorpb.FileDescriptorProto, seen map[string]struct{}) error {
	if _, ok := seen[fd.Path()]; ok {
		return nil
	}
	seen[fd.Path()] = struct{}{}
	imports := fd.Imports()
	for i := 0; i < imports.Len(); i++ {
		if err := demoAddFile(imports.Get(i).FileDescriptor, results, seen); err != nil {
			return err
		}
	}
	b, err := proto.Marshal(protodesc.ToFileDescriptorProto(fd))
	if err != nil {
		return err
	}
	fd2 := &descriptorpb.FileDescriptorProto{}
	if err := proto.Unmarshal(b, fd2); err != nil {
		return err
	}
	*results = append(*results, fd2)
	return nil
}

type demoResult struct {
	Source  *source_j5pb.API
	Client  *client_j5pb.API
	J5JSON  []byte
	Swagger []byte
}

// demoPipeline: j5s -> descriptors -> image -> source API -> client API -> J5 JSON + OpenAPI
func demoPipeline(t *testing.T, j5s string) *demoResult {
	t.Helper()
	ctx := context.Background()
	ps, err := protobuild.NewPackageSet(demoDeps{}, demoFiles{"demo/v1/demo.j5s": j5s})
	if err != nil {
		t.Fatalf("package set: %s", err)
	}
	out, err := ps.CompilePackage(ctx, "demo.v1")
	if err != nil {
		t.Fatalf("compile: %s", err)
	}
	img := &source_j5pb.SourceImage{
		Packages: []*source_j5pb.PackageInfo{{Name: "demo.v1", Label: "Demo"}},
	}
	seen := map[string]struct{}{}
	for _, f := range out {
		if err := demoAddFile(f, &img.File, seen); err != nil {
			t.Fatalf("image: %s", err)
		}
		img.SourceFilenames = append(img.SourceFilenames, f.Path())
	}
	res := &demoResult{}
	res.Source, err = structure.APIFromImage(img)
	if err != nil {
		t.Fatalf("APIFromImage: %s", err)
	}
	res.Client, err = APIFromSource(res.Source)
	if err != nil {
		t.Fatalf("APIFromSource: %s", err)
	}
	res.J5JSON, err = j5codec.NewCodec().ProtoToJSON(res.Client.ProtoReflect())
	if err != nil {
		t.Fatalf("ProtoToJSON: %s", err)
	}
	doc, err := export.BuildSwagger(res.Client)
	if err != nil {
		t.Fatalf("BuildSwagger: %s", err)
	}
	res.Swagger, err = json.Marshal(doc)
	if err != nil {
		t.Fatalf("swagger marshal: %s", err)
	}
	return res
}

// Property: every schema reachable from a method is present in the client API
// (and therefore every $ref of the OpenAPI document resolves).
// Input shape: a method WITH a request body (POST) that has a path parameter
// of a referenced type (enum) which is not used anywhere else in the package.
func TestDemoPathParameterSchemaReachable(t *testing.T) {
	res := demoPipeline(t, `package demo.v1

enum Kind {
	option SMALL
	option LARGE
}

enum Region {
	option NORTH
	option SOUTH
}

object Thing {
	field thingId key:id62
	field name string
}

service Thing {
	basePath = "/demo/v1"

	method GetThing {
		httpMethod = GET
		httpPath = "/region/:region/thing/:thingId"
		request {
			field region enum:Region
			field thingId key:id62
		}
		response {
			field thing object:Thing
		}
	}

	method RenameThing {
		httpMethod = POST
		httpPath = "/kind/:kind/thing/:thingId/rename"
		request {
			field kind enum:Kind
			field thingId key:id62
			field name string
		}
		response {
			field thing object:Thing
		}
	}
}
`)

	var demoPkg *client_j5pb.Package
	for _, pkg := range res.Client.Packages {
		if pkg.Name == "demo.v1" {
			demoPkg = pkg
		}
	}
	if demoPkg == nil {
		t.Fatal("no demo.v1 package in client API")
	}

	// sanity: the enum is a path parameter of the POST method
	var rename *client_j5pb.Method
	for _, svc := range demoPkg.Services {
		for _, m := range svc.Methods {
			if m.Name == "RenameThing" {
				rename = m
			}
		}
	}
	if rename == nil {
		t.Fatal("RenameThing not listed")
	}
	foundKind := false
	for _, pp := range rename.Request.PathParameters {
		if pp.Name == "kind" && pp.Schema.GetEnum().GetRef().GetSchema() == "Kind" {
			foundKind = true
		}
	}
	if !foundKind {
		t.Fatalf("expected enum path parameter 'kind' on RenameThing: %v", rename.Request.PathParameters)
	}

	for _, want := range []string{"Thing", "Region", "Kind"} {
		if _, ok := demoPkg.Schemas[want]; !ok {
			have := []string{}
			for k := range demoPkg.Schemas {
				have = append(have, k)
			}
			sort.Strings(have)
			t.Errorf("schema demo.v1.%s is reachable from a method but is not in the client API (have %v)", want, have)
		}
	}

	// every $ref in the OpenAPI document must resolve
	doc := struct {
		Components struct {
			Schemas map[string]json.RawMessage `json:"schemas"`
		} `json:"components"`
	}{}
	if err := json.Unmarshal(res.Swagger, &doc); err != nil {
		t.Fatal(err)
	}
	for _, match := range regexp.MustCompile(`"\$ref":"#/definitions/([^"]+)"`).FindAllStringSubmatch(string(res.Swagger), -1) {
		if _, ok := doc.Components.Schemas[match[1]]; !ok {
			t.Errorf("OpenAPI $ref %q does not resolve to a component schema", match[1])
		}
	}
}
