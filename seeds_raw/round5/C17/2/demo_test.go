// copy to: internal/j5s/protobuild/
package protobuild

import (
	"context"
	"testing"

	"github.com/pentops/j5/gen/j5/ext/v1/ext_j5pb"
	"google.golang.org/genproto/googleapis/api/annotations"
	"google.golang.org/protobuf/proto"
	"google.golang.org/protobuf/reflect/protoreflect"
)

// An entity which declares more than one command service must yield every one
// of them, each under its own name and base path, and each annotated with the
// entity.
func TestSeedC17TwoCommandServices(t *testing.T) {
	tf := newTestFiles()
	tf.tAddJ5SFile("local/v1/foo.j5s", `
entity Foo {
	key fooId key:id62 {
		primary = true
	}

	data name string

	status ACTIVE

	event Create {
		field name string
	}

	command {
		method DoIt {
			httpMethod = "POST"
			httpPath = ":fooId/doit"
			request {
				field fooId key:id62
			}
			response {
			}
		}
	}

	command {
		name = "FooAdmin"
		basePath = "admin"
		method AdminIt {
			httpMethod = "POST"
			httpPath = ":fooId/admin"
			request {
				field fooId key:id62
			}
			response {
			}
		}
	}
}
`)
	cc, err := NewPackageSet(newTestDeps(), tf)
	if err != nil {
		t.Fatalf("NewPackageSet: %s", err)
	}
	out, err := cc.CompilePackage(context.Background(), "local.v1")
	if err != nil {
		t.Fatalf("entity with two command services does not compile: %s", err)
	}
	files := fileSet{}
	for _, file := range out {
		files[file.Path()] = file
	}
	file := files.expectFile(t, "local/v1/service/foo.p.j5s.proto")

	for _, want := range []struct {
		service string
		method  string
		path    string
	}{
		{"FooCommandService", "DoIt", "/local/v1/foo/c/{foo_id}/doit"},
		{"FooAdminCommandService", "AdminIt", "/local/v1/foo/admin/{foo_id}/admin"},
	} {
		svc := file.Services().ByName(protoreflect.Name(want.service))
		if svc == nil {
			t.Errorf("missing command service %s", want.service)
			continue
		}
		ext := proto.GetExtension(svc.Options(), ext_j5pb.E_Service).(*ext_j5pb.ServiceOptions)
		if got := ext.GetStateCommand().GetEntity(); got != "foo" {
			t.Errorf("%s: entity annotation %q, want foo", want.service, got)
		}
		method := svc.Methods().ByName(protoreflect.Name(want.method))
		if method == nil {
			t.Errorf("%s: missing method %s", want.service, want.method)
			continue
		}
		rule := proto.GetExtension(method.Options(), annotations.E_Http).(*annotations.HttpRule)
		if got := rule.GetPost(); got != want.path {
			t.Errorf("%s.%s: path %q, want %q", want.service, want.method, got, want.path)
		}
	}
}
