// copy to: internal/j5s/protobuild/
package protobuild

import (
	"testing"

	"github.com/pentops/j5/gen/j5/list/v1/list_j5pb"
	"google.golang.org/protobuf/proto"
)

// The default status filter of an entity's query settings must name exactly
// the declared statuses it lists, also when one status name is the tail of
// another one that was declared later (ACTIVE / INACTIVE).
func TestSeedC17DefaultStatusFilterSuffixStatus(t *testing.T) {
	tf := newTestFiles()
	tf.tAddJ5SFile("local/v1/foo.j5s", `
entity Foo {
	key fooId key:id62 {
		primary = true
	}

	query {
		defaultStatusFilter = ["INACTIVE"]
	}

	data name string

	status ACTIVE
	status INACTIVE
	status DELETED

	event Create {
		field name string
	}
}
`)
	files := testCompile(t, tf, newTestDeps(), "local.v1")
	file := files.expectFile(t, "local/v1/foo.j5s.proto")

	state := file.Messages().ByName("FooState")
	if state == nil {
		t.Fatalf("FooState missing")
	}
	statusField := state.Fields().ByName("status")
	if statusField == nil {
		t.Fatalf("FooState.status missing")
	}

	// the filter value must be one of the values of the status enum, and must
	// be the one which was asked for.
	listExt := proto.GetExtension(statusField.Options(), list_j5pb.E_Field).(*list_j5pb.FieldConstraint)
	got := listExt.GetEnum().GetFiltering().GetDefaultFilters()
	want := []string{"FOO_STATUS_INACTIVE"}
	if len(got) != len(want) || got[0] != want[0] {
		t.Fatalf("default status filters: got %v, want %v", got, want)
	}
	val := statusField.Enum().Values().ByName("FOO_STATUS_INACTIVE")
	if val == nil || val.Number() != 2 {
		t.Fatalf("FOO_STATUS_INACTIVE should be status number 2, got %v", val)
	}
}
