// copy to: internal/j5s/protobuild/
package protobuild

import (
	"testing"

	"github.com/pentops/j5/gen/j5/client/v1/client_j5pb"
	"github.com/pentops/j5/gen/j5/source/v1/source_j5pb"
	"github.com/pentops/j5/internal/j5client"
	"github.com/pentops/j5/internal/structure"
	"github.com/pentops/j5/lib/j5schema"
	"google.golang.org/protobuf/reflect/protodesc"
	"google.golang.org/protobuf/reflect/protoreflect"
	"google.golang.org/protobuf/types/descriptorpb"
)

func seedC17CollectFiles(seen map[string]bool, order *[]*descriptorpb.FileDescriptorProto, f protoreflect.FileDescriptor) {
	if seen[f.Path()] {
		return
	}
	seen[f.Path()] = true
	imps := f.Imports()
	for i := 0; i < imps.Len(); i++ {
		seedC17CollectFiles(seen, order, imps.Get(i).FileDescriptor)
	}
	*order = append(*order, protodesc.ToFileDescriptorProto(f))
}

// An entity without any events still yields the EventType oneof and the Event
// object holding it, and the client API groups them into a StateEntity with
// an empty event list.
func TestSeedC17EntityWithoutEvents(t *testing.T) {
	tf := newTestFiles()
	tf.tAddJ5SFile("local/v1/foo.j5s", `
entity Foo {
	key fooId key:id62 {
		primary = true
	}

	data name string

	status ACTIVE
	status INACTIVE
}
`)
	files := testCompile(t, tf, newTestDeps(), "local.v1")
	file := files.expectFile(t, "local/v1/foo.j5s.proto")

	// reader side: the EventType message is (still) a oneof
	eventType := file.Messages().ByName("FooEventType")
	if eventType == nil {
		t.Fatalf("FooEventType missing")
	}
	if !j5schema.IsOneofWrapper(eventType) {
		t.Errorf("FooEventType of an entity without events is not read as a oneof")
	}

	seen := map[string]bool{}
	var order []*descriptorpb.FileDescriptorProto
	for _, f := range files {
		seedC17CollectFiles(seen, &order, f)
	}

	api, err := structure.APIFromImage(&source_j5pb.SourceImage{
		File:     order,
		Packages: []*source_j5pb.PackageInfo{{Name: "local.v1", Label: "Local"}},
	})
	if err != nil {
		t.Fatalf("APIFromImage: %s", err)
	}

	client, err := j5client.APIFromSource(api)
	if err != nil {
		t.Fatalf("client API for entity without events: %s", err)
	}

	var pkg *client_j5pb.Package
	for _, search := range client.Packages {
		if search.Name == "local.v1" {
			pkg = search
		}
	}
	if pkg == nil || len(pkg.StateEntities) != 1 {
		t.Fatalf("expected package local.v1 with one state entity")
	}
	entity := pkg.StateEntities[0]
	if entity.Name != "foo" {
		t.Errorf("entity name %q", entity.Name)
	}
	if len(entity.Events) != 0 {
		t.Errorf("expected no events, got %d", len(entity.Events))
	}
	if entity.QueryService == nil || len(entity.QueryService.Methods) != 3 {
		t.Errorf("expected query service with 3 methods")
	}

	clientEventType, ok := pkg.Schemas["FooEventType"]
	if !ok {
		t.Fatalf("FooEventType not in client schemas")
	}
	if clientEventType.GetOneof() == nil {
		t.Errorf("FooEventType in client API is %T, want oneof", clientEventType.Type)
	}
}
