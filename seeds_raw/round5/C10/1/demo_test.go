// copy to: internal/codec/   (run with: go test -race -vet=off -count=1 -run TestSeedC10FlattenedFirstUse ./internal/codec/)
package codec

import (
	"sync"
	"testing"

	"github.com/pentops/j5/gen/test/schema/v1/schema_testpb"
)

// A message type with a *flattened* object field is used for the very first
// time by several goroutines at once, on a fresh codec. Every call must return
// what it returns alone, and (with -race) no data race may be reported.
func TestSeedC10FlattenedFirstUse(t *testing.T) {
	msg := &schema_testpb.FullSchema{
		SString: "a",
		Flattened: &schema_testpb.FlattenedMessage{
			FieldFromFlattened:   "f1",
			Field_2FromFlattened: "f2",
		},
	}

	want, err := NewCodec().ProtoToJSON(msg.ProtoReflect())
	if err != nil {
		t.Fatal(err)
	}

	const workers = 4
	for round := 0; round < 50; round++ {
		cc := NewCodec() // cold cache every round
		start := make(chan struct{})
		var wg sync.WaitGroup
		results := make([][]byte, workers)
		errs := make([]error, workers)
		for w := 0; w < workers; w++ {
			wg.Add(1)
			go func(w int) {
				defer wg.Done()
				<-start
				if w%2 == 0 {
					results[w], errs[w] = cc.ProtoToJSON(msg.ProtoReflect())
					return
				}
				out := &schema_testpb.FullSchema{}
				errs[w] = cc.JSONToProto(want, out.ProtoReflect())
				if errs[w] == nil {
					results[w], errs[w] = cc.ProtoToJSON(out.ProtoReflect())
				}
			}(w)
		}
		close(start)
		wg.Wait()
		for w := 0; w < workers; w++ {
			if errs[w] != nil {
				t.Fatalf("round %d worker %d: %s", round, w, errs[w])
			}
			if string(results[w]) != string(want) {
				t.Fatalf("round %d worker %d: got %s want %s", round, w, results[w], want)
			}
		}
	}
}
