// copy to: internal/codec/   (run with: go test -vet=off -count=1 -run TestSeedC10ErrorThenNewType ./internal/codec/ ; -race may be added but is not needed)
package codec

import (
	"sync"
	"testing"
	"time"

	"google.golang.org/protobuf/proto"
	"google.golang.org/protobuf/reflect/protodesc"
	"google.golang.org/protobuf/reflect/protoreflect"
	"google.golang.org/protobuf/types/descriptorpb"
	"google.golang.org/protobuf/types/dynamicpb"
)

// Several goroutines share one codec. Each first uses a message type whose
// schema cannot be built (its enum has no *_UNSPECIFIED zero value), more than
// once, and then uses a type the codec has never seen. The failing type must
// keep failing and the later, healthy type must still encode: no call may hang.
func TestSeedC10ErrorThenNewType(t *testing.T) {
	fileProto := &descriptorpb.FileDescriptorProto{
		Name:    proto.String("seedc10/v1/seed.proto"),
		Package: proto.String("seedc10.v1"),
		Syntax:  proto.String("proto3"),
		EnumType: []*descriptorpb.EnumDescriptorProto{{
			Name: proto.String("Kind"),
			Value: []*descriptorpb.EnumValueDescriptorProto{{
				Name:   proto.String("KIND_A"), // not ..._UNSPECIFIED: the schema does not build
				Number: proto.Int32(0),
			}},
		}},
		MessageType: []*descriptorpb.DescriptorProto{{
			Name: proto.String("Bad"),
			Field: []*descriptorpb.FieldDescriptorProto{{
				Name:     proto.String("kind"),
				Number:   proto.Int32(1),
				Type:     descriptorpb.FieldDescriptorProto_TYPE_ENUM.Enum(),
				TypeName: proto.String(".seedc10.v1.Kind"),
				Label:    descriptorpb.FieldDescriptorProto_LABEL_OPTIONAL.Enum(),
			}},
		}, {
			Name: proto.String("Late"),
			Field: []*descriptorpb.FieldDescriptorProto{{
				Name:     proto.String("name"),
				Number:   proto.Int32(1),
				Type:     descriptorpb.FieldDescriptorProto_TYPE_STRING.Enum(),
				Label:    descriptorpb.FieldDescriptorProto_LABEL_OPTIONAL.Enum(),
				JsonName: proto.String("name"),
			}},
		}},
	}
	file, err := protodesc.NewFile(fileProto, nil)
	if err != nil {
		t.Fatal(err)
	}
	badDesc := file.Messages().ByName("Bad")
	lateDesc := file.Messages().ByName("Late")

	newLate := func() protoreflect.Message {
		msg := dynamicpb.NewMessage(lateDesc)
		msg.Set(lateDesc.Fields().ByName("name"), protoreflect.ValueOfString("x"))
		return msg
	}

	want, err := NewCodec().ProtoToJSON(newLate())
	if err != nil {
		t.Fatal(err)
	}

	cc := NewCodec()
	const workers = 4
	var wg sync.WaitGroup
	errs := make(chan string, workers*8)
	for w := 0; w < workers; w++ {
		wg.Add(1)
		go func() {
			defer wg.Done()
			for i := 0; i < 3; i++ {
				if _, err := cc.ProtoToJSON(dynamicpb.NewMessage(badDesc)); err == nil {
					errs <- "the unbuildable type encoded without error"
				}
			}
			got, err := cc.ProtoToJSON(newLate())
			if err != nil {
				errs <- "late type: " + err.Error()
			} else if string(got) != string(want) {
				errs <- "late type: got " + string(got) + " want " + string(want)
			}
		}()
	}

	done := make(chan struct{})
	go func() {
		wg.Wait()
		close(done)
	}()
	select {
	case <-done:
	case <-time.After(10 * time.Second):
		t.Fatal("deadlock: calls on the shared codec did not return within 10s")
	}
	close(errs)
	for msg := range errs {
		t.Error(msg)
	}
}
