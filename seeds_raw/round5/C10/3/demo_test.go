// copy to: internal/codec/   (run with: go test -vet=off -count=1 -run TestSeedC10AnyPayloads ./internal/codec/ ; fails with or without -race)
package codec

import (
	"fmt"
	"sync"
	"testing"

	"github.com/pentops/j5/gen/test/schema/v1/schema_testpb"
)

// Goroutines decode, on one shared codec, messages holding a j5 Any field with
// a different payload each. The decoded messages are kept, and checked after
// all calls have returned: each must hold the payload it was given, exactly as
// the same call returns when run alone.
func TestSeedC10AnyPayloads(t *testing.T) {
	cc := NewCodec()

	const workers = 4
	const perWorker = 50

	input := func(w, i int) (string, string) {
		payload := fmt.Sprintf(`{"barId":"worker-%d-item-%03d"}`, w, i)
		return fmt.Sprintf(`{"j5any":{"!type":"test.schema.v1.Bar","value": %s }}`, payload), payload
	}

	// alone: the call returns the payload it was given
	{
		in, payload := input(0, 0)
		msg := &schema_testpb.FullSchema{}
		if err := NewCodec().JSONToProto([]byte(in), msg.ProtoReflect()); err != nil {
			t.Fatal(err)
		}
		if string(msg.J5Any.J5Json) != payload {
			t.Fatalf("alone: got %s want %s", msg.J5Any.J5Json, payload)
		}
	}

	results := make([][]*schema_testpb.FullSchema, workers)
	errs := make([]error, workers)
	start := make(chan struct{})
	var wg sync.WaitGroup
	for w := 0; w < workers; w++ {
		wg.Add(1)
		go func(w int) {
			defer wg.Done()
			<-start
			for i := 0; i < perWorker; i++ {
				in, _ := input(w, i)
				msg := &schema_testpb.FullSchema{}
				if err := cc.JSONToProto([]byte(in), msg.ProtoReflect()); err != nil {
					errs[w] = err
					return
				}
				results[w] = append(results[w], msg)
			}
		}(w)
	}
	close(start)
	wg.Wait()

	bad := 0
	for w := 0; w < workers; w++ {
		if errs[w] != nil {
			t.Fatalf("worker %d: %s", w, errs[w])
		}
		for i, msg := range results[w] {
			_, payload := input(w, i)
			if got := string(msg.J5Any.J5Json); got != payload {
				bad++
				if bad <= 5 {
					t.Errorf("worker %d call %d: any payload is %s, want %s", w, i, got, payload)
				}
			}
		}
	}
	if bad > 0 {
		t.Errorf("%d of %d decoded messages hold the wrong payload", bad, workers*perWorker)
	}
}
