// copy to: internal/bcl/internal/parser/
package parser

import (
	"fmt"
	"strings"
	"testing"
)

// c19d2Apply validates the edits (ascending, non-overlapping, start <= end <=
// number of lines) and applies them to the document as an LSP client would.
func c19d2Apply(input string, diffs []FmtDiff) (string, error) {
	lines := strings.SplitAfter(input, "\n")
	n := len(lines)
	offs := make([]int, n+1)
	for i, l := range lines {
		offs[i+1] = offs[i] + len(l)
	}
	pos := func(line int) int {
		if line >= n {
			return len(input)
		}
		return offs[line]
	}
	last := 0
	for i, d := range diffs {
		if d.FromLine < 0 || d.FromLine > d.ToLine || d.ToLine > n {
			return "", fmt.Errorf("edit %d out of range: %d..%d of %d lines", i, d.FromLine, d.ToLine, n)
		}
		if d.FromLine < last {
			return "", fmt.Errorf("edit %d overlaps or is out of order: from %d < previous end %d", i, d.FromLine, last)
		}
		last = d.ToLine
	}
	out := input
	for i := len(diffs) - 1; i >= 0; i-- {
		d := diffs[i]
		out = out[:pos(d.FromLine)] + d.NewText + out[pos(d.ToLine):]
	}
	return out, nil
}

func TestC19Seed2GapThenChangedStatement(t *testing.T) {
	inputs := []string{
		// two blank lines (collapsed to one by a gap edit) followed directly by
		// a statement that itself needs reformatting
		"a = 1\n\n\nb=2\n",
		// leading blank line followed by a statement that needs reformatting
		"\nb=2\n",
		// same shape inside a block (indent fix after an over-long gap)
		"blk {\n\ta = 1\n\n\n\nb = 2\n}\n",
	}
	for _, input := range inputs {
		want, err := Fmt(input)
		if err != nil {
			t.Fatalf("formatter rejected %q: %v", input, err)
		}
		diffs, err := FmtDiffs(input)
		if err != nil {
			t.Fatalf("FmtDiffs(%q): %v", input, err)
		}
		got, err := c19d2Apply(input, diffs)
		if err != nil {
			t.Errorf("input %q: %v (edits %v)", input, err, diffs)
			continue
		}
		if strings.TrimRight(got, "\n") != strings.TrimRight(want, "\n") {
			t.Errorf("input %q:\napplied edits: %q\nformatter:     %q\nedits: %v", input, got, want, diffs)
		}
	}
}
