// copy to: internal/bcl/genlsp/
package genlsp

import (
	"context"
	"fmt"
	"strings"
	"testing"

	"github.com/pentops/j5/internal/bcl/internal/parser"
	"go.lsp.dev/protocol"
)

// c19d3Apply validates the edits (ascending, non-overlapping, start <= end <=
// number of lines) and applies them to the document as an LSP client would
// (a position past the last line is clamped to the end of the document).
func c19d3Apply(input string, edits []protocol.TextEdit) (string, error) {
	lines := strings.SplitAfter(input, "\n")
	n := len(lines)
	offs := make([]int, n+1)
	for i, l := range lines {
		offs[i+1] = offs[i] + len(l)
	}
	pos := func(p protocol.Position) int {
		if int(p.Line) >= n {
			return len(input)
		}
		return offs[p.Line] + int(p.Character)
	}
	last := 0
	for i, e := range edits {
		from, to := int(e.Range.Start.Line), int(e.Range.End.Line)
		if e.Range.Start.Character != 0 || e.Range.End.Character != 0 {
			return "", fmt.Errorf("edit %d is not a whole-line edit: %v", i, e.Range)
		}
		if from > to || to > n {
			return "", fmt.Errorf("edit %d out of range: %d..%d of %d lines", i, from, to, n)
		}
		if from < last {
			return "", fmt.Errorf("edit %d overlaps or is out of order: from %d < previous end %d", i, from, last)
		}
		last = to
	}
	out := input
	for i := len(edits) - 1; i >= 0; i-- {
		e := edits[i]
		out = out[:pos(e.Range.Start)] + e.NewText + out[pos(e.Range.End):]
	}
	return out, nil
}

func TestC19Seed3NoFinalNewline(t *testing.T) {
	inputs := []string{
		// document without a final newline whose LAST statement needs reformatting
		"a = 1\nb=2",
		// single line, no final newline
		"a=1",
		// last statement is a multi-line block comment needing an indent fix
		"blk {\n}\n   /* x\n y */",
		// controls: same documents with a final newline
		"a = 1\nb=2\n",
		"a=1\n",
	}
	for _, input := range inputs {
		want, err := parser.Fmt(input)
		if err != nil {
			t.Fatalf("formatter rejected %q: %v", input, err)
		}
		doc := &protocol.TextDocumentItem{URI: "file:///test.bcl", Text: input}
		edits, err := astFormatter{}.Format(context.Background(), doc)
		if err != nil {
			t.Fatalf("Format(%q): %v", input, err)
		}
		got, err := c19d3Apply(input, edits)
		if err != nil {
			t.Errorf("input %q: %v (edits %v)", input, err, edits)
			continue
		}
		if strings.TrimRight(got, "\n") != strings.TrimRight(want, "\n") {
			t.Errorf("input %q:\napplied edits: %q\nformatter:     %q\nedits: %v", input, got, want, edits)
		}
	}
}
