// copy to: internal/bcl/internal/parser/
package parser

import (
	"fmt"
	"strings"
	"testing"
)

// c19d1Apply validates the edits (ascending, non-overlapping, start <= end <=
// number of lines) and applies them to the document as an LSP client would.
func c19d1Apply(input string, diffs []FmtDiff) (string, error) {
	lines := strings.SplitAfter(input, "\n")
	n := len(lines)
	offs := make([]int, n+1)
	for i, l := range lines {
		offs[i+1] = offs[i] + len(l)
	}
	pos := func(line int) int {
		if line >= n {
			return len(input)
		}
		return offs[line]
	}
	last := 0
	for i, d := range diffs {
		if d.FromLine < 0 || d.FromLine > d.ToLine || d.ToLine > n {
			return "", fmt.Errorf("edit %d out of range: %d..%d of %d lines", i, d.FromLine, d.ToLine, n)
		}
		if d.FromLine < last {
			return "", fmt.Errorf("edit %d overlaps or is out of order: from %d < previous end %d", i, d.FromLine, last)
		}
		last = d.ToLine
	}
	out := input
	for i := len(diffs) - 1; i >= 0; i-- {
		d := diffs[i]
		out = out[:pos(d.FromLine)] + d.NewText + out[pos(d.ToLine):]
	}
	return out, nil
}

func TestC19Seed1EscapedNewlineAssignment(t *testing.T) {
	inputs := []string{
		// assignment whose string value contains an escaped newline, i.e. the
		// statement spans two source lines; directly followed by another statement
		"a = \"foo\\\nbar\"\nb = 2\n",
		// same, needing a whitespace fix and with a trailing comment
		"a=\"foo\\\nbar\" // c\nb = 2\n",
		// inside a block
		"blk {\n\ta = \"foo\\\nbar\"\n\tb = 2\n}\n",
	}
	for _, input := range inputs {
		want, err := Fmt(input)
		if err != nil {
			t.Fatalf("formatter rejected %q: %v", input, err)
		}
		diffs, err := FmtDiffs(input)
		if err != nil {
			t.Fatalf("FmtDiffs(%q): %v", input, err)
		}
		got, err := c19d1Apply(input, diffs)
		if err != nil {
			t.Errorf("input %q: %v (edits %v)", input, err, diffs)
			continue
		}
		if strings.TrimRight(got, "\n") != strings.TrimRight(want, "\n") {
			t.Errorf("input %q:\napplied edits: %q\nformatter:     %q\nedits: %v", input, got, want, diffs)
		}
	}
}
