// copy to: internal/j5client/
package j5client

// Demonstration for seeded change C16/1: a topic message whose name contains
// an acronym (or a digit followed by a lower-case letter) is compiled from
// j5s, then pushed through image -> source API -> client API -> swagger.

import (
	"context"
	"encoding/json"
	"fmt"
	"sort"
	"strings"
	"testing"

	"github.com/pentops/j5/gen/j5/source/v1/source_j5pb"
	"github.com/pentops/j5/internal/export"
	"github.com/pentops/j5/internal/j5s/protobuild"
	"github.com/pentops/j5/internal/structure"
	"github.com/pentops/j5/lib/j5codec"
	"google.golang.org/protobuf/reflect/protodesc"
	"google.golang.org/protobuf/reflect/protoreflect"
	"google.golang.org/protobuf/types/descriptorpb"
)

type seed1Files map[string]string

func (pf seed1Files) ListPackages() []string {
	seen := map[string]bool{}
	out := []string{}
	for k := range pf {
		idx := strings.LastIndex(k, "/")
		pkg := strings.ReplaceAll(k[:idx], "/", ".")
		if !seen[pkg] {
			seen[pkg] = true
			out = append(out, pkg)
		}
	}
	sort.Strings(out)
	return out
}

func (pf seed1Files) ListSourceFiles(ctx context.Context, prefix string) ([]string, error) {
	out := []string{}
	for k := range pf {
		if strings.HasPrefix(k, prefix) {
			out = append(out, k)
		}
	}
	sort.Strings(out)
	return out, nil
}

func (pf seed1Files) GetLocalFile(ctx context.Context, filename string) ([]byte, error) {
	if d, ok := pf[filename]; ok {
		return []byte(d), nil
	}
	return nil, fmt.Errorf("file not found: %s", filename)
}

type seed1NoDeps struct{}

func (seed1NoDeps) ListDependencyFiles(root string) []string { return nil }
func (seed1NoDeps) GetDependencyFile(filename string) (*descriptorpb.FileDescriptorProto, error) {
	return nil, fmt.Errorf("no dependency %s", filename)
}

// seed1Image compiles the j5s package and wraps every resulting file (with
// its imports, dependencies first) into a source image.
func seed1Image(t *testing.T, files seed1Files, pkgName string) *source_j5pb.SourceImage {
	t.Helper()
	ps, err := protobuild.NewPackageSet(seed1NoDeps{}, files)
	if err != nil {
		t.Fatal(err)
	}
	out, err := ps.CompilePackage(context.Background(), pkgName)
	if err != nil {
		t.Fatalf("compile: %s", err)
	}
	img := &source_j5pb.SourceImage{
		Packages: []*source_j5pb.PackageInfo{{Name: pkgName, Label: "Test"}},
	}
	seen := map[string]bool{}
	var add func(fd protoreflect.FileDescriptor)
	add = func(fd protoreflect.FileDescriptor) {
		if seen[fd.Path()] {
			return
		}
		seen[fd.Path()] = true
		imports := fd.Imports()
		for i := 0; i < imports.Len(); i++ {
			add(imports.Get(i).FileDescriptor)
		}
		img.File = append(img.File, protodesc.ToFileDescriptorProto(fd))
	}
	for _, f := range out {
		add(f)
		img.SourceFilenames = append(img.SourceFilenames, f.Path())
	}
	return img
}

func seed1Pipeline(t *testing.T, src string) *source_j5pb.API {
	t.Helper()
	img := seed1Image(t, seed1Files{"foo/v1/foo.j5s": src}, "foo.v1")

	srcAPI, err := structure.APIFromImage(img)
	if err != nil {
		t.Fatalf("structure.APIFromImage: %s", err)
	}
	clientAPI, err := APIFromSource(srcAPI)
	if err != nil {
		t.Fatalf("j5client.APIFromSource: %s", err)
	}
	if _, err := j5codec.NewCodec().ProtoToJSON(clientAPI.ProtoReflect()); err != nil {
		t.Fatalf("ProtoToJSON(client API): %s", err)
	}
	doc, err := export.BuildSwagger(clientAPI)
	if err != nil {
		t.Fatalf("export.BuildSwagger: %s", err)
	}
	if _, err := json.Marshal(doc); err != nil {
		t.Fatalf("json.Marshal(swagger): %s", err)
	}
	return srcAPI
}

// seed1TopicMessages maps the name of every topic message in the source API
// to the name of its schema.
func seed1TopicMessages(api *source_j5pb.API) map[string]string {
	got := map[string]string{}
	for _, pkg := range api.Packages {
		for _, sub := range pkg.SubPackages {
			for _, topic := range sub.Topics {
				for _, msg := range topic.Messages {
					got[msg.Name] = msg.Schema
				}
			}
		}
	}
	return got
}

func seed1Check(t *testing.T, src string, want map[string]string) {
	t.Helper()
	api := seed1Pipeline(t, src)
	got := seed1TopicMessages(api)
	for key, schema := range want {
		if got[key] != schema {
			t.Errorf("topic message %s: want schema %q, got %q (all: %v)", key, schema, got[key], got)
		}
	}
	if len(got) != len(want) {
		t.Errorf("want %d topic messages, got %v", len(want), got)
	}
}

// Ordinary names: passes with and without the change.
func TestSeed1PlainTopicNames(t *testing.T) {
	seed1Check(t, strings.Join([]string{
		"package foo.v1",
		"",
		"topic Foo publish {",
		"  message PostFoo {",
		"    field fooId key:id62",
		"  }",
		"}",
	}, "\n"), map[string]string{
		"PostFoo": "PostFooMessage",
	})
}

// A message name with an acronym.
func TestSeed1AcronymMessageName(t *testing.T) {
	seed1Check(t, strings.Join([]string{
		"package foo.v1",
		"",
		"topic Foo publish {",
		"  message PostFooID {",
		"    field fooId key:id62",
		"  }",
		"  message PostBar {",
		"    field barId key:id62",
		"  }",
		"}",
	}, "\n"), map[string]string{
		"PostFooID": "PostFooIDMessage",
		"PostBar":   "PostBarMessage",
	})
}

// A single-message topic takes the message name from the topic name; here
// the topic name has a digit followed by a lower-case letter.
func TestSeed1DigitTopicName(t *testing.T) {
	seed1Check(t, strings.Join([]string{
		"package foo.v1",
		"",
		"topic Sync2fa event {",
		"  message {",
		"    field fooId key:id62",
		"  }",
		"}",
	}, "\n"), map[string]string{
		"Sync2fa": "Sync2faMessage",
	})
}

// reqres topics derive two services from the one name.
func TestSeed1ReqResAcronym(t *testing.T) {
	seed1Check(t, strings.Join([]string{
		"package foo.v1",
		"",
		"topic FetchURL reqres {",
		"  request {",
		"    field url string",
		"  }",
		"  reply {",
		"    field body string",
		"  }",
		"}",
	}, "\n"), map[string]string{
		"FetchURLRequest": "FetchURLRequestMessage",
		"FetchURLReply":   "FetchURLReplyMessage",
	})
}
