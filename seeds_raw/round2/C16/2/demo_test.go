// copy to: internal/j5client/
package j5client

// Demonstration for seeded change C16/2: a GET method whose query parameters
// are the only place a named schema (enum / oneof / object) is used. The j5s
// package is compiled, then pushed through image -> source API -> client API
// -> J5 JSON -> swagger, and every schema reference must resolve.

import (
	"context"
	"encoding/json"
	"fmt"
	"sort"
	"strings"
	"testing"

	"github.com/pentops/j5/gen/j5/client/v1/client_j5pb"
	"github.com/pentops/j5/gen/j5/source/v1/source_j5pb"
	"github.com/pentops/j5/internal/export"
	"github.com/pentops/j5/internal/j5s/protobuild"
	"github.com/pentops/j5/internal/structure"
	"github.com/pentops/j5/lib/j5codec"
	"google.golang.org/protobuf/reflect/protodesc"
	"google.golang.org/protobuf/reflect/protoreflect"
	"google.golang.org/protobuf/types/descriptorpb"
)

type seed2Files map[string]string

func (pf seed2Files) ListPackages() []string {
	seen := map[string]bool{}
	out := []string{}
	for k := range pf {
		idx := strings.LastIndex(k, "/")
		pkg := strings.ReplaceAll(k[:idx], "/", ".")
		if !seen[pkg] {
			seen[pkg] = true
			out = append(out, pkg)
		}
	}
	sort.Strings(out)
	return out
}

func (pf seed2Files) ListSourceFiles(ctx context.Context, prefix string) ([]string, error) {
	out := []string{}
	for k := range pf {
		if strings.HasPrefix(k, prefix) {
			out = append(out, k)
		}
	}
	sort.Strings(out)
	return out, nil
}

func (pf seed2Files) GetLocalFile(ctx context.Context, filename string) ([]byte, error) {
	if d, ok := pf[filename]; ok {
		return []byte(d), nil
	}
	return nil, fmt.Errorf("file not found: %s", filename)
}

type seed2NoDeps struct{}

func (seed2NoDeps) ListDependencyFiles(root string) []string { return nil }
func (seed2NoDeps) GetDependencyFile(filename string) (*descriptorpb.FileDescriptorProto, error) {
	return nil, fmt.Errorf("no dependency %s", filename)
}

// seed2Image compiles the j5s package and wraps every resulting file (with
// its imports, dependencies first) into a source image.
func seed2Image(t *testing.T, files seed2Files, pkgName string) *source_j5pb.SourceImage {
	t.Helper()
	ps, err := protobuild.NewPackageSet(seed2NoDeps{}, files)
	if err != nil {
		t.Fatal(err)
	}
	out, err := ps.CompilePackage(context.Background(), pkgName)
	if err != nil {
		t.Fatalf("compile: %s", err)
	}
	img := &source_j5pb.SourceImage{
		Packages: []*source_j5pb.PackageInfo{{Name: pkgName, Label: "Test"}},
	}
	seen := map[string]bool{}
	var add func(fd protoreflect.FileDescriptor)
	add = func(fd protoreflect.FileDescriptor) {
		if seen[fd.Path()] {
			return
		}
		seen[fd.Path()] = true
		imports := fd.Imports()
		for i := 0; i < imports.Len(); i++ {
			add(imports.Get(i).FileDescriptor)
		}
		img.File = append(img.File, protodesc.ToFileDescriptorProto(fd))
	}
	for _, f := range out {
		add(f)
		img.SourceFilenames = append(img.SourceFilenames, f.Path())
	}
	return img
}

func seed2Pipeline(t *testing.T, src string) (*client_j5pb.API, map[string]interface{}) {
	t.Helper()
	img := seed2Image(t, seed2Files{"foo/v1/foo.j5s": src}, "foo.v1")

	srcAPI, err := structure.APIFromImage(img)
	if err != nil {
		t.Fatalf("structure.APIFromImage: %s", err)
	}
	clientAPI, err := APIFromSource(srcAPI)
	if err != nil {
		t.Fatalf("j5client.APIFromSource: %s", err)
	}
	if _, err := j5codec.NewCodec().ProtoToJSON(clientAPI.ProtoReflect()); err != nil {
		t.Fatalf("ProtoToJSON(client API): %s", err)
	}
	doc, err := export.BuildSwagger(clientAPI)
	if err != nil {
		t.Fatalf("export.BuildSwagger: %s", err)
	}
	bb, err := json.Marshal(doc)
	if err != nil {
		t.Fatalf("json.Marshal(swagger): %s", err)
	}
	generic := map[string]interface{}{}
	if err := json.Unmarshal(bb, &generic); err != nil {
		t.Fatalf("json.Unmarshal(swagger): %s", err)
	}
	return clientAPI, generic
}

// seed2SwaggerRefs collects every "$ref" value in the document.
func seed2SwaggerRefs(node interface{}, into map[string]bool) {
	switch nt := node.(type) {
	case map[string]interface{}:
		for key, val := range nt {
			if str, ok := val.(string); ok && key == "$ref" {
				into[str] = true
				continue
			}
			seed2SwaggerRefs(val, into)
		}
	case []interface{}:
		for _, val := range nt {
			seed2SwaggerRefs(val, into)
		}
	}
}

// seed2Check runs the pipeline and asserts that the client API holds the
// wanted schemas (keyed as in client_j5pb.Package.Schemas) and that no $ref
// in the swagger document dangles.
func seed2Check(t *testing.T, src string, wantSchemas ...string) {
	t.Helper()
	clientAPI, doc := seed2Pipeline(t, src)

	have := map[string]bool{}
	for _, pkg := range clientAPI.Packages {
		for key := range pkg.Schemas {
			have[pkg.Name+"."+key] = true
		}
	}
	for _, want := range wantSchemas {
		if !have[want] {
			t.Errorf("client API is missing schema %s, has %v", want, have)
		}
	}

	components := doc["components"].(map[string]interface{})["schemas"].(map[string]interface{})
	refs := map[string]bool{}
	seed2SwaggerRefs(doc, refs)
	for ref := range refs {
		name := strings.TrimPrefix(ref, "#/definitions/")
		if _, ok := components[name]; !ok {
			t.Errorf("swagger $ref %q has no entry in components.schemas", ref)
		}
	}
}

// The enum is a query parameter, but is also used by the response: it is
// reachable either way. Passes with and without the change.
func TestSeed2QueryEnumAlsoInResponse(t *testing.T) {
	seed2Check(t, strings.Join([]string{
		"package foo.v1",
		"",
		"enum Status {",
		"  option ACTIVE",
		"  option INACTIVE",
		"}",
		"",
		"service Foo {",
		"  basePath = \"/foo/v1\"",
		"  method ListBars {",
		"    httpMethod = \"GET\"",
		"    httpPath = \"/bars\"",
		"    request {",
		"      field status enum:Status",
		"    }",
		"    response {",
		"      field status enum:Status",
		"    }",
		"  }",
		"}",
	}, "\n"), "foo.v1.Status")
}

// The same request with a body (POST): passes with and without the change.
func TestSeed2BodyEnum(t *testing.T) {
	seed2Check(t, strings.Join([]string{
		"package foo.v1",
		"",
		"enum Status {",
		"  option ACTIVE",
		"  option INACTIVE",
		"}",
		"",
		"service Foo {",
		"  basePath = \"/foo/v1\"",
		"  method ListBars {",
		"    httpMethod = \"POST\"",
		"    httpPath = \"/bars/:kind\"",
		"    request {",
		"      field kind string",
		"      field status enum:Status",
		"    }",
		"    response {",
		"      field names array:string",
		"    }",
		"  }",
		"}",
	}, "\n"), "foo.v1.Status")
}

// The enum is used only as a query parameter of a GET method.
func TestSeed2QueryOnlyEnum(t *testing.T) {
	seed2Check(t, strings.Join([]string{
		"package foo.v1",
		"",
		"enum Status {",
		"  option ACTIVE",
		"  option INACTIVE",
		"}",
		"",
		"service Foo {",
		"  basePath = \"/foo/v1\"",
		"  method ListBars {",
		"    httpMethod = \"GET\"",
		"    httpPath = \"/bars/:kind\"",
		"    request {",
		"      field kind string",
		"      field status enum:Status",
		"    }",
		"    response {",
		"      field names array:string",
		"    }",
		"  }",
		"}",
	}, "\n"), "foo.v1.Status")
}

// A recursive object and an inline (nested) object used only in the query
// of a GET method; the nested one lives in the .service sub-package.
func TestSeed2QueryOnlyObjects(t *testing.T) {
	seed2Check(t, strings.Join([]string{
		"package foo.v1",
		"",
		"object Filter {",
		"  field name string",
		"  field not object:Filter",
		"}",
		"",
		"service Foo {",
		"  basePath = \"/foo/v1\"",
		"  method GetBar {",
		"    httpMethod = \"GET\"",
		"    httpPath = \"/bar/:barId\"",
		"    request {",
		"      field barId key:id62",
		"      field filters array:object:Filter",
		"      field window object {",
		"        field from date",
		"        field to date",
		"      }",
		"    }",
		"    response {",
		"      field name string",
		"    }",
		"  }",
		"}",
	}, "\n"), "foo.v1.Filter", "foo.v1.service.GetBarRequest_Window")
}
