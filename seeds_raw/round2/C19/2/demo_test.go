// copy to: internal/bcl/internal/parser/
package parser

import (
	"strings"
	"testing"
)

// demo2ApplyEdits checks the well-formedness of the edits (ascending, not
// overlapping, start <= end <= number of lines) and applies them line-wise,
// the way an LSP client applies TextEdits with character 0.
func demo2ApplyEdits(t *testing.T, input string, edits []FmtDiff) string {
	t.Helper()
	lines := strings.Split(input, "\n")
	prevEnd := 0
	for i, e := range edits {
		if e.FromLine > e.ToLine {
			t.Fatalf("edit %d inverted: %d > %d", i, e.FromLine, e.ToLine)
		}
		if e.ToLine > len(lines) {
			t.Fatalf("edit %d ends at %d, document has %d lines", i, e.ToLine, len(lines))
		}
		if e.FromLine < prevEnd {
			t.Fatalf("edit %d [%d,%d) overlaps or precedes the previous edit ending at %d", i, e.FromLine, e.ToLine, prevEnd)
		}
		prevEnd = e.ToLine
	}
	var sb strings.Builder
	at := 0
	for _, e := range edits {
		for ; at < e.FromLine; at++ {
			sb.WriteString(lines[at])
			sb.WriteString("\n")
		}
		sb.WriteString(e.NewText)
		at = e.ToLine
	}
	for ; at < len(lines); at++ {
		sb.WriteString(lines[at])
		if at < len(lines)-1 {
			sb.WriteString("\n")
		}
	}
	return sb.String()
}

func demo2Check(t *testing.T, input string) {
	t.Helper()
	want, err := Fmt(input)
	if err != nil {
		t.Fatalf("Fmt rejects the input: %v", err)
	}
	edits, err := FmtDiffs(input)
	if err != nil {
		t.Fatalf("FmtDiffs failed: %v", err)
	}
	got := demo2ApplyEdits(t, input, edits)
	if strings.TrimRight(got, "\n") != strings.TrimRight(want, "\n") {
		t.Errorf("edits applied != Fmt\ninput: %q\nedits: %#v\ngot:   %q\nwant:  %q", input, edits, got, want)
	}
}

func TestDemoHeaderEndingInMultiLineQualifier(t *testing.T) {
	for name, input := range map[string]string{
		// a body-less block header whose last part is a qualifier written as
		// a string with an escaped newline, as the last statement of the file
		"last statement":              "x = 1\n\nblock foo:\"a\\\nb\"",
		"last statement with newline": "x = 1\nblock foo bar : \"a\\\nb\"\n",
		"last statement with comment": "block foo bar:q1 : \"a\\\nb\" // note\n\n",
		// controls: the same string as a tag, the same qualifier followed by
		// a body or a description, a plain qualifier, and the same header
		// followed by another statement
		"control tag escaped newline":    "block \"a\\\nb\"\n",
		"control qualifier with body":    "block foo : \"a\\\nb\" { // c\n\tc = 1\n}\n",
		"control qualifier description":  "block foo : \"a\\\nb\" | text\n",
		"control plain qualifier":        "block a.b : qualifier // comment\n",
		"control followed by statement":  "block foo : \"a\\\nb\"\nc = 1\n",
		"control followed by blank line": "block foo : \"a\\\nb\"\n\nc = 1\n",
	} {
		t.Run(name, func(t *testing.T) {
			demo2Check(t, input)
		})
	}
}
