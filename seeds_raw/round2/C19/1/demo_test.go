// copy to: internal/bcl/internal/parser/
package parser

import (
	"strings"
	"testing"
)

// demoApplyEdits checks the well-formedness of the edits (ascending, not
// overlapping, start <= end <= number of lines) and applies them line-wise,
// the way an LSP client applies TextEdits with character 0.
func demoApplyEdits(t *testing.T, input string, edits []FmtDiff) string {
	t.Helper()
	lines := strings.Split(input, "\n")
	prevEnd := 0
	for i, e := range edits {
		if e.FromLine > e.ToLine {
			t.Fatalf("edit %d inverted: %d > %d", i, e.FromLine, e.ToLine)
		}
		if e.ToLine > len(lines) {
			t.Fatalf("edit %d ends at %d, document has %d lines", i, e.ToLine, len(lines))
		}
		if e.FromLine < prevEnd {
			t.Fatalf("edit %d [%d,%d) overlaps or precedes the previous edit ending at %d", i, e.FromLine, e.ToLine, prevEnd)
		}
		prevEnd = e.ToLine
	}
	var sb strings.Builder
	at := 0
	for _, e := range edits {
		for ; at < e.FromLine; at++ {
			sb.WriteString(lines[at])
			sb.WriteString("\n")
		}
		sb.WriteString(e.NewText)
		at = e.ToLine
	}
	for ; at < len(lines); at++ {
		sb.WriteString(lines[at])
		if at < len(lines)-1 {
			sb.WriteString("\n")
		}
	}
	return sb.String()
}

func demoCheck(t *testing.T, input string) {
	t.Helper()
	want, err := Fmt(input)
	if err != nil {
		t.Fatalf("Fmt rejects the input: %v", err)
	}
	edits, err := FmtDiffs(input)
	if err != nil {
		t.Fatalf("FmtDiffs failed: %v", err)
	}
	got := demoApplyEdits(t, input, edits)
	if strings.TrimRight(got, "\n") != strings.TrimRight(want, "\n") {
		t.Errorf("edits applied != Fmt\ninput: %q\nedits: %#v\ngot:   %q\nwant:  %q", input, edits, got, want)
	}
}

func TestDemoSharedLineMultiLineFragment(t *testing.T) {
	for name, input := range map[string]string{
		// a block comment opened on the line of a closing brace and
		// continued over the following lines
		"close then block comment": "a {\n\tb = 1\n} /* trailing\n   comment */\nc = 2\n",
		// a one-line block comment followed, on its line, by a description
		// that continues on the next lines
		"comment then description": "/* c */ | line one\n| line two\nx = 1\n",
		// a closing brace followed by an assignment whose string has an
		// escaped newline
		"close then escaped newline": "a {\n} b = \"x\\\ny\"\nc = 2\n",
		// controls: shared lines where nothing continues
		"control close close":      "a {\nb {\n} }\n",
		"control comment statement": "/* c */ a = 1\nb = 2\n",
	} {
		t.Run(name, func(t *testing.T) {
			demoCheck(t, input)
		})
	}
}
