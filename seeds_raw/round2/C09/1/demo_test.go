// copy to: internal/bcl/internal/parser/
package parser

import (
	"fmt"
	"strings"
	"testing"
)

// seedDump renders a parsed file without positions. Descriptions are rendered
// as their words, with "¶" between paragraphs, which is what the formatter
// promises to keep.
func seedDump(sb *strings.Builder, depth int, body Body) {
	in := strings.Repeat("  ", depth)
	tag := func(tv TagValue) string {
		s := ""
		switch tv.Mark {
		case TagMarkBang:
			s = "!"
		case TagMarkQuestion:
			s = "?"
		}
		if tv.Reference != nil {
			s += "ref:" + tv.Reference.String()
		}
		if tv.Value != nil {
			s += fmt.Sprintf("val:%#v", *tv.Value)
		}
		return s
	}
	desc := func(v string) string {
		paras := []string{}
		for _, para := range strings.Split(v, "\n\n") {
			words := strings.Fields(para)
			if len(words) == 0 {
				continue
			}
			paras = append(paras, strings.Join(words, " "))
		}
		return strings.Join(paras, " ¶ ")
	}
	comment := func(sn SourceNode) string {
		if sn.Comment == nil {
			return ""
		}
		return fmt.Sprintf(" //%q", sn.Comment.Value)
	}
	for _, stmt := range body.Statements {
		switch s := stmt.(type) {
		case *Block:
			fmt.Fprintf(sb, "%sblock %s", in, s.Type.String())
			for _, t := range s.Tags {
				fmt.Fprintf(sb, " [%s]", tag(t))
			}
			for _, q := range s.Qualifiers {
				fmt.Fprintf(sb, " :[%s]", tag(q))
			}
			if s.Description != nil {
				fmt.Fprintf(sb, " | %s", desc(s.Description.Value))
			}
			fmt.Fprintf(sb, " open=%v%s\n", s.Open, comment(s.SourceNode))
			seedDump(sb, depth+1, s.Body)
		case *Assignment:
			fmt.Fprintf(sb, "%sassign %s append=%v %#v%s\n", in, s.Key.String(), s.Append, s.Value, comment(s.SourceNode))
		case *Description:
			fmt.Fprintf(sb, "%sdescription %s\n", in, desc(s.Value))
		default:
			fmt.Fprintf(sb, "%s%T\n", in, s)
		}
	}
}

func seedTree(t *testing.T, src string) string {
	t.Helper()
	file, err := ParseFile(src, true)
	if err != nil {
		t.Fatalf("source is not accepted by the parser: %v\n%s", err, src)
	}
	sb := &strings.Builder{}
	seedDump(sb, 0, file.Body)
	return sb.String()
}

func TestSeedFmtLongWordInDescription(t *testing.T) {
	// the third word is longer than the 76 columns a description gets at
	// indent 1
	url := "https://example.com/" + strings.Repeat("segment/", 9) + "index.html"
	if len(url) <= 76 {
		t.Fatalf("test setup, url is %d long", len(url))
	}

	input := strings.Join([]string{
		"object Foo {",
		"\t| See the reference at",
		"\t| " + url + " before changing this",
		"\t| object.",
		"",
		"\tkey = \"value\"",
		"}",
		"",
	}, "\n")

	before := seedTree(t, input)

	once, err := Fmt(input)
	if err != nil {
		t.Fatal(err)
	}
	after := seedTree(t, once)

	if before != after {
		t.Errorf("formatting changed the document\n--- input\n%s\n--- formatted\n%s\n--- tree before\n%s\n--- tree after\n%s", input, once, before, after)
	}

	twice, err := Fmt(once)
	if err != nil {
		t.Fatal(err)
	}
	if once != twice {
		t.Errorf("formatting is not idempotent\n--- once\n%s\n--- twice\n%s", once, twice)
	}
}
