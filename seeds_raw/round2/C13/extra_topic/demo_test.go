// copy to: internal/j5s/protobuild/
package protobuild

// Demonstration for seeded change C13/1.
//
// Compiles a j5s package twice: P, and e(P) where e appends a second message at
// the end of a publish topic. Every message / field / service / method that
// exists in compile(P) must exist, unchanged, in compile(e(P)).

import (
	"context"
	"fmt"
	"sort"
	"strings"
	"testing"

	"google.golang.org/protobuf/reflect/protoreflect"
	"google.golang.org/protobuf/types/descriptorpb"
)

type c13aFiles map[string]string

func (f c13aFiles) GetLocalFile(_ context.Context, name string) ([]byte, error) {
	if body, ok := f[name]; ok {
		return []byte(body), nil
	}
	return nil, fmt.Errorf("file not found: %s", name)
}
func (f c13aFiles) ListPackages() []string { return []string{"t.v1"} }
func (f c13aFiles) ListSourceFiles(_ context.Context, prefix string) ([]string, error) {
	var out []string
	for k := range f {
		if strings.HasPrefix(k, prefix) {
			out = append(out, k)
		}
	}
	sort.Strings(out)
	return out, nil
}

type c13aNoDeps struct{}

func (c13aNoDeps) ListDependencyFiles(string) []string { return nil }
func (c13aNoDeps) GetDependencyFile(name string) (*descriptorpb.FileDescriptorProto, error) {
	return nil, fmt.Errorf("file not found: %s", name)
}

// c13aIdentity compiles the single-file package t.v1 and returns the wire
// identity of everything in it, keyed by full name.
func c13aIdentity(t *testing.T, src string) map[string]string {
	t.Helper()
	ps, err := NewPackageSet(c13aNoDeps{}, c13aFiles{"t/v1/a.j5s": "package t.v1\n" + src})
	if err != nil {
		t.Fatal(err)
	}
	out, err := ps.CompilePackage(context.Background(), "t.v1")
	if err != nil {
		t.Fatalf("compile: %v", err)
	}
	id := map[string]string{}
	walkEnums := func(eds protoreflect.EnumDescriptors) {
		for i := 0; i < eds.Len(); i++ {
			ed := eds.Get(i)
			id["enum "+string(ed.FullName())] = "-"
			for j := 0; j < ed.Values().Len(); j++ {
				v := ed.Values().Get(j)
				id["value "+string(v.FullName())] = fmt.Sprint(v.Number())
			}
		}
	}
	var walkMsgs func(protoreflect.MessageDescriptors)
	walkMsgs = func(mds protoreflect.MessageDescriptors) {
		for i := 0; i < mds.Len(); i++ {
			md := mds.Get(i)
			id["message "+string(md.FullName())] = "-"
			for j := 0; j < md.Fields().Len(); j++ {
				f := md.Fields().Get(j)
				typ := f.Kind().String()
				if f.Message() != nil {
					typ += ":" + string(f.Message().FullName())
				}
				if f.Enum() != nil {
					typ += ":" + string(f.Enum().FullName())
				}
				id["field "+string(f.FullName())] = fmt.Sprintf("number=%d type=%s label=%s optional=%v json=%s",
					f.Number(), typ, f.Cardinality(), f.HasOptionalKeyword(), f.JSONName())
			}
			walkMsgs(md.Messages())
			walkEnums(md.Enums())
		}
	}
	for _, f := range out {
		if !strings.HasPrefix(string(f.Package()), "t.v1") {
			continue
		}
		walkMsgs(f.Messages())
		walkEnums(f.Enums())
		for i := 0; i < f.Services().Len(); i++ {
			sd := f.Services().Get(i)
			id["service "+string(sd.FullName())] = "-"
			for j := 0; j < sd.Methods().Len(); j++ {
				m := sd.Methods().Get(j)
				id["method "+string(m.FullName())] = fmt.Sprintf("in=%s out=%s", m.Input().FullName(), m.Output().FullName())
			}
		}
	}
	return id
}

func c13aCheckAppend(t *testing.T, before, after string) {
	t.Helper()
	idBefore := c13aIdentity(t, before)
	idAfter := c13aIdentity(t, after)
	keys := make([]string, 0, len(idBefore))
	for k := range idBefore {
		keys = append(keys, k)
	}
	sort.Strings(keys)
	for _, k := range keys {
		got, ok := idAfter[k]
		if !ok {
			t.Errorf("%s: present before the append, missing after it", k)
		} else if got != idBefore[k] {
			t.Errorf("%s: changed by the append: %q -> %q", k, idBefore[k], got)
		}
	}
}

func TestC13AppendMessageToPublishTopic(t *testing.T) {
	before := `
topic Orders publish {
	message OrderPlaced {
		field orderId string
		field amount integer:INT64
	}
}
`
	// the same topic, with a second message appended at the end
	after := `
topic Orders publish {
	message OrderPlaced {
		field orderId string
		field amount integer:INT64
	}
	message OrderCancelled {
		field orderId string
	}
}
`
	c13aCheckAppend(t, before, after)

}
