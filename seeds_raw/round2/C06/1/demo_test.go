// copy to: internal/codec/
package codec

import (
	"fmt"
	"testing"

	"github.com/pentops/flowtest/prototest"
	"github.com/pentops/j5/gen/test/schema/v1/schema_testpb"
	"google.golang.org/protobuf/reflect/protoreflect"
	"google.golang.org/protobuf/types/dynamicpb"
)

// decodeNoPanic runs JSONToProto and converts a panic into a test failure.
func seedC06_1_decodeNoPanic(t *testing.T, input string, msg protoreflect.Message) (err error) {
	t.Helper()
	defer func() {
		if r := recover(); r != nil {
			t.Errorf("decoder panicked on %s: %v", input, r)
			err = fmt.Errorf("panic: %v", r)
		}
	}()
	return NewCodec().JSONToProto([]byte(input), msg)
}

// A null element of an array (or a null value in a map) of floats must be
// answered with an error, like it is for every other scalar kind.
func TestSeedC06_1_NullInFloatCollections(t *testing.T) {
	for _, input := range []string{
		`{"rFloat": [null]}`,
		`{"rFloat": [1.5, null, 2.5]}`,
	} {
		msg := (&schema_testpb.FullSchema{}).ProtoReflect()
		err := seedC06_1_decodeNoPanic(t, input, msg)
		if err == nil {
			t.Errorf("expected an error for %s", input)
		}
	}

	desc := prototest.SingleMessage(t, "map<string, double> vals = 1;", "repeated double nums = 2;")
	for _, input := range []string{
		`{"vals": {"a": null}}`,
		`{"vals": {"a": 1, "b": null}}`,
		`{"nums": [null]}`,
	} {
		msg := dynamicpb.NewMessage(desc)
		err := seedC06_1_decodeNoPanic(t, input, msg.ProtoReflect())
		if err == nil {
			t.Errorf("expected an error for %s", input)
		}
	}

	// sanity: well-formed input for the same fields still decodes
	msg := (&schema_testpb.FullSchema{}).ProtoReflect()
	if err := seedC06_1_decodeNoPanic(t, `{"rFloat": [1.5, "2.5"], "sFloat": 3}`, msg); err != nil {
		t.Errorf("valid input rejected: %v", err)
	}
}
