// copy to: internal/codec/
package codec

import (
	"fmt"
	"net/url"
	"testing"

	"github.com/pentops/j5/gen/test/schema/v1/schema_testpb"
)

// queryNoPanic runs QueryToProto and converts a panic into a test failure.
func seedC06_2_queryNoPanic(t *testing.T, query url.Values) (err error) {
	t.Helper()
	defer func() {
		if r := recover(); r != nil {
			t.Errorf("query decoder panicked on %#v: %v", query, r)
			err = fmt.Errorf("panic: %v", r)
		}
	}()
	msg := (&schema_testpb.FullSchema{}).ProtoReflect()
	return NewCodec().QueryToProto(query, msg)
}

// A key that names no property at all (empty, or separators only) must be
// answered with an error.
func TestSeedC06_2_QueryKeyWithoutSegments(t *testing.T) {
	parsed, err := url.ParseQuery("=x&sString=a") // what "?=x&sString=a" arrives as
	if err != nil {
		t.Fatal(err)
	}

	for _, query := range []url.Values{
		{"": {"x"}},
		{".": {"x"}},
		{"..": {"x", "y"}},
		parsed,
	} {
		if err := seedC06_2_queryNoPanic(t, query); err == nil {
			t.Errorf("expected an error for %#v", query)
		}
	}

	// sanity: ordinary and dotted keys still decode
	if err := seedC06_2_queryNoPanic(t, url.Values{
		"sString":    {"a"},
		"sBar.barId": {"id"},
		"rString":    {"r1", "r2"},
	}); err != nil {
		t.Errorf("valid query rejected: %v", err)
	}
}
