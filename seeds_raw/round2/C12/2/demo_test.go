// copy to: internal/j5s/protobuild/
package protobuild

// Demonstration for C12 seed 2: in / not-in rules of a j5s enum field whose
// enum is declared in a hand-written .proto file of the same package, with
// value numbers that are not 0,1,2,... in declaration order.
//
// Uses the helpers of the package's own tests (newTestFiles, newTestDeps,
// testCompile) to compile the package to linked descriptors, then validates
// dynamic messages of the compiled type with protovalidate.

import (
	"testing"

	"github.com/bufbuild/protovalidate-go"
	"google.golang.org/protobuf/reflect/protoreflect"
	"google.golang.org/protobuf/types/dynamicpb"
)

func TestDemoProtoEnumInNotIn(t *testing.T) {
	tf := newTestFiles()

	tf.tAddProtoFile("local/v1/level.proto",
		"enum Level {",
		"  LEVEL_UNSPECIFIED = 0;",
		"  LEVEL_LOW = 1;",
		"  LEVEL_HIGH = 5;",
		"  LEVEL_MAX = 10;",
		"}",
		// contiguous numbering, as a control
		"enum Plain {",
		"  PLAIN_UNSPECIFIED = 0;",
		"  PLAIN_A = 1;",
		"  PLAIN_B = 2;",
		"}",
	)

	tf.tAddJ5SFile("local/v1/foo.j5s",
		"object Foo {",
		"  field only enum:Level {",
		`    rules.in = ["LOW", "HIGH"]`,
		"  }",
		"  field never enum:Level {",
		`    rules.notIn = ["MAX"]`,
		"  }",
		"  field plain enum:Plain {",
		`    rules.in = ["B"]`,
		"  }",
		"}",
	)

	files := testCompile(t, tf, newTestDeps(), "local.v1")
	fd := files.expectFile(t, "local/v1/foo.j5s.proto")

	md := fd.Messages().ByName("Foo")
	if md == nil {
		t.Fatal("message Foo not compiled")
	}

	v, err := protovalidate.New()
	if err != nil {
		t.Fatal(err)
	}

	// baseline values which satisfy every rule, so that each case below
	// varies one field only
	base := map[string]int32{
		"only":  1, // LOW
		"never": 1, // LOW
		"plain": 2, // B
	}

	for _, tc := range []struct {
		field  string
		number int32
		wantOK bool
	}{
		{"only", 1, true},   // LOW, listed
		{"only", 5, true},   // HIGH, listed
		{"only", 10, false}, // MAX, not listed
		{"only", 0, false},  // UNSPECIFIED, not listed
		{"only", 2, false},  // not a defined value

		{"never", 5, true},   // HIGH, allowed
		{"never", 10, false}, // MAX, excluded
		{"never", 3, false},  // not a defined value

		{"plain", 2, true},  // B, listed
		{"plain", 1, false}, // A, not listed
	} {
		msg := dynamicpb.NewMessage(md)
		for name, num := range base {
			msg.Set(md.Fields().ByName(protoreflect.Name(name)), protoreflect.ValueOfEnum(protoreflect.EnumNumber(num)))
		}
		field := md.Fields().ByName(protoreflect.Name(tc.field))
		msg.Set(field, protoreflect.ValueOfEnum(protoreflect.EnumNumber(tc.number)))

		err := v.Validate(msg)
		if tc.wantOK && err != nil {
			t.Errorf("%s=%d: want accepted, got: %v", tc.field, tc.number, err)
		}
		if !tc.wantOK && err == nil {
			t.Errorf("%s=%d: want rejected, got accepted", tc.field, tc.number)
		}
	}
}
