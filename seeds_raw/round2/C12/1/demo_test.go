// copy to: internal/j5s/protobuild/
package protobuild

// Demonstration for C12 seed 1: string maxLength counts characters, not bytes.
//
// Uses the helpers of the package's own tests (newTestFiles, newTestDeps,
// testCompile) to compile a j5s source to a linked descriptor, then validates
// dynamic messages of the compiled type with protovalidate.

import (
	"testing"

	"github.com/bufbuild/protovalidate-go"
	"google.golang.org/protobuf/reflect/protoreflect"
	"google.golang.org/protobuf/types/dynamicpb"
)

func TestDemoStringMaxLengthCountsCharacters(t *testing.T) {
	tf := newTestFiles()
	tf.tAddJ5SFile("local/v1/foo.j5s",
		"object Foo {",
		"  field name string {",
		"    rules.minLength = 2",
		"    rules.maxLength = 5",
		"  }",
		"}",
	)
	files := testCompile(t, tf, newTestDeps(), "local.v1")
	fd := files.expectFile(t, "local/v1/foo.j5s.proto")

	md := fd.Messages().ByName("Foo")
	if md == nil {
		t.Fatal("message Foo not compiled")
	}
	field := md.Fields().ByName("name")

	v, err := protovalidate.New()
	if err != nil {
		t.Fatal(err)
	}

	for _, tc := range []struct {
		value  string
		wantOK bool
	}{
		// plain ASCII around both bounds
		{"a", false},
		{"ab", true},
		{"abcde", true},
		{"abcdef", false},
		// five characters, more than five bytes: within maxLength = 5
		{"héllo", true},
		{"ありがとう", true},
		{"ééééé", true},
		// six characters: above maxLength
		{"éééééé", false},
		// one character of two bytes: below minLength = 2
		{"é", false},
	} {
		msg := dynamicpb.NewMessage(md)
		msg.Set(field, protoreflect.ValueOfString(tc.value))
		err := v.Validate(msg)
		if tc.wantOK && err != nil {
			t.Errorf("name=%q (%d chars, %d bytes): want accepted, got: %v", tc.value, len([]rune(tc.value)), len(tc.value), err)
		}
		if !tc.wantOK && err == nil {
			t.Errorf("name=%q (%d chars, %d bytes): want rejected, got accepted", tc.value, len([]rune(tc.value)), len(tc.value))
		}
	}
}
