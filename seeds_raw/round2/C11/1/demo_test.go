// copy to: internal/bcl/internal/parser/
package parser

import (
	"strings"
	"testing"
	"unicode/utf8"

	"github.com/pentops/j5/internal/bcl/errpos"
)

// demoPointInside reports whether p addresses a rune of the input, or the
// EOL / EOF column just past the last rune of one of its lines.
func demoPointInside(lines []string, p errpos.Point) bool {
	if p.Line < 0 || p.Line >= len(lines) {
		return false
	}
	return p.Column >= 0 && p.Column <= utf8.RuneCountInString(lines[p.Line])
}

func demoNotAfter(a, b errpos.Point) bool {
	if a.Line != b.Line {
		return a.Line < b.Line
	}
	return a.Column <= b.Column
}

// Every diagnostic returned by ParseFile must carry a position which lies
// inside the input, with Start not after End - in both modes.
func TestDemoDiagnosticRangeInsideInput(t *testing.T) {
	inputs := map[string]string{
		// single line unexpected tokens
		"close":      "block Foo }",
		"bang":       "!",
		"array":      "a = [1, 2\nb = 2\n",
		"second val": "a = 1 2\n",
		// the unexpected token itself spans more than one line
		"block comment after value": "a = 1        /* trailing\n*/\n",
		"block comment after header": strings.Join([]string{
			"object Foo {",
			"  field name string   /* the name",
			"  of the thing */",
			"}",
			"",
		}, "\n"),
		"continued string after value": "a = 1                \"x\\\ny\"\n",
	}

	for name, input := range inputs {
		for _, failFast := range []bool{true, false} {
			_, err := ParseFile(input, failFast)
			if err == nil {
				t.Errorf("%s (failFast=%v): expected diagnostics, got a tree", name, failFast)
				continue
			}
			withSource, ok := errpos.AsErrorsWithSource(err)
			if !ok || len(withSource.Errors) == 0 {
				t.Errorf("%s (failFast=%v): expected a non-empty diagnostic list, got %T %v", name, failFast, err, err)
				continue
			}
			lines := strings.Split(input, "\n")
			for idx, diag := range withSource.Errors {
				if diag.Pos == nil {
					t.Errorf("%s (failFast=%v): diagnostic %d has no position", name, failFast, idx)
					continue
				}
				start, end := diag.Pos.Start, diag.Pos.End
				if !demoPointInside(lines, start) {
					t.Errorf("%s (failFast=%v): diagnostic %d start %d:%d is outside the input", name, failFast, idx, start.Line, start.Column)
				}
				if !demoPointInside(lines, end) {
					t.Errorf("%s (failFast=%v): diagnostic %d end %d:%d is outside the input", name, failFast, idx, end.Line, end.Column)
				}
				if !demoNotAfter(start, end) {
					t.Errorf("%s (failFast=%v): diagnostic %d starts at %d:%d, after its end %d:%d (%s)",
						name, failFast, idx, start.Line, start.Column, end.Line, end.Column, diag.Err)
				}
			}
			// rendering must not panic
			_ = withSource.HumanString(2)
		}
	}
}
