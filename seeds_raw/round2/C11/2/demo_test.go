// copy to: internal/bcl/internal/parser/
package parser

import (
	"fmt"
	"strings"
	"testing"

	"github.com/pentops/j5/internal/bcl/errpos"
)

// demoParse runs ParseFile and converts a panic into an error string.
func demoParse(input string, failFast bool) (file *File, err error, panicked string) {
	defer func() {
		if r := recover(); r != nil {
			panicked = fmt.Sprint(r)
		}
	}()
	file, err = ParseFile(input, failFast)
	return
}

// ParseFile is total: for any input, in either mode, it returns a tree or a
// non-empty list of diagnostics, and never panics.
func TestDemoParseFileIsTotal(t *testing.T) {
	inputs := map[string]string{
		"empty":                        "",
		"only newline":                 "\n",
		"description, no newline":      "| about this file",
		"description then statement":   "| about this file\nversion = 1\n",
		"two line description in body": "object Foo {\n  | line one\n  | line two\n}\n",
		"description then blank line":  "| about this file\n\n",
		"header description at EOF":    "object Foo | inline\n",
		"unterminated array":           "a = [1,\n",
		"trailing dot":                 "package foo.\n",
		// the last line of the file is a description, followed by the
		// final newline
		"file ends with description line": "version = 1\n| trailing note\n",
		"unclosed block ends with description": strings.Join([]string{
			"object Foo {",
			"  | Foo is a thing",
			"",
		}, "\n"),
		"description line then trailing spaces": "| note\n   ",
	}

	for name, input := range inputs {
		for _, failFast := range []bool{true, false} {
			file, err, panicked := demoParse(input, failFast)
			if panicked != "" {
				t.Errorf("%s (failFast=%v): ParseFile(%q) panicked: %s", name, failFast, input, panicked)
				continue
			}
			if err == nil {
				if file == nil {
					t.Errorf("%s (failFast=%v): neither tree nor diagnostics", name, failFast)
				}
				continue
			}
			withSource, ok := errpos.AsErrorsWithSource(err)
			if !ok || len(withSource.Errors) == 0 {
				t.Errorf("%s (failFast=%v): expected a non-empty diagnostic list, got %T %v", name, failFast, err, err)
				continue
			}
			_ = withSource.HumanString(2)
		}
	}
}
