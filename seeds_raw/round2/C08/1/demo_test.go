// copy to: internal/codec/
package codec

import (
	"encoding/json"
	"testing"

	"github.com/pentops/j5/gen/test/schema/v1/schema_testpb"
)

// Map keys are user data, not schema names: a key holding a quote, a
// backslash or a control character must be escaped like any other string, so
// that the output stays one well-formed JSON document whose member name is the
// key.
func TestSeedMapKeyEscaping(t *testing.T) {
	codec := NewCodec()

	for _, key := range []string{
		`plain`,
		`say "hi"`,
		`back\slash`,
		"line\nbreak",
		`x":"y`,
	} {
		msg := &schema_testpb.FullSchema{
			MapStringString: map[string]string{key: "v"},
			MapStringBar:    map[string]*schema_testpb.Bar{key: {BarId: "b"}},
		}

		out, err := codec.ProtoToJSON(msg.ProtoReflect())
		if err != nil {
			t.Fatalf("key %q: ProtoToJSON: %s", key, err)
		}
		if !json.Valid(out) {
			t.Fatalf("key %q: output is not well-formed JSON: %s", key, out)
		}

		got := struct {
			MapStringString map[string]string            `json:"mapStringString"`
			MapStringBar    map[string]map[string]string `json:"mapStringBar"`
		}{}
		if err := json.Unmarshal(out, &got); err != nil {
			t.Fatalf("key %q: %s\n%s", key, err, out)
		}
		if len(got.MapStringString) != 1 || got.MapStringString[key] != "v" {
			t.Fatalf("key %q: mapStringString members are %v in %s", key, got.MapStringString, out)
		}
		if len(got.MapStringBar) != 1 || got.MapStringBar[key]["barId"] != "b" {
			t.Fatalf("key %q: mapStringBar members are %v in %s", key, got.MapStringBar, out)
		}
	}
}
