// copy to: internal/codec/
package codec

import (
	"encoding/json"
	"strings"
	"testing"

	"github.com/pentops/j5/gen/test/schema/v1/schema_testpb"
)

// The bytes returned by ProtoToJSON belong to the caller: they must still be
// the same well-formed document after the codec has encoded something else.
func TestSeedEncodedBytesAreStable(t *testing.T) {
	codec := NewCodec()

	first := &schema_testpb.FullSchema{SString: strings.Repeat("a", 40)}
	second := &schema_testpb.FullSchema{SBool: true, RString: []string{"x", "y"}}

	for round := 0; round < 20; round++ {
		out1, err := codec.ProtoToJSON(first.ProtoReflect())
		if err != nil {
			t.Fatal(err)
		}
		want1 := string(out1)

		out2, err := codec.ProtoToJSON(second.ProtoReflect())
		if err != nil {
			t.Fatal(err)
		}
		if !json.Valid(out2) {
			t.Fatalf("second output is not well-formed JSON: %s", out2)
		}

		if !json.Valid(out1) {
			t.Fatalf("round %d: first output stopped being well-formed JSON after a second encode:\n was %s\n now %s", round, want1, out1)
		}
		if string(out1) != want1 {
			t.Fatalf("round %d: first output changed after a second encode:\n was %s\n now %s", round, want1, out1)
		}
	}
}

// EncodeAny followed by encoding the message that carries the Any is the
// ordinary way to build a j5 Any: the outer document must be well-formed and
// must carry the inner document unchanged under "value".
func TestSeedEncodeAnyThenParent(t *testing.T) {
	codec := NewCodec()

	inner := &schema_testpb.Bar{BarId: "barId", BarField: strings.Repeat("f", 30)}
	wantInner, err := NewCodec().ProtoToJSON(inner.ProtoReflect())
	if err != nil {
		t.Fatal(err)
	}
	wantInnerStr := string(wantInner)

	for round := 0; round < 20; round++ {
		asAny, err := codec.EncodeAny(inner.ProtoReflect())
		if err != nil {
			t.Fatal(err)
		}

		outer := &schema_testpb.FullSchema{J5Any: asAny}
		out, err := codec.ProtoToJSON(outer.ProtoReflect())
		if err != nil {
			t.Fatal(err)
		}
		if !json.Valid(out) {
			t.Fatalf("round %d: output is not well-formed JSON: %s", round, out)
		}

		got := struct {
			J5Any struct {
				Type  string          `json:"!type"`
				Value json.RawMessage `json:"value"`
			} `json:"j5any"`
		}{}
		if err := json.Unmarshal(out, &got); err != nil {
			t.Fatal(err)
		}
		if got.J5Any.Type != "test.schema.v1.Bar" {
			t.Fatalf("round %d: !type is %q in %s", round, got.J5Any.Type, out)
		}
		if string(got.J5Any.Value) != wantInnerStr {
			t.Fatalf("round %d: any value is %s, want %s", round, got.J5Any.Value, wantInnerStr)
		}
	}
}
