// copy to: lib/id62/
package id62

import (
	"crypto/sha1"
	"fmt"
	"sync"
	"testing"
)

// reference: first 16 bytes of sha1(namespace || inputs...)
func refHash(namespace string, inputs ...string) UUID {
	h := sha1.New()
	h.Write([]byte(namespace)) //nolint:errcheck
	for _, in := range inputs {
		h.Write([]byte(in)) //nolint:errcheck
	}
	var out UUID
	copy(out[:], h.Sum(nil))
	return out
}

// NewHash must be a pure function of (namespace, inputs), whoever else is
// deriving identifiers at the same time.
func TestDemoNewHashPureUnderConcurrency(t *testing.T) {
	// sequential sanity, holds with and without the change
	for i := 0; i < 100; i++ {
		in := fmt.Sprintf("input-%d", i)
		if got, want := NewHash("ns", in, "x"), refHash("ns", in, "x"); got != want {
			t.Fatalf("sequential NewHash(ns, %s, x) = %s, want %s", in, got, want)
		}
	}

	const workers = 8
	const rounds = 20000

	var mu sync.Mutex
	mismatches := 0
	var first string

	var wg sync.WaitGroup
	for w := 0; w < workers; w++ {
		wg.Add(1)
		go func(w int) {
			defer wg.Done()
			defer func() {
				if r := recover(); r != nil {
					mu.Lock()
					mismatches++
					if first == "" {
						first = fmt.Sprintf("worker %d panicked: %v", w, r)
					}
					mu.Unlock()
				}
			}()
			ns := fmt.Sprintf("namespace-%d", w)
			// inputs longer than one sha1 block so a call spans several block writes
			a := fmt.Sprintf("%0100d", w)
			b := fmt.Sprintf("%0100d", w*7+1)
			want := refHash(ns, a, b)
			for r := 0; r < rounds; r++ {
				got := NewHash(ns, a, b)
				if got != want {
					mu.Lock()
					mismatches++
					if first == "" {
						first = fmt.Sprintf("worker %d round %d: NewHash = %s, want %s", w, r, got, want)
					}
					mu.Unlock()
				}
			}
		}(w)
	}
	wg.Wait()

	if mismatches > 0 {
		t.Fatalf("NewHash returned %d results that are not a function of its arguments; first: %s", mismatches, first)
	}
}
