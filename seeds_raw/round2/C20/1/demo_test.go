// copy to: lib/id62/
package id62

import (
	"math/big"
	"testing"
)

// Parse must never panic and must reject every value that does not fit in 16
// bytes, including the ones just above the 128-bit boundary (which still fit
// in 22 base62 characters).
func TestDemoParseRejectsJustTooLarge(t *testing.T) {
	max := UUID{0xff, 0xff, 0xff, 0xff, 0xff, 0xff, 0xff, 0xff, 0xff, 0xff, 0xff, 0xff, 0xff, 0xff, 0xff, 0xff}
	if got, err := Parse(max.String()); err != nil || got != max {
		t.Fatalf("max value must round trip, got %v %v", got, err)
	}

	one := big.NewInt(1)
	inputs := []string{
		new(big.Int).Lsh(one, 128).Text(62),                        // 2^128, 22 chars
		new(big.Int).Add(new(big.Int).Lsh(one, 128), one).Text(62), // 2^128+1
		"zzzzzzzzzzzzzzzzzzzzzz",                                   // 62^22-1, 22 chars, 131 bits
		new(big.Int).Sub(new(big.Int).Lsh(one, 135), one).Text(62), // 2^135-1, 23 chars
		new(big.Int).Lsh(one, 136).Text(62),                        // 2^136
		"zzzzzzzzzzzzzzzzzzzzzzzzzzzzzzzzzzzzzzzzzzzz",             // far too large
	}
	for _, s := range inputs {
		t.Run(s, func(t *testing.T) {
			defer func() {
				if r := recover(); r != nil {
					t.Errorf("Parse(%q) panicked: %v", s, r)
				}
			}()
			got, err := Parse(s)
			if err == nil {
				t.Errorf("Parse(%q) accepted a value wider than 16 bytes: %x", s, got[:])
			}
		})
	}
}
