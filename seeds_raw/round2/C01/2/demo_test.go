// copy to: internal/codec/
package codec

import (
	"testing"

	"github.com/pentops/j5/gen/test/schema/v1/schema_testpb"
	"google.golang.org/protobuf/proto"
)

// TestSeedC01R2_2 round-trips maps whose KEYS (not values) contain characters
// that have to be escaped in a JSON string.
func TestSeedC01R2_2(t *testing.T) {
	codec := NewCodec()

	roundTrip := func(t *testing.T, in *schema_testpb.FullSchema) {
		t.Helper()
		asJSON, err := codec.ProtoToJSON(in.ProtoReflect())
		if err != nil {
			t.Fatalf("ProtoToJSON: %s", err)
		}
		t.Logf("JSON: %s", asJSON)
		out := &schema_testpb.FullSchema{}
		if err := codec.JSONToProto(asJSON, out.ProtoReflect()); err != nil {
			t.Fatalf("JSONToProto(%s): %s", asJSON, err)
		}
		if !proto.Equal(in, out) {
			t.Fatalf("round trip mismatch via %s\n in: %v\nout: %v", asJSON, in, out)
		}
	}

	for name, key := range map[string]string{
		"plain":     "k1",
		"space":     "two words",
		"non-ascii": "ключ-é-\U0001F600",
		"empty":     "",
		"quote":     `say "hi"`,
		"backslash": `dir\name`,
		"newline":   "line1\nline2",
		"tab":       "a\tb",
		"injection": `x":"y","z`,
	} {
		t.Run("scalar map/"+name, func(t *testing.T) {
			roundTrip(t, &schema_testpb.FullSchema{
				// the same text as a VALUE is always fine
				SString:         key,
				MapStringString: map[string]string{key: "val"},
			})
		})
		t.Run("object map/"+name, func(t *testing.T) {
			roundTrip(t, &schema_testpb.FullSchema{
				MapStringBar: map[string]*schema_testpb.Bar{key: {BarId: "id"}},
			})
		})
	}
}
