// copy to: internal/codec/
package codec

import (
	"testing"

	"github.com/pentops/flowtest/prototest"
	"google.golang.org/protobuf/proto"
	"google.golang.org/protobuf/reflect/protoreflect"
	"google.golang.org/protobuf/types/dynamicpb"
)

// TestSeedC01R2_1 round-trips a message that has a protobuf oneof named
// "type" whose arms are all messages, PLUS one more message field outside of
// that oneof. Such a message is an ordinary J5 object (the oneof is a set of
// plain optional properties), it is not a oneof wrapper.
func TestSeedC01R2_1(t *testing.T) {
	rs := prototest.DescriptorsFromSource(t, map[string]string{
		"seed/v1/seed.proto": `
			syntax = "proto3";
			package seed.v1;

			message Alpha { string a = 1; }
			message Beta { string b = 1; }
			message Meta { string note = 1; }

			message Event {
				oneof type {
					Alpha alpha = 1;
					Beta beta = 2;
				}
				Meta meta = 3;
			}

			message Holder {
				Event event = 1;
				repeated Event events = 2;
			}
		`,
	})

	eventDesc := rs.MessageByName(t, "seed.v1.Event")
	holderDesc := rs.MessageByName(t, "seed.v1.Holder")

	newEvent := func(arm string, armField string, armVal string, note *string) *dynamicpb.Message {
		ev := dynamicpb.NewMessage(eventDesc)
		if arm != "" {
			fd := eventDesc.Fields().ByName(protoreflect.Name(arm))
			inner := dynamicpb.NewMessage(fd.Message())
			inner.Set(fd.Message().Fields().ByName(protoreflect.Name(armField)), protoreflect.ValueOfString(armVal))
			ev.Set(fd, protoreflect.ValueOfMessage(inner))
		}
		if note != nil {
			fd := eventDesc.Fields().ByName("meta")
			inner := dynamicpb.NewMessage(fd.Message())
			inner.Set(fd.Message().Fields().ByName("note"), protoreflect.ValueOfString(*note))
			ev.Set(fd, protoreflect.ValueOfMessage(inner))
		}
		return ev
	}

	note := "n1"

	roundTrip := func(t *testing.T, in *dynamicpb.Message) {
		t.Helper()
		codec := NewCodec()
		asJSON, err := codec.ProtoToJSON(in.ProtoReflect())
		if err != nil {
			t.Fatalf("ProtoToJSON: %s", err)
		}
		t.Logf("JSON: %s", asJSON)
		out := dynamicpb.NewMessage(in.Descriptor())
		if err := codec.JSONToProto(asJSON, out.ProtoReflect()); err != nil {
			t.Fatalf("JSONToProto(%s): %s", asJSON, err)
		}
		if !proto.Equal(in, out) {
			t.Fatalf("round trip mismatch via %s\n in: %v\nout: %v", asJSON, in, out)
		}
	}

	t.Run("arm only", func(t *testing.T) {
		roundTrip(t, newEvent("alpha", "a", "x", nil))
	})
	t.Run("meta only", func(t *testing.T) {
		roundTrip(t, newEvent("", "", "", &note))
	})
	t.Run("arm and meta", func(t *testing.T) {
		roundTrip(t, newEvent("beta", "b", "y", &note))
	})
	t.Run("nested arm and meta", func(t *testing.T) {
		holder := dynamicpb.NewMessage(holderDesc)
		holder.Set(holderDesc.Fields().ByName("event"), protoreflect.ValueOfMessage(newEvent("alpha", "a", "x", &note)))
		list := holder.Mutable(holderDesc.Fields().ByName("events")).List()
		list.Append(protoreflect.ValueOfMessage(newEvent("beta", "b", "y", &note)))
		list.Append(protoreflect.ValueOfMessage(newEvent("alpha", "a", "z", nil)))
		roundTrip(t, holder)
	})
}
