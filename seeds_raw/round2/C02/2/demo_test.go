// copy to: internal/j5s/protobuild/
package protobuild

import (
	"testing"

	"google.golang.org/genproto/googleapis/api/annotations"
	"google.golang.org/protobuf/proto"
	"google.golang.org/protobuf/reflect/protodesc"
)

// Every method of a service is served at basePath + httpPath, with ":name"
// rewritten to "{snake_name}" - also when the method's own path happens to
// begin with the same characters as the service's base path.
func TestDemoServiceBasePathAlwaysPrefixed(t *testing.T) {
	tf := newTestFiles()

	tf.tAddJ5SFile("local/v1/stock.j5s",
		"service Stock {",
		"  basePath = \"/stock\"",
		"  method GetItem {",
		"    httpMethod = \"GET\"",
		"    httpPath = \"/:itemId\"",
		"    request {",
		"      field itemId string",
		"    }",
		"    response {",
		"      field name string",
		"    }",
		"  }",
		"  method GetStockLevel {",
		"    httpMethod = \"GET\"",
		"    httpPath = \"/stock-levels/:itemId\"",
		"    request {",
		"      field itemId string",
		"    }",
		"    response {",
		"      field level integer:INT32",
		"    }",
		"  }",
		"  method PutStockLevel {",
		"    httpMethod = \"PUT\"",
		"    httpPath = \"/stock/:itemId\"",
		"    request {",
		"      field itemId string",
		"      field level integer:INT32",
		"    }",
		"    response {",
		"    }",
		"  }",
		"}",
	)

	td := newTestDeps()
	files := testCompile(t, tf, td, "local.v1")
	file := files.expectFile(t, "local/v1/service/stock.p.j5s.proto")

	fdp := protodesc.ToFileDescriptorProto(file)
	if len(fdp.Service) != 1 {
		t.Fatalf("expected 1 service, got %d", len(fdp.Service))
	}
	svc := fdp.Service[0]
	if svc.GetName() != "StockService" {
		t.Fatalf("service name: got %s", svc.GetName())
	}

	type want struct {
		verb string
		path string
	}
	wants := map[string]want{
		"GetItem":       {"GET", "/stock/{item_id}"},
		"GetStockLevel": {"GET", "/stock/stock-levels/{item_id}"},
		"PutStockLevel": {"PUT", "/stock/stock/{item_id}"},
	}

	if len(svc.Method) != len(wants) {
		t.Fatalf("expected %d methods, got %d", len(wants), len(svc.Method))
	}

	for _, method := range svc.Method {
		w, ok := wants[method.GetName()]
		if !ok {
			t.Errorf("unexpected method %s", method.GetName())
			continue
		}
		rule, ok := proto.GetExtension(method.Options, annotations.E_Http).(*annotations.HttpRule)
		if !ok || rule == nil {
			t.Errorf("method %s has no http rule", method.GetName())
			continue
		}
		var gotVerb, gotPath string
		switch pt := rule.Pattern.(type) {
		case *annotations.HttpRule_Get:
			gotVerb, gotPath = "GET", pt.Get
		case *annotations.HttpRule_Put:
			gotVerb, gotPath = "PUT", pt.Put
		case *annotations.HttpRule_Post:
			gotVerb, gotPath = "POST", pt.Post
		case *annotations.HttpRule_Delete:
			gotVerb, gotPath = "DELETE", pt.Delete
		case *annotations.HttpRule_Patch:
			gotVerb, gotPath = "PATCH", pt.Patch
		}
		if gotVerb != w.verb || gotPath != w.path {
			t.Errorf("method %s: got %s %s, want %s %s", method.GetName(), gotVerb, gotPath, w.verb, w.path)
		}
	}
}
