// copy to: internal/j5s/protobuild/
package protobuild

import (
	"testing"
)

// Two imported packages share their last-but-one segment ("common"). The
// second one is imported under an alias precisely to keep the two apart:
//   common.Thing  -> acme.common.v1.Thing  (default short name of the un-aliased import)
//   other.Thing   -> beta.common.v1.Thing  (alias)
func TestDemoAliasedImportKeepsDefaultNameFree(t *testing.T) {
	tf := newTestFiles()

	tf.tAddJ5SFile("acme/common/v1/thing.j5s",
		"object Thing {",
		"  field acmeField string",
		"}",
	)

	tf.tAddJ5SFile("beta/common/v1/thing.j5s",
		"object Thing {",
		"  field betaField string",
		"}",
	)

	tf.tAddJ5SFile("local/v1/foo.j5s",
		"import acme.common.v1",
		"import beta.common.v1:other",
		"object Foo {",
		"  field a object:common.Thing",
		"  field b object:other.Thing",
		"}",
	)

	td := newTestDeps()
	files := testCompile(t, tf, td, "local.v1")
	file := files.expectFile(t, "local/v1/foo.j5s.proto")

	foo := file.Messages().ByName("Foo")
	if foo == nil {
		t.Fatalf("message Foo not found")
	}

	fieldA := foo.Fields().ByName("a")
	fieldB := foo.Fields().ByName("b")
	if fieldA == nil || fieldB == nil {
		t.Fatalf("fields a / b not found")
	}

	if got, want := string(fieldA.Message().FullName()), "acme.common.v1.Thing"; got != want {
		t.Errorf("field a (common.Thing): got type %s, want %s", got, want)
	}
	if got, want := string(fieldB.Message().FullName()), "beta.common.v1.Thing"; got != want {
		t.Errorf("field b (other.Thing): got type %s, want %s", got, want)
	}

	wantImports := map[string]bool{
		"acme/common/v1/thing.j5s.proto": false,
		"beta/common/v1/thing.j5s.proto": false,
	}
	imports := file.Imports()
	for i := 0; i < imports.Len(); i++ {
		p := imports.Get(i).Path()
		if _, ok := wantImports[p]; ok {
			wantImports[p] = true
		}
	}
	for p, seen := range wantImports {
		if !seen {
			t.Errorf("file does not import %s", p)
		}
	}
}
