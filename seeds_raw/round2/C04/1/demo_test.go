// copy to: internal/j5s/protobuild/
package protobuild

// Demonstration for seeded change C04/1.
//
// Compiles a j5s package and reflects the compiled descriptors back into J5
// schemas. The object declares a map field (which is compiled to a nested
// '...Entry' message) and an inline object BEFORE an inline enum that carries
// descriptions on the enum itself and on its options. The enum read back from
// the descriptors must carry the descriptions the source declared.

import (
	"testing"

	"github.com/pentops/j5/lib/j5schema"
)

func TestC04Seed1NestedEnumDescriptions(t *testing.T) {
	tf := newTestFiles()
	tf.tAddJ5SFile("local/v1/foo.j5s",
		"object Foo {",
		"  | Foo desc",
		"  field tags map:string",
		"  field inner object {",
		"    field a string",
		"  }",
		"  field kind enum {",
		"    | kind field desc",
		"    enum.description = \"kind enum desc\"",
		"    option A | A desc",
		"    option B | B desc",
		"  }",
		"}",
	)
	td := newTestDeps()
	files := testCompile(t, tf, td, "local.v1")
	file := files.expectFile(t, "local/v1/foo.j5s.proto")

	msg := file.Messages().ByName("Foo")
	if msg == nil {
		t.Fatal("message Foo not compiled")
	}

	root, err := j5schema.NewSchemaCache().Schema(msg)
	if err != nil {
		t.Fatalf("reflecting Foo: %s", err)
	}
	obj, ok := root.(*j5schema.ObjectSchema)
	if !ok {
		t.Fatalf("Foo is a %T", root)
	}

	prop := obj.Properties.ByJSONName("kind")
	if prop == nil {
		t.Fatal("no property 'kind'")
	}
	if prop.Description != "kind field desc" {
		t.Errorf("property description: got %q, want %q", prop.Description, "kind field desc")
	}
	enumField, ok := prop.Schema.(*j5schema.EnumField)
	if !ok {
		t.Fatalf("kind is a %T", prop.Schema)
	}

	got := enumField.Schema().ToJ5Root().GetEnum()
	if got.Description != "kind enum desc" {
		t.Errorf("enum description: got %q, want %q", got.Description, "kind enum desc")
	}

	want := map[string]string{
		"UNSPECIFIED": "",
		"A":           "A desc",
		"B":           "B desc",
	}
	if len(got.Options) != len(want) {
		t.Fatalf("got %d options, want %d", len(got.Options), len(want))
	}
	for _, opt := range got.Options {
		wantDesc, ok := want[opt.Name]
		if !ok {
			t.Errorf("unexpected option %q", opt.Name)
			continue
		}
		if opt.Description != wantDesc {
			t.Errorf("option %s description: got %q, want %q", opt.Name, opt.Description, wantDesc)
		}
	}
}
