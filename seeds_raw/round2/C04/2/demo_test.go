// copy to: internal/j5s/protobuild/
package protobuild

// Demonstration for seeded change C04/2.
//
// Compiles a j5s package that declares a oneof with no options (legal: proto
// cannot hold an empty 'oneof type {}', so the compiler emits a plain message
// marked only by the (j5.ext.v1.message).oneof option) next to an ordinary
// oneof and an object referring to both. Reflecting the compiled descriptors
// must give back a oneof schema for both, and oneof fields referring to them.

import (
	"testing"

	"github.com/pentops/j5/gen/j5/schema/v1/schema_j5pb"
	"github.com/pentops/j5/lib/j5schema"
	"google.golang.org/protobuf/reflect/protoreflect"
)

func TestC04Seed2EmptyOneofReadBack(t *testing.T) {
	tf := newTestFiles()
	tf.tAddJ5SFile("local/v1/foo.j5s",
		"oneof Empty {",
		"  | Empty desc",
		"}",
		"oneof Full {",
		"  option a object {",
		"    field x string",
		"  }",
		"}",
		"object Foo {",
		"  field e oneof:Empty",
		"  field f oneof:Full",
		"}",
	)
	td := newTestDeps()
	files := testCompile(t, tf, td, "local.v1")
	file := files.expectFile(t, "local/v1/foo.j5s.proto")

	sc := j5schema.NewSchemaCache()
	reflectRoot := func(name string) *schema_j5pb.RootSchema {
		t.Helper()
		msg := file.Messages().ByName(protoreflect.Name(name))
		if msg == nil {
			t.Fatalf("message %s not compiled", name)
		}
		root, err := sc.Schema(msg)
		if err != nil {
			t.Fatalf("reflecting %s: %s", name, err)
		}
		return root.ToJ5Root()
	}

	for _, name := range []string{"Full", "Empty"} {
		root := reflectRoot(name)
		oneof := root.GetOneof()
		if oneof == nil {
			t.Errorf("%s: declared as a oneof, read back as %T", name, root.Type)
			continue
		}
		if oneof.Name != name {
			t.Errorf("%s: read back with name %q", name, oneof.Name)
		}
	}

	if got := reflectRoot("Empty").GetOneof().GetDescription(); got != "Empty desc" {
		t.Errorf("Empty: description %q, want %q", got, "Empty desc")
	}

	foo := reflectRoot("Foo").GetObject()
	if foo == nil {
		t.Fatal("Foo is not an object")
	}
	if len(foo.Properties) != 2 {
		t.Fatalf("Foo has %d properties, want 2", len(foo.Properties))
	}
	for idx, wantRef := range []string{"Empty", "Full"} {
		prop := foo.Properties[idx]
		oneofField := prop.Schema.GetOneof()
		if oneofField == nil {
			t.Errorf("Foo.%s: declared as oneof:%s, read back as %T", prop.Name, wantRef, prop.Schema.Type)
			continue
		}
		if got := oneofField.GetRef().GetSchema(); got != wantRef {
			t.Errorf("Foo.%s: refers to %q, want %q", prop.Name, got, wantRef)
		}
	}
}
