// copy to: internal/j5s/protobuild/
package protobuild

// Compiles j5s packages in which only SOME of the sibling enums / enum options
// carry a description, prints the generated .j5s.proto and re-parses the text.
//
// run: go test -vet=off -count=1 ./internal/j5s/protobuild/ -run TestDemoPartlyDescribed -v

import (
	"context"
	"io"
	"os"
	"sort"
	"strings"
	"testing"

	"github.com/bufbuild/protocompile"
	"github.com/pentops/j5/internal/j5s/protoprint"
	"github.com/pentops/j5/internal/protosrc"
	"google.golang.org/protobuf/proto"
	"google.golang.org/protobuf/reflect/protodesc"
	"google.golang.org/protobuf/reflect/protoreflect"
)

func demoReparse(t *testing.T, name string, text string) protoreflect.FileDescriptor {
	t.Helper()
	resolver := protocompile.CompositeResolver{
		&protocompile.SourceResolver{
			Accessor: func(filename string) (io.ReadCloser, error) {
				if filename != name {
					return nil, os.ErrNotExist
				}
				return io.NopCloser(strings.NewReader(text)), nil
			},
		},
		protosrc.BuiltinResolver,
	}
	out, err := protosrc.NewCompiler(resolver).CompileToLinkers(context.Background(), []string{name})
	if err != nil {
		t.Fatalf("printed text does not compile: %s\n%s", err, text)
	}
	return out.FindFileByPath(name)
}

// demoDropEmptyOptions clears 'options' messages that are set but empty: the
// j5s compiler attaches empty options messages, which have no text form.
func demoDropEmptyOptions(msg protoreflect.Message) {
	msg.Range(func(fd protoreflect.FieldDescriptor, val protoreflect.Value) bool {
		if fd.Kind() != protoreflect.MessageKind || fd.IsMap() {
			return true
		}
		if fd.IsList() {
			list := val.List()
			for i := 0; i < list.Len(); i++ {
				demoDropEmptyOptions(list.Get(i).Message())
			}
			return true
		}
		if fd.Name() == "options" && proto.Size(val.Message().Interface()) == 0 {
			msg.Clear(fd)
			return true
		}
		demoDropEmptyOptions(val.Message())
		return true
	})
}

func demoJ5sRoundTrip(t *testing.T, j5sBody ...string) {
	t.Helper()
	ctx := context.Background()
	tf := newTestFiles()
	tf.tAddJ5SFile("local/v1/foo.j5s", j5sBody...)
	files := testCompile(t, tf, newTestDeps(), "local.v1")
	orig := files.expectFile(t, "local/v1/foo.j5s.proto")

	text, err := protoprint.PrintFile(ctx, orig, "gen")
	if err != nil {
		t.Fatal(err)
	}
	t.Logf("printed:\n%s", text)

	again := demoReparse(t, "local/v1/foo.j5s.proto", text)

	a := protodesc.ToFileDescriptorProto(orig)
	b := protodesc.ToFileDescriptorProto(again)
	a.SourceCodeInfo = nil
	b.SourceCodeInfo = nil
	sort.Strings(a.Dependency)
	sort.Strings(b.Dependency)
	demoDropEmptyOptions(a.ProtoReflect())
	demoDropEmptyOptions(b.ProtoReflect())
	if !proto.Equal(a, b) {
		t.Errorf("re-parsed descriptor differs\n--- original\n%s\n--- reparsed\n%s", a, b)
	}

	text2, err := protoprint.PrintFile(ctx, again, "gen")
	if err != nil {
		t.Fatal(err)
	}
	if text2 != text {
		t.Errorf("second print differs:\n%s", text2)
	}
}

func TestDemoPartlyDescribed(t *testing.T) {
	t.Run("nothing described", func(t *testing.T) {
		demoJ5sRoundTrip(t,
			"enum Status {",
			"  option ACTIVE",
			"  option CLOSED",
			"}",
			"enum Kind {",
			"  option A",
			"}",
		)
	})

	t.Run("everything described", func(t *testing.T) {
		demoJ5sRoundTrip(t,
			"enum Status {",
			"  | The status",
			"  option ACTIVE | it is active",
			"  option CLOSED | it is closed",
			"}",
			"enum Kind {",
			"  | The kind",
			"  option A | a",
			"}",
		)
	})

	t.Run("first option described second not", func(t *testing.T) {
		demoJ5sRoundTrip(t,
			"enum Status {",
			"  option ACTIVE | it is active",
			"  option CLOSED",
			"  option OTHER",
			"}",
		)
	})

	t.Run("only the zero option described", func(t *testing.T) {
		demoJ5sRoundTrip(t,
			"enum Status {",
			"  option UNSPECIFIED | nothing was chosen",
			"  option ACTIVE",
			"  option CLOSED",
			"}",
		)
	})

	t.Run("first enum described second not", func(t *testing.T) {
		demoJ5sRoundTrip(t,
			"enum Status {",
			"  | The status",
			"  option ACTIVE",
			"}",
			"enum Kind {",
			"  option A",
			"}",
		)
	})
}
