// copy to: internal/j5s/protoprint/
package protoprint_test

// Round trip of option string values that contain a low control character
// (below 0x10) directly followed by a character that is itself a hex digit.
//
// run: go test -vet=off -count=1 ./internal/j5s/protoprint/ -run TestDemoControlCharBeforeHexDigit -v

import (
	"context"
	"io"
	"os"
	"sort"
	"strings"
	"testing"

	"github.com/bufbuild/protocompile"
	"github.com/pentops/j5/internal/j5s/protoprint"
	"github.com/pentops/j5/internal/protosrc"
	"google.golang.org/protobuf/proto"
	"google.golang.org/protobuf/reflect/protodesc"
	"google.golang.org/protobuf/reflect/protoreflect"
)

type demoFiles map[string]string

func (mf demoFiles) resolver() protocompile.Resolver {
	return protocompile.CompositeResolver{
		&protocompile.SourceResolver{
			Accessor: func(filename string) (io.ReadCloser, error) {
				src, ok := mf[filename]
				if !ok {
					return nil, os.ErrNotExist
				}
				return io.NopCloser(strings.NewReader(src)), nil
			},
		},
		protosrc.BuiltinResolver,
	}
}

func demoCompile(t *testing.T, files demoFiles, name string) protoreflect.FileDescriptor {
	t.Helper()
	cc := protosrc.NewCompiler(files.resolver())
	out, err := cc.CompileToLinkers(context.Background(), []string{name})
	if err != nil {
		t.Fatalf("compile %s: %s\n%s", name, err, files[name])
	}
	return out.FindFileByPath(name)
}

// demoRoundTrip prints the named file, parses and links the printed text in
// place of the original (same import resolver), and checks that the descriptor
// is the same (source info aside) and that printing again gives the same text.
func demoRoundTrip(t *testing.T, files demoFiles, name string) {
	t.Helper()
	orig := demoCompile(t, files, name)
	text, err := protoprint.PrintFile(context.Background(), orig, "gen")
	if err != nil {
		t.Fatalf("print: %s", err)
	}
	t.Logf("printed:\n%s", text)

	files2 := demoFiles{}
	for k, v := range files {
		files2[k] = v
	}
	files2[name] = text
	again := demoCompile(t, files2, name)

	a := protodesc.ToFileDescriptorProto(orig)
	b := protodesc.ToFileDescriptorProto(again)
	a.SourceCodeInfo = nil
	b.SourceCodeInfo = nil
	sort.Strings(a.Dependency)
	sort.Strings(b.Dependency)
	if !proto.Equal(a, b) {
		t.Errorf("re-parsed descriptor differs\n--- original\n%s\n--- reparsed\n%s", a, b)
	}

	text2, err := protoprint.PrintFile(context.Background(), again, "gen")
	if err != nil {
		t.Fatalf("print again: %s", err)
	}
	if text2 != text {
		t.Errorf("second print differs:\n%s", text2)
	}
}

func TestDemoControlCharBeforeHexDigit(t *testing.T) {
	for _, tc := range []struct {
		name    string
		literal string // as written in the proto source
	}{
		// control characters followed by something that is not a hex digit:
		// fine with and without the change
		{"soh then z", `^\001z$`},
		{"unit separator then f", `^\037f$`},
		// a low control character followed by a hex digit character
		{"soh then f", `^\001f$`},
		{"nul then 0", `a\0000`},
		{"form feed then digit", `page\0141`},
		{"bell then B", `\007Bell`},
	} {
		t.Run(tc.name, func(t *testing.T) {
			files := demoFiles{
				"demo/v1/demo.proto": `syntax = "proto3";

package demo.v1;

import "buf/validate/validate.proto";
import "j5/ext/v1/annotations.proto";

message Foo {
  option (j5.ext.v1.message).object = {};

  string f = 1 [
    (buf.validate.field).string = {
      min_len: 1
      pattern: "` + tc.literal + `"
    }
  ];

  string g = 2 [(buf.validate.field).string.const = "` + tc.literal + `"];
}
`,
			}
			demoRoundTrip(t, files, "demo/v1/demo.proto")
		})
	}
}
