// copy to: internal/j5s/protobuild/
package protobuild

// Demonstration for seeded change 1 (C14, printed text is deterministic).
//
// A j5s entity produces messages which carry TWO message-level options
// ((j5.ext.v1.psm) and (j5.ext.v1.message)), neither of which has a source
// position (the descriptors are built in memory by j5convert). The printed
// text must be byte-identical every time it is produced.
//
// The failure is nondeterministic (Go map iteration order): each print has a
// chance of roughly 1/8 per two-option message to come out swapped, so the
// test prints the same program many times. With 4 such messages, 300 prints
// and 60 fresh compiles the chance of NOT observing a difference with the
// patch applied is far below 1e-9.

import (
	"context"
	"strings"
	"testing"

	"github.com/pentops/j5/internal/j5s/protoprint"
)

func c14Seed1Files() *testFiles {
	tf := newTestFiles()
	tf.tAddJ5SFile("acme/v1/foo.j5s",
		"entity Foo {",
		"  | Foo is lorem ipsum",
		"  key fooId key:id62 {",
		"    primary = true",
		"  }",
		"  data name string",
		"  status ACTIVE",
		"  event Create {",
		"    field name string",
		"  }",
		"}",
	)
	return tf
}

func c14Seed1CompileAndPrint(t *testing.T, prints int) []string {
	t.Helper()
	ctx := context.Background()
	ps, err := NewPackageSet(newTestDeps(), c14Seed1Files())
	if err != nil {
		t.Fatal(err)
	}
	files, err := ps.CompilePackage(ctx, "acme.v1")
	if err != nil {
		t.Fatal(err)
	}
	out := make([]string, 0, prints)
	for i := 0; i < prints; i++ {
		parts := []string{}
		for _, file := range files {
			if !strings.HasSuffix(file.Path(), ".j5s.proto") {
				continue
			}
			text, err := protoprint.PrintFile(ctx, file, "gen")
			if err != nil {
				t.Fatal(err)
			}
			parts = append(parts, "==== "+file.Path()+"\n"+text)
		}
		out = append(out, strings.Join(parts, "\n"))
	}
	return out
}

func c14FirstDiff(a, b string) string {
	al, bl := strings.Split(a, "\n"), strings.Split(b, "\n")
	for i := 0; i < len(al) && i < len(bl); i++ {
		if al[i] != bl[i] {
			return "line " + strings.TrimSpace(al[i]) + "  <->  " + strings.TrimSpace(bl[i])
		}
	}
	return "length differs"
}

func TestC14Seed1PrintIsDeterministic(t *testing.T) {
	// (a) one compile, the same linked files printed many times
	texts := c14Seed1CompileAndPrint(t, 300)
	if !strings.Contains(texts[0], "option (j5.ext.v1.psm)") || !strings.Contains(texts[0], "option (j5.ext.v1.message).object") {
		t.Fatalf("program does not exercise two message level options:\n%s", texts[0])
	}
	for i, text := range texts {
		if text != texts[0] {
			t.Fatalf("print %d of the same compiled files differs from print 0: %s", i, c14FirstDiff(texts[0], text))
		}
	}

	// (b) fresh PackageSet each time ('repeated runs')
	for i := 0; i < 60; i++ {
		again := c14Seed1CompileAndPrint(t, 1)
		if again[0] != texts[0] {
			t.Fatalf("fresh compile %d prints different text: %s", i, c14FirstDiff(texts[0], again[0]))
		}
	}
}
