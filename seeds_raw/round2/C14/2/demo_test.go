// copy to: internal/j5s/protobuild/
package protobuild

// Demonstration for seeded change 2 (C14: output is independent of the order
// of CompilePackage calls on one PackageSet, and of fresh vs reused sets).
//
// Two local packages: app.v1 refers to a type of base.v1. The file of base.v1
// carries descriptions (comments) and declares an enum BEFORE the object, so
// both the comments and the element order of the printed file come from the
// source locations of the linked file.
//
// Deterministic: no repetition needed.

import (
	"context"
	"testing"

	"github.com/pentops/j5/internal/j5s/protoprint"
	"google.golang.org/protobuf/proto"
	"google.golang.org/protobuf/reflect/protodesc"
)

func c14Seed2Files() *testFiles {
	tf := newTestFiles()
	tf.tAddJ5SFile("base/v1/thing.j5s",
		"enum Kind {",
		"  | The kind of thing",
		"  option SMALL",
		"  option LARGE",
		"}",
		"",
		"object Thing {",
		"  | A thing which other packages refer to",
		"  field name string {",
		"    | The name of the thing",
		"  }",
		"  field kind enum:Kind",
		"}",
	)
	tf.tAddJ5SFile("app/v1/user.j5s",
		"import base.v1",
		"object User {",
		"  | Uses the thing",
		"  field thing object:base.v1.Thing",
		"}",
	)
	return tf
}

// compiles the packages in the given order on ONE PackageSet and returns, per
// output file, the printed text and the deterministic descriptor bytes.
func c14Seed2Compile(t *testing.T, order ...string) (map[string]string, map[string][]byte) {
	t.Helper()
	ctx := context.Background()
	ps, err := NewPackageSet(newTestDeps(), c14Seed2Files())
	if err != nil {
		t.Fatal(err)
	}
	texts := map[string]string{}
	descs := map[string][]byte{}
	for _, pkg := range order {
		files, err := ps.CompilePackage(ctx, pkg)
		if err != nil {
			t.Fatalf("compile %s: %s", pkg, err)
		}
		for _, file := range files {
			text, err := protoprint.PrintFile(ctx, file, "gen")
			if err != nil {
				t.Fatal(err)
			}
			desc, err := proto.MarshalOptions{Deterministic: true}.Marshal(protodesc.ToFileDescriptorProto(file))
			if err != nil {
				t.Fatal(err)
			}
			texts[file.Path()] = text
			descs[file.Path()] = desc
		}
	}
	return texts, descs
}

func TestC14Seed2CompileOrderIndependent(t *testing.T) {
	const target = "base/v1/thing.j5s.proto"

	aloneText, aloneDesc := c14Seed2Compile(t, "base.v1")
	baseFirstText, baseFirstDesc := c14Seed2Compile(t, "base.v1", "app.v1")
	appFirstText, appFirstDesc := c14Seed2Compile(t, "app.v1", "base.v1")

	if baseFirstText[target] != aloneText[target] {
		t.Errorf("printed %s differs: [base.v1] alone vs [base.v1, app.v1]", target)
	}
	if appFirstText[target] != aloneText[target] {
		t.Errorf("printed %s depends on the order of CompilePackage calls\n--- compiled as [base.v1]:\n%s\n--- compiled as [app.v1, base.v1]:\n%s",
			target, aloneText[target], appFirstText[target])
	}
	if string(baseFirstDesc[target]) != string(aloneDesc[target]) {
		t.Errorf("descriptor of %s differs: [base.v1] alone vs [base.v1, app.v1]", target)
	}
	if string(appFirstDesc[target]) != string(aloneDesc[target]) {
		t.Errorf("descriptor of %s depends on the order of CompilePackage calls (%d vs %d bytes)",
			target, len(aloneDesc[target]), len(appFirstDesc[target]))
	}

	// and every other output is the same whichever order was used
	for name, text := range baseFirstText {
		if appFirstText[name] != text {
			t.Errorf("printed %s differs between the two orders", name)
		}
	}
}
