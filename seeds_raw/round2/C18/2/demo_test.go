// copy to: internal/codec/
package codec

import (
	"encoding/json"
	"reflect"
	"testing"

	"github.com/pentops/j5/gen/j5/ext/v1/ext_j5pb"
	"google.golang.org/protobuf/proto"
	"google.golang.org/protobuf/reflect/protodesc"
	"google.golang.org/protobuf/reflect/protoreflect"
	"google.golang.org/protobuf/reflect/protoregistry"
	"google.golang.org/protobuf/types/descriptorpb"
	"google.golang.org/protobuf/types/dynamicpb"
)

// Outer flattens Middle, Middle flattens Inner: the properties of Inner are
// reflected on Outer with a proto field path three fields long.
//
//	message Outer  { Middle middle = 1 [flatten]; string top = 2; }
//	message Middle { Inner  inner  = 3 [flatten]; string mid = 4; }
//	message Inner  { string leaf = 5; int64 count = 6; }
func seedDemoNestedFlattenFile(t *testing.T) protoreflect.FileDescriptor {
	t.Helper()

	flatten := func() *descriptorpb.FieldOptions {
		opts := &descriptorpb.FieldOptions{}
		proto.SetExtension(opts, ext_j5pb.E_Field, &ext_j5pb.FieldOptions{
			Type: &ext_j5pb.FieldOptions_Message{
				Message: &ext_j5pb.MessageFieldOptions{Flatten: true},
			},
		})
		return opts
	}
	str := descriptorpb.FieldDescriptorProto_TYPE_STRING.Enum()
	msg := descriptorpb.FieldDescriptorProto_TYPE_MESSAGE.Enum()
	opt := descriptorpb.FieldDescriptorProto_LABEL_OPTIONAL.Enum()

	fdp := &descriptorpb.FileDescriptorProto{
		Name:       proto.String("seeddemo/v1/nested_flatten.proto"),
		Package:    proto.String("seeddemo.v1"),
		Syntax:     proto.String("proto3"),
		Dependency: []string{"j5/ext/v1/annotations.proto"},
		MessageType: []*descriptorpb.DescriptorProto{{
			Name: proto.String("Outer"),
			Field: []*descriptorpb.FieldDescriptorProto{
				{Name: proto.String("middle"), JsonName: proto.String("middle"), Number: proto.Int32(1), Type: msg, Label: opt, TypeName: proto.String(".seeddemo.v1.Middle"), Options: flatten()},
				{Name: proto.String("top"), JsonName: proto.String("top"), Number: proto.Int32(2), Type: str, Label: opt},
			},
		}, {
			Name: proto.String("Middle"),
			Field: []*descriptorpb.FieldDescriptorProto{
				{Name: proto.String("inner"), JsonName: proto.String("inner"), Number: proto.Int32(3), Type: msg, Label: opt, TypeName: proto.String(".seeddemo.v1.Inner"), Options: flatten()},
				{Name: proto.String("mid"), JsonName: proto.String("mid"), Number: proto.Int32(4), Type: str, Label: opt},
			},
		}, {
			Name: proto.String("Inner"),
			Field: []*descriptorpb.FieldDescriptorProto{
				{Name: proto.String("leaf"), JsonName: proto.String("leaf"), Number: proto.Int32(5), Type: str, Label: opt},
				{Name: proto.String("count"), JsonName: proto.String("count"), Number: proto.Int32(6), Type: descriptorpb.FieldDescriptorProto_TYPE_INT64.Enum(), Label: opt},
			},
		}},
	}

	file, err := protodesc.NewFile(fdp, protoregistry.GlobalFiles)
	if err != nil {
		t.Fatal(err)
	}
	return file
}

func TestSeedDemoNestedFlattenRoundTrip(t *testing.T) {
	file := seedDemoNestedFlattenFile(t)
	outerDesc := file.Messages().ByName("Outer")
	middleDesc := file.Messages().ByName("Middle")
	innerDesc := file.Messages().ByName("Inner")

	encode := func(t *testing.T, c *Codec, msg protoreflect.Message) (out []byte) {
		t.Helper()
		defer func() {
			if r := recover(); r != nil {
				t.Fatalf("ProtoToJSON panicked: %v", r)
			}
		}()
		out, err := c.ProtoToJSON(msg)
		if err != nil {
			t.Fatalf("ProtoToJSON: %s", err)
		}
		return out
	}

	assertJSON := func(t *testing.T, got []byte, want string) {
		t.Helper()
		var gotVal, wantVal interface{}
		if err := json.Unmarshal(got, &gotVal); err != nil {
			t.Fatalf("invalid JSON output %q: %s", string(got), err)
		}
		if err := json.Unmarshal([]byte(want), &wantVal); err != nil {
			t.Fatal(err)
		}
		if !reflect.DeepEqual(gotVal, wantVal) {
			t.Fatalf("JSON mismatch\n got: %s\nwant: %s", string(got), want)
		}
	}

	t.Run("empty", func(t *testing.T) {
		c := NewCodec()
		msg := dynamicpb.NewMessage(outerDesc)
		assertJSON(t, encode(t, c, msg), `{}`)
	})

	t.Run("populated", func(t *testing.T) {
		c := NewCodec()
		const input = `{"leaf":"L","count":"7","mid":"M","top":"T"}`

		decoded := dynamicpb.NewMessage(outerDesc)
		if err := c.JSONToProto([]byte(input), decoded); err != nil {
			t.Fatalf("JSONToProto: %s", err)
		}

		inner := dynamicpb.NewMessage(innerDesc)
		inner.Set(innerDesc.Fields().ByName("leaf"), protoreflect.ValueOfString("L"))
		inner.Set(innerDesc.Fields().ByName("count"), protoreflect.ValueOfInt64(7))
		middle := dynamicpb.NewMessage(middleDesc)
		middle.Set(middleDesc.Fields().ByName("inner"), protoreflect.ValueOfMessage(inner))
		middle.Set(middleDesc.Fields().ByName("mid"), protoreflect.ValueOfString("M"))
		want := dynamicpb.NewMessage(outerDesc)
		want.Set(outerDesc.Fields().ByName("middle"), protoreflect.ValueOfMessage(middle))
		want.Set(outerDesc.Fields().ByName("top"), protoreflect.ValueOfString("T"))

		if !proto.Equal(want, decoded) {
			t.Fatalf("decoded message differs\n got: %s\nwant: %s", decoded, want)
		}

		// a fresh codec, as a reader of the stored message would have
		assertJSON(t, encode(t, NewCodec(), want), input)
	})

	t.Run("middle set, inner unset", func(t *testing.T) {
		middle := dynamicpb.NewMessage(middleDesc)
		middle.Set(middleDesc.Fields().ByName("mid"), protoreflect.ValueOfString("M"))
		msg := dynamicpb.NewMessage(outerDesc)
		msg.Set(outerDesc.Fields().ByName("middle"), protoreflect.ValueOfMessage(middle))

		assertJSON(t, encode(t, NewCodec(), msg), `{"mid":"M"}`)
	})
}
