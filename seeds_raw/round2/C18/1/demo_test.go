// copy to: lib/j5schema/
package j5schema_test

import (
	"testing"

	"buf.build/gen/go/bufbuild/protovalidate/protocolbuffers/go/buf/validate"
	"github.com/pentops/j5/lib/j5schema"
	"google.golang.org/protobuf/proto"
	"google.golang.org/protobuf/reflect/protodesc"
	"google.golang.org/protobuf/reflect/protoreflect"
	"google.golang.org/protobuf/reflect/protoregistry"
	"google.golang.org/protobuf/types/descriptorpb"
)

// A hand-written .proto may carry a (buf.validate.field) option which does not
// match the field it annotates. Here a *singular* string field carries
// `repeated` rules (without `items`) together with an `ignore` mode. Building
// the schema must return a schema or an error - it must never panic.
func seedDemoFile(ignore validate.Ignore) *descriptorpb.FileDescriptorProto {
	opts := &descriptorpb.FieldOptions{}
	proto.SetExtension(opts, validate.E_Field, &validate.FieldConstraints{
		Ignore: ignore.Enum(),
		Type: &validate.FieldConstraints_Repeated{
			Repeated: &validate.RepeatedRules{
				MinItems: proto.Uint64(1),
			},
		},
	})

	return &descriptorpb.FileDescriptorProto{
		Name:       proto.String("seeddemo/v1/demo.proto"),
		Package:    proto.String("seeddemo.v1"),
		Syntax:     proto.String("proto3"),
		Dependency: []string{"buf/validate/validate.proto"},
		MessageType: []*descriptorpb.DescriptorProto{{
			Name: proto.String("Demo"),
			Field: []*descriptorpb.FieldDescriptorProto{{
				Name:     proto.String("name"),
				JsonName: proto.String("name"),
				Number:   proto.Int32(1),
				Type:     descriptorpb.FieldDescriptorProto_TYPE_STRING.Enum(),
				Label:    descriptorpb.FieldDescriptorProto_LABEL_OPTIONAL.Enum(),
				Options:  opts,
			}},
		}},
	}
}

func TestSeedDemoMismatchedValidateRuleDoesNotPanic(t *testing.T) {
	for _, ignore := range []validate.Ignore{
		validate.Ignore_IGNORE_UNSPECIFIED,
		validate.Ignore_IGNORE_IF_UNPOPULATED,
		validate.Ignore_IGNORE_IF_DEFAULT_VALUE,
		validate.Ignore_IGNORE_ALWAYS,
	} {
		t.Run(ignore.String(), func(t *testing.T) {
			file, err := protodesc.NewFile(seedDemoFile(ignore), protoregistry.GlobalFiles)
			if err != nil {
				t.Fatal(err)
			}

			t.Run("SchemaCache", func(t *testing.T) {
				defer func() {
					if r := recover(); r != nil {
						t.Fatalf("SchemaCache.Schema panicked: %v", r)
					}
				}()
				schema, err := j5schema.NewSchemaCache().Schema(file.Messages().Get(0))
				if err != nil {
					t.Logf("returned error (acceptable): %s", err)
					return
				}
				if schema == nil {
					t.Fatal("nil schema without an error")
				}
				t.Logf("built %s", schema.FullName())
			})

			t.Run("SchemaSetFromFiles", func(t *testing.T) {
				defer func() {
					if r := recover(); r != nil {
						t.Fatalf("SchemaSetFromFiles panicked: %v", r)
					}
				}()
				files := &protoregistry.Files{}
				if err := files.RegisterFile(file); err != nil {
					t.Fatal(err)
				}
				set, err := j5schema.SchemaSetFromFiles(files, func(protoreflect.FileDescriptor) bool { return true })
				if err != nil {
					t.Logf("returned error (acceptable): %s", err)
					return
				}
				if _, err := set.SchemaByName("seeddemo.v1", "Demo"); err != nil {
					t.Fatal(err)
				}
			})
		})
	}
}
