// copy to: internal/structure/
package structure

import (
	"testing"

	"github.com/pentops/j5/gen/j5/ext/v1/ext_j5pb"
	"github.com/pentops/j5/gen/j5/schema/v1/schema_j5pb"
	"github.com/pentops/j5/gen/j5/source/v1/source_j5pb"
	"github.com/pentops/j5/lib/j5schema"
	"google.golang.org/protobuf/encoding/prototext"
	"google.golang.org/protobuf/proto"
	"google.golang.org/protobuf/types/descriptorpb"
)

// seedC15aRoundTrip exports the image to the source API, rebuilds a schema set
// from that API and checks that every rebuilt schema is linked and exports to
// exactly the form it was built from.
func seedC15aRoundTrip(t *testing.T, image *source_j5pb.SourceImage) {
	t.Helper()

	api, err := APIFromImage(image)
	if err != nil {
		t.Fatalf("APIFromImage: %s", err)
	}

	first := map[string]map[string]*schema_j5pb.RootSchema{}
	for _, pkg := range api.Packages {
		first[pkg.Name] = pkg.Schemas
		for _, sub := range pkg.SubPackages {
			first[pkg.Name+"."+sub.Name] = sub.Schemas
		}
	}

	rebuilt, err := j5schema.PackageSetFromSourceAPI(api.Packages)
	if err != nil {
		t.Fatalf("PackageSetFromSourceAPI: %s", err)
	}

	for pkgName, schemas := range first {
		pkg, ok := rebuilt.Packages[pkgName]
		if !ok {
			if len(schemas) == 0 {
				continue
			}
			t.Errorf("package %s missing after re-import", pkgName)
			continue
		}
		if len(pkg.Schemas) != len(schemas) {
			t.Errorf("package %s: %d schemas exported, %d after re-import", pkgName, len(schemas), len(pkg.Schemas))
		}
		for name, want := range schemas {
			ref, ok := pkg.Schemas[name]
			if !ok || ref.To == nil {
				t.Errorf("%s.%s is not resolved after re-import", pkgName, name)
				continue
			}
			got := ref.To.ToJ5Root()
			if !proto.Equal(want, got) {
				t.Errorf("%s.%s changed in the round trip\nfirst export:\n%s\nsecond export:\n%s",
					pkgName, name, prototext.Format(want), prototext.Format(got))
			}
		}
	}
}

func seedC15aAnyField(name string, number int32, opts *ext_j5pb.AnyField) *descriptorpb.FieldDescriptorProto {
	field := &descriptorpb.FieldDescriptorProto{
		Name:     proto.String(name),
		Type:     descriptorpb.FieldDescriptorProto_TYPE_MESSAGE.Enum(),
		Number:   proto.Int32(number),
		TypeName: proto.String(".j5.types.any.v1.Any"),
	}
	if opts != nil {
		field.Options = &descriptorpb.FieldOptions{}
		proto.SetExtension(field.Options, ext_j5pb.E_Field, &ext_j5pb.FieldOptions{
			Type: &ext_j5pb.FieldOptions_Any{Any: opts},
		})
	}
	return field
}

func TestSeedC15aAnyFieldsRoundTrip(t *testing.T) {
	// j5/types/any/v1/any.proto, without its validation annotations
	anyFile := &descriptorpb.FileDescriptorProto{
		Syntax:  proto.String("proto3"),
		Name:    proto.String("j5/types/any/v1/any.proto"),
		Package: proto.String("j5.types.any.v1"),
		MessageType: []*descriptorpb.DescriptorProto{{
			Name: proto.String("Any"),
			Field: []*descriptorpb.FieldDescriptorProto{{
				Name:   proto.String("type_name"),
				Type:   descriptorpb.FieldDescriptorProto_TYPE_STRING.Enum(),
				Number: proto.Int32(1),
			}, {
				Name:   proto.String("proto"),
				Type:   descriptorpb.FieldDescriptorProto_TYPE_BYTES.Enum(),
				Number: proto.Int32(2),
			}, {
				Name:   proto.String("j5_json"),
				Type:   descriptorpb.FieldDescriptorProto_TYPE_BYTES.Enum(),
				Number: proto.Int32(3),
			}},
		}},
	}

	image := &source_j5pb.SourceImage{
		Packages: []*source_j5pb.PackageInfo{{
			Label: "Test",
			Name:  "test.v1",
		}},
		File: []*descriptorpb.FileDescriptorProto{anyFile, {
			Syntax:     proto.String("proto3"),
			Name:       proto.String("test/v1/test.proto"),
			Package:    proto.String("test.v1"),
			Dependency: []string{anyFile.GetName()},
			MessageType: []*descriptorpb.DescriptorProto{{
				Name: proto.String("Envelope"),
				Field: []*descriptorpb.FieldDescriptorProto{
					// plain any
					seedC15aAnyField("anything", 1, nil),
					// constrained any: only the listed types
					seedC15aAnyField("constrained", 2, &ext_j5pb.AnyField{
						OnlyDefined: true,
						Types:       []string{"test.v1.Alpha", "test.v1.Beta"},
					}),
					// open any which still names its known member types
					seedC15aAnyField("open", 3, &ext_j5pb.AnyField{
						Types: []string{"test.v1.Alpha", "test.v1.Beta"},
					}),
				},
			}, {
				Name: proto.String("Alpha"),
				Field: []*descriptorpb.FieldDescriptorProto{{
					Name:   proto.String("a"),
					Type:   descriptorpb.FieldDescriptorProto_TYPE_STRING.Enum(),
					Number: proto.Int32(1),
				}},
			}, {
				Name: proto.String("Beta"),
				Field: []*descriptorpb.FieldDescriptorProto{{
					Name:   proto.String("b"),
					Type:   descriptorpb.FieldDescriptorProto_TYPE_STRING.Enum(),
					Number: proto.Int32(1),
				}},
			}},
		}},
	}

	seedC15aRoundTrip(t, image)
}
