// copy to: internal/structure/
package structure

import (
	"testing"

	"github.com/pentops/j5/gen/j5/schema/v1/schema_j5pb"
	"github.com/pentops/j5/gen/j5/source/v1/source_j5pb"
	"github.com/pentops/j5/lib/j5schema"
	"google.golang.org/protobuf/encoding/prototext"
	"google.golang.org/protobuf/proto"
	"google.golang.org/protobuf/types/descriptorpb"
)

// seedC15bRoundTrip exports the image to the source API, rebuilds a schema set
// from that API and checks that every rebuilt schema is linked and exports to
// exactly the form it was built from.
func seedC15bRoundTrip(t *testing.T, image *source_j5pb.SourceImage) {
	t.Helper()

	api, err := APIFromImage(image)
	if err != nil {
		t.Fatalf("APIFromImage: %s", err)
	}

	first := map[string]map[string]*schema_j5pb.RootSchema{}
	for _, pkg := range api.Packages {
		first[pkg.Name] = pkg.Schemas
		for _, sub := range pkg.SubPackages {
			first[pkg.Name+"."+sub.Name] = sub.Schemas
		}
	}

	rebuilt, err := j5schema.PackageSetFromSourceAPI(api.Packages)
	if err != nil {
		t.Fatalf("PackageSetFromSourceAPI: %s", err)
	}

	for pkgName, schemas := range first {
		pkg, ok := rebuilt.Packages[pkgName]
		if !ok {
			if len(schemas) == 0 {
				continue
			}
			t.Errorf("package %s missing after re-import", pkgName)
			continue
		}
		if len(pkg.Schemas) != len(schemas) {
			t.Errorf("package %s: %d schemas exported, %d after re-import", pkgName, len(schemas), len(pkg.Schemas))
		}
		for name, want := range schemas {
			ref, ok := pkg.Schemas[name]
			if !ok || ref.To == nil {
				t.Errorf("%s.%s is not resolved after re-import", pkgName, name)
				continue
			}
			got := ref.To.ToJ5Root()
			if !proto.Equal(want, got) {
				t.Errorf("%s.%s changed in the round trip\nfirst export:\n%s\nsecond export:\n%s",
					pkgName, name, prototext.Format(want), prototext.Format(got))
			}
		}
	}
}

func seedC15bString(name string, number int32) *descriptorpb.FieldDescriptorProto {
	return &descriptorpb.FieldDescriptorProto{
		Name:   proto.String(name),
		Type:   descriptorpb.FieldDescriptorProto_TYPE_STRING.Enum(),
		Number: proto.Int32(number),
	}
}

func seedC15bMessage(name string, number int32, typeName string) *descriptorpb.FieldDescriptorProto {
	return &descriptorpb.FieldDescriptorProto{
		Name:     proto.String(name),
		Type:     descriptorpb.FieldDescriptorProto_TYPE_MESSAGE.Enum(),
		Number:   proto.Int32(number),
		TypeName: proto.String(typeName),
	}
}

// A package with two sub-packages (the usual 'service' + 'topic' layout), each
// of which refers back to the root package.
func TestSeedC15bTwoSubPackagesRoundTrip(t *testing.T) {
	image := &source_j5pb.SourceImage{
		Packages: []*source_j5pb.PackageInfo{{
			Label: "Test",
			Name:  "test.v1",
		}},
		File: []*descriptorpb.FileDescriptorProto{{
			Syntax:  proto.String("proto3"),
			Name:    proto.String("test/v1/thing.proto"),
			Package: proto.String("test.v1"),
			MessageType: []*descriptorpb.DescriptorProto{{
				Name: proto.String("Thing"),
				Field: []*descriptorpb.FieldDescriptorProto{
					seedC15bString("thing_id", 1),
					seedC15bString("name", 2),
				},
			}},
		}, {
			Syntax:     proto.String("proto3"),
			Name:       proto.String("test/v1/service/thing_service.proto"),
			Package:    proto.String("test.v1.service"),
			Dependency: []string{"test/v1/thing.proto"},
			MessageType: []*descriptorpb.DescriptorProto{{
				Name: proto.String("ThingPage"),
				Field: []*descriptorpb.FieldDescriptorProto{
					seedC15bMessage("thing", 1, ".test.v1.Thing"),
					seedC15bString("next_token", 2),
				},
			}},
		}, {
			Syntax:     proto.String("proto3"),
			Name:       proto.String("test/v1/topic/thing_topic.proto"),
			Package:    proto.String("test.v1.topic"),
			Dependency: []string{"test/v1/thing.proto"},
			MessageType: []*descriptorpb.DescriptorProto{{
				Name: proto.String("ThingChanged"),
				Field: []*descriptorpb.FieldDescriptorProto{
					seedC15bMessage("thing", 1, ".test.v1.Thing"),
					seedC15bString("cause", 2),
				},
			}},
		}},
	}

	seedC15bRoundTrip(t, image)
}

// Control: the same content with a single sub-package.
func TestSeedC15bOneSubPackageRoundTrip(t *testing.T) {
	image := &source_j5pb.SourceImage{
		Packages: []*source_j5pb.PackageInfo{{
			Label: "Test",
			Name:  "test.v1",
		}},
		File: []*descriptorpb.FileDescriptorProto{{
			Syntax:  proto.String("proto3"),
			Name:    proto.String("test/v1/thing.proto"),
			Package: proto.String("test.v1"),
			MessageType: []*descriptorpb.DescriptorProto{{
				Name: proto.String("Thing"),
				Field: []*descriptorpb.FieldDescriptorProto{
					seedC15bString("thing_id", 1),
				},
			}},
		}, {
			Syntax:     proto.String("proto3"),
			Name:       proto.String("test/v1/topic/thing_topic.proto"),
			Package:    proto.String("test.v1.topic"),
			Dependency: []string{"test/v1/thing.proto"},
			MessageType: []*descriptorpb.DescriptorProto{{
				Name: proto.String("ThingChanged"),
				Field: []*descriptorpb.FieldDescriptorProto{
					seedC15bMessage("thing", 1, ".test.v1.Thing"),
				},
			}},
		}},
	}

	seedC15bRoundTrip(t, image)
}
