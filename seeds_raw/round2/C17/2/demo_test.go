// copy to: internal/j5s/protobuild/
package protobuild

// Demonstration for seed C17/2.
//
// An entity key that is BOTH a primary key and a tenant key
// (`primary = true` + `tenant = "..."`) must still be reported as a primary key
// when the compiled descriptors are read back: the client API StateEntity
// derived from the CompilePackage output lists it in PrimaryKey, in
// declaration order, matching the path parameters of the Get method.

import (
	"strings"
	"testing"

	"github.com/pentops/j5/gen/j5/client/v1/client_j5pb"
	"github.com/pentops/j5/gen/j5/source/v1/source_j5pb"
	"github.com/pentops/j5/internal/j5client"
	"github.com/pentops/j5/internal/structure"
	"google.golang.org/protobuf/proto"
	"google.golang.org/protobuf/reflect/protodesc"
	"google.golang.org/protobuf/reflect/protoreflect"
	"google.golang.org/protobuf/types/descriptorpb"
)

// c17s2Image packs the compiled files and everything they import into a
// source image, dependencies first.
func c17s2Image(t *testing.T, files fileSet, pkg string) *source_j5pb.SourceImage {
	t.Helper()
	img := &source_j5pb.SourceImage{
		Packages: []*source_j5pb.PackageInfo{{Name: pkg}},
	}
	seen := map[string]bool{}
	var add func(fd protoreflect.FileDescriptor)
	add = func(fd protoreflect.FileDescriptor) {
		if seen[fd.Path()] {
			return
		}
		seen[fd.Path()] = true
		imports := fd.Imports()
		for ii := 0; ii < imports.Len(); ii++ {
			add(imports.Get(ii).FileDescriptor)
		}
		// round-trip through the wire format so that all options are held as
		// plain generated types
		raw, err := proto.Marshal(protodesc.ToFileDescriptorProto(fd))
		if err != nil {
			t.Fatal(err)
		}
		fdp := &descriptorpb.FileDescriptorProto{}
		if err := proto.Unmarshal(raw, fdp); err != nil {
			t.Fatal(err)
		}
		img.File = append(img.File, fdp)
	}
	names := make([]string, 0, len(files))
	for name := range files {
		names = append(names, name)
	}
	// deterministic order
	for ii := range names {
		for jj := ii + 1; jj < len(names); jj++ {
			if names[jj] < names[ii] {
				names[ii], names[jj] = names[jj], names[ii]
			}
		}
	}
	for _, name := range names {
		add(files[name])
	}
	return img
}

func c17s2Entity(t *testing.T, keyLines ...string) *client_j5pb.StateEntity {
	t.Helper()
	body := []string{"entity Thing {"}
	body = append(body, keyLines...)
	body = append(body,
		"  data name string",
		"  status ACTIVE",
		"  event Create {",
		"    field name string",
		"  }",
		"}",
	)

	tf := newTestFiles()
	tf.tAddJ5SFile("local/v1/thing.j5s", body...)
	files := testCompile(t, tf, newTestDeps(), "local.v1")

	sourceAPI, err := structure.APIFromImage(c17s2Image(t, files, "local.v1"))
	if err != nil {
		t.Fatalf("APIFromImage: %s", err)
	}
	clientAPI, err := j5client.APIFromSource(sourceAPI)
	if err != nil {
		t.Fatalf("APIFromSource: %s", err)
	}
	for _, pkg := range clientAPI.Packages {
		if pkg.Name != "local.v1" {
			continue
		}
		for _, entity := range pkg.StateEntities {
			if entity.Name == "thing" {
				return entity
			}
		}
	}
	t.Fatal("no state entity 'thing' in the client API")
	return nil
}

func c17s2PathParams(t *testing.T, entity *client_j5pb.StateEntity) []string {
	t.Helper()
	if entity.QueryService == nil {
		t.Fatal("no query service")
	}
	for _, method := range entity.QueryService.Methods {
		if method.Name != "ThingGet" {
			continue
		}
		var out []string
		for _, part := range strings.Split(method.HttpPath, "/") {
			if strings.HasPrefix(part, ":") {
				out = append(out, part[1:])
			}
		}
		return out
	}
	t.Fatal("no ThingGet method")
	return nil
}

func TestC17Seed2PrimaryTenantKey(t *testing.T) {

	t.Run("plain primary keys", func(t *testing.T) {
		entity := c17s2Entity(t,
			"  key thingId key:id62 {",
			"    primary = true",
			"  }",
			"  key accountId key:id62 {",
			"    tenant = \"account\"",
			"  }",
		)
		if got := strings.Join(entity.PrimaryKey, ","); got != "thingId" {
			t.Errorf("primary key: %q", got)
		}
		if got := strings.Join(c17s2PathParams(t, entity), ","); got != "thingId" {
			t.Errorf("get path params: %q", got)
		}
	})

	t.Run("primary key which is also the tenant key", func(t *testing.T) {
		entity := c17s2Entity(t,
			"  key orgId key:id62 {",
			"    primary = true",
			"    tenant = \"org\"",
			"  }",
			"  key thingId key:id62 {",
			"    primary = true",
			"  }",
		)
		want := "orgId,thingId"
		if got := strings.Join(c17s2PathParams(t, entity), ","); got != want {
			t.Errorf("get path params: %q, want %q", got, want)
		}
		if got := strings.Join(entity.PrimaryKey, ","); got != want {
			t.Errorf("StateEntity.PrimaryKey is %q, but the entity declares primary keys %q (and Get takes them as path parameters)", got, want)
		}
	})
}
