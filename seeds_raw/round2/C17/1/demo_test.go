// copy to: internal/j5s/protobuild/
package protobuild

// Demonstration for seed C17/1.
//
// An entity whose key block says `primary = false` explicitly (the documented
// "self-documenting" spelling, used e.g. by j5stest/proto/j5st/v1/foo.j5s)
// must not get that key as a path parameter of Get / Events: the path
// parameters are exactly the primary keys (plus shard keys), in declaration
// order, and they must agree with the (j5.ext.v1.key).primary_key markers on
// the generated Keys message.

import (
	"regexp"
	"strings"
	"testing"

	"github.com/pentops/j5/gen/j5/ext/v1/ext_j5pb"
	"google.golang.org/genproto/googleapis/api/annotations"
	"google.golang.org/protobuf/proto"
	"google.golang.org/protobuf/reflect/protodesc"
	"google.golang.org/protobuf/types/descriptorpb"
)

func c17s1Normalize(t *testing.T, files fileSet, name string) *descriptorpb.FileDescriptorProto {
	t.Helper()
	file := files.expectFile(t, name)
	// round-trip through the wire format so that all options are held as the
	// generated extension types
	raw, err := proto.Marshal(protodesc.ToFileDescriptorProto(file))
	if err != nil {
		t.Fatal(err)
	}
	out := &descriptorpb.FileDescriptorProto{}
	if err := proto.Unmarshal(raw, out); err != nil {
		t.Fatal(err)
	}
	return out
}

var c17s1Placeholder = regexp.MustCompile(`\{([a-z0-9_]+)\}`)

func TestC17Seed1ExplicitNonPrimaryKeyNotInPath(t *testing.T) {
	tf := newTestFiles()
	tf.tAddJ5SFile("local/v1/thing.j5s",
		"entity Thing {",
		"  key thingId key:id62 {",
		"    primary = true",
		"  }",
		"  key accountId key:id62 {",
		"    primary = false",
		"    tenant = \"account\"",
		"  }",
		"  key subId key:id62 {",
		"    primary = true",
		"  }",
		"  key parentId key:id62 {",
		"    primary = false",
		"  }",
		"  data name string",
		"  status ACTIVE",
		"  event Create {",
		"    field name string",
		"  }",
		"}",
	)

	files := testCompile(t, tf, newTestDeps(), "local.v1")
	root := c17s1Normalize(t, files, "local/v1/thing.j5s.proto")
	service := c17s1Normalize(t, files, "local/v1/service/thing.p.j5s.proto")

	// primary keys as annotated on the Keys message, in declaration order
	var wantPrimary []string
	for _, msg := range root.MessageType {
		if msg.GetName() != "ThingKeys" {
			continue
		}
		for _, field := range msg.Field {
			keyExt := proto.GetExtension(field.Options, ext_j5pb.E_Key).(*ext_j5pb.PSMKeyFieldOptions)
			if keyExt != nil && keyExt.PrimaryKey {
				wantPrimary = append(wantPrimary, field.GetName())
			}
		}
	}
	if strings.Join(wantPrimary, ",") != "thing_id,sub_id" {
		t.Fatalf("Keys message primary keys: %v", wantPrimary)
	}

	messages := map[string]*descriptorpb.DescriptorProto{}
	for _, msg := range service.MessageType {
		messages[msg.GetName()] = msg
	}

	var query *descriptorpb.ServiceDescriptorProto
	for _, svc := range service.Service {
		if svc.GetName() == "ThingQueryService" {
			query = svc
		}
	}
	if query == nil {
		t.Fatal("no ThingQueryService")
	}

	for _, methodName := range []string{"ThingGet", "ThingEvents"} {
		var method *descriptorpb.MethodDescriptorProto
		for _, mm := range query.Method {
			if mm.GetName() == methodName {
				method = mm
			}
		}
		if method == nil {
			t.Fatalf("no method %s", methodName)
		}
		rule := proto.GetExtension(method.Options, annotations.E_Http).(*annotations.HttpRule)
		if rule == nil {
			t.Fatalf("no http rule on %s", methodName)
		}
		var gotPath []string
		for _, match := range c17s1Placeholder.FindAllStringSubmatch(rule.GetGet(), -1) {
			gotPath = append(gotPath, match[1])
		}
		if strings.Join(gotPath, ",") != strings.Join(wantPrimary, ",") {
			t.Errorf("%s path %q has parameters %v, the primary keys are %v", methodName, rule.GetGet(), gotPath, wantPrimary)
		}

		var gotFields []string
		for _, field := range messages[methodName+"Request"].GetField() {
			if field.GetName() == "page" || field.GetName() == "query" {
				continue
			}
			gotFields = append(gotFields, field.GetName())
		}
		if strings.Join(gotFields, ",") != strings.Join(wantPrimary, ",") {
			t.Errorf("%sRequest has key fields %v, the primary keys are %v", methodName, gotFields, wantPrimary)
		}
	}
}
