// copy to: internal/codec/
package codec

import (
	"bytes"
	"sync"
	"testing"

	"github.com/pentops/j5/gen/test/schema/v1/schema_testpb"
)

// Goroutines share one codec and encode messages that differ only in the
// content of a bytes field. Each result must be byte-for-byte what the same
// call returns when it is run alone on a codec of its own.
//
// Plain `go test` detects the defect through the result comparison (it needs
// real parallelism, GOMAXPROCS >= 2, and is probabilistic per iteration, hence
// the loop). `go test -race` reports it as a data race on the first overlap.
func TestSeedC10_ConcurrentBytesFields(t *testing.T) {
	const workers = 4
	const rounds = 400
	const payload = 48 * 1024

	msgs := make([]*schema_testpb.FullSchema, workers)
	want := make([][]byte, workers)
	for w := range msgs {
		// a different fill byte per worker: 0x00 -> "AAAA...", 0xff -> "////..." etc
		fill := []byte{0x00, 0xff, 0x55, 0xaa}[w%4]
		msgs[w] = &schema_testpb.FullSchema{
			SString: "worker",
			SBytes:  bytes.Repeat([]byte{fill}, payload),
			RBytes:  [][]byte{bytes.Repeat([]byte{fill}, 64), {fill}},
		}
		alone, err := NewCodec().ProtoToJSON(msgs[w].ProtoReflect())
		if err != nil {
			t.Fatal(err)
		}
		want[w] = alone
	}

	shared := NewCodec()

	// warm the schema cache: this test is about the encode path only
	if _, err := shared.ProtoToJSON(msgs[0].ProtoReflect()); err != nil {
		t.Fatal(err)
	}

	var mismatches [workers]int
	start := make(chan struct{})
	wg := sync.WaitGroup{}
	for w := 0; w < workers; w++ {
		wg.Add(1)
		go func(w int) {
			defer wg.Done()
			<-start
			for r := 0; r < rounds; r++ {
				got, err := shared.ProtoToJSON(msgs[w].ProtoReflect())
				if err != nil {
					t.Errorf("worker %d: %s", w, err)
					return
				}
				if !bytes.Equal(got, want[w]) {
					mismatches[w]++
				}
			}
		}(w)
	}
	close(start)
	wg.Wait()

	for w, n := range mismatches {
		if n > 0 {
			t.Errorf("worker %d: %d of %d concurrent encodes differ from the result of the same call run alone", w, n, rounds)
		}
	}
}
