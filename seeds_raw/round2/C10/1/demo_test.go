// copy to: internal/codec/
package codec

import (
	"sync"
	"testing"
	"time"

	"google.golang.org/protobuf/proto"
	"google.golang.org/protobuf/reflect/protodesc"
	"google.golang.org/protobuf/reflect/protoreflect"
	"google.golang.org/protobuf/reflect/protoregistry"
	"google.golang.org/protobuf/types/descriptorpb"
	"google.golang.org/protobuf/types/dynamicpb"
	_ "google.golang.org/protobuf/types/known/emptypb"

	"github.com/pentops/j5/gen/test/schema/v1/schema_testpb"
)

// seedC10UnbuildableMessage returns a message type whose j5 schema cannot be
// built: it has a field of type google.protobuf.Empty, which j5 does not
// support. Encoding it is expected to return an error, every time.
func seedC10UnbuildableMessage(t *testing.T) protoreflect.MessageDescriptor {
	t.Helper()
	fdp := &descriptorpb.FileDescriptorProto{
		Name:       proto.String("seedc10/v1/bad.proto"),
		Package:    proto.String("seedc10.v1"),
		Syntax:     proto.String("proto3"),
		Dependency: []string{"google/protobuf/empty.proto"},
		MessageType: []*descriptorpb.DescriptorProto{{
			Name: proto.String("Bad"),
			Field: []*descriptorpb.FieldDescriptorProto{{
				Name:     proto.String("nothing"),
				JsonName: proto.String("nothing"),
				Number:   proto.Int32(1),
				Label:    descriptorpb.FieldDescriptorProto_LABEL_OPTIONAL.Enum(),
				Type:     descriptorpb.FieldDescriptorProto_TYPE_MESSAGE.Enum(),
				TypeName: proto.String(".google.protobuf.Empty"),
			}},
		}},
	}
	fd, err := protodesc.NewFile(fdp, protoregistry.GlobalFiles)
	if err != nil {
		t.Fatal(err)
	}
	return fd.Messages().Get(0)
}

// Several goroutines share one codec. Each of them repeatedly encodes a
// message type whose schema cannot be built (an error result, every time) and
// a perfectly good message type (the same JSON, every time). All of the calls
// must return: a failed schema build must not wedge the shared cache.
func TestSeedC10_FailedTypeThenOthers(t *testing.T) {
	badDesc := seedC10UnbuildableMessage(t)

	good := &schema_testpb.FullSchema{SString: "hello"}
	want, err := NewCodec().ProtoToJSON(good.ProtoReflect())
	if err != nil {
		t.Fatal(err)
	}

	shared := NewCodec()

	const workers = 4
	const rounds = 3

	errs := make(chan string, workers*rounds*2)
	wg := sync.WaitGroup{}
	for w := 0; w < workers; w++ {
		wg.Add(1)
		go func() {
			defer wg.Done()
			for r := 0; r < rounds; r++ {
				if _, err := shared.ProtoToJSON(dynamicpb.NewMessage(badDesc)); err == nil {
					errs <- "unbuildable type: expected an error"
				}
				got, err := shared.ProtoToJSON(good.ProtoReflect())
				if err != nil {
					errs <- "good type: " + err.Error()
				} else if string(got) != string(want) {
					errs <- "good type: got " + string(got) + " want " + string(want)
				}
			}
		}()
	}

	done := make(chan struct{})
	go func() {
		wg.Wait()
		close(done)
	}()

	select {
	case <-done:
	case <-time.After(10 * time.Second):
		t.Fatal("deadlock: calls on the shared codec did not return within 10s")
	}

	close(errs)
	for msg := range errs {
		t.Error(msg)
	}
}
