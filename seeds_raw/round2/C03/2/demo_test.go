// copy to: internal/codec/
package codec

import (
	"net/url"
	"testing"

	"google.golang.org/protobuf/encoding/prototext"
	"google.golang.org/protobuf/proto"

	"github.com/pentops/j5/gen/test/schema/v1/schema_testpb"
)

// Scalar values supplied as URL query parameters must produce the same message
// as the canonical JSON spelling. Booleans are the one scalar kind whose JSON
// form is not a string, so the query decoder converts "true"/"false" using the
// schema of the value being set; for a repeated field that is the ITEM schema.
func TestSeedC03_2_RepeatedBoolQuery(t *testing.T) {
	codec := NewCodec()

	for _, tc := range []struct {
		name  string
		json  string
		query url.Values
	}{{
		name:  "repeated bool",
		json:  `{"rBool": [true, false, true]}`,
		query: url.Values{"rBool": []string{"true", "false", "true"}},
	}, {
		name:  "repeated bool, single value",
		json:  `{"rBool": [true]}`,
		query: url.Values{"rBool": []string{"true"}},
	}, {
		name:  "repeated bool, snake case key, next to other scalars",
		json:  `{"rBool": [false, false], "sBool": true, "rString": ["true"]}`,
		query: url.Values{"r_bool": []string{"false", "false"}, "sBool": []string{"true"}, "rString": []string{"true"}},
	}, {
		// sanity: the singular forms, which the existing suite exercises
		name:  "singular bools",
		json:  `{"sBool": true, "oBool": false}`,
		query: url.Values{"sBool": []string{"true"}, "oBool": []string{"false"}},
	}} {
		t.Run(tc.name, func(t *testing.T) {
			want := &schema_testpb.FullSchema{}
			if err := codec.JSONToProto([]byte(tc.json), want.ProtoReflect()); err != nil {
				t.Fatalf("JSONToProto(%s): %s", tc.json, err)
			}

			got := &schema_testpb.FullSchema{}
			if err := codec.QueryToProto(tc.query, got.ProtoReflect()); err != nil {
				t.Fatalf("QueryToProto(%v) rejected a valid spelling of %s: %s", tc.query, tc.json, err)
			}

			if !proto.Equal(want, got) {
				t.Fatalf("query %v decoded to\n  %s\nbut canonical %s decodes to\n  %s",
					tc.query, prototext.Format(got), tc.json, prototext.Format(want))
			}
		})
	}

	// a bad boolean must still be rejected, in either position
	for _, bad := range []url.Values{
		{"rBool": []string{"true", "yes"}},
		{"sBool": []string{"1"}},
	} {
		msg := &schema_testpb.FullSchema{}
		if err := codec.QueryToProto(bad, msg.ProtoReflect()); err == nil {
			t.Errorf("query %v was accepted: %s", bad, prototext.Format(msg))
		}
	}
}
