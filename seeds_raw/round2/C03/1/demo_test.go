// copy to: internal/codec/
package codec

import (
	"testing"

	"google.golang.org/protobuf/encoding/prototext"
	"google.golang.org/protobuf/proto"

	"github.com/pentops/j5/gen/test/schema/v1/schema_testpb"
)

// An explicit null for an absent member must decode to the same message as the
// document without that member. The member used here lives in a message that
// is flattened into its parent ((j5.ext.v1.field).message.flatten = true), so
// merely *creating* the field for it instantiates the hidden parent message.
func TestSeedC03_1_ExplicitNullOnFlattenedMember(t *testing.T) {
	codec := NewCodec()

	decode := func(doc string) *schema_testpb.FullSchema {
		t.Helper()
		msg := &schema_testpb.FullSchema{}
		if err := codec.JSONToProto([]byte(doc), msg.ProtoReflect()); err != nil {
			t.Fatalf("JSONToProto(%s): %s", doc, err)
		}
		return msg
	}

	for _, tc := range []struct{ canonical, withNull string }{
		{`{}`, `{"fieldFromFlattened": null}`},
		{`{"sString": "x"}`, `{"sString": "x", "field2FromFlattened": null}`},
		{`{"sString": "x"}`, `{"fieldFromFlattened": null, "sString": "x", "field2FromFlattened": null}`},
	} {
		want := decode(tc.canonical)
		got := decode(tc.withNull)
		if !proto.Equal(want, got) {
			t.Errorf("document %s decoded to\n  %s\nbut the canonical document %s decodes to\n  %s",
				tc.withNull, prototext.Format(got), tc.canonical, prototext.Format(want))
		}
		if got.Flattened != nil {
			t.Errorf("document %s: hidden flattened message was instantiated by a null member", tc.withNull)
		}

		// the re-encoded documents must agree as well
		wantJSON, err := codec.ProtoToJSON(want.ProtoReflect())
		if err != nil {
			t.Fatal(err)
		}
		gotJSON, err := codec.ProtoToJSON(got.ProtoReflect())
		if err != nil {
			t.Fatal(err)
		}
		if string(wantJSON) != string(gotJSON) {
			t.Logf("re-encoded: %s vs %s", gotJSON, wantJSON)
		}
	}

	// sanity: ordinary (non-flattened) null members are unaffected
	if got := decode(`{"sString": null, "oString": null, "sInt32": null}`); !proto.Equal(got, &schema_testpb.FullSchema{}) {
		t.Errorf("plain null members changed the message: %s", prototext.Format(got))
	}
}
