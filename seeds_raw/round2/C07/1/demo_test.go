// copy to: internal/j5s/protobuild/
package protobuild

import (
	"context"
	"testing"
)

// The local bundle has one package, foo.v1, whose only file imports a message
// from an external (dependency) package. The j5s source is the same in every
// case except for the name of the external package. A valid package must
// compile and link whatever its dependencies happen to be called.
func TestSeedC07_1_ExternalPackageNextToLocalOne(t *testing.T) {
	for _, extDir := range []string{
		"foo/v1beta1", // sibling directory whose name starts with the local package's directory name
		"foo/v1test",
		// controls
		"foo/v10",
		"foo/v2",
		"other/v1beta1",
	} {
		t.Run(extDir, func(t *testing.T) {
			extPkg := tFileToPackage(extDir + "/thing.proto")

			tf := newTestFiles()
			tf.tAddJ5SFile("foo/v1/foo.j5s",
				`import "`+extDir+`/thing.proto"`,
				"object Foo {",
				"  field thing object:"+extPkg+".Thing",
				"}")

			td := newTestDeps()
			td.tAddSimple(extDir + "/thing.proto").msg("Thing")

			cc, err := NewPackageSet(td, tf)
			if err != nil {
				t.Fatalf("NewPackageSet: %s", err)
			}
			files, err := cc.CompilePackage(context.Background(), "foo.v1")
			if err != nil {
				t.Fatalf("valid package rejected: %s", err)
			}
			if len(files) != 1 || files[0].Path() != "foo/v1/foo.j5s.proto" {
				t.Fatalf("unexpected output files: %v", files)
			}
		})
	}
}
