// copy to: internal/j5s/protobuild/
package protobuild

import (
	"context"
	"strings"
	"testing"
)

// Each file contains a single entity and nothing else. The entities differ
// only in which key is marked 'shardKey' (the tenant / DB-shard key that the
// language adds to the URL of the generated query endpoints) and in key order.
// All of them are valid and must compile and link into the main, service and
// topic files.
func TestSeedC07_2_EntityWithNonPrimaryShardKey(t *testing.T) {
	entity := func(keys ...string) []string {
		out := []string{"entity Foo {"}
		out = append(out, keys...)
		out = append(out,
			"  data name string",
			"  status ACTIVE",
			"  event Create {",
			"    field name string",
			"  }",
			"}")
		return out
	}
	primaryFoo := []string{"  key fooId key:id62 {", "    primary = true", "  }"}
	shardTenant := []string{"  key tenantId key:id62 {", "    shardKey = true", "  }"}
	primaryShardTenant := []string{"  key tenantId key:id62 {", "    primary = true", "    shardKey = true", "  }"}
	plainTenant := []string{"  key tenantId key:id62"}

	join := func(parts ...[]string) []string {
		out := []string{}
		for _, p := range parts {
			out = append(out, p...)
		}
		return out
	}

	for name, tc := range map[string]struct {
		body    []string
		wantGet string // fields of FooGetRequest, in order
	}{
		"primary key, then non-primary shard key": {
			body:    entity(join(primaryFoo, shardTenant)...),
			wantGet: "foo_id,tenant_id",
		},
		"non-primary shard key, then primary key": {
			body:    entity(join(shardTenant, primaryFoo)...),
			wantGet: "tenant_id,foo_id",
		},
		// controls
		"control: shard key is also primary": {
			body:    entity(join(primaryShardTenant, primaryFoo)...),
			wantGet: "tenant_id,foo_id",
		},
		"control: no shard key": {
			body:    entity(join(primaryFoo, plainTenant)...),
			wantGet: "foo_id",
		},
	} {
		t.Run(name, func(t *testing.T) {
			tf := newTestFiles()
			tf.tAddJ5SFile("local/v1/foo.j5s", tc.body...)
			td := newTestDeps()
			cc, err := NewPackageSet(td, tf)
			if err != nil {
				t.Fatalf("NewPackageSet: %s", err)
			}
			files, err := cc.CompilePackage(context.Background(), "local.v1")
			if err != nil {
				t.Fatalf("valid entity rejected: %s", err)
			}
			if len(files) != 3 {
				t.Fatalf("expected main, service and topic file, got %d files", len(files))
			}
			for _, f := range files {
				if f.Path() != "local/v1/service/foo.p.j5s.proto" {
					continue
				}
				req := f.Messages().ByName("FooGetRequest")
				if req == nil {
					t.Fatalf("no FooGetRequest in %s", f.Path())
				}
				names := []string{}
				for i := 0; i < req.Fields().Len(); i++ {
					names = append(names, string(req.Fields().Get(i).Name()))
				}
				if got := strings.Join(names, ","); got != tc.wantGet {
					t.Errorf("FooGetRequest fields: got %s, want %s", got, tc.wantGet)
				}
			}
		})
	}
}
