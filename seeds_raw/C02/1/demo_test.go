// copy to: internal/j5s/protobuild/
package protobuild

// Demonstration for C02 seeded change 1.
//
// A j5s file imports another package "by package" without an alias
// (`import foo.bar.v1`) and refers to its types with the documented short
// form, i.e. the package name without the version (`bar.Shared`).
// The compiled field must point at .foo.bar.v1.Shared and the generated file
// must import foo/bar/v1/types.j5s.proto.
//
// Uses the helpers of the existing protobuild test files (newTestFiles,
// newTestDeps, NewPackageSet).

import (
	"context"
	"testing"

	"google.golang.org/protobuf/reflect/protoreflect"
)

func c02s1Compile(t *testing.T, tf *testFiles, pkg string) map[string]protoreflect.FileDescriptor {
	t.Helper()
	cc, err := NewPackageSet(newTestDeps(), tf)
	if err != nil {
		t.Fatalf("NewPackageSet: %s", err)
	}
	out, err := cc.CompilePackage(context.Background(), pkg)
	if err != nil {
		t.Fatalf("CompilePackage(%s): %s", pkg, err)
	}
	files := map[string]protoreflect.FileDescriptor{}
	for _, f := range out {
		files[f.Path()] = f
	}
	return files
}

func c02s1HasImport(fd protoreflect.FileDescriptor, path string) bool {
	imps := fd.Imports()
	for i := 0; i < imps.Len(); i++ {
		if imps.Get(i).Path() == path {
			return true
		}
	}
	return false
}

func TestC02Seed1_PackageImportShortName(t *testing.T) {
	tf := newTestFiles()
	tf.tAddJ5SFile("foo/bar/v1/types.j5s",
		"object Shared {",
		"  field name string",
		"}",
		"enum Color {",
		"  option RED",
		"  option GREEN",
		"}",
	)
	tf.tAddJ5SFile("local/v1/foo.j5s",
		"import foo.bar.v1",
		"object Foo {",
		"  field shared object:bar.Shared",
		"  field color enum:bar.Color",
		"}",
	)

	files := c02s1Compile(t, tf, "local.v1")
	fd, ok := files["local/v1/foo.j5s.proto"]
	if !ok {
		t.Fatalf("missing local/v1/foo.j5s.proto")
	}
	foo := fd.Messages().ByName("Foo")
	if foo == nil {
		t.Fatalf("missing message Foo")
	}

	shared := foo.Fields().ByName("shared")
	if shared == nil || shared.Message() == nil {
		t.Fatalf("missing message field 'shared'")
	}
	if got, want := string(shared.Message().FullName()), "foo.bar.v1.Shared"; got != want {
		t.Errorf("field shared: type %s, want %s", got, want)
	}

	color := foo.Fields().ByName("color")
	if color == nil || color.Enum() == nil {
		t.Fatalf("missing enum field 'color'")
	}
	if got, want := string(color.Enum().FullName()), "foo.bar.v1.Color"; got != want {
		t.Errorf("field color: type %s, want %s", got, want)
	}

	if !c02s1HasImport(fd, "foo/bar/v1/types.j5s.proto") {
		t.Errorf("generated file does not import foo/bar/v1/types.j5s.proto")
	}
}

// Same reference, but a second imported package whose *first* segment is
// also "bar" exists and exports a type with the same name. The short name
// "bar" must still mean foo.bar.v1 (second-last segment of the import), the
// other package is reachable as "baz".
func TestC02Seed1_PackageImportShortNameAmbiguous(t *testing.T) {
	tf := newTestFiles()
	tf.tAddJ5SFile("foo/bar/v1/types.j5s",
		"object Shared {",
		"  field name string",
		"}",
	)
	tf.tAddJ5SFile("bar/baz/v1/types.j5s",
		"object Shared {",
		"  field other string",
		"}",
	)
	tf.tAddJ5SFile("local/v1/foo.j5s",
		"import foo.bar.v1",
		"import bar.baz.v1",
		"object Foo {",
		"  field shared object:bar.Shared",
		"  field other object:bar.baz.v1.Shared",
		"}",
	)

	files := c02s1Compile(t, tf, "local.v1")
	fd, ok := files["local/v1/foo.j5s.proto"]
	if !ok {
		t.Fatalf("missing local/v1/foo.j5s.proto")
	}
	foo := fd.Messages().ByName("Foo")
	if foo == nil {
		t.Fatalf("missing message Foo")
	}

	shared := foo.Fields().ByName("shared")
	if shared == nil || shared.Message() == nil {
		t.Fatalf("missing message field 'shared'")
	}
	if got, want := string(shared.Message().FullName()), "foo.bar.v1.Shared"; got != want {
		t.Errorf("field shared: type %s, want %s", got, want)
	}
	other := foo.Fields().ByName("other")
	if other == nil || other.Message() == nil {
		t.Fatalf("missing message field 'other'")
	}
	if got, want := string(other.Message().FullName()), "bar.baz.v1.Shared"; got != want {
		t.Errorf("field other: type %s, want %s", got, want)
	}
	if !c02s1HasImport(fd, "foo/bar/v1/types.j5s.proto") {
		t.Errorf("generated file does not import foo/bar/v1/types.j5s.proto")
	}
}
