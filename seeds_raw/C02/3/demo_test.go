// copy to: internal/j5s/protobuild/
package protobuild

// Demonstration for C02 seeded change 3.
//
// reqres and upsert topic messages carry an implicit leading field (the
// request / upsert metadata) as field number 1, the declared fields follow
// from number 2. That has to hold for every message, including one that
// declares no fields of its own.
//
// Uses the helpers of the existing protobuild test files (newTestFiles,
// newTestDeps, NewPackageSet).

import (
	"context"
	"fmt"
	"strings"
	"testing"

	"google.golang.org/protobuf/reflect/protoreflect"
)

func c02s3Fields(msg protoreflect.MessageDescriptor) string {
	parts := []string{}
	fields := msg.Fields()
	for i := 0; i < fields.Len(); i++ {
		f := fields.Get(i)
		typeName := f.Kind().String()
		if f.Message() != nil {
			typeName = string(f.Message().FullName())
		}
		parts = append(parts, fmt.Sprintf("%s %s = %d", typeName, f.Name(), f.Number()))
	}
	return strings.Join(parts, "; ")
}

func TestC02Seed3_ImplicitLeadingField(t *testing.T) {
	tf := newTestFiles()
	tf.tAddJ5SFile("local/v1/foo.j5s",
		// both sides declare fields
		"topic Full reqres {",
		"  request {",
		"    field fooId string",
		"  }",
		"  reply {",
		"    field name string",
		"    field age integer:INT32",
		"  }",
		"}",
		"",
		// a 'ping': the request declares no fields at all
		"topic Ping reqres {",
		"  request {",
		"  }",
		"  reply {",
		"    field name string",
		"  }",
		"}",
		"",
		"topic Ups upsert {",
		"  message UpsertFoo {",
		"    field a string",
		"  }",
		"}",
		"",
		// an upsert without extra fields
		"topic Bare upsert {",
		"  message UpsertBare {",
		"  }",
		"}",
		"",
		// publish topics have no implicit field
		"topic Pub publish {",
		"  message Empty {",
		"  }",
		"  message One {",
		"    field a string",
		"  }",
		"}",
	)

	cc, err := NewPackageSet(newTestDeps(), tf)
	if err != nil {
		t.Fatalf("NewPackageSet: %s", err)
	}
	out, err := cc.CompilePackage(context.Background(), "local.v1")
	if err != nil {
		t.Fatalf("CompilePackage: %s", err)
	}

	want := map[string]string{
		"FullRequestMessage": "j5.messaging.v1.RequestMetadata request = 1; string foo_id = 2",
		"FullReplyMessage":   "j5.messaging.v1.RequestMetadata request = 1; string name = 2; int32 age = 3",
		"PingRequestMessage": "j5.messaging.v1.RequestMetadata request = 1",
		"PingReplyMessage":   "j5.messaging.v1.RequestMetadata request = 1; string name = 2",
		"UpsertFooMessage":   "j5.messaging.v1.UpsertMetadata upsert = 1; string a = 2",
		"UpsertBareMessage":  "j5.messaging.v1.UpsertMetadata upsert = 1",
		"EmptyMessage":       "",
		"OneMessage":         "string a = 1",
	}

	found := false
	for _, file := range out {
		if file.Path() != "local/v1/topic/foo.p.j5s.proto" {
			continue
		}
		found = true
		if got := string(file.Package()); got != "local.v1.topic" {
			t.Errorf("topic file package %q", got)
		}
		if got := file.Messages().Len(); got != len(want) {
			t.Errorf("topic file has %d messages, want %d", got, len(want))
		}
		for name, wantFields := range want {
			msg := file.Messages().ByName(protoreflect.Name(name))
			if msg == nil {
				t.Errorf("missing message %s", name)
				continue
			}
			if got := c02s3Fields(msg); got != wantFields {
				t.Errorf("message %s:\n   got fields: %s\n  want fields: %s", name, got, wantFields)
			}
		}
	}
	if !found {
		t.Fatalf("missing local/v1/topic/foo.p.j5s.proto")
	}
}
