// copy to: internal/j5s/protobuild/
package protobuild

// Demonstration for C02 seeded change 2.
//
// Services are emitted with the declared HTTP verb and path, every ":name"
// path parameter rewritten to "{snake_name}". This compiles a service whose
// methods use several path-parameter patterns and checks the google.api.http
// rule of every method.
//
// Uses the helpers of the existing protobuild test files (newTestFiles,
// newTestDeps, NewPackageSet).

import (
	"context"
	"testing"

	"google.golang.org/genproto/googleapis/api/annotations"
	"google.golang.org/protobuf/proto"
	"google.golang.org/protobuf/reflect/protoreflect"
	"google.golang.org/protobuf/types/descriptorpb"
)

func TestC02Seed2_PathParameters(t *testing.T) {
	tf := newTestFiles()
	tf.tAddJ5SFile("local/v1/foo.j5s",
		"service Foo {",
		`  basePath = "/foo/v1/:tenant"`,
		"",
		"  method Single {",
		`    httpMethod = "GET"`,
		`    httpPath = "/items/:itemId"`,
		"    request {",
		"      field tenant string",
		"      field itemId string",
		"    }",
		"    response {",
		"    }",
		"  }",
		"",
		"  method Double {",
		`    httpMethod = "POST"`,
		`    httpPath = "/items/:itemId/parts/:partId"`,
		"    request {",
		"      field tenant string",
		"      field itemId string",
		"      field partId string",
		"    }",
		"    response {",
		"    }",
		"  }",
		"",
		// the name of the first parameter is a prefix of the name of the second
		"  method Prefixed {",
		`    httpMethod = "GET"`,
		`    httpPath = "/:item/:itemVersion"`,
		"    request {",
		"      field tenant string",
		"      field item string",
		"      field itemVersion string",
		"    }",
		"    response {",
		"    }",
		"  }",
		"",
		// same, the other way around
		"  method PrefixedReverse {",
		`    httpMethod = "GET"`,
		`    httpPath = "/v/:itemVersion/:item"`,
		"    request {",
		"      field tenant string",
		"      field item string",
		"      field itemVersion string",
		"    }",
		"    response {",
		"    }",
		"  }",
		"}",
	)

	cc, err := NewPackageSet(newTestDeps(), tf)
	if err != nil {
		t.Fatalf("NewPackageSet: %s", err)
	}
	out, err := cc.CompilePackage(context.Background(), "local.v1")
	if err != nil {
		t.Fatalf("CompilePackage: %s", err)
	}

	want := map[string]string{
		"Single":          "GET /foo/v1/{tenant}/items/{item_id}",
		"Double":          "POST /foo/v1/{tenant}/items/{item_id}/parts/{part_id}",
		"Prefixed":        "GET /foo/v1/{tenant}/{item}/{item_version}",
		"PrefixedReverse": "GET /foo/v1/{tenant}/v/{item_version}/{item}",
	}

	found := false
	for _, file := range out {
		if file.Path() != "local/v1/service/foo.p.j5s.proto" {
			continue
		}
		found = true
		if got := string(file.Package()); got != "local.v1.service" {
			t.Errorf("service file package %q", got)
		}
		svc := file.Services().ByName("FooService")
		if svc == nil {
			t.Fatalf("missing FooService")
		}
		for name, wantRule := range want {
			method := svc.Methods().ByName(protoreflect.Name(name))
			if method == nil {
				t.Errorf("missing method %s", name)
				continue
			}
			opts, ok := method.Options().(*descriptorpb.MethodOptions)
			if !ok {
				t.Fatalf("method options are %T", method.Options())
			}
			// round-trip, the linked options may hold the extension as a dynamic message
			optBytes, err := proto.Marshal(opts)
			if err != nil {
				t.Fatal(err)
			}
			typed := &descriptorpb.MethodOptions{}
			if err := proto.Unmarshal(optBytes, typed); err != nil {
				t.Fatal(err)
			}
			rule, _ := proto.GetExtension(typed, annotations.E_Http).(*annotations.HttpRule)
			if rule == nil {
				t.Errorf("method %s has no http rule", name)
				continue
			}
			var got string
			switch pt := rule.Pattern.(type) {
			case *annotations.HttpRule_Get:
				got = "GET " + pt.Get
			case *annotations.HttpRule_Post:
				got = "POST " + pt.Post
			default:
				got = "other"
			}
			if got != wantRule {
				t.Errorf("method %s: http rule %q, want %q", name, got, wantRule)
			}
		}
	}
	if !found {
		t.Fatalf("missing local/v1/service/foo.p.j5s.proto")
	}
}
