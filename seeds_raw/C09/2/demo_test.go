// copy to: internal/bcl/internal/parser/
package parser

import (
	"fmt"
	"testing"
)

// C09 seed 2: block headers whose tags / qualifiers carry a '?' mark must keep
// that mark through the formatter.
func TestSeedC09_2_QuestionMark(t *testing.T) {
	for _, input := range []string{
		"field ? name\n",
		"field name ! a ? b\n",
		"field name:? qual\n",
		"object Foo {\n\tfield ?\"x\" string:?opt | desc\n}\n",
	} {
		if _, err := ParseFile(input, true); err != nil {
			t.Fatalf("input %q must be accepted by the parser: %v", input, err)
		}

		out, err := Fmt(input)
		if err != nil {
			t.Fatalf("Fmt(%q): %v", input, err)
		}

		if _, err := ParseFile(out, true); err != nil {
			t.Errorf("Fmt(%q) = %q is not accepted by the parser: %v", input, out, err)
			continue
		}

		want := seedC09Headers(t, input)
		got := seedC09Headers(t, out)
		if want != got {
			t.Errorf("Fmt(%q) = %q changed block headers:\n want %s\n  got %s", input, out, want, got)
		}

		out2, err := Fmt(out)
		if err != nil {
			t.Errorf("second Fmt(%q): %v", out, err)
			continue
		}
		if out2 != out {
			t.Errorf("not idempotent: %q -> %q", out, out2)
		}
	}
}

// seedC09Headers renders type, tags (with marks) and qualifiers (with marks)
// of every block header, position-free.
func seedC09Headers(t *testing.T, src string) string {
	t.Helper()
	l := NewLexer(src)
	tokens, ok, err := l.AllTokens(true)
	if err != nil || !ok {
		t.Fatalf("lex %q: %v %v", src, err, l.Errors)
	}
	ww := &Walker{tokens: tokens, failFast: true}
	frags, err := ww.walkFragments()
	if err != nil {
		t.Fatalf("walk %q: %v", src, err)
	}
	tag := func(tv TagValue) string {
		s, err := tv.AsString()
		if err != nil {
			t.Fatal(err)
		}
		kind := "ref"
		if tv.Value != nil {
			kind = "str"
		}
		return fmt.Sprintf("(mark=%d %s %q)", tv.Mark, kind, s)
	}
	out := ""
	for _, f := range frags {
		hdr, ok := f.(BlockHeader)
		if !ok {
			continue
		}
		out += "block " + hdr.Type.String()
		for _, tv := range hdr.Tags {
			out += " tag" + tag(tv)
		}
		for _, tv := range hdr.Qualifiers {
			out += " qual" + tag(tv)
		}
		out += fmt.Sprintf(" open=%v desc=%q;", hdr.Open, hdr.DescriptionString())
	}
	return out
}
