// copy to: internal/bcl/internal/parser/
package parser

import "testing"

// C09 seed 1: formatting a file that contains an empty array literal must
// give parseable output that still has the (empty) array value, and must be
// idempotent.
func TestSeedC09_1_EmptyArray(t *testing.T) {
	for _, input := range []string{
		"a = []\n",
		"a = [ ]\nb = 1\n",
		"a = [[], [1, 2], []]\n",
		"block foo {\n\tlist += []\n}\n",
	} {
		if _, err := ParseFile(input, true); err != nil {
			t.Fatalf("input %q must be accepted by the parser: %v", input, err)
		}

		out, err := Fmt(input)
		if err != nil {
			t.Fatalf("Fmt(%q): %v", input, err)
		}

		if _, err := ParseFile(out, true); err != nil {
			t.Errorf("Fmt(%q) = %q is not accepted by the parser: %v", input, out, err)
			continue
		}

		inFrags := seedC09Values(t, input)
		outFrags := seedC09Values(t, out)
		if inFrags != outFrags {
			t.Errorf("Fmt(%q) = %q changed values: %s -> %s", input, out, inFrags, outFrags)
		}

		out2, err := Fmt(out)
		if err != nil {
			t.Errorf("second Fmt(%q): %v", out, err)
			continue
		}
		if out2 != out {
			t.Errorf("not idempotent: %q -> %q", out, out2)
		}
	}
}

// seedC09Values renders all assignment values of a source in a canonical,
// position-free form.
func seedC09Values(t *testing.T, src string) string {
	t.Helper()
	l := NewLexer(src)
	tokens, ok, err := l.AllTokens(true)
	if err != nil || !ok {
		t.Fatalf("lex %q: %v %v", src, err, l.Errors)
	}
	ww := &Walker{tokens: tokens, failFast: true}
	frags, err := ww.walkFragments()
	if err != nil {
		t.Fatalf("walk %q: %v", src, err)
	}
	var render func(v Value) string
	render = func(v Value) string {
		if v.array == nil {
			return v.token.Type.String() + ":" + v.token.Lit
		}
		s := "["
		for i, e := range v.array {
			if i > 0 {
				s += ","
			}
			s += render(e)
		}
		return s + "]"
	}
	out := ""
	for _, f := range frags {
		if a, ok := f.(Assignment); ok {
			op := "="
			if a.Append {
				op = "+="
			}
			out += a.Key.String() + op + render(a.Value) + ";"
		}
	}
	return out
}
