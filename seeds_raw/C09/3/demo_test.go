// copy to: internal/bcl/internal/parser/
package parser

import (
	"strings"
	"testing"
)

// C09 seed 3: a multi-paragraph description must keep every paragraph break
// (and every word) through the formatter.
func TestSeedC09_3_DescriptionParagraphs(t *testing.T) {
	s := func(s ...string) string { return strings.Join(s, "\n") + "\n" }
	for _, input := range []string{
		// three paragraphs, the middle one fits on one line
		s(
			"| first paragraph",
			"|",
			"| second",
			"|",
			"| third paragraph",
		),
		// nested, with duplicate blank lines and four paragraphs
		s(
			"object Foo {",
			"\t| one",
			"\t|",
			"\t|",
			"\t| two two",
			"\t| two",
			"\t|",
			"\t| three",
			"\t|",
			"\t| four",
			"",
			"\tkey = 1",
			"}",
		),
	} {
		if _, err := ParseFile(input, true); err != nil {
			t.Fatalf("input %q must be accepted by the parser: %v", input, err)
		}

		out, err := Fmt(input)
		if err != nil {
			t.Fatalf("Fmt(%q): %v", input, err)
		}

		if _, err := ParseFile(out, true); err != nil {
			t.Errorf("Fmt(%q) = %q is not accepted by the parser: %v", input, out, err)
			continue
		}

		want := seedC09Paragraphs(t, input)
		got := seedC09Paragraphs(t, out)
		if want != got {
			t.Errorf("Fmt changed description paragraphs\n  in: %q\n out: %q\nwant: %s\n got: %s", input, out, want, got)
		}

		out2, err := Fmt(out)
		if err != nil {
			t.Errorf("second Fmt(%q): %v", out, err)
			continue
		}
		if out2 != out {
			t.Errorf("not idempotent: %q -> %q", out, out2)
		}
	}
}

// seedC09Paragraphs renders each Description fragment as its paragraphs
// (separated by '#'), each paragraph as its whitespace-separated words.
func seedC09Paragraphs(t *testing.T, src string) string {
	t.Helper()
	l := NewLexer(src)
	tokens, ok, err := l.AllTokens(true)
	if err != nil || !ok {
		t.Fatalf("lex %q: %v %v", src, err, l.Errors)
	}
	ww := &Walker{tokens: tokens, failFast: true}
	frags, err := ww.walkFragments()
	if err != nil {
		t.Fatalf("walk %q: %v", src, err)
	}
	out := ""
	for _, f := range frags {
		desc, ok := f.(Description)
		if !ok {
			continue
		}
		paras := []string{}
		cur := []string{}
		for _, line := range strings.Split(desc.Value, "\n") {
			words := strings.Fields(line)
			if len(words) == 0 {
				if len(cur) > 0 {
					paras = append(paras, strings.Join(cur, " "))
					cur = nil
				}
				continue
			}
			cur = append(cur, words...)
		}
		if len(cur) > 0 {
			paras = append(paras, strings.Join(cur, " "))
		}
		out += "desc{" + strings.Join(paras, " # ") + "};"
	}
	return out
}
