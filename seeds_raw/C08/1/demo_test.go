// copy to: internal/codec/
package codec

import (
	"encoding/json"
	"testing"

	"github.com/pentops/j5/gen/test/schema/v1/schema_testpb"
)

// C08 seed 1: map keys are user data, not schema identifiers. A key holding a
// quote, a backslash or a control character must still be escaped so that the
// document stays well-formed and the key survives a JSON parse.
func TestSeedC08MapKeyEscaping(t *testing.T) {
	codec := NewCodec()

	for _, key := range []string{
		`plain`,
		`with"quote`,
		`back\slash`,
		"new\nline",
	} {
		msg := &schema_testpb.FullSchema{
			MapStringString: map[string]string{
				key: "val",
			},
		}

		out, err := codec.ProtoToJSON(msg.ProtoReflect())
		if err != nil {
			// failing is allowed by the property, emitting garbage is not.
			continue
		}

		if !json.Valid(out) {
			t.Errorf("key %q: output is not well-formed JSON: %s", key, string(out))
			continue
		}

		parsed := map[string]map[string]string{}
		if err := json.Unmarshal(out, &parsed); err != nil {
			t.Errorf("key %q: %s (%s)", key, err, string(out))
			continue
		}
		got, ok := parsed["mapStringString"][key]
		if !ok || got != "val" || len(parsed["mapStringString"]) != 1 {
			t.Errorf("key %q: wrong members in %s", key, string(out))
		}
	}
}
