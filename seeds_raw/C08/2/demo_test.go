// copy to: internal/codec/
package codec

import (
	"encoding/json"
	"reflect"
	"testing"

	"github.com/pentops/flowtest/prototest"
	"google.golang.org/protobuf/reflect/protoreflect"
	"google.golang.org/protobuf/types/dynamicpb"
)

// C08 seed 2: "flattened objects are inlined into their parent" must hold at
// every level. Outer flattens Middle, Middle flattens Inner, so all three leaf
// strings have to show up as direct members of the Outer document.
func TestSeedC08NestedFlatten(t *testing.T) {
	rs := prototest.DescriptorsFromSource(t, map[string]string{
		"seed/v1/seed.proto": `
			syntax = "proto3";
			package seed.v1;
			import "j5/ext/v1/annotations.proto";

			message Outer {
				string outer_field = 1;
				Middle middle = 2 [(j5.ext.v1.field).message.flatten = true];
			}

			message Middle {
				string middle_field = 1;
				Inner inner = 2 [(j5.ext.v1.field).message.flatten = true];
			}

			message Inner {
				string inner_field = 1;
			}
		`,
	})

	outerDesc := rs.MessageByName(t, "seed.v1.Outer")
	middleDesc := rs.MessageByName(t, "seed.v1.Middle")
	innerDesc := rs.MessageByName(t, "seed.v1.Inner")

	str := protoreflect.ValueOfString

	inner := dynamicpb.NewMessage(innerDesc)
	inner.Set(innerDesc.Fields().ByName("inner_field"), str("I"))

	middle := dynamicpb.NewMessage(middleDesc)
	middle.Set(middleDesc.Fields().ByName("middle_field"), str("M"))
	middle.Set(middleDesc.Fields().ByName("inner"), protoreflect.ValueOfMessage(inner))

	outer := dynamicpb.NewMessage(outerDesc)
	outer.Set(outerDesc.Fields().ByName("outer_field"), str("O"))
	outer.Set(outerDesc.Fields().ByName("middle"), protoreflect.ValueOfMessage(middle))

	out, err := NewCodec().ProtoToJSON(outer)
	if err != nil {
		t.Fatal(err)
	}
	t.Logf("encoded: %s", string(out))

	got := map[string]interface{}{}
	if err := json.Unmarshal(out, &got); err != nil {
		t.Fatalf("not JSON: %s", err)
	}

	want := map[string]interface{}{
		"outerField":  "O",
		"middleField": "M",
		"innerField":  "I",
	}

	if !reflect.DeepEqual(want, got) {
		t.Fatalf("flattened members were not inlined:\n got  %s\n want %v", string(out), want)
	}

	// One level of flattening, for contrast: always inlined.
	out, err = NewCodec().ProtoToJSON(middle)
	if err != nil {
		t.Fatal(err)
	}
	got = map[string]interface{}{}
	if err := json.Unmarshal(out, &got); err != nil {
		t.Fatalf("not JSON: %s", err)
	}
	if !reflect.DeepEqual(map[string]interface{}{"middleField": "M", "innerField": "I"}, got) {
		t.Fatalf("single level flatten: got %s", string(out))
	}
}
