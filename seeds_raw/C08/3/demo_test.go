// copy to: internal/codec/
package codec

import (
	"encoding/json"
	"strings"
	"testing"

	"github.com/pentops/j5/gen/test/schema/v1/schema_testpb"
)

// C08 seed 3: the document handed back by an encode call must stay the
// well-formed document it was, whatever the codec is asked to do next.

// Sequence: encode A, keep the bytes, encode B, look at A's bytes again.
func TestSeedC08EncodeThenEncode(t *testing.T) {
	codec := NewCodec()

	// a few rounds so that the outcome does not hinge on one scheduling
	for round := 0; round < 8; round++ {
		first := &schema_testpb.FullSchema{
			SString: "first-" + strings.Repeat("a", 40+round),
		}
		second := &schema_testpb.FullSchema{
			SString: "second",
			SBool:   true,
		}

		out1, err := codec.ProtoToJSON(first.ProtoReflect())
		if err != nil {
			t.Fatal(err)
		}
		snapshot := string(out1)
		if !json.Valid(out1) {
			t.Fatalf("first encoding invalid from the start: %s", snapshot)
		}

		out2, err := codec.ProtoToJSON(second.ProtoReflect())
		if err != nil {
			t.Fatal(err)
		}
		if !json.Valid(out2) {
			t.Fatalf("second encoding invalid: %s", string(out2))
		}

		if string(out1) != snapshot || !json.Valid(out1) {
			t.Fatalf("round %d: first encoding changed after a later encode:\n was %s\n now %s", round, snapshot, string(out1))
		}
	}
}

// Sequence: EncodeAny(inner), place the Any in a parent message, encode the
// parent. The Any must come out as {"!type": ..., "value": <inner document>}.
func TestSeedC08EncodeAnyThenEncodeParent(t *testing.T) {
	codec := NewCodec()

	for round := 0; round < 8; round++ {
		barID := "bar-" + strings.Repeat("x", 200+round)
		inner := &schema_testpb.Bar{BarId: barID}

		anyVal, err := codec.EncodeAny(inner.ProtoReflect())
		if err != nil {
			t.Fatal(err)
		}

		parent := &schema_testpb.FullSchema{J5Any: anyVal}
		out, err := codec.ProtoToJSON(parent.ProtoReflect())
		if err != nil {
			t.Fatal(err)
		}

		if !json.Valid(out) {
			t.Fatalf("round %d: parent encoding is not well-formed JSON: %s", round, string(out))
		}

		parsed := struct {
			J5Any struct {
				Type  string `json:"!type"`
				Value struct {
					BarID string `json:"barId"`
				} `json:"value"`
			} `json:"j5any"`
		}{}
		if err := json.Unmarshal(out, &parsed); err != nil {
			t.Fatalf("round %d: %s: %s", round, err, string(out))
		}
		if parsed.J5Any.Type != "test.schema.v1.Bar" || parsed.J5Any.Value.BarID != barID {
			t.Fatalf("round %d: wrong any in %s", round, string(out))
		}
	}
}
