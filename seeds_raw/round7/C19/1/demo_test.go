// copy to: internal/bcl/internal/parser/
package parser

import (
	"strings"
	"testing"
)

// seedDemoApply checks that the edits are ordered, non-overlapping and inside
// the document, applies them line-wise and returns the new document.
func seedDemoApply(t *testing.T, input string, diffs []FmtDiff) string {
	t.Helper()
	lines := strings.Split(input, "\n")
	prevEnd := 0
	for i, d := range diffs {
		if d.FromLine < 0 || d.FromLine > d.ToLine || d.ToLine > len(lines) {
			t.Fatalf("edit %d malformed: %d..%d in a document of %d lines", i, d.FromLine, d.ToLine, len(lines))
		}
		if d.FromLine < prevEnd {
			t.Fatalf("edit %d starts at %d, before the end %d of the edit before it", i, d.FromLine, prevEnd)
		}
		prevEnd = d.ToLine
	}
	var sb strings.Builder
	at := 0
	for _, d := range diffs {
		for ; at < d.FromLine; at++ {
			sb.WriteString(lines[at] + "\n")
		}
		sb.WriteString(d.NewText)
		at = d.ToLine
	}
	if at < len(lines) {
		sb.WriteString(strings.Join(lines[at:], "\n"))
	}
	return sb.String()
}

func TestSeedDemoArrayWithContinuedStringLast(t *testing.T) {
	for name, input := range map[string]string{
		// the last statement of the file is an array holding a string with an
		// escaped newline, already formatted
		"formatted":   "a = 1\nb = [\"x\\\ny\", 2]\n",
		"unformatted": "a = 1\nb = [\"x\\\ny\",2]\n",
		"append":      "block foo {\n\tb += [1, \"x\\\ny\"]\n",
		// control: the same statement followed by another one
		"control": "b = [\"x\\\ny\", 2]\na = 1\n",
	} {
		t.Run(name, func(t *testing.T) {
			want, err := Fmt(input)
			if err != nil {
				t.Fatal(err)
			}
			diffs, err := FmtDiffs(input)
			if err != nil {
				t.Fatal(err)
			}
			got := seedDemoApply(t, input, diffs)
			if strings.TrimRight(got, "\n") != strings.TrimRight(want, "\n") {
				t.Errorf("applying the edits does not give the formatter's output\nedits:   %+v\napplied: %q\nfmt:     %q", diffs, got, want)
			}
		})
	}
}
