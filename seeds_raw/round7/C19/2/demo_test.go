// copy to: internal/bcl/internal/parser/
package parser

import (
	"strings"
	"testing"
)

// seedDemoApply checks that the edits are ordered, non-overlapping and inside
// the document, applies them line-wise and returns the new document.
func seedDemoApply(t *testing.T, input string, diffs []FmtDiff) string {
	t.Helper()
	lines := strings.Split(input, "\n")
	prevEnd := 0
	for i, d := range diffs {
		if d.FromLine < 0 || d.FromLine > d.ToLine || d.ToLine > len(lines) {
			t.Fatalf("edit %d malformed: %d..%d in a document of %d lines", i, d.FromLine, d.ToLine, len(lines))
		}
		if d.FromLine < prevEnd {
			t.Fatalf("edit %d starts at %d, before the end %d of the edit before it", i, d.FromLine, prevEnd)
		}
		prevEnd = d.ToLine
	}
	var sb strings.Builder
	at := 0
	for _, d := range diffs {
		for ; at < d.FromLine; at++ {
			sb.WriteString(lines[at] + "\n")
		}
		sb.WriteString(d.NewText)
		at = d.ToLine
	}
	if at < len(lines) {
		sb.WriteString(strings.Join(lines[at:], "\n"))
	}
	return sb.String()
}

func TestSeedDemoThreeFragmentsChainedOverSharedLines(t *testing.T) {
	for name, input := range map[string]string{
		// three fragments chained over two lines: the block comment starts on
		// the line of the first close brace and is the one that carries the
		// group on to the next line, where a third fragment starts
		"brace comment brace":    "a {\nb {\n} /* one\n two */ }\n",
		"comment comment assign": "/* x */ /* one\n two */ k = 1\nj = 2\n",
		"brace comment header":   "a {\n} /* one\n two */ b {\n\tk = 1\n}\n",
		"four in a chain":        "a {\nb {\nc {\n} /* one\n two */ } /* three\n four */ }\n",
		// controls: two fragments sharing a line, with and without a
		// multi-line one, are merged correctly
		"control brace comment": "a {\n} /* one\n two */\nk = 1\n",
		"control comment brace": "a {\n/* one\n two */ }\n",
		"control three on one":  "a {\nb {\n} /* one */ }\n",
	} {
		t.Run(name, func(t *testing.T) {
			want, err := Fmt(input)
			if err != nil {
				t.Fatal(err)
			}
			diffs, err := FmtDiffs(input)
			if err != nil {
				t.Fatal(err)
			}
			got := seedDemoApply(t, input, diffs)
			if strings.TrimRight(got, "\n") != strings.TrimRight(want, "\n") {
				t.Errorf("applying the edits does not give the formatter's output\nedits:   %+v\napplied: %q\nfmt:     %q", diffs, got, want)
			}
		})
	}
}
