// copy to: internal/codec/
package codec

// Demonstration for seed C08/1: a flattened object which itself contains a
// flattened object must be inlined all the way into the outermost parent.

import (
	"encoding/json"
	"testing"

	"github.com/pentops/flowtest/prototest"
	"google.golang.org/protobuf/reflect/protoreflect"
	"google.golang.org/protobuf/types/dynamicpb"
)

func TestSeedC08_1_NestedFlattenIsInlined(t *testing.T) {
	rs := prototest.DescriptorsFromSource(t, map[string]string{
		"seed_c08_1.proto": `
		syntax = "proto3";
		package seedc08.one.v1;
		import "j5/ext/v1/annotations.proto";

		message Outer {
			string a = 1;
			Mid mid = 2 [(j5.ext.v1.field).message.flatten = true];
			string z = 3;
		}

		message Mid {
			string b = 1;
			Inner inner = 2 [(j5.ext.v1.field).message.flatten = true];
		}

		message Inner {
			string c = 1;
			int64 d = 2;
		}
		`,
	})

	desc := rs.MessageByName(t, "seedc08.one.v1.Outer")
	msg := dynamicpb.NewMessage(desc)
	msg.Set(desc.Fields().ByName("a"), protoreflect.ValueOfString("A"))
	msg.Set(desc.Fields().ByName("z"), protoreflect.ValueOfString("Z"))

	mid := msg.Mutable(desc.Fields().ByName("mid")).Message()
	mid.Set(mid.Descriptor().Fields().ByName("b"), protoreflect.ValueOfString("B"))

	inner := mid.Mutable(mid.Descriptor().Fields().ByName("inner")).Message()
	inner.Set(inner.Descriptor().Fields().ByName("c"), protoreflect.ValueOfString("C"))
	inner.Set(inner.Descriptor().Fields().ByName("d"), protoreflect.ValueOfInt64(4))

	out, err := NewCodec().ProtoToJSON(msg)
	if err != nil {
		t.Fatalf("ProtoToJSON: %s", err)
	}
	t.Logf("encoded: %s", out)

	got := map[string]json.RawMessage{}
	if err := json.Unmarshal(out, &got); err != nil {
		t.Fatalf("output is not a JSON object: %s", err)
	}

	// every member of the two flattened objects is a direct member of the
	// outermost object, and nothing else is.
	want := map[string]string{
		"a": `"A"`,
		"b": `"B"`,
		"c": `"C"`,
		"d": `"4"`,
		"z": `"Z"`,
	}
	for name, wantVal := range want {
		gotVal, ok := got[name]
		if !ok {
			t.Errorf("member %q is missing from the parent object: %s", name, out)
			continue
		}
		if string(gotVal) != wantVal {
			t.Errorf("member %q is %s, want %s", name, gotVal, wantVal)
		}
	}
	for name := range got {
		if _, ok := want[name]; !ok {
			t.Errorf("unexpected member %q: flattened objects are inlined, not nested: %s", name, out)
		}
	}
}
