// copy to: internal/codec/
package codec

// Demonstration for seed C08/2: every successful encoding is one well-formed
// JSON document, also when a present-but-empty object (or unset oneof) is
// followed by another member of the enclosing object.

import (
	"encoding/json"
	"testing"

	"github.com/pentops/j5/gen/test/schema/v1/schema_testpb"
	"google.golang.org/protobuf/proto"
)

func TestSeedC08_2_EmptyObjectThenSibling(t *testing.T) {
	codec := NewCodec()

	for _, tc := range []struct {
		name string
		msg  proto.Message
		want string
	}{{
		// control: the shapes the existing tests have
		name: "empty object alone",
		msg:  &schema_testpb.FullSchema{SBar: &schema_testpb.Bar{}},
		want: `{"sBar":{}}`,
	}, {
		name: "non-empty object then sibling",
		msg: &schema_testpb.FullSchema{
			SBar:      &schema_testpb.Bar{BarId: "b"},
			KeyString: "k",
		},
		want: `{"sBar":{"barId":"b"},"keyString":"k"}`,
	}, {
		name: "empty object then sibling",
		msg: &schema_testpb.FullSchema{
			SString:   "s",
			SBar:      &schema_testpb.Bar{},
			KeyString: "k",
		},
		want: `{"sString":"s","sBar":{},"keyString":"k"}`,
	}, {
		name: "array ending in an empty object then sibling",
		msg: &schema_testpb.FullSchema{
			RBars:  []*schema_testpb.Bar{{BarId: "b1"}, {}},
			SBytes: []byte{0xfb, 0xf0},
		},
		want: `{"rBars":[{"barId":"b1"},{}],"sBytes":"+/A="}`,
	}, {
		name: "map ending in an empty object then sibling",
		msg: &schema_testpb.FullSchema{
			// one entry: map order is not defined for more than one
			MapStringBar: map[string]*schema_testpb.Bar{"k1": {}},
			KeyString:    "k",
		},
		want: `{"mapStringBar":{"k1":{}},"keyString":"k"}`,
	}, {
		name: "unset wrapped oneof then sibling",
		msg: &schema_testpb.FullSchema{
			WrappedOneof: &schema_testpb.WrappedOneof{},
			KeyString:    "k",
		},
		want: `{"wrappedOneof":{},"keyString":"k"}`,
	}, {
		name: "oneof holding an empty object then sibling",
		msg: &schema_testpb.FullSchema{
			WrappedOneof: &schema_testpb.WrappedOneof{
				Type: &schema_testpb.WrappedOneof_WOneofBar{WOneofBar: &schema_testpb.Bar{}},
			},
			KeyString: "k",
		},
		want: `{"wrappedOneof":{"!type":"wOneofBar","wOneofBar":{}},"keyString":"k"}`,
	}} {
		t.Run(tc.name, func(t *testing.T) {
			out, err := codec.ProtoToJSON(tc.msg.ProtoReflect())
			if err != nil {
				t.Fatalf("ProtoToJSON: %s", err)
			}
			t.Logf("encoded: %s", out)
			if !json.Valid(out) {
				t.Fatalf("output is not well-formed JSON: %s", out)
			}
			if string(out) != tc.want {
				t.Fatalf("got  %s\nwant %s", out, tc.want)
			}
		})
	}
}
