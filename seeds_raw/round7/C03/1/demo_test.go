// copy to: internal/codec/
package codec

import (
	"testing"

	"github.com/pentops/j5/gen/test/schema/v1/schema_testpb"
	"google.golang.org/protobuf/proto"
)

// A "!type" that contradicts the key present must be rejected wherever the
// "!type" member sits in the object: member order is not significant in JSON.
func TestSeedOneofTypeAfterKey(t *testing.T) {
	codec := NewCodec()

	for _, tc := range []struct {
		name    string
		json    string
		wantErr bool
	}{{
		name:    "matching, type first",
		json:    `{"wrappedOneof": {"!type": "wOneofString", "wOneofString": "v"}}`,
		wantErr: false,
	}, {
		name:    "matching, type last",
		json:    `{"wrappedOneof": {"wOneofString": "v", "!type": "wOneofString"}}`,
		wantErr: false,
	}, {
		name:    "contradicting, type first",
		json:    `{"wrappedOneof": {"!type": "wOneofFloat", "wOneofString": "v"}}`,
		wantErr: true,
	}, {
		name:    "contradicting, type last",
		json:    `{"wrappedOneof": {"wOneofString": "v", "!type": "wOneofFloat"}}`,
		wantErr: true,
	}, {
		name:    "contradicting, type last, array element",
		json:    `{"wrappedOneofs": [{"wOneofString": "a", "!type": "wOneofString"}, {"wOneofString": "v", "!type": "wOneofBar"}]}`,
		wantErr: true,
	}, {
		name:    "contradicting, type last, exposed oneof in nested message",
		json:    `{"nestedExposedOneof": {"type": {"de1": "v", "!type": "de2"}}}`,
		wantErr: true,
	}} {
		t.Run(tc.name, func(t *testing.T) {
			msg := &schema_testpb.FullSchema{}
			err := codec.JSONToProto([]byte(tc.json), msg.ProtoReflect())
			if tc.wantErr {
				if err == nil {
					t.Fatalf("document %s was accepted, got message: %v", tc.json, msg)
				}
				return
			}
			if err != nil {
				t.Fatalf("document %s was rejected: %s", tc.json, err)
			}
			want := &schema_testpb.FullSchema{
				WrappedOneof: &schema_testpb.WrappedOneof{
					Type: &schema_testpb.WrappedOneof_WOneofString{WOneofString: "v"},
				},
			}
			if !proto.Equal(want, msg) {
				t.Fatalf("got %v, want %v", msg, want)
			}
		})
	}
}
