// copy to: internal/codec/
package codec

import (
	"testing"

	"github.com/pentops/j5/gen/test/schema/v1/schema_testpb"
	"google.golang.org/protobuf/proto"
)

// An out-of-range number must be rejected in both of its spellings (bare and
// quoted), and an in-range number must decode to the same value in both.
func TestSeedBareIntegerAboveMaxInt64(t *testing.T) {
	codec := NewCodec()

	for _, tc := range []struct {
		name string
		json string
		want *schema_testpb.FullSchema // nil: must be rejected
	}{{
		name: "uint64 max, bare",
		json: `{"sUint64": 18446744073709551615}`,
		want: &schema_testpb.FullSchema{SUint64: 18446744073709551615},
	}, {
		name: "uint64 max, quoted",
		json: `{"sUint64": "18446744073709551615"}`,
		want: &schema_testpb.FullSchema{SUint64: 18446744073709551615},
	}, {
		name: "int64 max, bare",
		json: `{"sInt64": 9223372036854775807}`,
		want: &schema_testpb.FullSchema{SInt64: 9223372036854775807},
	}, {
		name: "int64 max+1, quoted",
		json: `{"sInt64": "9223372036854775808"}`,
	}, {
		name: "int64 max+1, bare",
		json: `{"sInt64": 9223372036854775808}`,
	}, {
		name: "int64 = uint64 max, bare",
		json: `{"sInt64": 18446744073709551615}`,
	}, {
		name: "int32 above MaxInt64, bare",
		json: `{"sInt32": 9223372036854775808}`,
	}, {
		name: "uint32 above MaxInt64, bare",
		json: `{"sUint32": 9223372036854775808}`,
	}, {
		name: "uint64 max+1, bare",
		json: `{"sUint64": 18446744073709551616}`,
	}} {
		t.Run(tc.name, func(t *testing.T) {
			msg := &schema_testpb.FullSchema{}
			err := codec.JSONToProto([]byte(tc.json), msg.ProtoReflect())
			if tc.want == nil {
				if err == nil {
					t.Fatalf("document %s was accepted, got message: %v", tc.json, msg)
				}
				return
			}
			if err != nil {
				t.Fatalf("document %s was rejected: %s", tc.json, err)
			}
			if !proto.Equal(tc.want, msg) {
				t.Fatalf("got %v, want %v", msg, tc.want)
			}
		})
	}
}
