// copy to: lib/id62/
package id62

import (
	"crypto/sha1"
	"strings"
	"testing"
)

// refHash is the documented derivation: the first 16 bytes of the SHA-1 of
// the namespace followed by every input, in order.
func refHash(namespace string, inputs ...string) UUID {
	sum := sha1.Sum([]byte(namespace + strings.Join(inputs, "")))
	var id UUID
	copy(id[:], sum[:])
	return id
}

// A hash-derived identifier is a pure function of (namespace, inputs): the
// result may not depend on which other identifiers were derived before it.
func TestDemoHashIsPureAcrossCalls(t *testing.T) {
	type call struct {
		namespace string
		inputs    []string
	}

	// every call is made twice, and the sequence is walked in both orders, so
	// that each call is once preceded by each of its neighbours
	calls := []call{
		{"tenant", []string{"acme/eu", "orders"}},
		{"tenant", []string{"acme", "eu", "orders"}},
		{"tenant/acme", []string{"eu", "orders"}},
		{"tenant", []string{"acme", "eu/orders"}},
		{"tenant", []string{"acme"}},
		{"tenant", nil},
	}

	check := func(c call) {
		t.Helper()
		got := NewHash(c.namespace, c.inputs...)
		want := refHash(c.namespace, c.inputs...)
		if got != want {
			t.Errorf("NewHash(%q, %q) = %s, want %s", c.namespace, c.inputs, got, want)
		}
		if s := got.String(); len(s) != 22 || !Pattern.MatchString(s) {
			t.Errorf("NewHash(%q, %q) renders as %q", c.namespace, c.inputs, s)
		}
	}

	for _, c := range calls {
		check(c)
		check(c)
	}
	for i := len(calls) - 1; i >= 0; i-- {
		check(calls[i])
	}

	// distinct hash input, distinct identifier
	a := NewHash("tenant", "acme/eu", "orders")
	b := NewHash("tenant", "acme", "eu", "orders")
	if a == b {
		t.Errorf("identifiers of different hash inputs collide: %s", a)
	}
}
