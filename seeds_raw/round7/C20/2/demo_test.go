// copy to: internal/j5s/j5convert/
package j5convert

import (
	"regexp"
	"testing"

	"buf.build/gen/go/bufbuild/protovalidate/protocolbuffers/go/buf/validate"
	"github.com/pentops/j5/gen/j5/schema/v1/schema_j5pb"
	"github.com/pentops/j5/gen/j5/sourcedef/v1/sourcedef_j5pb"
	"github.com/pentops/j5/lib/id62"
	"github.com/pentops/j5/lib/j5schema"
	"google.golang.org/protobuf/proto"
	"google.golang.org/protobuf/reflect/protodesc"
	"google.golang.org/protobuf/reflect/protoregistry"
)

type demoNoDeps struct{}

func (demoNoDeps) PackageName() string { return "demo.v1" }
func (demoNoDeps) ResolveType(pkg string, name string) (*TypeRef, error) {
	return nil, &TypeNotFoundError{Package: pkg, Name: name}
}

func demoID62Key() *schema_j5pb.Field {
	return &schema_j5pb.Field{
		Type: &schema_j5pb.Field_Key{
			Key: &schema_j5pb.KeyField{
				Format: &schema_j5pb.KeyFormat{
					Type: &schema_j5pb.KeyFormat_Id62{Id62: &schema_j5pb.KeyFormat_ID62{}},
				},
			},
		},
	}
}

func demoArrayOf(items *schema_j5pb.Field, rules *schema_j5pb.ArrayField_Rules) *schema_j5pb.Field {
	return &schema_j5pb.Field{
		Type: &schema_j5pb.Field_Array{
			Array: &schema_j5pb.ArrayField{Items: items, Rules: rules},
		},
	}
}

// Every key:id62, wherever it is declared, is compiled with the published
// ID62 pattern as its validation rule, and is a key:id62 again when the
// compiled proto is read back.
func TestDemoID62PatternOnEveryKey(t *testing.T) {
	props := []*schema_j5pb.ObjectProperty{{
		Name:   "fooId",
		Schema: demoID62Key(),
	}, {
		Name:   "fooIds",
		Schema: demoArrayOf(demoID62Key(), nil),
	}, {
		Name:     "requiredIds",
		Required: true,
		Schema:   demoArrayOf(demoID62Key(), nil),
	}, {
		Name: "boundedIds",
		Schema: demoArrayOf(demoID62Key(), &schema_j5pb.ArrayField_Rules{
			MinItems: proto.Uint64(1),
			MaxItems: proto.Uint64(10),
		}),
	}, {
		Name: "uniqueIds",
		Schema: demoArrayOf(demoID62Key(), &schema_j5pb.ArrayField_Rules{
			UniqueItems: proto.Bool(true),
		}),
	}}

	files, err := ConvertJ5File(demoNoDeps{}, &sourcedef_j5pb.SourceFile{
		Package: &sourcedef_j5pb.Package{Name: "demo.v1"},
		Path:    "demo/v1/demo.j5s",
		Elements: []*sourcedef_j5pb.RootElement{{
			Type: &sourcedef_j5pb.RootElement_Object{
				Object: &sourcedef_j5pb.Object{
					Def: &schema_j5pb.Object{Name: "Holder", Properties: props},
				},
			},
		}},
	})
	if err != nil {
		t.Fatalf("ConvertJ5File: %v", err)
	}
	file := files[0]
	file.SourceCodeInfo = nil
	msg := file.MessageType[0]
	if len(msg.Field) != len(props) {
		t.Fatalf("%d fields for %d properties", len(msg.Field), len(props))
	}

	sample := []id62.UUID{{}, {0xff, 0xff, 0xff, 0xff, 0xff, 0xff, 0xff, 0xff, 0xff, 0xff, 0xff, 0xff, 0xff, 0xff, 0xff, 0xff}, id62.New()}

	// 1: the compiled validation rule
	for idx, field := range msg.Field {
		name := props[idx].Name
		constraint, _ := proto.GetExtension(field.Options, validate.E_Field).(*validate.FieldConstraints)
		if _, isArray := props[idx].Schema.Type.(*schema_j5pb.Field_Array); isArray {
			constraint = constraint.GetRepeated().GetItems()
		}
		var pattern *string
		if stringRules := constraint.GetString_(); stringRules != nil {
			pattern = stringRules.Pattern
		}
		if pattern == nil {
			t.Errorf("%s: no pattern in the compiled validation rule", name)
			continue
		}
		if *pattern != id62.PatternString {
			t.Errorf("%s: pattern %q, want %q", name, *pattern, id62.PatternString)
		}
		re := regexp.MustCompile(*pattern)
		for _, id := range sample {
			if !re.MatchString(id.String()) {
				t.Errorf("%s: %q does not match the compiled pattern", name, id.String())
			}
		}
		if re.MatchString("not-an-id62") {
			t.Errorf("%s: compiled pattern accepts a non-identifier", name)
		}
	}

	// 2: read-back
	fd, err := protodesc.NewFile(file, protoregistry.GlobalFiles)
	if err != nil {
		t.Fatalf("linking the compiled file: %v", err)
	}
	root, err := j5schema.NewSchemaCache().Schema(fd.Messages().Get(0))
	if err != nil {
		t.Fatalf("reading back: %v", err)
	}
	readBack := root.ToJ5Root().GetObject().GetProperties()
	if len(readBack) != len(props) {
		t.Fatalf("%d properties read back for %d", len(readBack), len(props))
	}
	for idx, prop := range readBack {
		schema := prop.Schema
		if arr := schema.GetArray(); arr != nil {
			schema = arr.Items
		}
		if schema.GetKey().GetFormat().GetId62() == nil {
			t.Errorf("%s: read back as %s, want key:id62", props[idx].Name, schema)
		}
	}
}
