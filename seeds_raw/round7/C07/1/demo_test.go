// copy to: internal/j5s/protobuild/
package protobuild

import (
	"context"
	"testing"
)

// An entity with two named command blocks is within the documented language
// (Entity.commands is repeated, single form "command") and must compile and
// link: each block becomes its own <Name>CommandService.
func TestSeedC07EntityTwoCommandBlocks(t *testing.T) {
	tf := newTestFiles()
	tf.tAddJ5SFile("local/v1/foo.j5s",
		"entity Foo {",
		"  key fooId key:id62 {",
		"    primary = true",
		"  }",
		"  data name string",
		"  status ACTIVE",
		"  event Create {",
		"    field name string",
		"  }",
		"  command {",
		"    name = \"FooAdmin\"",
		"    basePath = \"admin\"",
		"    method AdminCreate {",
		"      httpMethod = \"POST\"",
		"      httpPath = \"create\"",
		"      request {",
		"        field name string",
		"      }",
		"      response {",
		"        field ok bool",
		"      }",
		"    }",
		"  }",
		"  command {",
		"    name = \"FooUser\"",
		"    basePath = \"user\"",
		"    method UserCreate {",
		"      httpMethod = \"POST\"",
		"      httpPath = \"create\"",
		"      request {",
		"        field name string",
		"      }",
		"      response {",
		"        field ok bool",
		"      }",
		"    }",
		"  }",
		"}",
	)
	td := newTestDeps()

	cc, err := NewPackageSet(td, tf)
	if err != nil {
		t.Fatalf("NewPackageSet: %s", err)
	}

	out, err := cc.CompilePackage(context.Background(), "local.v1")
	if err != nil {
		t.Fatalf("valid entity with two command blocks was rejected: %s", err)
	}

	want := map[string]string{
		"FooAdminCommandService": "/local/v1/foo/admin/create",
		"FooUserCommandService":  "/local/v1/foo/user/create",
	}
	got := map[string]bool{}
	for _, file := range out {
		if file.Path() != "local/v1/service/foo.p.j5s.proto" {
			continue
		}
		services := file.Services()
		for i := 0; i < services.Len(); i++ {
			got[string(services.Get(i).Name())] = true
		}
	}
	for name := range want {
		if !got[name] {
			t.Errorf("expected service %s in local/v1/service/foo.p.j5s.proto, got %v", name, got)
		}
	}
}
