// copy to: internal/j5s/protobuild/
package protobuild

import (
	"context"
	"testing"
)

// The lint / LSP entry point (LintFile) converts and links one j5s file. A
// file that declares an object and a service using it is valid, and whether it
// lints clean must not depend on what the file happens to be called.
func TestSeedC07LintFileWithServiceAnyFilename(t *testing.T) {
	body := []string{
		"object Thing {",
		"  field name string",
		"}",
		"service Things {",
		"  basePath = \"/things\"",
		"  method GetThing {",
		"    httpMethod = \"GET\"",
		"    httpPath = \"/:id\"",
		"    request {",
		"      field id string",
		"    }",
		"    response {",
		"      field thing object:Thing",
		"    }",
		"  }",
		"}",
	}

	for _, filename := range []string{
		"local/v1/accounts.j5s", // sorts before local/v1/service/...
		"local/v1/things.j5s",   // sorts after  local/v1/service/...
	} {
		t.Run(filename, func(t *testing.T) {
			tf := newTestFiles()
			tf.tAddJ5SFile(filename, body...)
			td := newTestDeps()

			ps, err := NewPackageSet(td, tf)
			if err != nil {
				t.Fatalf("NewPackageSet: %s", err)
			}

			// the same package compiles
			if _, err := ps.CompilePackage(context.Background(), "local.v1"); err != nil {
				t.Fatalf("CompilePackage: %s", err)
			}

			// and a fresh lint of the single file reports nothing
			ps, err = NewPackageSet(td, tf)
			if err != nil {
				t.Fatalf("NewPackageSet: %s", err)
			}
			lintErrs, err := LintFile(context.Background(), ps, filename, string(tf.localFiles[filename]))
			if err != nil {
				t.Fatalf("LintFile failed on a valid file: %s", err)
			}
			if lintErrs != nil {
				t.Fatalf("LintFile reported problems in a valid file: %v", lintErrs)
			}
		})
	}
}
