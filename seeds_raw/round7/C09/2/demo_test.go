// copy to: internal/bcl/internal/parser/
package parser

import (
	"fmt"
	"strings"
	"testing"
)

// position free rendering of the fragments of a source text
func seedDump(t *testing.T, input string) string {
	t.Helper()
	if _, err := ParseFile(input, true); err != nil {
		t.Fatalf("ParseFile(%q): %v", input, err)
	}
	l := NewLexer(input)
	tokens, ok, err := l.AllTokens(true)
	if err != nil || !ok {
		t.Fatalf("lex %q: %v %v", input, err, l.Errors)
	}
	ww := &Walker{tokens: tokens, failFast: true}
	frags, err := ww.walkFragments()
	if err != nil {
		t.Fatalf("walk %q: %v", input, err)
	}
	var sb strings.Builder
	depth := 0
	val := func(v Value) string { return seedValue(v) }
	tag := func(tv TagValue) string {
		s := fmt.Sprintf("mark=%d ", tv.Mark)
		if tv.Reference != nil {
			s += "ref=" + tv.Reference.String()
		}
		if tv.Value != nil {
			s += "val=" + val(*tv.Value)
		}
		return s
	}
	cm := func(sn SourceNode) string {
		if sn.Comment == nil {
			return ""
		}
		return fmt.Sprintf(" //%q", sn.Comment.Value)
	}
	for _, f := range frags {
		ind := strings.Repeat("  ", depth)
		switch f := f.(type) {
		case BlockHeader:
			fmt.Fprintf(&sb, "%sBLOCK %s", ind, f.Type.String())
			for _, tg := range f.Tags {
				fmt.Fprintf(&sb, " T(%s)", tag(tg))
			}
			for _, tg := range f.Qualifiers {
				fmt.Fprintf(&sb, " Q(%s)", tag(tg))
			}
			if f.Description != nil {
				fmt.Fprintf(&sb, " D(%s)", seedDesc(f.Description.Value))
			}
			fmt.Fprintf(&sb, " open=%v%s\n", f.Open, cm(f.SourceNode))
			if f.Open {
				depth++
			}
		case CloseBlock:
			depth--
			fmt.Fprintf(&sb, "%sCLOSE\n", strings.Repeat("  ", depth))
		case Assignment:
			fmt.Fprintf(&sb, "%sASSIGN %s append=%v %s%s\n", ind, f.Key.String(), f.Append, val(f.Value), cm(f.SourceNode))
		case Description:
			fmt.Fprintf(&sb, "%sDESC %s\n", ind, seedDesc(f.Value))
		case Comment:
			fmt.Fprintf(&sb, "%sCOMMENT %d %q\n", ind, f.Token.Type, f.Value)
		}
	}
	return sb.String()
}

func seedValue(v Value) string {
	if v.array != nil {
		parts := []string{}
		for _, e := range v.array {
			parts = append(parts, seedValue(e))
		}
		return "[" + strings.Join(parts, ",") + "]"
	}
	return fmt.Sprintf("%s:%q", v.token.Type, v.token.Lit)
}

// words and paragraph breaks
func seedDesc(s string) string {
	paras := []string{}
	cur := []string{}
	for _, line := range strings.Split(s, "\n") {
		w := strings.Fields(line)
		if len(w) == 0 {
			if len(cur) > 0 {
				paras = append(paras, strings.Join(cur, " "))
				cur = nil
			}
			continue
		}
		cur = append(cur, w...)
	}
	if len(cur) > 0 {
		paras = append(paras, strings.Join(cur, " "))
	}
	return fmt.Sprintf("%q", paras)
}

func seedRoundTrip(t *testing.T, input string) {
	t.Helper()
	before := seedDump(t, input)
	out, err := Fmt(input)
	if err != nil {
		t.Fatalf("Fmt(%q): %v", input, err)
	}
	if _, err := ParseFile(out, true); err != nil {
		t.Errorf("output not accepted: %v\ninput %q\noutput %q", err, input, out)
		return
	}
	after := seedDump(t, out)
	if before != after {
		t.Errorf("meaning changed\ninput  %q\noutput %q\nbefore:\n%s\nafter:\n%s", input, out, before, after)
	}
	out2, err := Fmt(out)
	if err != nil {
		t.Fatalf("Fmt2: %v", err)
	}
	if out2 != out {
		t.Errorf("not idempotent\ninput %q\nout1 %q\nout2 %q", input, out, out2)
	}
}


// Tokens that run over more than one line (a string holding an escaped
// newline, a block comment), used below the top level of the file.
func TestSeedMultiLineTokensInsideBlocks(t *testing.T) {
	for _, in := range []string{
		// at the top level
		"text = \"first\\\nsecond\"\n/* one\n   two */\n",
		// string with an escaped newline, one and two blocks deep
		"object Foo {\n\ttext = \"first\\\nsecond\"\n}\n",
		"a {\n\tb {\n\t\tlist = [\"x\", \"first\\\nsecond\"] // c\n\t}\n}\n",
		// the same in a tag of a nested block header
		"a {\n\tfield \"first\\\nsecond\" {\n\t}\n}\n",
		// block comment over several lines inside a block
		"a {\n\t/* one\n\t   two\n\t*/\n\tk = 1\n}\n",
	} {
		seedRoundTrip(t, in)
	}
}
