// copy to: internal/structure/
package structure

import (
	"fmt"
	"testing"

	"github.com/pentops/flowtest/prototest"
	"github.com/pentops/j5/gen/j5/schema/v1/schema_j5pb"
	"github.com/pentops/j5/gen/j5/source/v1/source_j5pb"
	"github.com/pentops/j5/lib/j5schema"
	"google.golang.org/genproto/googleapis/api/annotations"
	"google.golang.org/protobuf/encoding/prototext"
	"google.golang.org/protobuf/proto"
	"google.golang.org/protobuf/types/descriptorpb"
)

// c15RoundTrip exports the image to the source API, rebuilds a schema set from
// it and compares the second export with the first, schema by schema.
func c15RoundTrip(t *testing.T, image *source_j5pb.SourceImage) {
	t.Helper()

	api, err := APIFromImage(image)
	if err != nil {
		t.Fatalf("APIFromImage: %v", err)
	}

	first := map[string]*schema_j5pb.RootSchema{}
	for _, pkg := range api.Packages {
		for name, schema := range pkg.Schemas {
			first[fmt.Sprintf("%s/%s", pkg.Name, name)] = schema
		}
		for _, sub := range pkg.SubPackages {
			for name, schema := range sub.Schemas {
				first[fmt.Sprintf("%s.%s/%s", pkg.Name, sub.Name, name)] = schema
			}
		}
	}
	if len(first) == 0 {
		t.Fatal("no schemas in the first export")
	}

	rebuilt, err := j5schema.PackageSetFromSourceAPI(api.Packages)
	if err != nil {
		t.Fatalf("PackageSetFromSourceAPI: %v", err)
	}

	second := map[string]*schema_j5pb.RootSchema{}
	for _, pkg := range rebuilt.Packages {
		for name, ref := range pkg.Schemas {
			if ref.To == nil {
				t.Errorf("unresolved reference %s/%s", pkg.Name, name)
				continue
			}
			second[fmt.Sprintf("%s/%s", pkg.Name, name)] = ref.To.ToJ5Root()
		}
	}

	for key, want := range first {
		got, ok := second[key]
		if !ok {
			t.Errorf("schema %s lost in the round trip", key)
			continue
		}
		if !proto.Equal(want, got) {
			t.Errorf("schema %s differs after the round trip\nfirst export:\n%s\nsecond export:\n%s", key, prototext.Format(want), prototext.Format(got))
		}
	}
	for key := range second {
		if _, ok := first[key]; !ok {
			t.Errorf("schema %s appeared in the round trip", key)
		}
	}
}

func c15StringField(name string, number int32) *descriptorpb.FieldDescriptorProto {
	return &descriptorpb.FieldDescriptorProto{
		Name:     proto.String(name),
		JsonName: proto.String(name),
		Type:     descriptorpb.FieldDescriptorProto_TYPE_STRING.Enum(),
		Number:   proto.Int32(number),
	}
}

// the ping.v1.service file: a service with its request, response and a
// message and an enum which only the response refers to.
func c15ServiceFile(deps ...string) *descriptorpb.FileDescriptorProto {
	return &descriptorpb.FileDescriptorProto{
		Syntax:     proto.String("proto3"),
		Name:       proto.String("ping/v1/service/ping_service.proto"),
		Package:    proto.String("ping.v1.service"),
		Dependency: deps,
		Service: []*descriptorpb.ServiceDescriptorProto{{
			Name: proto.String("PingService"),
			Method: []*descriptorpb.MethodDescriptorProto{
				prototest.BuildHTTPMethod("Ping", &annotations.HttpRule{
					Pattern: &annotations.HttpRule_Get{Get: "/ping/{token}"},
				}),
			},
		}},
		MessageType: []*descriptorpb.DescriptorProto{{
			Name:  proto.String("PingRequest"),
			Field: []*descriptorpb.FieldDescriptorProto{c15StringField("token", 1)},
		}, {
			Name: proto.String("PingResponse"),
			Field: []*descriptorpb.FieldDescriptorProto{
				c15StringField("token", 1),
				{
					Name:     proto.String("pong"),
					JsonName: proto.String("pong"),
					Type:     descriptorpb.FieldDescriptorProto_TYPE_MESSAGE.Enum(),
					TypeName: proto.String(".ping.v1.service.Pong"),
					Number:   proto.Int32(2),
				},
			},
		}, {
			Name: proto.String("Pong"),
			Field: []*descriptorpb.FieldDescriptorProto{{
				Name:     proto.String("mood"),
				JsonName: proto.String("mood"),
				Type:     descriptorpb.FieldDescriptorProto_TYPE_ENUM.Enum(),
				TypeName: proto.String(".ping.v1.service.Mood"),
				Number:   proto.Int32(1),
			}},
		}},
		EnumType: []*descriptorpb.EnumDescriptorProto{{
			Name: proto.String("Mood"),
			Value: []*descriptorpb.EnumValueDescriptorProto{
				{Name: proto.String("MOOD_UNSPECIFIED"), Number: proto.Int32(0)},
				{Name: proto.String("MOOD_GOOD"), Number: proto.Int32(1)},
			},
		}},
	}
}

// The usual shape: the package has schemas of its own next to the service
// sub-package.
func TestC15PackageWithOwnSchemasAndSubPackage(t *testing.T) {
	c15RoundTrip(t, &source_j5pb.SourceImage{
		Packages: []*source_j5pb.PackageInfo{{Label: "Ping", Name: "ping.v1"}},
		File: []*descriptorpb.FileDescriptorProto{{
			Syntax:  proto.String("proto3"),
			Name:    proto.String("ping/v1/ping.proto"),
			Package: proto.String("ping.v1"),
			MessageType: []*descriptorpb.DescriptorProto{{
				Name:  proto.String("Shared"),
				Field: []*descriptorpb.FieldDescriptorProto{c15StringField("id", 1)},
			}},
		}, c15ServiceFile()},
	})
}

// A service-only package: everything it declares lives in ping.v1.service,
// the ping.v1 package itself has no schemas.
func TestC15PackageWithSchemasInSubPackageOnly(t *testing.T) {
	c15RoundTrip(t, &source_j5pb.SourceImage{
		Packages: []*source_j5pb.PackageInfo{{Label: "Ping", Name: "ping.v1"}},
		File:     []*descriptorpb.FileDescriptorProto{c15ServiceFile()},
	})
}

// The same service-only package, referenced from another package: the
// references into ping.v1.service must resolve after the re-import.
func TestC15ReferenceIntoServiceOnlyPackage(t *testing.T) {
	c15RoundTrip(t, &source_j5pb.SourceImage{
		Packages: []*source_j5pb.PackageInfo{
			{Label: "Ping", Name: "ping.v1"},
			{Label: "Log", Name: "log.v1"},
		},
		File: []*descriptorpb.FileDescriptorProto{c15ServiceFile(), {
			Syntax:     proto.String("proto3"),
			Name:       proto.String("log/v1/log.proto"),
			Package:    proto.String("log.v1"),
			Dependency: []string{"ping/v1/service/ping_service.proto"},
			MessageType: []*descriptorpb.DescriptorProto{{
				Name: proto.String("Entry"),
				Field: []*descriptorpb.FieldDescriptorProto{{
					Name:     proto.String("last_pong"),
					JsonName: proto.String("lastPong"),
					Type:     descriptorpb.FieldDescriptorProto_TYPE_MESSAGE.Enum(),
					TypeName: proto.String(".ping.v1.service.Pong"),
					Number:   proto.Int32(1),
				}},
			}},
		}},
	})
}
