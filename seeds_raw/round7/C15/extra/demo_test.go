// copy to: internal/structure/
package structure

import (
	"fmt"
	"testing"

	"buf.build/gen/go/bufbuild/protovalidate/protocolbuffers/go/buf/validate"
	"github.com/pentops/j5/gen/j5/schema/v1/schema_j5pb"
	"github.com/pentops/j5/gen/j5/source/v1/source_j5pb"
	"github.com/pentops/j5/lib/j5schema"
	"google.golang.org/protobuf/encoding/prototext"
	"google.golang.org/protobuf/proto"
	"google.golang.org/protobuf/types/descriptorpb"
)

// c15RoundTrip2 exports the image to the source API, rebuilds a schema set
// from it and compares the second export with the first, schema by schema.
func c15RoundTrip2(t *testing.T, image *source_j5pb.SourceImage) {
	t.Helper()

	api, err := APIFromImage(image)
	if err != nil {
		t.Fatalf("APIFromImage: %v", err)
	}

	first := map[string]*schema_j5pb.RootSchema{}
	for _, pkg := range api.Packages {
		for name, schema := range pkg.Schemas {
			first[fmt.Sprintf("%s/%s", pkg.Name, name)] = schema
		}
		for _, sub := range pkg.SubPackages {
			for name, schema := range sub.Schemas {
				first[fmt.Sprintf("%s.%s/%s", pkg.Name, sub.Name, name)] = schema
			}
		}
	}
	if len(first) == 0 {
		t.Fatal("no schemas in the first export")
	}

	rebuilt, err := j5schema.PackageSetFromSourceAPI(api.Packages)
	if err != nil {
		t.Fatalf("PackageSetFromSourceAPI: %v", err)
	}

	second := map[string]*schema_j5pb.RootSchema{}
	for _, pkg := range rebuilt.Packages {
		for name, ref := range pkg.Schemas {
			if ref.To == nil {
				t.Errorf("unresolved reference %s/%s", pkg.Name, name)
				continue
			}
			second[fmt.Sprintf("%s/%s", pkg.Name, name)] = ref.To.ToJ5Root()
		}
	}

	for key, want := range first {
		got, ok := second[key]
		if !ok {
			t.Errorf("schema %s lost in the round trip", key)
			continue
		}
		if !proto.Equal(want, got) {
			t.Errorf("schema %s differs after the round trip\nfirst export:\n%s\nsecond export:\n%s", key, prototext.Format(want), prototext.Format(got))
		}
	}
	for key := range second {
		if _, ok := first[key]; !ok {
			t.Errorf("schema %s appeared in the round trip", key)
		}
	}
}

func c15ValidateField(field *descriptorpb.FieldDescriptorProto, constraints *validate.FieldConstraints) *descriptorpb.FieldDescriptorProto {
	field.Options = &descriptorpb.FieldOptions{}
	proto.SetExtension(field.Options, validate.E_Field, constraints)
	return field
}

func c15Image(fields ...*descriptorpb.FieldDescriptorProto) *source_j5pb.SourceImage {
	return &source_j5pb.SourceImage{
		Packages: []*source_j5pb.PackageInfo{{Label: "Tags", Name: "tags.v1"}},
		File: []*descriptorpb.FileDescriptorProto{{
			Syntax:  proto.String("proto3"),
			Name:    proto.String("tags/v1/tags.proto"),
			Package: proto.String("tags.v1"),
			MessageType: []*descriptorpb.DescriptorProto{{
				Name:  proto.String("Tagged"),
				Field: fields,
				NestedType: []*descriptorpb.DescriptorProto{{
					Name: proto.String("LabelsEntry"),
					Field: []*descriptorpb.FieldDescriptorProto{{
						Name:     proto.String("key"),
						JsonName: proto.String("key"),
						Number:   proto.Int32(1),
						Label:    descriptorpb.FieldDescriptorProto_LABEL_OPTIONAL.Enum(),
						Type:     descriptorpb.FieldDescriptorProto_TYPE_STRING.Enum(),
					}, {
						Name:     proto.String("value"),
						JsonName: proto.String("value"),
						Number:   proto.Int32(2),
						Label:    descriptorpb.FieldDescriptorProto_LABEL_OPTIONAL.Enum(),
						Type:     descriptorpb.FieldDescriptorProto_TYPE_STRING.Enum(),
					}},
					Options: &descriptorpb.MessageOptions{MapEntry: proto.Bool(true)},
				}},
			}},
		}},
	}
}

func c15TagsField() *descriptorpb.FieldDescriptorProto {
	return &descriptorpb.FieldDescriptorProto{
		Name:     proto.String("tags"),
		JsonName: proto.String("tags"),
		Number:   proto.Int32(1),
		Label:    descriptorpb.FieldDescriptorProto_LABEL_REPEATED.Enum(),
		Type:     descriptorpb.FieldDescriptorProto_TYPE_STRING.Enum(),
	}
}

func c15LabelsField() *descriptorpb.FieldDescriptorProto {
	return &descriptorpb.FieldDescriptorProto{
		Name:     proto.String("labels"),
		JsonName: proto.String("labels"),
		Number:   proto.Int32(2),
		Label:    descriptorpb.FieldDescriptorProto_LABEL_REPEATED.Enum(),
		Type:     descriptorpb.FieldDescriptorProto_TYPE_MESSAGE.Enum(),
		TypeName: proto.String(".tags.v1.Tagged.LabelsEntry"),
	}
}

// Constraints on the array / map itself together with constraints on the
// items: the usual shape.
func TestC15ArrayAndMapWithOwnRules(t *testing.T) {
	c15RoundTrip2(t, c15Image(
		c15ValidateField(c15TagsField(), &validate.FieldConstraints{
			Type: &validate.FieldConstraints_Repeated{
				Repeated: &validate.RepeatedRules{
					MinItems: proto.Uint64(1),
					Items: &validate.FieldConstraints{
						Type: &validate.FieldConstraints_String_{
							String_: &validate.StringRules{MinLen: proto.Uint64(2)},
						},
					},
				},
			},
		}),
		c15ValidateField(c15LabelsField(), &validate.FieldConstraints{
			Type: &validate.FieldConstraints_Map{
				Map: &validate.MapRules{
					MaxPairs: proto.Uint64(10),
					Values: &validate.FieldConstraints{
						Type: &validate.FieldConstraints_String_{
							String_: &validate.StringRules{MaxLen: proto.Uint64(20)},
						},
					},
				},
			},
		}),
	))
}

// Constraints declared for the items only: `repeated.items` without
// min_items / max_items / unique, and `map.values` without min_pairs /
// max_pairs.
func TestC15ArrayAndMapWithItemRulesOnly(t *testing.T) {
	t.Run("array", func(t *testing.T) {
		c15RoundTrip2(t, c15Image(
			c15ValidateField(c15TagsField(), &validate.FieldConstraints{
				Type: &validate.FieldConstraints_Repeated{
					Repeated: &validate.RepeatedRules{
						Items: &validate.FieldConstraints{
							Type: &validate.FieldConstraints_String_{
								String_: &validate.StringRules{MinLen: proto.Uint64(2)},
							},
						},
					},
				},
			}),
		))
	})

	t.Run("map", func(t *testing.T) {
		c15RoundTrip2(t, c15Image(
			c15ValidateField(c15LabelsField(), &validate.FieldConstraints{
				Type: &validate.FieldConstraints_Map{
					Map: &validate.MapRules{
						Values: &validate.FieldConstraints{
							Type: &validate.FieldConstraints_String_{
								String_: &validate.StringRules{MaxLen: proto.Uint64(20)},
							},
						},
					},
				},
			}),
		))
	})
}
