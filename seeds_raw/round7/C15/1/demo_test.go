// copy to: internal/structure/
package structure

import (
	"fmt"
	"testing"

	"github.com/pentops/j5/gen/j5/ext/v1/ext_j5pb"
	"github.com/pentops/j5/gen/j5/schema/v1/schema_j5pb"
	"github.com/pentops/j5/gen/j5/source/v1/source_j5pb"
	"github.com/pentops/j5/lib/j5schema"
	"google.golang.org/protobuf/encoding/prototext"
	"google.golang.org/protobuf/proto"
	"google.golang.org/protobuf/types/descriptorpb"
)

// c15RoundTrip exports the image to the source API, rebuilds a schema set from
// it and compares the second export with the first, schema by schema.
func c15RoundTrip(t *testing.T, image *source_j5pb.SourceImage) {
	t.Helper()

	api, err := APIFromImage(image)
	if err != nil {
		t.Fatalf("APIFromImage: %v", err)
	}

	first := map[string]*schema_j5pb.RootSchema{}
	for _, pkg := range api.Packages {
		for name, schema := range pkg.Schemas {
			first[fmt.Sprintf("%s/%s", pkg.Name, name)] = schema
		}
		for _, sub := range pkg.SubPackages {
			for name, schema := range sub.Schemas {
				first[fmt.Sprintf("%s.%s/%s", pkg.Name, sub.Name, name)] = schema
			}
		}
	}
	if len(first) == 0 {
		t.Fatal("no schemas in the first export")
	}

	rebuilt, err := j5schema.PackageSetFromSourceAPI(api.Packages)
	if err != nil {
		t.Fatalf("PackageSetFromSourceAPI: %v", err)
	}

	second := map[string]*schema_j5pb.RootSchema{}
	for _, pkg := range rebuilt.Packages {
		for name, ref := range pkg.Schemas {
			if ref.To == nil {
				t.Errorf("unresolved reference %s/%s", pkg.Name, name)
				continue
			}
			second[fmt.Sprintf("%s/%s", pkg.Name, name)] = ref.To.ToJ5Root()
		}
	}

	for key, want := range first {
		got, ok := second[key]
		if !ok {
			t.Errorf("schema %s lost in the round trip", key)
			continue
		}
		if !proto.Equal(want, got) {
			t.Errorf("schema %s differs after the round trip\nfirst export:\n%s\nsecond export:\n%s", key, prototext.Format(want), prototext.Format(got))
		}
	}
	for key := range second {
		if _, ok := first[key]; !ok {
			t.Errorf("schema %s appeared in the round trip", key)
		}
	}
}

// An event message of a state entity which is also declared as a member of an
// 'any' group: both markers must survive export and re-import.
func TestC15EntityPartWhichIsAlsoAnAnyMember(t *testing.T) {
	msgOpts := func(psmEntity string, anyMember ...string) *descriptorpb.MessageOptions {
		opts := &descriptorpb.MessageOptions{}
		if psmEntity != "" {
			proto.SetExtension(opts, ext_j5pb.E_Psm, &ext_j5pb.PSMOptions{EntityName: psmEntity})
		}
		if len(anyMember) > 0 {
			proto.SetExtension(opts, ext_j5pb.E_Message, &ext_j5pb.MessageOptions{
				Type: &ext_j5pb.MessageOptions_Object{
					Object: &ext_j5pb.ObjectMessageOptions{AnyMember: anyMember},
				},
			})
		}
		return opts
	}
	stringField := func(name string, number int32) *descriptorpb.FieldDescriptorProto {
		return &descriptorpb.FieldDescriptorProto{
			Name:     proto.String(name),
			JsonName: proto.String(name),
			Type:     descriptorpb.FieldDescriptorProto_TYPE_STRING.Enum(),
			Number:   proto.Int32(number),
		}
	}

	image := &source_j5pb.SourceImage{
		Packages: []*source_j5pb.PackageInfo{{Label: "Audit", Name: "audit.v1"}},
		File: []*descriptorpb.FileDescriptorProto{{
			Syntax:  proto.String("proto3"),
			Name:    proto.String("audit/v1/audit.proto"),
			Package: proto.String("audit.v1"),
			MessageType: []*descriptorpb.DescriptorProto{{
				// entity marker only
				Name:    proto.String("TrailKeys"),
				Options: msgOpts("trail"),
				Field:   []*descriptorpb.FieldDescriptorProto{stringField("trail_id", 1)},
			}, {
				// any-membership only
				Name:    proto.String("Note"),
				Options: msgOpts("", "attachments"),
				Field:   []*descriptorpb.FieldDescriptorProto{stringField("text", 1)},
			}, {
				// entity marker and any-membership on the same object
				Name:    proto.String("TrailEvent"),
				Options: msgOpts("trail", "attachments", "history"),
				Field:   []*descriptorpb.FieldDescriptorProto{stringField("what", 1)},
			}},
		}},
	}

	c15RoundTrip(t, image)
}
