// copy to: internal/j5s/protobuild/
package protobuild

// Demonstration for C16 seed 2: a topic with a single, unnamed message takes
// the method name from the topic name as written. When that name is not
// CamelCase (foo_bar, fooBar, calc) the compiler must still emit an rpc and an
// input message which the structure stage accepts (<rpc name>Message).
// Chains compile -> image -> source API -> client API -> J5 JSON -> OpenAPI.

import (
	"context"
	"encoding/json"
	"strings"
	"testing"

	"github.com/pentops/j5/gen/j5/client/v1/client_j5pb"
	"github.com/pentops/j5/gen/j5/source/v1/source_j5pb"
	"github.com/pentops/j5/internal/export"
	"github.com/pentops/j5/internal/j5client"
	"github.com/pentops/j5/internal/structure"
	"github.com/pentops/j5/lib/j5codec"
	"google.golang.org/protobuf/reflect/protodesc"
	"google.golang.org/protobuf/reflect/protoreflect"
)

type demoOut struct {
	client  *client_j5pb.API
	j5json  []byte
	swagger []byte
}

func demoPipeline(t *testing.T, pkgName string, lines ...string) *demoOut {
	t.Helper()
	tf := newTestFiles()
	tf.tAddJ5SFile(strings.ReplaceAll(pkgName, ".", "/")+"/demo.j5s", lines...)
	td := newTestDeps()

	cc, err := NewPackageSet(td, tf)
	if err != nil {
		t.Fatalf("NewPackageSet: %s", err)
	}
	out, err := cc.CompilePackage(context.Background(), pkgName)
	if err != nil {
		t.Fatalf("CompilePackage: %s", err)
	}

	img := &source_j5pb.SourceImage{
		Packages: []*source_j5pb.PackageInfo{{Name: pkgName, Label: "Demo"}},
	}
	seen := map[string]bool{}
	var add func(fd protoreflect.FileDescriptor)
	add = func(fd protoreflect.FileDescriptor) {
		if seen[fd.Path()] {
			return
		}
		seen[fd.Path()] = true
		imports := fd.Imports()
		for i := 0; i < imports.Len(); i++ {
			add(imports.Get(i).FileDescriptor)
		}
		img.File = append(img.File, protodesc.ToFileDescriptorProto(fd))
	}
	for _, file := range out {
		add(file)
		img.SourceFilenames = append(img.SourceFilenames, file.Path())
	}

	sourceAPI, err := structure.APIFromImage(img)
	if err != nil {
		t.Fatalf("APIFromImage: %s", err)
	}
	clientAPI, err := j5client.APIFromSource(sourceAPI)
	if err != nil {
		t.Fatalf("APIFromSource: %s", err)
	}
	jb, err := j5codec.NewCodec().ProtoToJSON(clientAPI.ProtoReflect())
	if err != nil {
		t.Fatalf("ProtoToJSON: %s", err)
	}
	doc, err := export.BuildSwagger(clientAPI)
	if err != nil {
		t.Fatalf("BuildSwagger: %s", err)
	}
	sb, err := json.Marshal(doc)
	if err != nil {
		t.Fatalf("json.Marshal(swagger): %s", err)
	}
	return &demoOut{client: clientAPI, j5json: jb, swagger: sb}
}


// Control: CamelCase topic names and explicitly named messages.
func TestDemoC16_2_Control(t *testing.T) {
	demoPipeline(t, "demo.v1",
		`topic FooBar publish {`,
		`  message {`,
		`    field noteId key:id62`,
		`  }`,
		`}`,
		`topic Notes publish {`,
		`  message PostNote {`,
		`    field noteId key:id62`,
		`  }`,
		`  message DropNote {`,
		`    field noteId key:id62`,
		`  }`,
		`}`,
		`topic Calc reqres {`,
		`  request {`,
		`    field a string`,
		`  }`,
		`  reply {`,
		`    field b string`,
		`  }`,
		`}`,
	)
}

func TestDemoC16_2_SnakeCaseTopicDefaultMessage(t *testing.T) {
	demoPipeline(t, "demo.v1",
		`topic foo_bar publish {`,
		`  message {`,
		`    field noteId key:id62`,
		`  }`,
		`}`,
	)
}

func TestDemoC16_2_LowerCamelTopicDefaultMessage(t *testing.T) {
	demoPipeline(t, "demo.v1",
		`topic fooBar publish {`,
		`  message {`,
		`    field noteId key:id62`,
		`  }`,
		`}`,
	)
}

func TestDemoC16_2_LowerCaseReqRes(t *testing.T) {
	demoPipeline(t, "demo.v1",
		`topic calc reqres {`,
		`  request {`,
		`    field a string`,
		`  }`,
		`  reply {`,
		`    field b string`,
		`  }`,
		`}`,
		`service Thing {`,
		`  basePath = "/demo/v1"`,
		`  method GetThing {`,
		`    httpMethod = "GET"`,
		`    httpPath = "/thing/:thingId"`,
		`    request {`,
		`      field thingId key:id62`,
		`    }`,
		`    response {`,
		`      field name string`,
		`    }`,
		`  }`,
		`}`,
	)
}
