// copy to: internal/j5s/protobuild/
package protobuild

// Demonstration for C16 seed 1: a flattened object in a response body whose
// own fields reference a schema (an enum) which is not reachable any other way.
// Chains compile -> image -> source API -> client API -> J5 JSON -> OpenAPI and
// then checks that every ref in the client API and every $ref in the OpenAPI
// document resolves to a schema which is present.

import (
	"context"
	"encoding/json"
	"sort"
	"strings"
	"testing"

	"github.com/pentops/j5/gen/j5/client/v1/client_j5pb"
	"github.com/pentops/j5/gen/j5/source/v1/source_j5pb"
	"github.com/pentops/j5/internal/export"
	"github.com/pentops/j5/internal/j5client"
	"github.com/pentops/j5/internal/structure"
	"github.com/pentops/j5/lib/j5codec"
	"google.golang.org/protobuf/reflect/protodesc"
	"google.golang.org/protobuf/reflect/protoreflect"
)

type demoOut struct {
	client  *client_j5pb.API
	j5json  []byte
	swagger []byte
}

func demoPipeline(t *testing.T, pkgName string, lines ...string) *demoOut {
	t.Helper()
	tf := newTestFiles()
	tf.tAddJ5SFile(strings.ReplaceAll(pkgName, ".", "/")+"/demo.j5s", lines...)
	td := newTestDeps()

	cc, err := NewPackageSet(td, tf)
	if err != nil {
		t.Fatalf("NewPackageSet: %s", err)
	}
	out, err := cc.CompilePackage(context.Background(), pkgName)
	if err != nil {
		t.Fatalf("CompilePackage: %s", err)
	}

	img := &source_j5pb.SourceImage{
		Packages: []*source_j5pb.PackageInfo{{Name: pkgName, Label: "Demo"}},
	}
	seen := map[string]bool{}
	var add func(fd protoreflect.FileDescriptor)
	add = func(fd protoreflect.FileDescriptor) {
		if seen[fd.Path()] {
			return
		}
		seen[fd.Path()] = true
		imports := fd.Imports()
		for i := 0; i < imports.Len(); i++ {
			add(imports.Get(i).FileDescriptor)
		}
		img.File = append(img.File, protodesc.ToFileDescriptorProto(fd))
	}
	for _, file := range out {
		add(file)
		img.SourceFilenames = append(img.SourceFilenames, file.Path())
	}

	sourceAPI, err := structure.APIFromImage(img)
	if err != nil {
		t.Fatalf("APIFromImage: %s", err)
	}
	clientAPI, err := j5client.APIFromSource(sourceAPI)
	if err != nil {
		t.Fatalf("APIFromSource: %s", err)
	}
	jb, err := j5codec.NewCodec().ProtoToJSON(clientAPI.ProtoReflect())
	if err != nil {
		t.Fatalf("ProtoToJSON: %s", err)
	}
	doc, err := export.BuildSwagger(clientAPI)
	if err != nil {
		t.Fatalf("BuildSwagger: %s", err)
	}
	sb, err := json.Marshal(doc)
	if err != nil {
		t.Fatalf("json.Marshal(swagger): %s", err)
	}
	return &demoOut{client: clientAPI, j5json: jb, swagger: sb}
}

// walkJSON calls cb for every JSON object in the tree.
func walkJSON(v interface{}, cb func(map[string]interface{})) {
	switch tv := v.(type) {
	case map[string]interface{}:
		cb(tv)
		for _, child := range tv {
			walkJSON(child, cb)
		}
	case []interface{}:
		for _, child := range tv {
			walkJSON(child, cb)
		}
	}
}

// assertRefsPresent checks the closure of the client API and of the OpenAPI
// document: every schema referenced by name is present.
func assertRefsPresent(t *testing.T, out *demoOut) {
	t.Helper()

	// client API (as rendered to J5 JSON)
	var clientDoc map[string]interface{}
	if err := json.Unmarshal(out.j5json, &clientDoc); err != nil {
		t.Fatalf("client JSON does not parse: %s", err)
	}
	have := map[string]bool{}
	for _, pkg := range out.client.Packages {
		for key := range pkg.Schemas {
			have[pkg.Name+"."+key] = true
		}
	}
	missing := map[string]bool{}
	walkJSON(clientDoc, func(obj map[string]interface{}) {
		ref, ok := obj["ref"].(map[string]interface{})
		if !ok {
			return
		}
		pkg, _ := ref["package"].(string)
		schema, _ := ref["schema"].(string)
		if pkg == "" || schema == "" {
			return
		}
		if !have[pkg+"."+schema] {
			missing[pkg+"."+schema] = true
		}
	})
	for _, name := range sortedKeys(missing) {
		t.Errorf("client API references schema %s, which is not present in any package", name)
	}

	// OpenAPI document
	var swaggerDoc map[string]interface{}
	if err := json.Unmarshal(out.swagger, &swaggerDoc); err != nil {
		t.Fatalf("swagger JSON does not parse: %s", err)
	}
	components, _ := swaggerDoc["components"].(map[string]interface{})
	defs, _ := components["schemas"].(map[string]interface{})
	missingDefs := map[string]bool{}
	walkJSON(swaggerDoc, func(obj map[string]interface{}) {
		ref, ok := obj["$ref"].(string)
		if !ok {
			return
		}
		name := strings.TrimPrefix(ref, "#/definitions/")
		if _, ok := defs[name]; !ok {
			missingDefs[name] = true
		}
	})
	for _, name := range sortedKeys(missingDefs) {
		t.Errorf("OpenAPI document has $ref to %s, which is not in components.schemas", name)
	}
}

func sortedKeys(m map[string]bool) []string {
	keys := make([]string, 0, len(m))
	for k := range m {
		keys = append(keys, k)
	}
	sort.Strings(keys)
	return keys
}

// Control: the same shape without flatten, passes with and without the patch.
func TestDemoC16_1_Control(t *testing.T) {
	out := demoPipeline(t, "demo.v1",
		`enum Color {`,
		`  option RED`,
		`  option BLUE`,
		`}`,
		`object Paint {`,
		`  field color enum:Color`,
		`  field coats integer:INT32`,
		`}`,
		`service Thing {`,
		`  basePath = "/demo/v1"`,
		`  method GetThing {`,
		`    httpMethod = "GET"`,
		`    httpPath = "/thing/:thingId"`,
		`    request {`,
		`      field thingId key:id62`,
		`    }`,
		`    response {`,
		`      field name string`,
		`      field paint object:Paint`,
		`    }`,
		`  }`,
		`}`,
	)
	assertRefsPresent(t, out)
}

// The flattened object's own fields (color) appear in the client response body
// and carry a ref to demo.v1.Color, so Color must be in the package's schemas.
func TestDemoC16_1_FlattenedResponseObjectWithEnum(t *testing.T) {
	out := demoPipeline(t, "demo.v1",
		`enum Color {`,
		`  option RED`,
		`  option BLUE`,
		`}`,
		`object Paint {`,
		`  field color enum:Color`,
		`  field coats integer:INT32`,
		`}`,
		`service Thing {`,
		`  basePath = "/demo/v1"`,
		`  method GetThing {`,
		`    httpMethod = "GET"`,
		`    httpPath = "/thing/:thingId"`,
		`    request {`,
		`      field thingId key:id62`,
		`    }`,
		`    response {`,
		`      field name string`,
		`      field paint object:Paint {`,
		`        flatten = true`,
		`      }`,
		`    }`,
		`  }`,
		`}`,
	)

	// the flattened property is in the response body
	var found bool
	for _, pkg := range out.client.Packages {
		for _, svc := range pkg.Services {
			for _, method := range svc.Methods {
				for _, prop := range method.ResponseBody.GetProperties() {
					if prop.Name == "color" {
						found = true
					}
				}
			}
		}
	}
	if !found {
		t.Fatalf("expected flattened property 'color' in the response body")
	}

	assertRefsPresent(t, out)
}

// Same thing in body position of a POST request, with an object rather than an enum.
func TestDemoC16_1_FlattenedRequestObjectWithObject(t *testing.T) {
	out := demoPipeline(t, "demo.v1",
		`object Address {`,
		`  field street string`,
		`}`,
		`object Contact {`,
		`  field address object:Address`,
		`}`,
		`service Thing {`,
		`  basePath = "/demo/v1"`,
		`  method PutThing {`,
		`    httpMethod = "POST"`,
		`    httpPath = "/thing/:thingId"`,
		`    request {`,
		`      field thingId key:id62`,
		`      field contact object:Contact {`,
		`        flatten = true`,
		`      }`,
		`    }`,
		`    response {`,
		`    }`,
		`  }`,
		`}`,
	)
	assertRefsPresent(t, out)
}
