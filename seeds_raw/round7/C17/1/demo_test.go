// copy to: internal/j5s/protobuild/
package protobuild

// Demonstration for seed C17/1.
//
// A key may carry `primary = false` to document that it is deliberately not
// part of the primary key (the project's own j5stest/proto/j5st/v1/foo.j5s
// does this for accountId). Such a key must not become a path parameter of the
// Get and Events query methods: those take exactly the primary keys (plus
// shard keys), in declaration order.

import (
	"strings"
	"testing"

	"google.golang.org/genproto/googleapis/api/annotations"
	"google.golang.org/protobuf/proto"
	"google.golang.org/protobuf/reflect/protoreflect"
)

func TestSeedC17_1_ExplicitNonPrimaryKeyNotInGetPath(t *testing.T) {
	tf := newTestFiles()
	tf.tAddJ5SFile("local/v1/wallet.j5s",
		"entity Wallet {",
		"  key walletId key:id62 {",
		"    primary = true",
		"  }",
		"  key accountId key:id62 {",
		"    primary = false",
		"    tenant = \"account\"",
		"  }",
		"  key ledgerId key:uuid {",
		"    primary = true",
		"  }",
		"  data name string",
		"  status ACTIVE",
		"  status CLOSED",
		"  event Open {",
		"    field name string",
		"  }",
		"}",
	)

	files := testCompile(t, tf, newTestDeps(), "local.v1")

	// the key itself is correctly not marked primary / required
	root := files.expectFile(t, "local/v1/wallet.j5s.proto")
	keys := root.Messages().ByName("WalletKeys")
	if keys == nil {
		t.Fatal("no WalletKeys message")
	}
	if got := fieldNames(keys); got != "wallet_id,account_id,ledger_id" {
		t.Errorf("WalletKeys fields: %s", got)
	}

	svcFile := files.expectFile(t, "local/v1/service/wallet.p.j5s.proto")
	svc := svcFile.Services().ByName("WalletQueryService")
	if svc == nil {
		t.Fatal("no WalletQueryService")
	}

	wantPaths := map[string]string{
		"WalletGet":    "/local/v1/wallet/q/{wallet_id}/{ledger_id}",
		"WalletList":   "/local/v1/wallet/q",
		"WalletEvents": "/local/v1/wallet/q/{wallet_id}/{ledger_id}/events",
	}
	for name, want := range wantPaths {
		method := svc.Methods().ByName(protoreflect.Name(name))
		if method == nil {
			t.Errorf("missing method %s", name)
			continue
		}
		rule := proto.GetExtension(method.Options(), annotations.E_Http).(*annotations.HttpRule)
		if got := rule.GetGet(); got != want {
			t.Errorf("%s path: got %q, want %q", name, got, want)
		}
	}

	wantReq := map[string]string{
		"WalletGetRequest":    "wallet_id,ledger_id",
		"WalletListRequest":   "page,query",
		"WalletEventsRequest": "wallet_id,ledger_id,page,query",
	}
	for name, want := range wantReq {
		msg := svcFile.Messages().ByName(protoreflect.Name(name))
		if msg == nil {
			t.Errorf("missing message %s", name)
			continue
		}
		if got := fieldNames(msg); got != want {
			t.Errorf("%s fields: got %s, want %s", name, got, want)
		}
	}
}

func fieldNames(msg protoreflect.MessageDescriptor) string {
	names := make([]string, 0, msg.Fields().Len())
	for i := 0; i < msg.Fields().Len(); i++ {
		names = append(names, string(msg.Fields().Get(i).Name()))
	}
	return strings.Join(names, ",")
}
