// copy to: internal/j5client/
package j5client

// Demonstration for seed C17/2.
//
// An entity key may be both part of the primary key and the tenant key (a
// "tenant-scoped" primary key). The j5s source is compiled to descriptors, the
// descriptors are read back into the API structure and the client API is
// derived from that. The StateEntity the client sees must list every primary
// key, in declaration order, exactly as the Get / Events path parameters do.

import (
	"context"
	"fmt"
	"sort"
	"strings"
	"testing"

	"github.com/pentops/j5/gen/j5/client/v1/client_j5pb"
	"github.com/pentops/j5/gen/j5/source/v1/source_j5pb"
	"github.com/pentops/j5/internal/j5s/protobuild"
	"github.com/pentops/j5/internal/structure"
	"google.golang.org/protobuf/reflect/protodesc"
	"google.golang.org/protobuf/reflect/protoreflect"
	"google.golang.org/protobuf/types/descriptorpb"
)

type seedFiles map[string]string

func (sf seedFiles) GetLocalFile(_ context.Context, name string) ([]byte, error) {
	if body, ok := sf[name]; ok {
		return []byte(body), nil
	}
	return nil, fmt.Errorf("file not found: %s", name)
}

func (sf seedFiles) ListPackages() []string {
	return []string{"local.v1"}
}

func (sf seedFiles) ListSourceFiles(_ context.Context, prefix string) ([]string, error) {
	out := []string{}
	for name := range sf {
		if strings.HasPrefix(name, prefix) {
			out = append(out, name)
		}
	}
	sort.Strings(out)
	return out, nil
}

type seedNoDeps struct{}

func (seedNoDeps) ListDependencyFiles(string) []string { return nil }
func (seedNoDeps) GetDependencyFile(name string) (*descriptorpb.FileDescriptorProto, error) {
	return nil, fmt.Errorf("no dependency file %s", name)
}

func seedClientAPI(t *testing.T, source string) *client_j5pb.API {
	t.Helper()
	ctx := context.Background()

	ps, err := protobuild.NewPackageSet(seedNoDeps{}, seedFiles{"local/v1/lease.j5s": source})
	if err != nil {
		t.Fatalf("NewPackageSet: %s", err)
	}
	built, err := ps.CompilePackage(ctx, "local.v1")
	if err != nil {
		t.Fatalf("CompilePackage: %s", err)
	}

	img := &source_j5pb.SourceImage{
		Packages: []*source_j5pb.PackageInfo{{Name: "local.v1", Label: "Local"}},
	}
	seen := map[string]bool{}
	var add func(fd protoreflect.FileDescriptor)
	add = func(fd protoreflect.FileDescriptor) {
		if seen[fd.Path()] {
			return
		}
		seen[fd.Path()] = true
		imports := fd.Imports()
		for i := 0; i < imports.Len(); i++ {
			add(imports.Get(i).FileDescriptor)
		}
		img.File = append(img.File, protodesc.ToFileDescriptorProto(fd))
	}
	for _, file := range built {
		add(file)
	}

	sourceAPI, err := structure.APIFromImage(img)
	if err != nil {
		t.Fatalf("APIFromImage: %s", err)
	}
	clientAPI, err := APIFromSource(sourceAPI)
	if err != nil {
		t.Fatalf("APIFromSource: %s", err)
	}
	return clientAPI
}

func seedPathParams(method *client_j5pb.Method) string {
	names := []string{}
	for _, prop := range method.Request.PathParameters {
		names = append(names, prop.Name)
	}
	return strings.Join(names, ",")
}

func TestSeedC17_2_TenantScopedPrimaryKey(t *testing.T) {
	api := seedClientAPI(t, strings.Join([]string{
		"package local.v1",
		"",
		"entity Lease {",
		"  key orgId key:id62 {",
		"    primary = true",
		"    tenant = \"org\"",
		"  }",
		"  key leaseId key:id62 {",
		"    primary = true",
		"  }",
		"  key ownerId key:id62 {",
		"    tenant = \"owner\"",
		"  }",
		"  data name string",
		"  status ACTIVE",
		"  status ENDED",
		"  event Begin {",
		"    field name string",
		"  }",
		"  event End {",
		"  }",
		"}",
	}, "\n"))

	var entity *client_j5pb.StateEntity
	for _, pkg := range api.Packages {
		if pkg.Name != "local.v1" {
			continue
		}
		for _, ent := range pkg.StateEntities {
			if ent.Name == "lease" {
				entity = ent
			}
		}
	}
	if entity == nil {
		t.Fatal("entity 'lease' not in client API")
	}

	if got := strings.Join(entity.PrimaryKey, ","); got != "orgId,leaseId" {
		t.Errorf("StateEntity.PrimaryKey: got %q, want %q", got, "orgId,leaseId")
	}

	if entity.QueryService == nil || len(entity.QueryService.Methods) != 3 {
		t.Fatalf("expected a query service with 3 methods, got %v", entity.QueryService)
	}
	for _, method := range entity.QueryService.Methods {
		switch method.Name {
		case "LeaseGet":
			if got := seedPathParams(method); got != "orgId,leaseId" {
				t.Errorf("LeaseGet path parameters: %s", got)
			}
			if method.HttpPath != "/local/v1/lease/q/:orgId/:leaseId" {
				t.Errorf("LeaseGet path: %s", method.HttpPath)
			}
		case "LeaseEvents":
			if got := seedPathParams(method); got != "orgId,leaseId" {
				t.Errorf("LeaseEvents path parameters: %s", got)
			}
		case "LeaseList":
			if got := seedPathParams(method); got != "" {
				t.Errorf("LeaseList path parameters: %s", got)
			}
		default:
			t.Errorf("unexpected query method %s", method.Name)
		}
	}

	// the key annotation of every path parameter of Get must agree with the
	// entity's primary key list
	for _, method := range entity.QueryService.Methods {
		if method.Name != "LeaseGet" {
			continue
		}
		for _, prop := range method.Request.PathParameters {
			key := prop.Schema.GetKey()
			if key == nil {
				t.Errorf("path parameter %s is not a key field", prop.Name)
				continue
			}
			if !key.GetEntity().GetPrimaryKey() {
				t.Errorf("path parameter %s of LeaseGet is not marked as primary key: %v", prop.Name, key.Entity)
			}
		}
	}
}
