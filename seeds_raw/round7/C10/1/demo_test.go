// copy to: internal/codec/
//
// Run with the race detector:
//   GOFLAGS=-mod=mod GOPROXY=off go test -vet=off -count=1 -race -run TestSeedC10FailedBuildBesideGoodCalls ./internal/codec/
package codec

import (
	"sync"
	"testing"

	"github.com/pentops/flowtest/prototest"
	"google.golang.org/protobuf/reflect/protoreflect"
	"google.golang.org/protobuf/types/dynamicpb"
)

// One goroutine keeps asking a shared codec for a message type whose schema
// does not build (each attempt registers the type and its sub-schema, fails,
// and takes them out of the cache again), the others keep encoding and
// decoding ordinary types of the same package. Every call must return what it
// returns when run alone, and the race detector must stay silent.
func TestSeedC10FailedBuildBesideGoodCalls(t *testing.T) {
	rs := prototest.DescriptorsFromSource(t, map[string]string{
		"seed/v1/seed.proto": `
		syntax = "proto3";
		package seed.v1;

		message Inner {
			string name = 1;
		}

		// the int32 map key is not supported: the schema of Broken does not
		// build, but only after Inner has been registered for it
		message Broken {
			Inner inner = 1;
			map<int32, string> bad = 2;
		}

		message GoodA {
			string a = 1;
			GoodB b = 2;
		}

		message GoodB {
			string b = 1;
			repeated GoodC cs = 2;
		}

		message GoodC {
			string c = 1;
		}
		`,
	})

	broken := rs.MessageByName(t, "seed.v1.Broken")
	goodA := rs.MessageByName(t, "seed.v1.GoodA")
	goodB := rs.MessageByName(t, "seed.v1.GoodB")
	goodC := rs.MessageByName(t, "seed.v1.GoodC")

	type goodCase struct {
		desc protoreflect.MessageDescriptor
		json string
	}
	goodCases := []goodCase{
		{goodA, `{"a":"x","b":{"b":"y","cs":[{"c":"z"}]}}`},
		{goodB, `{"b":"y","cs":[{"c":"z"},{"c":"zz"}]}`},
		{goodC, `{"c":"z"}`},
	}

	const rounds = 40
	const iterations = 50

	for round := 0; round < rounds; round++ {
		cc := NewCodec()
		start := make(chan struct{})
		wg := sync.WaitGroup{}

		wg.Add(1)
		go func() {
			defer wg.Done()
			<-start
			for i := 0; i < iterations; i++ {
				msg := dynamicpb.NewMessage(broken)
				if _, err := cc.ProtoToJSON(msg); err == nil {
					t.Errorf("encoding seed.v1.Broken: expected an error")
					return
				}
			}
		}()

		for worker := 0; worker < 3; worker++ {
			worker := worker
			wg.Add(1)
			go func() {
				defer wg.Done()
				<-start
				for i := 0; i < iterations; i++ {
					tc := goodCases[(worker+i)%len(goodCases)]
					msg := dynamicpb.NewMessage(tc.desc)
					if err := cc.JSONToProto([]byte(tc.json), msg); err != nil {
						t.Errorf("decode %s: %s", tc.desc.FullName(), err)
						return
					}
					out, err := cc.ProtoToJSON(msg)
					if err != nil {
						t.Errorf("encode %s: %s", tc.desc.FullName(), err)
						return
					}
					if string(out) != tc.json {
						t.Errorf("encode %s: got %s, want %s", tc.desc.FullName(), out, tc.json)
						return
					}
				}
			}()
		}

		close(start)
		wg.Wait()
		if t.Failed() {
			return
		}
	}
}
