// copy to: internal/codec/
//
// Run with the race detector:
//   GOFLAGS=-mod=mod GOPROXY=off go test -vet=off -count=1 -race -run TestSeedC10PrefixedEnumSpelling ./internal/codec/
package codec

import (
	"net/url"
	"sync"
	"testing"

	"github.com/pentops/j5/gen/test/schema/v1/schema_testpb"
	"google.golang.org/protobuf/proto"
)

// The codec is warm: every type involved has been encoded and decoded before
// the goroutines start, with enum values in their usual short spelling
// ("VALUE1"). The goroutines then decode the same types with the enum values in
// the other accepted spelling, the full proto name ("ENUM_VALUE1"), through
// JSON and through a query string. test.schema.v1.Enum is shared by FullSchema
// and WrappedOneof. Every call must return what it returns when run alone and
// the race detector must stay silent.
func TestSeedC10PrefixedEnumSpelling(t *testing.T) {

	type decodeCase struct {
		name string
		run  func(cc *Codec) (proto.Message, error)
		want proto.Message
	}

	cases := []decodeCase{{
		name: "json field",
		run: func(cc *Codec) (proto.Message, error) {
			msg := &schema_testpb.FullSchema{}
			err := cc.JSONToProto([]byte(`{"enum":"ENUM_VALUE1","rEnum":["ENUM_VALUE2","VALUE1"]}`), msg.ProtoReflect())
			return msg, err
		},
		want: &schema_testpb.FullSchema{
			Enum:  schema_testpb.Enum_ENUM_VALUE1,
			REnum: []schema_testpb.Enum{schema_testpb.Enum_ENUM_VALUE2, schema_testpb.Enum_ENUM_VALUE1},
		},
	}, {
		name: "json oneof",
		run: func(cc *Codec) (proto.Message, error) {
			msg := &schema_testpb.WrappedOneof{}
			err := cc.JSONToProto([]byte(`{"!type":"wOneofEnum","wOneofEnum":"ENUM_VALUE2"}`), msg.ProtoReflect())
			return msg, err
		},
		want: &schema_testpb.WrappedOneof{
			Type: &schema_testpb.WrappedOneof_WOneofEnum{WOneofEnum: schema_testpb.Enum_ENUM_VALUE2},
		},
	}, {
		name: "query",
		run: func(cc *Codec) (proto.Message, error) {
			msg := &schema_testpb.FullSchema{}
			err := cc.QueryToProto(url.Values{"enum": []string{"ENUM_VALUE2"}}, msg.ProtoReflect())
			return msg, err
		},
		want: &schema_testpb.FullSchema{
			Enum: schema_testpb.Enum_ENUM_VALUE2,
		},
	}}

	const rounds = 50

	for round := 0; round < rounds; round++ {
		cc := NewCodec()

		// warm the schema cache, short spelling only
		for _, warm := range []struct {
			msg  proto.Message
			json string
		}{
			{&schema_testpb.FullSchema{}, `{"enum":"VALUE1","rEnum":["VALUE2"]}`},
			{&schema_testpb.WrappedOneof{}, `{"!type":"wOneofEnum","wOneofEnum":"VALUE1"}`},
		} {
			if err := cc.JSONToProto([]byte(warm.json), warm.msg.ProtoReflect()); err != nil {
				t.Fatalf("warm decode: %s", err)
			}
			if _, err := cc.ProtoToJSON(warm.msg.ProtoReflect()); err != nil {
				t.Fatalf("warm encode: %s", err)
			}
		}

		start := make(chan struct{})
		wg := sync.WaitGroup{}
		for worker := 0; worker < 6; worker++ {
			tc := cases[worker%len(cases)]
			wg.Add(1)
			go func() {
				defer wg.Done()
				<-start
				got, err := tc.run(cc)
				if err != nil {
					t.Errorf("%s: %s", tc.name, err)
					return
				}
				if !proto.Equal(got, tc.want) {
					t.Errorf("%s: got %v, want %v", tc.name, got, tc.want)
				}
			}()
		}
		close(start)
		wg.Wait()
		if t.Failed() {
			return
		}
	}
}
