// copy to: internal/j5s/protobuild/
package protobuild

import (
	"sort"
	"strings"
	"testing"
)

// Two source files of one package whose base names share the part before the
// first dot ("orders.in.j5s" / "orders.out.j5s"), each declaring a topic and a
// service. Every declared topic and service has to be present in the compiled
// .topic / .service sub-packages, each in the <file>.p.j5s.proto of its own
// source file.
func TestSeedC02_1_DottedFileNamesKeepTheirSubPackageFiles(t *testing.T) {
	tf := newTestFiles()

	tf.tAddJ5SFile("local/v1/orders.in.j5s",
		"topic OrderIn publish {",
		"  message Received {",
		"    field orderId string",
		"  }",
		"}",
		"service OrderIn {",
		`  basePath = "/local/v1/in"`,
		"  method GetIn {",
		"    httpMethod = GET",
		`    httpPath = "/:orderId"`,
		"    request {",
		"      field orderId string",
		"    }",
		"    response {",
		"      field status string",
		"    }",
		"  }",
		"}",
	)

	tf.tAddJ5SFile("local/v1/orders.out.j5s",
		"topic OrderOut publish {",
		"  message Shipped {",
		"    field orderId string",
		"  }",
		"}",
		"service OrderOut {",
		`  basePath = "/local/v1/out"`,
		"  method GetOut {",
		"    httpMethod = GET",
		`    httpPath = "/:orderId"`,
		"    request {",
		"      field orderId string",
		"    }",
		"    response {",
		"      field status string",
		"    }",
		"  }",
		"}",
	)

	files := testCompile(t, tf, newTestDeps(), "local.v1")

	gotFiles := []string{}
	gotServices := []string{}
	gotMessages := []string{}
	for name, file := range files {
		gotFiles = append(gotFiles, name)
		for i := 0; i < file.Services().Len(); i++ {
			gotServices = append(gotServices, string(file.Services().Get(i).FullName()))
		}
		for i := 0; i < file.Messages().Len(); i++ {
			gotMessages = append(gotMessages, string(file.Messages().Get(i).FullName()))
		}
	}
	sort.Strings(gotFiles)
	sort.Strings(gotServices)
	sort.Strings(gotMessages)

	wantFiles := []string{
		"local/v1/orders.in.j5s.proto",
		"local/v1/orders.out.j5s.proto",
		"local/v1/service/orders.in.p.j5s.proto",
		"local/v1/service/orders.out.p.j5s.proto",
		"local/v1/topic/orders.in.p.j5s.proto",
		"local/v1/topic/orders.out.p.j5s.proto",
	}
	wantServices := []string{
		"local.v1.service.OrderInService",
		"local.v1.service.OrderOutService",
		"local.v1.topic.OrderInTopic",
		"local.v1.topic.OrderOutTopic",
	}
	wantMessages := []string{
		"local.v1.service.GetInRequest",
		"local.v1.service.GetInResponse",
		"local.v1.service.GetOutRequest",
		"local.v1.service.GetOutResponse",
		"local.v1.topic.ReceivedMessage",
		"local.v1.topic.ShippedMessage",
	}

	if got, want := strings.Join(gotServices, "\n"), strings.Join(wantServices, "\n"); got != want {
		t.Errorf("compiled services:\n%s\nwant:\n%s", got, want)
	}
	if got, want := strings.Join(gotMessages, "\n"), strings.Join(wantMessages, "\n"); got != want {
		t.Errorf("compiled messages:\n%s\nwant:\n%s", got, want)
	}
	if got, want := strings.Join(gotFiles, "\n"), strings.Join(wantFiles, "\n"); got != want {
		t.Errorf("compiled files:\n%s\nwant:\n%s", got, want)
	}
}
