// copy to: internal/j5s/protobuild/
package protobuild

import (
	"testing"

	"google.golang.org/genproto/googleapis/api/annotations"
	"google.golang.org/protobuf/proto"
	"google.golang.org/protobuf/reflect/protoreflect"
	"google.golang.org/protobuf/types/descriptorpb"
)

func seedC02HTTPRule(t *testing.T, method protoreflect.MethodDescriptor) *annotations.HttpRule {
	t.Helper()
	// round trip through the wire format so that the extension is read with
	// the generated type whatever representation the linker left behind
	raw, err := proto.Marshal(method.Options())
	if err != nil {
		t.Fatal(err)
	}
	opts := &descriptorpb.MethodOptions{}
	if err := proto.Unmarshal(raw, opts); err != nil {
		t.Fatal(err)
	}
	rule, ok := proto.GetExtension(opts, annotations.E_Http).(*annotations.HttpRule)
	if !ok || rule == nil {
		t.Fatalf("method %s has no google.api.http rule", method.FullName())
	}
	return rule
}

// Each ":name" path segment becomes "{snake_name}" - also when the name of an
// earlier parameter is the beginning of the name of a later one.
func TestSeedC02_2_PathParameterWhichPrefixesALaterOne(t *testing.T) {
	tf := newTestFiles()

	tf.tAddJ5SFile("shop/v1/orders.j5s",
		"service Orders {",
		`  basePath = "/shop/v1"`,
		"  method GetLine {",
		"    httpMethod = GET",
		`    httpPath = "/:order/lines/:orderLine"`,
		"    request {",
		"      field order string",
		"      field orderLine string",
		"    }",
		"    response {",
		"      field sku string",
		"    }",
		"  }",
		"  method GetLineReverse {",
		"    httpMethod = GET",
		`    httpPath = "/:orderLine/of/:order"`,
		"    request {",
		"      field order string",
		"      field orderLine string",
		"    }",
		"    response {",
		"      field sku string",
		"    }",
		"  }",
		"  method PutLine {",
		"    httpMethod = PUT",
		`    httpPath = "/:shop/:shopId/:shopIdKind"`,
		"    request {",
		"      field shop string",
		"      field shopId string",
		"      field shopIdKind string",
		"    }",
		"    response {",
		"      field sku string",
		"    }",
		"  }",
		"}",
	)

	files := testCompile(t, tf, newTestDeps(), "shop.v1")
	file := files.expectFile(t, "shop/v1/service/orders.p.j5s.proto")

	service := file.Services().ByName("OrdersService")
	if service == nil {
		t.Fatalf("no OrdersService in %s", file.Path())
	}

	for _, tc := range []struct {
		method string
		get    string
		put    string
	}{
		{method: "GetLine", get: "/shop/v1/{order}/lines/{order_line}"},
		{method: "GetLineReverse", get: "/shop/v1/{order_line}/of/{order}"},
		{method: "PutLine", put: "/shop/v1/{shop}/{shop_id}/{shop_id_kind}"},
	} {
		method := service.Methods().ByName(protoreflect.Name(tc.method))
		if method == nil {
			t.Fatalf("no method %s", tc.method)
		}
		rule := seedC02HTTPRule(t, method)
		if got := rule.GetGet(); got != tc.get {
			t.Errorf("%s: http get path %q, want %q", tc.method, got, tc.get)
		}
		if got := rule.GetPut(); got != tc.put {
			t.Errorf("%s: http put path %q, want %q", tc.method, got, tc.put)
		}
	}
}
