// copy to: internal/codec/
package codec

import (
	"testing"
	"time"

	"github.com/pentops/j5/gen/test/schema/v1/schema_testpb"
)

// A decimal in scientific notation is stored in plain notation, so the decoder
// bounds the exponent by the length of the input. The bound has to hold for
// every exponent decimal.NewFromString accepts, including the two ends of the
// int32 range.
//
// NOTE: with the seeded defect the last two inputs make the decoder build a
// string of 2^31 digits (several GB, several seconds). The test gives up after
// one second and fails, which ends the test binary.
func TestSeedC06DecimalExponentBounds(t *testing.T) {
	for _, tc := range []struct {
		name    string
		json    string
		wantErr bool
	}{
		{name: "plain", json: `{"decimal": "1.5"}`},
		{name: "small negative exponent", json: `{"decimal": "1e-1000"}`},
		{name: "small positive exponent, unquoted", json: `{"decimal": 1e+1000}`},
		{name: "large positive exponent", json: `{"decimal": "1e999999999"}`, wantErr: true},
		{name: "large negative exponent", json: `{"decimal": "1e-999999999"}`, wantErr: true},
		{name: "max int32 exponent", json: `{"decimal": "1e2147483647"}`, wantErr: true},
		{name: "min int32 exponent plus one", json: `{"decimal": "1e-2147483647"}`, wantErr: true},
		{name: "beyond int32", json: `{"decimal": "1e-2147483649"}`, wantErr: true},
		{name: "min int32 exponent", json: `{"decimal": "1e-2147483648"}`, wantErr: true},
		{name: "min int32 exponent, unquoted, in array", json: `{"rDecimal": ["1", 1.0e-2147483647]}`, wantErr: true},
	} {
		if t.Failed() {
			// a decoder goroutine may still be expanding gigabytes: stop here
			break
		}
		t.Run(tc.name, func(t *testing.T) {
			type result struct {
				err error
			}
			done := make(chan result, 1)
			start := time.Now()
			go func() {
				msg := &schema_testpb.FullSchema{}
				done <- result{err: NewCodec().JSONToProto([]byte(tc.json), msg.ProtoReflect())}
			}()

			select {
			case res := <-done:
				took := time.Since(start)
				if tc.wantErr && res.err == nil {
					t.Fatalf("%s: expected an out-of-range error, decoding succeeded after %s", tc.json, took)
				}
				if !tc.wantErr && res.err != nil {
					t.Fatalf("%s: unexpected error %s", tc.json, res.err)
				}
				t.Logf("%s -> err=%v in %s", tc.json, res.err, took)
			case <-time.After(time.Second):
				t.Fatalf("%s (%d bytes of input): decoder still running after 1s", tc.json, len(tc.json))
			}
		})
	}
}
