// copy to: internal/codec/
package codec

import (
	"fmt"
	"net/url"
	"testing"

	"github.com/pentops/j5/gen/test/schema/v1/schema_testpb"
)

// The query decoder must answer every url.Values with success or an error.
// A repeated field whose items are one of the message-backed scalars
// (timestamp, date, decimal) and a value that does not parse is the
// combination that matters here; plain scalar arrays (strings, floats, enums)
// are listed as a control.
func TestSeedC06QueryRepeatedInvalidItem(t *testing.T) {
	cases := []url.Values{
		// controls: ordinary scalar / enum arrays with a bad value
		{"rFloat": {"1.5", "not-a-float"}},
		{"rEnum": {"VALUE1", "NOPE"}},
		{"rBool": {"true", "maybe"}},
		// message-backed scalar items with a bad value
		{"rTs": {"2020-01-01T00:00:00Z", "yesterday"}},
		{"rDate": {"2020-13-45"}},
		{"rDecimal": {"1.5", "one and a half"}},
	}

	for _, query := range cases {
		query := query
		t.Run(query.Encode(), func(t *testing.T) {
			err, panicked := decodeQueryNoPanic(query)
			if panicked != nil {
				t.Fatalf("QueryToProto(%v) panicked: %v", query, panicked)
			}
			if err == nil {
				t.Fatalf("QueryToProto(%v): expected an error for the invalid value", query)
			}
			t.Logf("error (as expected): %s", err)
		})
	}
}

func decodeQueryNoPanic(query url.Values) (err error, panicked interface{}) {
	defer func() {
		if r := recover(); r != nil {
			panicked = fmt.Sprintf("%v", r)
		}
	}()
	msg := &schema_testpb.FullSchema{}
	err = NewCodec().QueryToProto(query, msg.ProtoReflect())
	return err, nil
}
