// copy to: internal/j5s/protobuild/
package protobuild

// Demonstration for seed C05/1: the printed .proto text of a j5s enum must
// re-parse to a descriptor with the same enum values in the same order, and
// must re-parse at all.
//
// Run: GOFLAGS=-mod=mod GOPROXY=off go test -vet=off -count=1 -run TestSeed1 ./internal/j5s/protobuild/

import (
	"context"
	"os"
	"strings"
	"testing"

	"github.com/bufbuild/protocompile"
	"github.com/pentops/j5/internal/j5s/protoprint"
	"google.golang.org/protobuf/proto"
	"google.golang.org/protobuf/reflect/protodesc"
	"google.golang.org/protobuf/reflect/protoreflect"
	"google.golang.org/protobuf/types/descriptorpb"
)

// seed1Reparse prints orig and feeds the text to protocompile with the imports
// of orig as the resolver.
func seed1Reparse(t *testing.T, orig protoreflect.FileDescriptor) (string, protoreflect.FileDescriptor) {
	t.Helper()
	text, err := protoprint.PrintFile(context.Background(), orig, "gen")
	if err != nil {
		t.Fatalf("print: %s", err)
	}
	t.Logf("printed:\n%s", text)

	known := map[string]protoreflect.FileDescriptor{}
	var addDeps func(fd protoreflect.FileDescriptor)
	addDeps = func(fd protoreflect.FileDescriptor) {
		imps := fd.Imports()
		for i := 0; i < imps.Len(); i++ {
			dep := imps.Get(i).FileDescriptor
			if _, ok := known[dep.Path()]; ok {
				continue
			}
			known[dep.Path()] = dep
			addDeps(dep)
		}
	}
	addDeps(orig)

	const name = "seed1/printed.proto"
	cc := protocompile.Compiler{
		SourceInfoMode: protocompile.SourceInfoStandard,
		Resolver: protocompile.ResolverFunc(func(path string) (protocompile.SearchResult, error) {
			if path == name {
				return protocompile.SearchResult{Source: strings.NewReader(text)}, nil
			}
			if fd, ok := known[path]; ok {
				return protocompile.SearchResult{Desc: fd}, nil
			}
			return protocompile.SearchResult{}, os.ErrNotExist
		}),
	}
	res, err := cc.Compile(context.Background(), name)
	if err != nil {
		t.Fatalf("the printed text does not compile: %s", err)
	}
	return text, res[0]
}

// seed1Normal is the descriptor without source info, file name and the
// differences that are only representation (empty options messages).
func seed1Normal(t *testing.T, fd protoreflect.FileDescriptor) *descriptorpb.FileDescriptorProto {
	t.Helper()
	fdp := protodesc.ToFileDescriptorProto(fd)
	fdp.SourceCodeInfo = nil
	fdp.Name = nil
	b, err := proto.MarshalOptions{Deterministic: true}.Marshal(fdp)
	if err != nil {
		t.Fatal(err)
	}
	fresh := &descriptorpb.FileDescriptorProto{}
	if err := proto.Unmarshal(b, fresh); err != nil {
		t.Fatal(err)
	}
	seed1DropEmptyOptions(fresh.ProtoReflect())
	return fresh
}

func seed1DropEmptyOptions(m protoreflect.Message) {
	m.Range(func(fd protoreflect.FieldDescriptor, v protoreflect.Value) bool {
		if fd.Kind() != protoreflect.MessageKind || fd.IsMap() {
			return true
		}
		if fd.IsList() {
			for i := 0; i < v.List().Len(); i++ {
				seed1DropEmptyOptions(v.List().Get(i).Message())
			}
			return true
		}
		if fd.Name() == "options" && proto.Size(v.Message().Interface()) == 0 {
			m.Clear(fd)
			return true
		}
		seed1DropEmptyOptions(v.Message())
		return true
	})
}

func seed1EnumValueNames(ed protoreflect.EnumDescriptor) []string {
	out := []string{}
	for i := 0; i < ed.Values().Len(); i++ {
		out = append(out, string(ed.Values().Get(i).Name()))
	}
	return out
}

func seed1Check(t *testing.T, body ...string) {
	t.Helper()
	tf := newTestFiles()
	tf.tAddJ5SFile("local/v1/foo.j5s", body...)
	files := testCompile(t, tf, newTestDeps(), "local.v1")
	orig := files.expectFile(t, "local/v1/foo.j5s.proto")

	text, back := seed1Reparse(t, orig)

	if orig.Enums().Len() != back.Enums().Len() {
		t.Fatalf("enum count: want %d, got %d", orig.Enums().Len(), back.Enums().Len())
	}
	for i := 0; i < orig.Enums().Len(); i++ {
		want, got := orig.Enums().Get(i), back.Enums().Get(i)
		if want.Name() != got.Name() {
			t.Errorf("enum %d: want %s, got %s", i, want.Name(), got.Name())
			continue
		}
		wantNames := strings.Join(seed1EnumValueNames(want), ",")
		gotNames := strings.Join(seed1EnumValueNames(got), ",")
		if wantNames != gotNames {
			t.Errorf("enum %s values: want %s, got %s", want.Name(), wantNames, gotNames)
		}
	}

	if !proto.Equal(seed1Normal(t, orig), seed1Normal(t, back)) {
		t.Errorf("the re-parsed descriptor is not equivalent to the printed one")
	}

	text2, err := protoprint.PrintFile(context.Background(), back, "gen")
	if err != nil {
		t.Fatalf("print again: %s", err)
	}
	if text != text2 {
		t.Errorf("printing the re-parsed file gives a different text:\n%s", text2)
	}
}

// Only some of the options carry a description, and a described option comes
// before an undescribed one.
func TestSeed1EnumOptionsPartlyDescribed(t *testing.T) {
	seed1Check(t,
		"enum Status {",
		"  option ACTIVE | is active",
		"  option INACTIVE",
		"  option OTHER | other",
		"  option LAST",
		"}",
	)
}

// The zero option is written out with a description, the others are bare.
func TestSeed1ExplicitZeroOptionDescribed(t *testing.T) {
	seed1Check(t,
		"enum Status {",
		"  option UNSPECIFIED | nothing chosen",
		"  option ACTIVE",
		"  option INACTIVE",
		"}",
	)
}

// A described enum is declared before an undescribed one.
func TestSeed1SecondEnumUndescribed(t *testing.T) {
	seed1Check(t,
		"object Foo {",
		"  field kind enum:Kind",
		"  field colour enum:Colour",
		"}",
		"enum Kind {",
		"  | what kind of thing",
		"  option A",
		"  option B",
		"}",
		"enum Colour {",
		"  option RED",
		"  option BLUE",
		"}",
	)
}

// Control: every enum and option described, or none.
func TestSeed1Uniform(t *testing.T) {
	seed1Check(t,
		"enum Kind {",
		"  | what kind of thing",
		"  option A | a",
		"  option B | b",
		"}",
		"enum Colour {",
		"  | which colour",
		"  option RED | red",
		"  option BLUE | blue",
		"}",
	)
	seed1Check(t,
		"enum Kind {",
		"  option A",
		"  option B",
		"}",
		"enum Colour {",
		"  option RED",
		"  option BLUE",
		"}",
	)
}
