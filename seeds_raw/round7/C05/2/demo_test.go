// copy to: internal/j5s/protobuild/
package protobuild

// Demonstration for seed C05/2: the printed .proto text of a j5s file must
// re-parse to a descriptor with the same fields: same label, same
// proto3-optional flag (and with it the synthetic oneof that gives presence).
//
// Run: GOFLAGS=-mod=mod GOPROXY=off go test -vet=off -count=1 -run TestSeed2 ./internal/j5s/protobuild/

import (
	"context"
	"os"
	"strings"
	"testing"

	"github.com/bufbuild/protocompile"
	"github.com/pentops/j5/internal/j5s/protoprint"
	"google.golang.org/protobuf/proto"
	"google.golang.org/protobuf/reflect/protodesc"
	"google.golang.org/protobuf/reflect/protoreflect"
	"google.golang.org/protobuf/types/descriptorpb"
)

// seed2Reparse prints orig and feeds the text to protocompile with the imports
// of orig as the resolver.
func seed2Reparse(t *testing.T, orig protoreflect.FileDescriptor) (string, protoreflect.FileDescriptor) {
	t.Helper()
	text, err := protoprint.PrintFile(context.Background(), orig, "gen")
	if err != nil {
		t.Fatalf("print: %s", err)
	}
	t.Logf("printed:\n%s", text)

	known := map[string]protoreflect.FileDescriptor{}
	var addDeps func(fd protoreflect.FileDescriptor)
	addDeps = func(fd protoreflect.FileDescriptor) {
		imps := fd.Imports()
		for i := 0; i < imps.Len(); i++ {
			dep := imps.Get(i).FileDescriptor
			if _, ok := known[dep.Path()]; ok {
				continue
			}
			known[dep.Path()] = dep
			addDeps(dep)
		}
	}
	addDeps(orig)

	const name = "seed2/printed.proto"
	cc := protocompile.Compiler{
		SourceInfoMode: protocompile.SourceInfoStandard,
		Resolver: protocompile.ResolverFunc(func(path string) (protocompile.SearchResult, error) {
			if path == name {
				return protocompile.SearchResult{Source: strings.NewReader(text)}, nil
			}
			if fd, ok := known[path]; ok {
				return protocompile.SearchResult{Desc: fd}, nil
			}
			return protocompile.SearchResult{}, os.ErrNotExist
		}),
	}
	res, err := cc.Compile(context.Background(), name)
	if err != nil {
		t.Fatalf("the printed text does not compile: %s", err)
	}
	return text, res[0]
}

// seed2Normal is the descriptor without source info, file name and the
// differences that are only representation (empty options messages).
func seed2Normal(t *testing.T, fd protoreflect.FileDescriptor) *descriptorpb.FileDescriptorProto {
	t.Helper()
	fdp := protodesc.ToFileDescriptorProto(fd)
	fdp.SourceCodeInfo = nil
	fdp.Name = nil
	b, err := proto.MarshalOptions{Deterministic: true}.Marshal(fdp)
	if err != nil {
		t.Fatal(err)
	}
	fresh := &descriptorpb.FileDescriptorProto{}
	if err := proto.Unmarshal(b, fresh); err != nil {
		t.Fatal(err)
	}
	seed2DropEmptyOptions(fresh.ProtoReflect())
	return fresh
}

func seed2DropEmptyOptions(m protoreflect.Message) {
	m.Range(func(fd protoreflect.FieldDescriptor, v protoreflect.Value) bool {
		if fd.Kind() != protoreflect.MessageKind || fd.IsMap() {
			return true
		}
		if fd.IsList() {
			for i := 0; i < v.List().Len(); i++ {
				seed2DropEmptyOptions(v.List().Get(i).Message())
			}
			return true
		}
		if fd.Name() == "options" && proto.Size(v.Message().Interface()) == 0 {
			m.Clear(fd)
			return true
		}
		seed2DropEmptyOptions(v.Message())
		return true
	})
}

func seed2Check(t *testing.T, body ...string) {
	t.Helper()
	tf := newTestFiles()
	tf.tAddJ5SFile("local/v1/foo.j5s", body...)
	files := testCompile(t, tf, newTestDeps(), "local.v1")
	orig := files.expectFile(t, "local/v1/foo.j5s.proto")

	text, back := seed2Reparse(t, orig)

	var walk func(want, got protoreflect.MessageDescriptor)
	walk = func(want, got protoreflect.MessageDescriptor) {
		if got == nil {
			t.Errorf("message %s is missing after re-parse", want.FullName())
			return
		}
		if want.Oneofs().Len() != got.Oneofs().Len() {
			t.Errorf("message %s: want %d oneofs (real and synthetic), got %d", want.FullName(), want.Oneofs().Len(), got.Oneofs().Len())
		}
		for i := 0; i < want.Fields().Len(); i++ {
			wf := want.Fields().Get(i)
			gf := got.Fields().ByName(wf.Name())
			if gf == nil {
				t.Errorf("field %s is missing after re-parse", wf.FullName())
				continue
			}
			if wf.HasOptionalKeyword() != gf.HasOptionalKeyword() {
				t.Errorf("field %s: proto3 optional: want %v, got %v", wf.FullName(), wf.HasOptionalKeyword(), gf.HasOptionalKeyword())
			}
			if (wf.ContainingOneof() == nil) != (gf.ContainingOneof() == nil) {
				t.Errorf("field %s: oneof membership: want %v, got %v", wf.FullName(), wf.ContainingOneof() != nil, gf.ContainingOneof() != nil)
			}
			if wf.Cardinality() != gf.Cardinality() {
				t.Errorf("field %s: label: want %v, got %v", wf.FullName(), wf.Cardinality(), gf.Cardinality())
			}
		}
		for i := 0; i < want.Messages().Len(); i++ {
			wm := want.Messages().Get(i)
			walk(wm, got.Messages().ByName(wm.Name()))
		}
	}
	for i := 0; i < orig.Messages().Len(); i++ {
		wm := orig.Messages().Get(i)
		walk(wm, back.Messages().ByName(wm.Name()))
	}

	if !proto.Equal(seed2Normal(t, orig), seed2Normal(t, back)) {
		t.Errorf("the re-parsed descriptor is not equivalent to the printed one")
	}

	text2, err := protoprint.PrintFile(context.Background(), back, "gen")
	if err != nil {
		t.Fatalf("print again: %s", err)
	}
	if text != text2 {
		t.Errorf("printing the re-parsed file gives a different text:\n%s", text2)
	}
}

// The explicit-optional marker on properties whose proto type is a message:
// a referenced object, an inline object, a oneof, a timestamp, a date.
func TestSeed2OptionalMessageTypedProperties(t *testing.T) {
	seed2Check(t,
		"object Foo {",
		"  field name string",
		"  field bar ? object:Bar",
		"  field choice ? oneof:Choice",
		"  field at ? timestamp",
		"  field day ? date",
		"  field inl ? object {",
		"    field a string",
		"    field deep ? object:Bar",
		"  }",
		"}",
		"object Bar {",
		"  field a string",
		"}",
		"oneof Choice {",
		"  option a string",
		"  option b object:Bar",
		"}",
	)
}

// A single optional object next to an optional scalar: the second synthetic
// oneof goes missing.
func TestSeed2OptionalScalarAndObject(t *testing.T) {
	seed2Check(t,
		"object Foo {",
		"  field count ? integer:INT32",
		"  field bar ? object:Bar",
		"}",
		"object Bar {",
		"  field a string",
		"}",
	)
}

// Control: optional scalars and enums, and message-typed properties without
// the marker.
func TestSeed2OptionalScalars(t *testing.T) {
	seed2Check(t,
		"object Foo {",
		"  field name ? string",
		"  field count ? integer:INT64",
		"  field flag ? bool",
		"  field status ? enum:Status",
		"  field bar object:Bar",
		"  field at timestamp",
		"  field bars array:object:Bar",
		"}",
		"object Bar {",
		"  field a string",
		"}",
		"enum Status {",
		"  option ACTIVE",
		"}",
	)
}
