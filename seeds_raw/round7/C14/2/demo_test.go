// copy to: internal/j5s/protobuild/
package protobuild

// Demonstration for seed C14/2: compiling the same sources again and again
// (fresh PackageSet each time, as separate runs of the tool would) must give
// byte-identical descriptors and printed text.
//
// The file under test imports two packages whose names differ only before the
// last-but-one component (foo.common.v1 and bar.common.v1), so both offer the
// short name "common", and it refers to a type through that short name
// (common.Money). Both packages define Money, and both are also used through
// their full names.

import (
	"context"
	"fmt"
	"testing"

	"github.com/pentops/j5/internal/j5s/protoprint"
	"google.golang.org/protobuf/proto"
	"google.golang.org/protobuf/reflect/protodesc"
)

func seedC14CompileOnce(tf *testFiles, td *testDeps, pkg string) (map[string]string, error) {
	ps, err := NewPackageSet(td, tf)
	if err != nil {
		return nil, err
	}
	files, err := ps.CompilePackage(context.Background(), pkg)
	if err != nil {
		return nil, fmt.Errorf("compile %s: %w", pkg, err)
	}
	out := map[string]string{}
	for _, f := range files {
		b, err := proto.MarshalOptions{Deterministic: true}.Marshal(protodesc.ToFileDescriptorProto(f))
		if err != nil {
			return nil, err
		}
		txt, err := protoprint.PrintFile(context.Background(), f, "gen")
		if err != nil {
			return nil, fmt.Errorf("print %s: %w", f.Path(), err)
		}
		out[f.Path()] = fmt.Sprintf("%x\n%s", b, txt)
	}
	return out, nil
}

func TestSeedC14RepeatedRunsShortImportName(t *testing.T) {
	tf := newTestFiles()
	tf.tAddJ5SFile("foo/common/v1/money.j5s",
		"object Money {",
		"  field units string",
		"}",
	)
	tf.tAddJ5SFile("bar/common/v1/money.j5s",
		"object Money {",
		"  field cents string",
		"}",
	)
	tf.tAddJ5SFile("app/v1/wallet.j5s",
		"import foo.common.v1",
		"import bar.common.v1",
		"object Wallet {",
		"  field balance object:common.Money",
		"  field fooMoney object:foo.common.v1.Money",
		"  field barMoney object:bar.common.v1.Money",
		"}",
	)
	td := newTestDeps()

	var first map[string]string
	for run := 0; run < 40; run++ {
		snap, err := seedC14CompileOnce(tf, td, "app.v1")
		if err != nil {
			t.Fatalf("run %d: %s", run, err)
		}
		if first == nil {
			first = snap
			if len(first) != 1 {
				t.Fatalf("expected one file, got %d", len(first))
			}
			continue
		}
		for name, got := range snap {
			if first[name] != got {
				t.Fatalf("run %d: %s differs from run 0:\n%s\n----\n%s", run, name, first[name], got)
			}
		}
	}
}
