// copy to: internal/j5s/protobuild/
package protobuild

// Demonstration for seed C14/1: the result of compiling a bundle must not
// depend on the order in which the file source lists its packages.
//
// The bundle has a versioned package nested below another one (foo.v1 and
// foo.v1.bar.v2, i.e. directories foo/v1 and foo/v1/bar/v2), and foo.v1 uses a
// type of the nested package. It is compiled with the two possible package
// listings; descriptors and printed text must be byte-identical.

import (
	"context"
	"fmt"
	"sort"
	"testing"

	"github.com/pentops/j5/internal/j5s/protoprint"
	"google.golang.org/protobuf/proto"
	"google.golang.org/protobuf/reflect/protodesc"
)

// seedC14PkgOrder is a LocalFileSource which lists the packages in a given order
type seedC14PkgOrder struct {
	*testFiles
	packages []string
}

func (o *seedC14PkgOrder) ListPackages() []string {
	return o.packages
}

func seedC14Snapshot(src LocalFileSource, td *testDeps, compileOrder []string) (map[string]string, error) {
	ps, err := NewPackageSet(td, src)
	if err != nil {
		return nil, err
	}
	out := map[string]string{}
	for _, pkg := range compileOrder {
		files, err := ps.CompilePackage(context.Background(), pkg)
		if err != nil {
			return nil, fmt.Errorf("compile %s: %w", pkg, err)
		}
		for _, f := range files {
			b, err := proto.MarshalOptions{Deterministic: true}.Marshal(protodesc.ToFileDescriptorProto(f))
			if err != nil {
				return nil, err
			}
			txt, err := protoprint.PrintFile(context.Background(), f, "gen")
			if err != nil {
				return nil, fmt.Errorf("print %s: %w", f.Path(), err)
			}
			out[f.Path()] = fmt.Sprintf("%x\n%s", b, txt)
		}
	}
	return out, nil
}

func TestSeedC14PackageListingOrder(t *testing.T) {
	tf := newTestFiles()
	tf.tAddJ5SFile("foo/v1/a.j5s",
		"import foo.v1.bar.v2",
		"object A {",
		"  field b object:B",
		"  field n object:foo.v1.bar.v2.N",
		"}",
	)
	tf.tAddJ5SFile("foo/v1/b.j5s",
		"object B {",
		"  field s string",
		"}",
	)
	tf.tAddJ5SFile("foo/v1/bar/v2/n.j5s",
		"object N {",
		"  field s string",
		"}",
	)
	td := newTestDeps()

	listings := [][]string{
		{"foo.v1", "foo.v1.bar.v2"},
		{"foo.v1.bar.v2", "foo.v1"},
	}

	var first map[string]string
	for _, listing := range listings {
		// the packages are always compiled in the same order, only the listing
		// of the file source differs
		snap, err := seedC14Snapshot(&seedC14PkgOrder{testFiles: tf, packages: listing}, td, []string{"foo.v1", "foo.v1.bar.v2"})
		if err != nil {
			t.Fatalf("package listing %v: %s", listing, err)
		}
		if len(snap) != 3 {
			t.Fatalf("package listing %v: expected 3 files, got %d", listing, len(snap))
		}
		if first == nil {
			first = snap
			continue
		}
		names := make([]string, 0, len(snap))
		for name := range snap {
			names = append(names, name)
		}
		sort.Strings(names)
		for _, name := range names {
			if first[name] != snap[name] {
				t.Errorf("file %s differs between package listings %v and %v:\n%s\n----\n%s", name, listings[0], listing, first[name], snap[name])
			}
		}
	}
}
