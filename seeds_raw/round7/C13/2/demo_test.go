// copy to: internal/j5s/protobuild/
package protobuild

// Demonstration for seed C13/2: appending a field at the end of an object
// must not change the type of any field which existed before the append, in
// this object or in any other declaration of the file.
//
// The package local.v1 declares its own 'Thing' and also uses 'Thing' of the
// imported package other.v1. The appended field is the first one in the file
// which refers to the local 'Thing', and it is appended to an object declared
// before the one which refers to other.v1.Thing.
//
// run: go test -vet=off -count=1 ./internal/j5s/protobuild/ -run TestC13Seed2

import (
	"context"
	"fmt"
	"sort"
	"strings"
	"testing"

	"google.golang.org/protobuf/reflect/protoreflect"
)

// c13s2Fields compiles package local.v1 (one j5s file, plus the package
// other.v1 it imports) and returns field full name -> wire identity.
func c13s2Fields(t *testing.T, body ...string) map[string]string {
	t.Helper()
	tf := newTestFiles()
	tf.tAddJ5SFile("other/v1/thing.j5s",
		"object Thing {",
		"  field otherId string",
		"}",
		"enum Level {",
		"  option LOW",
		"  option HIGH",
		"}",
	)
	tf.tAddJ5SFile("local/v1/foo.j5s", body...)
	cc, err := NewPackageSet(newTestDeps(), tf)
	if err != nil {
		t.Fatalf("NewPackageSet: %s", err)
	}
	files, err := cc.CompilePackage(context.Background(), "local.v1")
	if err != nil {
		t.Fatalf("CompilePackage: %s\n%s", err, strings.Join(body, "\n"))
	}

	out := map[string]string{}
	var addMessages func(protoreflect.MessageDescriptors)
	addMessages = func(msgs protoreflect.MessageDescriptors) {
		for i := 0; i < msgs.Len(); i++ {
			msg := msgs.Get(i)
			for j := 0; j < msg.Fields().Len(); j++ {
				f := msg.Fields().Get(j)
				typeName := ""
				if f.Message() != nil {
					typeName = string(f.Message().FullName())
				} else if f.Enum() != nil {
					typeName = string(f.Enum().FullName())
				}
				out[string(f.FullName())] = fmt.Sprintf("number=%d kind=%s type=%s cardinality=%s json=%s",
					f.Number(), f.Kind(), typeName, f.Cardinality(), f.JSONName())
			}
			addMessages(msg.Messages())
		}
	}
	for _, file := range files {
		if !strings.HasPrefix(file.Path(), "local/v1/") {
			continue
		}
		addMessages(file.Messages())
	}
	return out
}

func c13s2AssertStable(t *testing.T, before, after []string) {
	t.Helper()
	a := c13s2Fields(t, before...)
	b := c13s2Fields(t, after...)
	keys := make([]string, 0, len(a))
	for k := range a {
		keys = append(keys, k)
	}
	sort.Strings(keys)
	for _, k := range keys {
		got, ok := b[k]
		if !ok {
			t.Errorf("field %s existed before the append and is missing after it", k)
			continue
		}
		if got != a[k] {
			t.Errorf("field %s changed:\n  before the append: %s\n  after the append:  %s", k, a[k], got)
		}
	}
}

func TestC13Seed2AppendFieldToEarlierObject(t *testing.T) {
	c13s2AssertStable(t,
		[]string{
			"import other.v1",
			"object Thing {",
			"  field localId string",
			"}",
			"object Early {",
			"  field name string",
			"}",
			"object Late {",
			"  field theirs object:other.v1.Thing",
			"  field many array:object:other.v1.Thing",
			"}",
		},
		[]string{
			"import other.v1",
			"object Thing {",
			"  field localId string",
			"}",
			"object Early {",
			"  field name string",
			"  field mine object:Thing", // appended at the end of Early
			"}",
			"object Late {",
			"  field theirs object:other.v1.Thing",
			"  field many array:object:other.v1.Thing",
			"}",
		},
	)
}

func TestC13Seed2AppendFieldBeforeService(t *testing.T) {
	// same, the earlier reference is an enum and the later one lives in the
	// response of a service method, i.e. in the generated sub-package file
	c13s2AssertStable(t,
		[]string{
			"import other.v1",
			"enum Level {",
			"  option FIRST",
			"  option SECOND",
			"  option THIRD",
			"}",
			"object Early {",
			"  field name string",
			"}",
			"service Foo {",
			"  basePath = \"/foo/v1\"",
			"  method Bar {",
			"    httpMethod = \"GET\"",
			"    httpPath = \"/bar\"",
			"    request {",
			"    }",
			"    response {",
			"      field level enum:other.v1.Level",
			"    }",
			"  }",
			"}",
		},
		[]string{
			"import other.v1",
			"enum Level {",
			"  option FIRST",
			"  option SECOND",
			"  option THIRD",
			"}",
			"object Early {",
			"  field name string",
			"  field level enum:Level", // appended at the end of Early
			"}",
			"service Foo {",
			"  basePath = \"/foo/v1\"",
			"  method Bar {",
			"    httpMethod = \"GET\"",
			"    httpPath = \"/bar\"",
			"    request {",
			"    }",
			"    response {",
			"      field level enum:other.v1.Level",
			"    }",
			"  }",
			"}",
		},
	)
}
