// copy to: internal/j5s/protobuild/
package protobuild

// Demonstration for seed C13/1: appending an enum option whose name ends in
// "UNSPECIFIED" must not change (or remove) any enum value which existed
// before the append.
//
// run: go test -vet=off -count=1 ./internal/j5s/protobuild/ -run TestC13Seed1

import (
	"context"
	"fmt"
	"sort"
	"strings"
	"testing"

	"google.golang.org/protobuf/reflect/protoreflect"
)

// c13s1EnumValues compiles one j5s file as package local.v1 and returns
// "<enum full name>/<value name>" -> number for every enum value in the output.
func c13s1EnumValues(t *testing.T, body ...string) map[string]int32 {
	t.Helper()
	tf := newTestFiles()
	tf.tAddJ5SFile("local/v1/foo.j5s", body...)
	cc, err := NewPackageSet(newTestDeps(), tf)
	if err != nil {
		t.Fatalf("NewPackageSet: %s", err)
	}
	files, err := cc.CompilePackage(context.Background(), "local.v1")
	if err != nil {
		t.Fatalf("CompilePackage: %s\n%s", err, strings.Join(body, "\n"))
	}

	out := map[string]int32{}
	addEnums := func(enums protoreflect.EnumDescriptors) {
		for i := 0; i < enums.Len(); i++ {
			en := enums.Get(i)
			for j := 0; j < en.Values().Len(); j++ {
				v := en.Values().Get(j)
				out[fmt.Sprintf("%s/%s", en.FullName(), v.Name())] = int32(v.Number())
			}
		}
	}
	var addMessages func(protoreflect.MessageDescriptors)
	addMessages = func(msgs protoreflect.MessageDescriptors) {
		for i := 0; i < msgs.Len(); i++ {
			addEnums(msgs.Get(i).Enums())
			addMessages(msgs.Get(i).Messages())
		}
	}
	for _, file := range files {
		addEnums(file.Enums())
		addMessages(file.Messages())
	}
	return out
}

func c13s1AssertStable(t *testing.T, before, after []string) {
	t.Helper()
	a := c13s1EnumValues(t, before...)
	b := c13s1EnumValues(t, after...)
	keys := make([]string, 0, len(a))
	for k := range a {
		keys = append(keys, k)
	}
	sort.Strings(keys)
	for _, k := range keys {
		got, ok := b[k]
		if !ok {
			t.Errorf("enum value %s = %d existed before the append and is missing after it", k, a[k])
			continue
		}
		if got != a[k] {
			t.Errorf("enum value %s changed number: %d before the append, %d after it", k, a[k], got)
		}
	}
}

func TestC13Seed1TopLevelEnum(t *testing.T) {
	c13s1AssertStable(t,
		[]string{
			"enum Reason {",
			"  option TIMEOUT",
			"  option REFUSED",
			"}",
		},
		[]string{
			"enum Reason {",
			"  option TIMEOUT",
			"  option REFUSED",
			"  option CAUSE_UNSPECIFIED", // appended at the end
			"}",
		},
	)
}

func TestC13Seed1ExplicitZeroAndInlineEnum(t *testing.T) {
	// the enum already declares its zero value explicitly, and it is an inline
	// enum of an object field
	c13s1AssertStable(t,
		[]string{
			"object Payment {",
			"  field taxMode enum {",
			"    option UNSPECIFIED | not decided yet",
			"    option INCLUSIVE",
			"    option EXCLUSIVE",
			"  }",
			"}",
		},
		[]string{
			"object Payment {",
			"  field taxMode enum {",
			"    option UNSPECIFIED | not decided yet",
			"    option INCLUSIVE",
			"    option EXCLUSIVE",
			"    option REGION_UNSPECIFIED", // appended at the end
			"  }",
			"}",
		},
	)
}
