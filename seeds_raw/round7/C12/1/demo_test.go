// copy to: internal/j5s/protobuild/
package protobuild

import (
	"testing"

	"github.com/bufbuild/protovalidate-go"
	"google.golang.org/protobuf/reflect/protoreflect"
	"google.golang.org/protobuf/types/dynamicpb"
)

// An enum that is declared in a .proto file of the package (not in j5s) with
// non-contiguous numbers, used from a j5s field that carries in / not-in rules.
// The compiled constraint must name the declared numbers of the listed values.
func TestSeedC12ProtoEnumRules(t *testing.T) {
	tf := newTestFiles()

	tf.tAddProtoFile("local/v1/level.proto",
		"enum Level {",
		"  LEVEL_UNSPECIFIED = 0;",
		"  LEVEL_LOW = 1;",
		"  LEVEL_HIGH = 5;",
		"  LEVEL_MAX = 9;",
		"}",
	)

	tf.tAddJ5SFile("local/v1/foo.j5s",
		"object Allow {",
		"  field level enum:Level {",
		"    rules.in = [\"LOW\", \"HIGH\"]",
		"  }",
		"}",
		"object Deny {",
		"  field level enum:Level {",
		"    rules.notIn = [\"MAX\"]",
		"  }",
		"}",
	)

	files := testCompile(t, tf, newTestDeps(), "local.v1")
	file := files.expectFile(t, "local/v1/foo.j5s.proto")

	validator, err := protovalidate.New()
	if err != nil {
		t.Fatal(err)
	}

	check := func(msgName string, number int32, wantValid bool) {
		t.Helper()
		md := file.Messages().ByName(protoreflect.Name(msgName))
		if md == nil {
			t.Fatalf("no message %s", msgName)
		}
		msg := dynamicpb.NewMessage(md)
		msg.Set(md.Fields().ByName("level"), protoreflect.ValueOfEnum(protoreflect.EnumNumber(number)))
		err := validator.Validate(msg)
		if wantValid && err != nil {
			t.Errorf("%s.level = %d: want accepted, got %v", msgName, number, err)
		}
		if !wantValid && err == nil {
			t.Errorf("%s.level = %d: want rejected, got accepted", msgName, number)
		}
	}

	// in [LOW, HIGH] == [1, 5]
	check("Allow", 1, true)
	check("Allow", 5, true)
	check("Allow", 9, false)
	check("Allow", 0, false)
	check("Allow", 2, false) // undefined number

	// not_in [MAX] == [9]
	check("Deny", 1, true)
	check("Deny", 5, true)
	check("Deny", 9, false)
	check("Deny", 3, false) // undefined number
}
