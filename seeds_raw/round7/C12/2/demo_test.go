// copy to: internal/j5s/protobuild/
package protobuild

import (
	"strings"
	"testing"

	"github.com/bufbuild/protovalidate-go"
	"google.golang.org/protobuf/reflect/protoreflect"
	"google.golang.org/protobuf/types/dynamicpb"
)

// String length rules count characters, for every kind of character: a string
// of N characters must be accepted by maxLength = N and rejected by
// maxLength = N-1, whether the characters take one byte or several in UTF-8.
func TestSeedC12StringLengthCharacters(t *testing.T) {
	tf := newTestFiles()

	tf.tAddJ5SFile("local/v1/foo.j5s",
		"object Foo {",
		"  field name string {",
		"    rules.minLength = 2",
		"    rules.maxLength = 4",
		"  }",
		"  field tags array:string {",
		"    rules.maxItems = 3",
		"    items.string.rules.maxLength = 3",
		"  }",
		"}",
	)

	files := testCompile(t, tf, newTestDeps(), "local.v1")
	file := files.expectFile(t, "local/v1/foo.j5s.proto")
	md := file.Messages().ByName("Foo")

	validator, err := protovalidate.New()
	if err != nil {
		t.Fatal(err)
	}

	check := func(name string, tags []string, wantValid bool) {
		t.Helper()
		msg := dynamicpb.NewMessage(md)
		msg.Set(md.Fields().ByName("name"), protoreflect.ValueOfString(name))
		list := msg.Mutable(md.Fields().ByName("tags")).List()
		for _, tag := range tags {
			list.Append(protoreflect.ValueOfString(tag))
		}
		err := validator.Validate(msg)
		if wantValid && err != nil {
			t.Errorf("name=%q tags=%q: want accepted, got %v", name, tags, err)
		}
		if !wantValid && err == nil {
			t.Errorf("name=%q tags=%q: want rejected, got accepted", name, tags)
		}
	}

	for _, ch := range []string{"a", "é", "世", "😀"} {
		check(strings.Repeat(ch, 1), nil, false)
		check(strings.Repeat(ch, 2), nil, true)
		check(strings.Repeat(ch, 4), nil, true)
		check(strings.Repeat(ch, 5), nil, false)

		check("ok", []string{"x", strings.Repeat(ch, 3)}, true)
		check("ok", []string{"x", strings.Repeat(ch, 4)}, false)
	}
}
