// copy to: internal/j5s/protobuild/
package protobuild

import (
	"testing"

	"github.com/pentops/j5/lib/j5schema"
	"google.golang.org/protobuf/reflect/protoreflect"
	"google.golang.org/protobuf/reflect/protoregistry"
)

// C04 seed 1: the required flag of an array property must read back exactly as
// the j5s source declared it, whatever item-count rule the array carries.
func TestSeedC04ArrayRequiredRoundTrip(t *testing.T) {
	tf := newTestFiles()
	tf.tAddJ5SFile("local/v1/foo.j5s",
		"object Foo {",
		"  field plain array:string",
		"  field zero array:string {",
		"    rules.minItems = 0",
		"  }",
		"  field some array:string {", // NOT required, but at least one item when present
		"    rules.minItems = 1",
		"    rules.maxItems = 5",
		"  }",
		"  field must ! array:string {",
		"    rules.minItems = 2",
		"  }",
		"  field objs array:object:Bar {",
		"    rules.minItems = 3",
		"    rules.uniqueItems = false",
		"  }",
		"}",
		"object Bar {",
		"  field x string",
		"}",
	)
	td := newTestDeps()
	files := testCompile(t, tf, td, "local.v1")
	ff := files.expectFile(t, "local/v1/foo.j5s.proto")

	// what the source declares
	type want struct {
		required bool
		minItems *uint64
	}
	u := func(v uint64) *uint64 { return &v }
	wants := map[string]want{
		"plain": {false, nil},
		"zero":  {false, u(0)},
		"some":  {false, u(1)},
		"must":  {true, u(2)},
		"objs":  {false, u(3)},
	}

	check := func(t *testing.T, root j5schema.RootSchema) {
		t.Helper()
		obj := root.ToJ5Root().GetObject()
		if obj == nil {
			t.Fatalf("Foo is not an object: %v", root.ToJ5Root())
		}
		if len(obj.Properties) != len(wants) {
			t.Fatalf("want %d properties, got %d", len(wants), len(obj.Properties))
		}
		for _, prop := range obj.Properties {
			w, ok := wants[prop.Name]
			if !ok {
				t.Errorf("unexpected property %q", prop.Name)
				continue
			}
			arr := prop.Schema.GetArray()
			if arr == nil {
				t.Errorf("%s: not an array: %v", prop.Name, prop.Schema)
				continue
			}
			if prop.Required != w.required {
				t.Errorf("%s: source declares required=%v, reflected schema has required=%v", prop.Name, w.required, prop.Required)
			}
			var gotMin *uint64
			if arr.Rules != nil {
				gotMin = arr.Rules.MinItems
			}
			switch {
			case w.minItems == nil && gotMin != nil:
				t.Errorf("%s: source has no minItems, reflected %d", prop.Name, *gotMin)
			case w.minItems != nil && gotMin == nil:
				t.Errorf("%s: source has minItems %d, reflected none", prop.Name, *w.minItems)
			case w.minItems != nil && *w.minItems != *gotMin:
				t.Errorf("%s: source has minItems %d, reflected %d", prop.Name, *w.minItems, *gotMin)
			}
		}
	}

	t.Run("SchemaCache", func(t *testing.T) {
		cache := j5schema.NewSchemaCache()
		root, err := cache.Schema(ff.Messages().ByName("Foo"))
		if err != nil {
			t.Fatal(err)
		}
		check(t, root)
	})

	t.Run("SchemaSetFromFiles", func(t *testing.T) {
		reg := &protoregistry.Files{}
		if err := reg.RegisterFile(ff); err != nil {
			t.Fatal(err)
		}
		set, err := j5schema.SchemaSetFromFiles(reg, func(fd protoreflect.FileDescriptor) bool {
			return fd.Path() == ff.Path()
		})
		if err != nil {
			t.Fatal(err)
		}
		root, err := set.SchemaByName("local.v1", "Foo")
		if err != nil {
			t.Fatal(err)
		}
		check(t, root)
	})
}
