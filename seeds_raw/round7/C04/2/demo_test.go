// copy to: internal/j5s/protobuild/
package protobuild

import (
	"testing"

	"github.com/pentops/j5/gen/j5/schema/v1/schema_j5pb"
	"github.com/pentops/j5/lib/j5schema"
	"google.golang.org/protobuf/reflect/protoreflect"
	"google.golang.org/protobuf/reflect/protoregistry"
)

// C04 seed 2: every enum option reads back with the description the j5s source
// gave it, including an explicitly declared (and documented) UNSPECIFIED option.
func TestSeedC04EnumOptionDescriptions(t *testing.T) {
	tf := newTestFiles()
	tf.tAddJ5SFile("local/v1/foo.j5s",
		// the zero value is spelled out so that it can be documented
		"enum Colour {",
		"  | Colour of the thing",
		"  option UNSPECIFIED | No colour was chosen",
		"  option RED",
		"  option GREEN | Like grass",
		"  option BLUE",
		"}",
		// same, but the first real option has a description of its own
		"enum Shape {",
		"  option UNSPECIFIED | Shape is unknown",
		"  option ROUND | No corners",
		"  option SQUARE",
		"}",
		// implicit zero value
		"enum Size {",
		"  option SMALL | Fits in a pocket",
		"  option LARGE",
		"}",
		"object Thing {",
		"  field colour enum:Colour",
		"  field shape enum:Shape",
		"  field size enum:Size",
		// nested, inline
		"  field finish enum {",
		"    option UNSPECIFIED | As it comes",
		"    option MATT",
		"    option GLOSS | Shiny",
		"  }",
		"}",
	)
	td := newTestDeps()
	files := testCompile(t, tf, td, "local.v1")
	ff := files.expectFile(t, "local/v1/foo.j5s.proto")

	type opt struct {
		name string
		desc string
	}
	wants := map[string][]opt{
		"Colour":       {{"UNSPECIFIED", "No colour was chosen"}, {"RED", ""}, {"GREEN", "Like grass"}, {"BLUE", ""}},
		"Shape":        {{"UNSPECIFIED", "Shape is unknown"}, {"ROUND", "No corners"}, {"SQUARE", ""}},
		"Size":         {{"UNSPECIFIED", ""}, {"SMALL", "Fits in a pocket"}, {"LARGE", ""}},
		"Thing_Finish": {{"UNSPECIFIED", "As it comes"}, {"MATT", ""}, {"GLOSS", "Shiny"}},
	}

	checkEnum := func(t *testing.T, name string, got *schema_j5pb.Enum) {
		t.Helper()
		want := wants[name]
		if got == nil {
			t.Fatalf("%s: not an enum", name)
		}
		if len(got.Options) != len(want) {
			t.Fatalf("%s: want %d options, got %d: %v", name, len(want), len(got.Options), got.Options)
		}
		for idx, w := range want {
			g := got.Options[idx]
			if g.Name != w.name || g.Number != int32(idx) {
				t.Errorf("%s[%d]: want option %s = %d, got %s = %d", name, idx, w.name, idx, g.Name, g.Number)
			}
			if g.Description != w.desc {
				t.Errorf("%s.%s: source description %q, reflected %q", name, w.name, w.desc, g.Description)
			}
		}
	}

	t.Run("SchemaCache", func(t *testing.T) {
		cache := j5schema.NewSchemaCache()
		root, err := cache.Schema(ff.Messages().ByName("Thing"))
		if err != nil {
			t.Fatal(err)
		}
		obj, ok := root.(*j5schema.ObjectSchema)
		if !ok {
			t.Fatalf("Thing is %T", root)
		}
		for _, prop := range obj.Properties {
			field, ok := prop.Schema.(*j5schema.EnumField)
			if !ok {
				t.Fatalf("property %s is %T", prop.JSONName, prop.Schema)
			}
			enum := field.Schema()
			checkEnum(t, enum.Name(), enum.ToJ5Root().GetEnum())
		}
	})

	t.Run("SchemaSetFromFiles", func(t *testing.T) {
		reg := &protoregistry.Files{}
		if err := reg.RegisterFile(ff); err != nil {
			t.Fatal(err)
		}
		set, err := j5schema.SchemaSetFromFiles(reg, func(fd protoreflect.FileDescriptor) bool {
			return fd.Path() == ff.Path()
		})
		if err != nil {
			t.Fatal(err)
		}
		for name := range wants {
			root, err := set.SchemaByName("local.v1", name)
			if err != nil {
				t.Fatal(err)
			}
			checkEnum(t, name, root.ToJ5Root().GetEnum())
		}
	})
}
