// copy to: lib/j5reflect/
package j5reflect

import (
	"fmt"
	"testing"

	"github.com/pentops/j5/lib/j5schema"
	"google.golang.org/protobuf/proto"
	"google.golang.org/protobuf/reflect/protodesc"
	"google.golang.org/protobuf/reflect/protoregistry"
	"google.golang.org/protobuf/types/descriptorpb"
	"google.golang.org/protobuf/types/dynamicpb"
)

// Parent { string name = 1; Child child = 2; fixed32 legacy = 3; }
// Child  { string name = 1; Parent parent = 2; }
//
// Parent and Child are mutually recursive. Parent can not be reflected: its
// LAST field has a kind J5 does not support, so Child is built (and linked
// back to the Parent placeholder) before the Parent build fails.
func seed2File() *descriptorpb.FileDescriptorProto {
	msgField := func(name string, number int32, typeName string) *descriptorpb.FieldDescriptorProto {
		return &descriptorpb.FieldDescriptorProto{
			Name:     proto.String(name),
			Type:     descriptorpb.FieldDescriptorProto_TYPE_MESSAGE.Enum(),
			TypeName: proto.String(typeName),
			Number:   proto.Int32(number),
		}
	}
	scalar := func(name string, number int32, kind descriptorpb.FieldDescriptorProto_Type) *descriptorpb.FieldDescriptorProto {
		return &descriptorpb.FieldDescriptorProto{
			Name:   proto.String(name),
			Type:   kind.Enum(),
			Number: proto.Int32(number),
		}
	}
	return &descriptorpb.FileDescriptorProto{
		Name:    proto.String("seed2/v1/seed2.proto"),
		Package: proto.String("seed2.v1"),
		Syntax:  proto.String("proto3"),
		MessageType: []*descriptorpb.DescriptorProto{{
			Name: proto.String("Parent"),
			Field: []*descriptorpb.FieldDescriptorProto{
				scalar("name", 1, descriptorpb.FieldDescriptorProto_TYPE_STRING),
				msgField("child", 2, ".seed2.v1.Child"),
				scalar("legacy", 3, descriptorpb.FieldDescriptorProto_TYPE_FIXED32),
			},
		}, {
			Name: proto.String("Child"),
			Field: []*descriptorpb.FieldDescriptorProto{
				scalar("name", 1, descriptorpb.FieldDescriptorProto_TYPE_STRING),
				msgField("parent", 2, ".seed2.v1.Parent"),
			},
		}},
	}
}

// populate sets every property of the root, one level deep, and reports a
// panic as an error.
func seed2Populate(root Root) (err error) {
	defer func() {
		if r := recover(); r != nil {
			err = fmt.Errorf("PANIC: %v", r)
		}
	}()
	for _, name := range root.ListPropertyNames() {
		if _, err := root.GetOrCreateValue(name); err != nil {
			return fmt.Errorf("property %s: %w", name, err)
		}
	}
	return nil
}

func TestSeed2FailedBuildThenInnerMessage(t *testing.T) {
	file, err := protodesc.NewFile(seed2File(), protoregistry.GlobalFiles)
	if err != nil {
		t.Fatal(err)
	}
	parentDesc := file.Messages().ByName("Parent")
	childDesc := file.Messages().ByName("Child")

	// What a cache with no history says about Child.
	_, freshErr := j5schema.NewSchemaCache().Schema(childDesc)

	cache := j5schema.NewSchemaCache()
	refl := NewWithCache(cache)

	// Step 1: the unsupported message is rejected.
	if _, err := refl.NewRoot(dynamicpb.NewMessage(parentDesc)); err == nil {
		t.Fatal("Parent has a fixed32 field, expected an error")
	}

	// Step 2: the same cache is asked for the inner message.
	schema, err := cache.Schema(childDesc)
	if (err == nil) != (freshErr == nil) {
		t.Errorf("Schema(Child) after a failed Schema(Parent): err = %v, but a fresh cache says err = %v", err, freshErr)
	}
	if err != nil {
		t.Logf("Child rejected, which is fine: %s", err)
		return
	}

	// If Child is handed out, everything it refers to must be linked, and it
	// must be usable.
	obj := schema.(*j5schema.ObjectSchema)
	for _, prop := range obj.Properties {
		if field, ok := prop.Schema.(*j5schema.ObjectField); ok && field.Ref.To == nil {
			t.Errorf("Child.%s refers to %s, which is not linked", prop.JSONName, field.Ref.FullName())
		}
	}

	root, err := refl.NewRoot(dynamicpb.NewMessage(childDesc))
	if err != nil {
		t.Logf("NewRoot(Child) rejected: %s", err)
		return
	}
	if err := seed2Populate(root); err != nil {
		t.Errorf("populating Child: %s", err)
	}
}
