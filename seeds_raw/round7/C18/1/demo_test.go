// copy to: lib/j5schema/
package j5schema

import (
	"testing"

	"github.com/pentops/j5/gen/j5/ext/v1/ext_j5pb"
	"google.golang.org/protobuf/proto"
	"google.golang.org/protobuf/reflect/protodesc"
	"google.golang.org/protobuf/reflect/protoreflect"
	"google.golang.org/protobuf/reflect/protoregistry"
	"google.golang.org/protobuf/types/descriptorpb"
)

func seed1FlattenField(name string, number int32, typeName string) *descriptorpb.FieldDescriptorProto {
	field := &descriptorpb.FieldDescriptorProto{
		Name:     proto.String(name),
		Type:     descriptorpb.FieldDescriptorProto_TYPE_MESSAGE.Enum(),
		TypeName: proto.String(typeName),
		Number:   proto.Int32(number),
		Options:  &descriptorpb.FieldOptions{},
	}
	proto.SetExtension(field.Options, ext_j5pb.E_Field, &ext_j5pb.FieldOptions{
		Type: &ext_j5pb.FieldOptions_Message{
			Message: &ext_j5pb.MessageFieldOptions{Flatten: true},
		},
	})
	return field
}

func seed1StringField(name string, number int32) *descriptorpb.FieldDescriptorProto {
	return &descriptorpb.FieldDescriptorProto{
		Name:   proto.String(name),
		Type:   descriptorpb.FieldDescriptorProto_TYPE_STRING.Enum(),
		Number: proto.Int32(number),
	}
}

// Outer { string label = 1; Middle middle = 2 [flatten] }
// Middle { string other = 1; Inner inner = 2 [flatten] }
// Inner { string label = 1 }
//
// "label" reaches Outer twice: directly, and through two levels of flattening.
func seed1File() *descriptorpb.FileDescriptorProto {
	return &descriptorpb.FileDescriptorProto{
		Name:    proto.String("seed1/v1/seed1.proto"),
		Package: proto.String("seed1.v1"),
		Syntax:  proto.String("proto3"),
		MessageType: []*descriptorpb.DescriptorProto{{
			Name: proto.String("Outer"),
			Field: []*descriptorpb.FieldDescriptorProto{
				seed1StringField("label", 1),
				seed1FlattenField("middle", 2, ".seed1.v1.Middle"),
			},
		}, {
			Name: proto.String("Middle"),
			Field: []*descriptorpb.FieldDescriptorProto{
				seed1StringField("other", 1),
				seed1FlattenField("inner", 2, ".seed1.v1.Inner"),
			},
		}, {
			Name: proto.String("Inner"),
			Field: []*descriptorpb.FieldDescriptorProto{
				seed1StringField("label", 1),
			},
		}},
	}
}

func seed1CheckUnique(t *testing.T, schema RootSchema) {
	t.Helper()
	obj, ok := schema.(*ObjectSchema)
	if !ok {
		t.Fatalf("expected an object schema, got %T", schema)
	}
	seen := map[string]bool{}
	for _, prop := range obj.ClientProperties() {
		if seen[prop.JSONName] {
			t.Errorf("%s was built without error but has more than one property named %q (proto path %v)", obj.FullName(), prop.JSONName, prop.ProtoField)
		}
		seen[prop.JSONName] = true
	}
}

func TestSeed1NestedFlattenUniqueNames(t *testing.T) {
	file, err := protodesc.NewFile(seed1File(), protoregistry.GlobalFiles)
	if err != nil {
		t.Fatal(err)
	}

	t.Run("cache", func(t *testing.T) {
		schema, err := NewSchemaCache().Schema(file.Messages().ByName("Outer"))
		if err != nil {
			t.Logf("rejected, which is fine: %s", err)
			return
		}
		seed1CheckUnique(t, schema)
	})

	t.Run("files", func(t *testing.T) {
		files := &protoregistry.Files{}
		if err := files.RegisterFile(file); err != nil {
			t.Fatal(err)
		}
		set, err := SchemaSetFromFiles(files, func(protoreflect.FileDescriptor) bool { return true })
		if err != nil {
			t.Logf("rejected, which is fine: %s", err)
			return
		}
		schema, err := set.SchemaByName("seed1.v1", "Outer")
		if err != nil {
			t.Fatal(err)
		}
		seed1CheckUnique(t, schema)
	})
}
