// copy to: internal/codec/
package codec

import (
	"testing"

	"github.com/pentops/j5/gen/j5/ext/v1/ext_j5pb"
	"google.golang.org/protobuf/proto"
	"google.golang.org/protobuf/reflect/protodesc"
	"google.golang.org/protobuf/reflect/protoreflect"
	"google.golang.org/protobuf/reflect/protoregistry"
	"google.golang.org/protobuf/types/descriptorpb"
	"google.golang.org/protobuf/types/dynamicpb"
)

// Outer flattens Mid, Mid flattens Leaf. The JSON members of Outer are
//
//	leafId, midName (lifted through both levels) and leaf (Outer's own string)
//
// which is unambiguous: the name of Mid's field "leaf" is not a JSON member,
// because that field is flattened away.
func seedDemoNestedFlattenFile(t testing.TB) protoreflect.FileDescriptor {
	t.Helper()

	flatten := func() *descriptorpb.FieldOptions {
		opts := &descriptorpb.FieldOptions{}
		proto.SetExtension(opts, ext_j5pb.E_Field, &ext_j5pb.FieldOptions{
			Type: &ext_j5pb.FieldOptions_Message{
				Message: &ext_j5pb.MessageFieldOptions{Flatten: true},
			},
		})
		return opts
	}

	str := descriptorpb.FieldDescriptorProto_TYPE_STRING.Enum()
	msg := descriptorpb.FieldDescriptorProto_TYPE_MESSAGE.Enum()
	opt := descriptorpb.FieldDescriptorProto_LABEL_OPTIONAL.Enum()

	fdp := &descriptorpb.FileDescriptorProto{
		Name:       proto.String("seeddemo/v1/nested_flatten.proto"),
		Package:    proto.String("seeddemo.v1"),
		Syntax:     proto.String("proto3"),
		Dependency: []string{"j5/ext/v1/annotations.proto"},
		MessageType: []*descriptorpb.DescriptorProto{{
			Name: proto.String("Outer"),
			Field: []*descriptorpb.FieldDescriptorProto{{
				Name: proto.String("mid"), JsonName: proto.String("mid"), Number: proto.Int32(1), Type: msg, Label: opt,
				TypeName: proto.String(".seeddemo.v1.Mid"), Options: flatten(),
			}, {
				Name: proto.String("leaf"), JsonName: proto.String("leaf"), Number: proto.Int32(2), Type: str, Label: opt,
			}},
		}, {
			Name: proto.String("Mid"),
			Field: []*descriptorpb.FieldDescriptorProto{{
				Name: proto.String("leaf"), JsonName: proto.String("leaf"), Number: proto.Int32(1), Type: msg, Label: opt,
				TypeName: proto.String(".seeddemo.v1.Leaf"), Options: flatten(),
			}, {
				Name: proto.String("mid_name"), JsonName: proto.String("midName"), Number: proto.Int32(2), Type: str, Label: opt,
			}},
		}, {
			Name: proto.String("Leaf"),
			Field: []*descriptorpb.FieldDescriptorProto{{
				Name: proto.String("leaf_id"), JsonName: proto.String("leafId"), Number: proto.Int32(1), Type: str, Label: opt,
			}},
		}},
	}

	fd, err := protodesc.NewFile(fdp, protoregistry.GlobalFiles)
	if err != nil {
		t.Fatalf("building descriptor: %s", err)
	}
	return fd
}

func TestSeedDemoNestedFlattenRoundTrip(t *testing.T) {
	fd := seedDemoNestedFlattenFile(t)
	outerDesc := fd.Messages().ByName("Outer")
	midDesc := fd.Messages().ByName("Mid")
	leafDesc := fd.Messages().ByName("Leaf")

	leaf := dynamicpb.NewMessage(leafDesc)
	leaf.Set(leafDesc.Fields().ByName("leaf_id"), protoreflect.ValueOfString("the-leaf-id"))

	mid := dynamicpb.NewMessage(midDesc)
	mid.Set(midDesc.Fields().ByName("leaf"), protoreflect.ValueOfMessage(leaf))
	mid.Set(midDesc.Fields().ByName("mid_name"), protoreflect.ValueOfString("the-mid-name"))

	outer := dynamicpb.NewMessage(outerDesc)
	outer.Set(outerDesc.Fields().ByName("mid"), protoreflect.ValueOfMessage(mid))
	outer.Set(outerDesc.Fields().ByName("leaf"), protoreflect.ValueOfString("outer-own-leaf"))

	codec := NewCodec()

	encoded, err := codec.ProtoToJSON(outer.ProtoReflect())
	if err != nil {
		t.Fatalf("ProtoToJSON: %s", err)
	}
	t.Logf("encoded: %s", string(encoded))

	CompareJSON(t, []byte(`{"leafId":"the-leaf-id","midName":"the-mid-name","leaf":"outer-own-leaf"}`), encoded)

	decoded := dynamicpb.NewMessage(outerDesc)
	if err := codec.JSONToProto(encoded, decoded.ProtoReflect()); err != nil {
		t.Fatalf("JSONToProto: %s", err)
	}

	if !proto.Equal(outer, decoded) {
		t.Fatalf("round trip changed the message\nwant %s\n got %s", outer, decoded)
	}
}
