// copy to: internal/codec/
package codec

import (
	"testing"

	"google.golang.org/protobuf/proto"
	"google.golang.org/protobuf/reflect/protodesc"
	"google.golang.org/protobuf/reflect/protoreflect"
	"google.golang.org/protobuf/reflect/protoregistry"
	"google.golang.org/protobuf/types/descriptorpb"
	"google.golang.org/protobuf/types/dynamicpb"
)

// message Holder { Outer choice = 1; string note = 2; }
// message Outer  { oneof type { Inner inner = 1; Other other = 2; } }  // oneof wrapper
// message Inner  { oneof type { Other a = 1; Other b = 2; } }          // oneof wrapper
// message Other  { string id = 1; }
//
// Outer and Inner are J5 oneof wrappers (a single proto oneof called "type"
// holding only messages).
func seedDemoOneofInOneofFile(t testing.TB) protoreflect.FileDescriptor {
	t.Helper()

	str := descriptorpb.FieldDescriptorProto_TYPE_STRING.Enum()
	msg := descriptorpb.FieldDescriptorProto_TYPE_MESSAGE.Enum()
	opt := descriptorpb.FieldDescriptorProto_LABEL_OPTIONAL.Enum()

	member := func(name string, number int32, typeName string) *descriptorpb.FieldDescriptorProto {
		return &descriptorpb.FieldDescriptorProto{
			Name: proto.String(name), JsonName: proto.String(name), Number: proto.Int32(number),
			Type: msg, Label: opt, TypeName: proto.String(typeName),
			OneofIndex: proto.Int32(0),
		}
	}

	fdp := &descriptorpb.FileDescriptorProto{
		Name:    proto.String("seeddemo/v1/oneof_in_oneof.proto"),
		Package: proto.String("seeddemo2.v1"),
		Syntax:  proto.String("proto3"),
		MessageType: []*descriptorpb.DescriptorProto{{
			Name: proto.String("Holder"),
			Field: []*descriptorpb.FieldDescriptorProto{{
				Name: proto.String("choice"), JsonName: proto.String("choice"), Number: proto.Int32(1),
				Type: msg, Label: opt, TypeName: proto.String(".seeddemo2.v1.Outer"),
			}, {
				Name: proto.String("note"), JsonName: proto.String("note"), Number: proto.Int32(2),
				Type: str, Label: opt,
			}},
		}, {
			Name:      proto.String("Outer"),
			OneofDecl: []*descriptorpb.OneofDescriptorProto{{Name: proto.String("type")}},
			Field: []*descriptorpb.FieldDescriptorProto{
				member("inner", 1, ".seeddemo2.v1.Inner"),
				member("other", 2, ".seeddemo2.v1.Other"),
			},
		}, {
			Name:      proto.String("Inner"),
			OneofDecl: []*descriptorpb.OneofDescriptorProto{{Name: proto.String("type")}},
			Field: []*descriptorpb.FieldDescriptorProto{
				member("a", 1, ".seeddemo2.v1.Other"),
				member("b", 2, ".seeddemo2.v1.Other"),
			},
		}, {
			Name: proto.String("Other"),
			Field: []*descriptorpb.FieldDescriptorProto{{
				Name: proto.String("id"), JsonName: proto.String("id"), Number: proto.Int32(1), Type: str, Label: opt,
			}},
		}},
	}

	fd, err := protodesc.NewFile(fdp, protoregistry.GlobalFiles)
	if err != nil {
		t.Fatalf("building descriptor: %s", err)
	}
	return fd
}

func seedDemoRoundTrip(t *testing.T, in *dynamicpb.Message, wantJSON string) {
	t.Helper()
	codec := NewCodec()

	encoded, err := codec.ProtoToJSON(in.ProtoReflect())
	if err != nil {
		t.Fatalf("ProtoToJSON: %s", err)
	}
	t.Logf("encoded: %s", string(encoded))
	if string(encoded) != wantJSON {
		t.Errorf("unexpected JSON\nwant %s\n got %s", wantJSON, string(encoded))
	}

	decoded := dynamicpb.NewMessage(in.Descriptor())
	if err := codec.JSONToProto(encoded, decoded.ProtoReflect()); err != nil {
		t.Fatalf("JSONToProto: %s", err)
	}

	if !proto.Equal(in, decoded) {
		t.Fatalf("round trip changed the message\nwant %s\n got %s", in, decoded)
	}
}

func TestSeedDemoOneofArmIsEmptyOneof(t *testing.T) {
	fd := seedDemoOneofInOneofFile(t)
	holderDesc := fd.Messages().ByName("Holder")
	outerDesc := fd.Messages().ByName("Outer")
	innerDesc := fd.Messages().ByName("Inner")
	otherDesc := fd.Messages().ByName("Other")

	t.Run("control: inner oneof has an arm", func(t *testing.T) {
		other := dynamicpb.NewMessage(otherDesc)
		other.Set(otherDesc.Fields().ByName("id"), protoreflect.ValueOfString("x"))
		inner := dynamicpb.NewMessage(innerDesc)
		inner.Set(innerDesc.Fields().ByName("b"), protoreflect.ValueOfMessage(other))
		outer := dynamicpb.NewMessage(outerDesc)
		outer.Set(outerDesc.Fields().ByName("inner"), protoreflect.ValueOfMessage(inner))
		holder := dynamicpb.NewMessage(holderDesc)
		holder.Set(holderDesc.Fields().ByName("choice"), protoreflect.ValueOfMessage(outer))

		seedDemoRoundTrip(t, holder,
			`{"choice":{"!type":"inner","inner":{"!type":"b","b":{"id":"x"}}}}`)
	})

	t.Run("arm selected, but the selected arm is an empty oneof", func(t *testing.T) {
		// Outer.type = inner, Inner.type = <nothing>
		inner := dynamicpb.NewMessage(innerDesc)
		outer := dynamicpb.NewMessage(outerDesc)
		outer.Set(outerDesc.Fields().ByName("inner"), protoreflect.ValueOfMessage(inner))
		holder := dynamicpb.NewMessage(holderDesc)
		holder.Set(holderDesc.Fields().ByName("choice"), protoreflect.ValueOfMessage(outer))
		holder.Set(holderDesc.Fields().ByName("note"), protoreflect.ValueOfString("n"))

		seedDemoRoundTrip(t, holder,
			`{"choice":{"!type":"inner","inner":{}},"note":"n"}`)
	})

	t.Run("same, with the outer oneof as the root message", func(t *testing.T) {
		inner := dynamicpb.NewMessage(innerDesc)
		outer := dynamicpb.NewMessage(outerDesc)
		outer.Set(outerDesc.Fields().ByName("inner"), protoreflect.ValueOfMessage(inner))

		seedDemoRoundTrip(t, outer, `{"!type":"inner","inner":{}}`)
	})
}
