// copy to: internal/bcl/internal/parser/
package parser

import (
	"strings"
	"testing"

	"github.com/pentops/j5/internal/bcl/errpos"
)

// Every diagnostic must point inside the file: the line exists, the column is
// at most one past the last rune of that line (EOL / EOF position), and the
// start is not after the end.
func demoCheckDiagnostics(t *testing.T, input string, failFast bool) {
	t.Helper()

	file, err := ParseFile(input, failFast)
	if err == nil {
		if file == nil {
			t.Fatalf("failFast=%v: neither a tree nor an error", failFast)
		}
		return
	}

	withSource, ok := errpos.AsErrorsWithSource(err)
	if !ok {
		t.Fatalf("failFast=%v: error is not a list of diagnostics: %T %s", failFast, err, err)
	}
	if len(withSource.Errors) == 0 {
		t.Fatalf("failFast=%v: empty list of diagnostics", failFast)
	}

	lines := strings.Split(input, "\n")
	inside := func(p errpos.Point) bool {
		if p.Line < 0 || p.Line >= len(lines) {
			return false
		}
		return p.Column >= 0 && p.Column <= len([]rune(lines[p.Line]))
	}

	for idx, diag := range withSource.Errors {
		if diag.Pos == nil {
			t.Errorf("failFast=%v: diagnostic %d has no position: %s", failFast, idx, diag)
			continue
		}
		start, end := diag.Pos.Start, diag.Pos.End
		if !inside(start) || !inside(end) {
			t.Errorf("failFast=%v: diagnostic %d (%q) at %d:%d - %d:%d (0 based) lies outside the input %q",
				failFast, idx, diag.Err, start.Line, start.Column, end.Line, end.Column, input)
		}
		if start.Line > end.Line || (start.Line == end.Line && start.Column > end.Column) {
			t.Errorf("failFast=%v: diagnostic %d starts after it ends", failFast, idx)
		}
	}

	rendered := withSource.HumanString(2)
	if strings.Contains(rendered, "out of range") {
		t.Errorf("failFast=%v: rendering could not place the diagnostic:\n%s", failFast, rendered)
	}
}

func TestDemoEscapedCarriageReturnAtEOF(t *testing.T) {
	for _, input := range []string{
		// a string whose last characters are a backslash and a lone CR, then
		// the file ends (an editor cut the CRLF in half, or a truncated file)
		"a = \"x\\\r",
		"block Foo {\n  a = \"value\\\r",
		// controls: the same shapes which do not end the file at the CR
		"a = \"x\\\r\ny\"\n",
		"a = \"x\\\n",
		"a = \"x\\",
		"a = \"x\r",
	} {
		for _, failFast := range []bool{true, false} {
			demoCheckDiagnostics(t, input, failFast)
		}
	}
}
