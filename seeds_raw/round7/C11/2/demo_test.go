// copy to: internal/bcl/internal/parser/
package parser

import (
	"strings"
	"testing"

	"github.com/pentops/j5/internal/bcl/errpos"
)

// Every diagnostic carries a start and an end which lie inside the input (the
// line exists, the column is at most one past the last rune of that line) and
// the start is not after the end.
func demoCheckRanges(t *testing.T, input string, failFast bool) {
	t.Helper()

	_, err := ParseFile(input, failFast)
	if err == nil {
		t.Fatalf("failFast=%v: %q: expected diagnostics", failFast, input)
	}

	withSource, ok := errpos.AsErrorsWithSource(err)
	if !ok {
		t.Fatalf("failFast=%v: error is not a list of diagnostics: %T %s", failFast, err, err)
	}
	if len(withSource.Errors) == 0 {
		t.Fatalf("failFast=%v: empty list of diagnostics", failFast)
	}

	lines := strings.Split(input, "\n")
	inside := func(p errpos.Point) bool {
		if p.Line < 0 || p.Line >= len(lines) {
			return false
		}
		return p.Column >= 0 && p.Column <= len([]rune(lines[p.Line]))
	}

	for idx, diag := range withSource.Errors {
		if diag.Pos == nil {
			t.Errorf("failFast=%v: diagnostic %d has no position: %s", failFast, idx, diag)
			continue
		}
		start, end := diag.Pos.Start, diag.Pos.End
		if !inside(start) || !inside(end) {
			t.Errorf("failFast=%v: %q: diagnostic %d (%s) %d:%d - %d:%d (0 based) lies outside the input",
				failFast, input, idx, diag.Err, start.Line, start.Column, end.Line, end.Column)
		}
		if start.Line > end.Line || (start.Line == end.Line && start.Column > end.Column) {
			t.Errorf("failFast=%v: %q: diagnostic %d (%s) starts at %d:%d, after its end %d:%d (0 based)",
				failFast, input, idx, diag.Err, start.Line, start.Column, end.Line, end.Column)
		}
	}

	_ = withSource.HumanString(2)
}

func TestDemoUnexpectedTokenOverTwoLines(t *testing.T) {
	for _, input := range []string{
		// a block comment over two lines where a tag, '{' or EOL should be:
		// it ends in a lower column than it begins
		"field name /* two\nlines */ {\n}\n",
		// a string with an escaped newline after a finished assignment
		"object Foo {\n  a = 1 \"x\\\nyz\"\n}\n",
		// a block comment whose second line is longer than the first line
		// of the file
		"a /* x\n  a long second line of the comment */ = 1\n",
		// collect-all has more than one of them
		"a = 1 /* x\n*/\nb = 2 /* y\n*/\n",
		// controls: unexpected tokens on a single line
		"field name /* one line */ {\n}\n",
		"object Foo {\n  a = 1 \"xyz\"\n}\n",
		"a = 1 = 2\n",
		"a = [1, \n",
	} {
		for _, failFast := range []bool{true, false} {
			demoCheckRanges(t, input, failFast)
		}
	}
}
