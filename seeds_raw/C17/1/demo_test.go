// copy to: internal/j5s/j5convert/
package j5convert

// Demonstration for seeded change C17/1.
//
// An entity with TWO summaries must yield one upsert topic per summary, each
// with its own method and its own message, named <Entity><Summary>.

import (
	"strings"
	"testing"

	"github.com/pentops/j5/internal/bcl/errpos"
	"github.com/pentops/j5/internal/j5s/j5parse"
	"google.golang.org/protobuf/types/descriptorpb"
)

type c17s1Resolver struct {
	pkg     string
	exports map[string]*TypeRef
}

func (d *c17s1Resolver) ResolveType(pkg string, name string) (*TypeRef, error) {
	if pkg == "" || pkg == d.pkg {
		if tr, ok := d.exports[name]; ok {
			return tr, nil
		}
	}
	return nil, &TypeNotFoundError{Package: pkg, Name: name}
}

type c17s1Warn struct{}

func (c17s1Warn) WarnPos(pos *errpos.Position, err error) {}

// c17s1Compile runs the real pipeline: j5s text -> sourcedef -> summary
// (exports) -> proto file descriptors.
func c17s1Compile(t *testing.T, lines ...string) map[string]*descriptorpb.FileDescriptorProto {
	t.Helper()
	parser, err := j5parse.NewParser()
	if err != nil {
		t.Fatal(err)
	}
	src := "package demo.v1\n\n" + strings.Join(lines, "\n") + "\n"
	file, err := parser.ParseFile("demo/v1/demo.j5s", src)
	if err != nil {
		t.Fatalf("parse: %s", err)
	}
	summary, err := SourceSummary(file, c17s1Warn{})
	if err != nil {
		t.Fatalf("summary: %s", err)
	}
	files, err := ConvertJ5File(&c17s1Resolver{pkg: "demo.v1", exports: summary.Exports}, file)
	if err != nil {
		t.Fatalf("convert: %s", err)
	}
	out := map[string]*descriptorpb.FileDescriptorProto{}
	for _, f := range files {
		out[f.GetName()] = f
	}
	return out
}

func c17s1FieldNames(msg *descriptorpb.DescriptorProto) string {
	names := []string{}
	for _, f := range msg.Field {
		names = append(names, f.GetName())
	}
	return strings.Join(names, ",")
}

func TestC17Seed1_OneUpsertTopicPerSummary(t *testing.T) {
	files := c17s1Compile(t,
		"entity Foo {",
		"  key fooId key:id62 {",
		"    primary = true",
		"  }",
		"  data name string",
		"  data code string",
		"  status ACTIVE",
		"  event Create {",
		"    field name string",
		"  }",
		"  summary {",
		"    field name string",
		"  }",
		"  summary Lite {",
		"    field code string",
		"  }",
		"}",
	)

	topicFile, ok := files["demo/v1/topic/demo.p.j5s.proto"]
	if !ok {
		t.Fatalf("no topic file produced")
	}

	// message name -> field list
	wantMessages := map[string]string{
		"FooEventMessage":   "metadata,keys,event,data,status",
		"FooSummaryMessage": "upsert,name",
		"FooLiteMessage":    "upsert,code",
	}
	gotMessages := map[string]string{}
	for _, msg := range topicFile.MessageType {
		if _, dup := gotMessages[msg.GetName()]; dup {
			t.Errorf("message %s defined more than once in the topic file", msg.GetName())
		}
		gotMessages[msg.GetName()] = c17s1FieldNames(msg)
	}
	for name, wantFields := range wantMessages {
		gotFields, ok := gotMessages[name]
		if !ok {
			t.Errorf("missing topic message %s (have %v)", name, gotMessages)
			continue
		}
		if gotFields != wantFields {
			t.Errorf("message %s: fields %q, want %q", name, gotFields, wantFields)
		}
	}
	if len(gotMessages) != len(wantMessages) {
		t.Errorf("topic messages: got %v, want %v", gotMessages, wantMessages)
	}

	// service name -> "method(input)"
	wantServices := map[string]string{
		"FooPublishTopic": "FooEvent(FooEventMessage)",
		"FooSummaryTopic": "FooSummary(FooSummaryMessage)",
		"FooLiteTopic":    "FooLite(FooLiteMessage)",
	}
	gotServices := map[string]string{}
	for _, svc := range topicFile.Service {
		parts := []string{}
		for _, m := range svc.Method {
			parts = append(parts, m.GetName()+"("+m.GetInputType()+")")
		}
		gotServices[svc.GetName()] = strings.Join(parts, ";")
	}
	for name, want := range wantServices {
		if got := gotServices[name]; got != want {
			t.Errorf("topic service %s: methods %q, want %q", name, got, want)
		}
	}
	if len(gotServices) != len(wantServices) {
		t.Errorf("topic services: got %v, want %v", gotServices, wantServices)
	}
}

// A single summary (the only shape used by the project's own fixtures) is
// unaffected by the seeded change.
func TestC17Seed1_SingleSummaryControl(t *testing.T) {
	files := c17s1Compile(t,
		"entity Foo {",
		"  key fooId key:id62 {",
		"    primary = true",
		"  }",
		"  data name string",
		"  status ACTIVE",
		"  summary Lite {",
		"    field name string",
		"  }",
		"}",
	)
	topicFile := files["demo/v1/topic/demo.p.j5s.proto"]
	found := false
	for _, svc := range topicFile.Service {
		if svc.GetName() == "FooLiteTopic" {
			found = true
			if len(svc.Method) != 1 || svc.Method[0].GetName() != "FooLite" || svc.Method[0].GetInputType() != "FooLiteMessage" {
				t.Errorf("unexpected methods on FooLiteTopic: %v", svc.Method)
			}
		}
	}
	if !found {
		t.Errorf("FooLiteTopic not found")
	}
}
