// copy to: internal/j5s/j5convert/
package j5convert

// Demonstration for seeded change C17/3.
//
// The <Entity>Status enum lists FOO_STATUS_UNSPECIFIED = 0 followed by every
// declared status, numbered 1..n in declaration order.

import (
	"fmt"
	"strings"
	"testing"

	"github.com/pentops/j5/internal/bcl/errpos"
	"github.com/pentops/j5/internal/j5s/j5parse"
	"google.golang.org/protobuf/types/descriptorpb"
)

type c17s3Resolver struct {
	pkg     string
	exports map[string]*TypeRef
}

func (d *c17s3Resolver) ResolveType(pkg string, name string) (*TypeRef, error) {
	if pkg == "" || pkg == d.pkg {
		if tr, ok := d.exports[name]; ok {
			return tr, nil
		}
	}
	return nil, &TypeNotFoundError{Package: pkg, Name: name}
}

type c17s3Warn struct{}

func (c17s3Warn) WarnPos(pos *errpos.Position, err error) {}

func c17s3Compile(t *testing.T, lines ...string) map[string]*descriptorpb.FileDescriptorProto {
	t.Helper()
	parser, err := j5parse.NewParser()
	if err != nil {
		t.Fatal(err)
	}
	src := "package demo.v1\n\n" + strings.Join(lines, "\n") + "\n"
	file, err := parser.ParseFile("demo/v1/demo.j5s", src)
	if err != nil {
		t.Fatalf("parse: %s", err)
	}
	summary, err := SourceSummary(file, c17s3Warn{})
	if err != nil {
		t.Fatalf("summary: %s", err)
	}
	files, err := ConvertJ5File(&c17s3Resolver{pkg: "demo.v1", exports: summary.Exports}, file)
	if err != nil {
		t.Fatalf("convert: %s", err)
	}
	out := map[string]*descriptorpb.FileDescriptorProto{}
	for _, f := range files {
		out[f.GetName()] = f
	}
	return out
}

func c17s3StatusValues(t *testing.T, statuses ...string) string {
	t.Helper()
	lines := []string{
		"entity Foo {",
		"  key fooId key:id62 {",
		"    primary = true",
		"  }",
		"  data name string",
	}
	for _, status := range statuses {
		lines = append(lines, "  status "+status)
	}
	lines = append(lines,
		"  event Create {",
		"    field name string",
		"  }",
		"}",
	)
	files := c17s3Compile(t, lines...)
	root := files["demo/v1/demo.j5s.proto"]
	for _, enum := range root.EnumType {
		if enum.GetName() != "FooStatus" {
			continue
		}
		parts := []string{}
		for _, val := range enum.Value {
			parts = append(parts, fmt.Sprintf("%s=%d", val.GetName(), val.GetNumber()))
		}
		return strings.Join(parts, " ")
	}
	t.Fatalf("FooStatus enum not found")
	return ""
}

func c17s3Want(statuses ...string) string {
	parts := []string{"FOO_STATUS_UNSPECIFIED=0"}
	for idx, status := range statuses {
		parts = append(parts, fmt.Sprintf("FOO_STATUS_%s=%d", status, idx+1))
	}
	return strings.Join(parts, " ")
}

func TestC17Seed3_StatusNumbering(t *testing.T) {
	for _, statuses := range [][]string{
		{"ACTIVE"},
		{"ACTIVE", "CLOSED"},
		{"DRAFT", "ACTIVE", "CLOSED", "ARCHIVED"},
		// a status whose name merely ends in UNSPECIFIED, not in first position
		{"ACTIVE", "REVIEW_UNSPECIFIED", "CLOSED"},
		{"ACTIVE", "CLOSED", "TAX_CODE_UNSPECIFIED"},
	} {
		t.Run(strings.Join(statuses, ","), func(t *testing.T) {
			got := c17s3StatusValues(t, statuses...)
			want := c17s3Want(statuses...)
			if got != want {
				t.Errorf("FooStatus values:\n got  %s\n want %s", got, want)
			}
		})
	}
}

// Control: an explicit UNSPECIFIED written as the FIRST status takes the zero
// slot (both on the unchanged and on the changed tree).
func TestC17Seed3_ExplicitLeadingUnspecifiedControl(t *testing.T) {
	got := c17s3StatusValues(t, "UNSPECIFIED", "ACTIVE", "CLOSED")
	want := c17s3Want("ACTIVE", "CLOSED")
	if got != want {
		t.Errorf("FooStatus values:\n got  %s\n want %s", got, want)
	}
}
