// copy to: internal/j5s/j5convert/
package j5convert

// Demonstration for seeded change C17/2.
//
// The keys flagged as primary in <Entity>Keys (and therefore required) must be
// exactly the declared primary keys, and exactly the path parameters of the
// Get and Events methods, in declaration order. A key which is declared with a
// self-documenting `primary = false` is NOT a primary key.

import (
	"regexp"
	"strings"
	"testing"

	"buf.build/gen/go/bufbuild/protovalidate/protocolbuffers/go/buf/validate"
	"github.com/pentops/j5/gen/j5/ext/v1/ext_j5pb"
	"github.com/pentops/j5/internal/bcl/errpos"
	"github.com/pentops/j5/internal/j5s/j5parse"
	"google.golang.org/genproto/googleapis/api/annotations"
	"google.golang.org/protobuf/proto"
	"google.golang.org/protobuf/types/descriptorpb"
)

type c17s2Resolver struct {
	pkg     string
	exports map[string]*TypeRef
}

func (d *c17s2Resolver) ResolveType(pkg string, name string) (*TypeRef, error) {
	if pkg == "" || pkg == d.pkg {
		if tr, ok := d.exports[name]; ok {
			return tr, nil
		}
	}
	return nil, &TypeNotFoundError{Package: pkg, Name: name}
}

type c17s2Warn struct{}

func (c17s2Warn) WarnPos(pos *errpos.Position, err error) {}

func c17s2Compile(t *testing.T, lines ...string) map[string]*descriptorpb.FileDescriptorProto {
	t.Helper()
	parser, err := j5parse.NewParser()
	if err != nil {
		t.Fatal(err)
	}
	src := "package demo.v1\n\n" + strings.Join(lines, "\n") + "\n"
	file, err := parser.ParseFile("demo/v1/demo.j5s", src)
	if err != nil {
		t.Fatalf("parse: %s", err)
	}
	summary, err := SourceSummary(file, c17s2Warn{})
	if err != nil {
		t.Fatalf("summary: %s", err)
	}
	files, err := ConvertJ5File(&c17s2Resolver{pkg: "demo.v1", exports: summary.Exports}, file)
	if err != nil {
		t.Fatalf("convert: %s", err)
	}
	out := map[string]*descriptorpb.FileDescriptorProto{}
	for _, f := range files {
		out[f.GetName()] = f
	}
	return out
}

func c17s2Message(t *testing.T, file *descriptorpb.FileDescriptorProto, name string) *descriptorpb.DescriptorProto {
	t.Helper()
	for _, msg := range file.MessageType {
		if msg.GetName() == name {
			return msg
		}
	}
	t.Fatalf("message %s not found in %s", name, file.GetName())
	return nil
}

func c17s2IsPrimary(f *descriptorpb.FieldDescriptorProto) bool {
	ext, _ := proto.GetExtension(f.Options, ext_j5pb.E_Key).(*ext_j5pb.PSMKeyFieldOptions)
	return ext != nil && ext.PrimaryKey
}

func c17s2IsRequired(f *descriptorpb.FieldDescriptorProto) bool {
	ext, _ := proto.GetExtension(f.Options, validate.E_Field).(*validate.FieldConstraints)
	return ext != nil && ext.GetRequired()
}

var c17s2PathParam = regexp.MustCompile(`\{([a-z0-9_]+)\}`)

func c17s2PathParams(t *testing.T, file *descriptorpb.FileDescriptorProto, service, method string) []string {
	t.Helper()
	for _, svc := range file.Service {
		if svc.GetName() != service {
			continue
		}
		for _, m := range svc.Method {
			if m.GetName() != method {
				continue
			}
			rule, _ := proto.GetExtension(m.Options, annotations.E_Http).(*annotations.HttpRule)
			if rule == nil {
				t.Fatalf("no http rule on %s.%s", service, method)
			}
			out := []string{}
			for _, match := range c17s2PathParam.FindAllStringSubmatch(rule.GetGet(), -1) {
				out = append(out, match[1])
			}
			return out
		}
	}
	t.Fatalf("method %s.%s not found", service, method)
	return nil
}

func TestC17Seed2_ExplicitNonPrimaryKey(t *testing.T) {
	files := c17s2Compile(t,
		"entity Foo {",
		"  key fooId key:id62 {",
		"    primary = true",
		"  }",
		"  key accountId key:id62 {",
		"    primary = false", // self-documenting: NOT part of the primary key
		"    tenant = \"account\"",
		"  }",
		"  key barId key:id62 {",
		"    primary = true",
		"  }",
		"  data name string",
		"  status ACTIVE",
		"  event Create {",
		"    field name string",
		"  }",
		"}",
	)

	root := files["demo/v1/demo.j5s.proto"]
	svc := files["demo/v1/service/demo.p.j5s.proto"]
	if root == nil || svc == nil {
		t.Fatalf("missing output files")
	}

	wantPrimary := []string{"foo_id", "bar_id"}

	keys := c17s2Message(t, root, "FooKeys")
	gotPrimary := []string{}
	for _, f := range keys.Field {
		if c17s2IsPrimary(f) {
			gotPrimary = append(gotPrimary, f.GetName())
			if !c17s2IsRequired(f) {
				t.Errorf("FooKeys.%s is primary but not required", f.GetName())
			}
		} else if c17s2IsRequired(f) {
			t.Errorf("FooKeys.%s is required, but is neither primary nor declared required", f.GetName())
		}
	}
	if strings.Join(gotPrimary, ",") != strings.Join(wantPrimary, ",") {
		t.Errorf("primary keys in FooKeys: %v, want %v", gotPrimary, wantPrimary)
	}

	// The same key set, in the same order, is the path of Get and Events.
	getParams := c17s2PathParams(t, svc, "FooQueryService", "FooGet")
	eventsParams := c17s2PathParams(t, svc, "FooQueryService", "FooEvents")
	if strings.Join(getParams, ",") != strings.Join(gotPrimary, ",") {
		t.Errorf("FooGet path params %v do not match the primary keys of FooKeys %v", getParams, gotPrimary)
	}
	if strings.Join(eventsParams, ",") != strings.Join(gotPrimary, ",") {
		t.Errorf("FooEvents path params %v do not match the primary keys of FooKeys %v", eventsParams, gotPrimary)
	}
	if strings.Join(getParams, ",") != strings.Join(wantPrimary, ",") {
		t.Errorf("FooGet path params %v, want %v", getParams, wantPrimary)
	}
}

// Control: when non-primary keys simply omit the `primary` attribute (the
// usual spelling) nothing changes.
func TestC17Seed2_ImplicitNonPrimaryControl(t *testing.T) {
	files := c17s2Compile(t,
		"entity Foo {",
		"  key fooId key:id62 {",
		"    primary = true",
		"  }",
		"  key accountId key:id62 {",
		"    tenant = \"account\"",
		"  }",
		"  status ACTIVE",
		"}",
	)
	keys := c17s2Message(t, files["demo/v1/demo.j5s.proto"], "FooKeys")
	for _, f := range keys.Field {
		want := f.GetName() == "foo_id"
		if c17s2IsPrimary(f) != want || c17s2IsRequired(f) != want {
			t.Errorf("FooKeys.%s primary=%v required=%v, want both %v", f.GetName(), c17s2IsPrimary(f), c17s2IsRequired(f), want)
		}
	}
}
