// copy to: internal/codec/
package codec

import (
	"fmt"
	"net/url"
	"testing"

	"github.com/pentops/j5/gen/test/schema/v1/schema_testpb"
)

// C06 seed 1: the decoder must be total. Unpadded base64 (std or url alphabet)
// for a bytes field whose length is > 4 and not a multiple of 4 must yield
// either success or an error, never a panic.
func TestC06Seed1_UnpaddedBase64IsTotal(t *testing.T) {
	c := NewCodec()

	decodeJSON := func(in string) (err error, panicked interface{}) {
		defer func() { panicked = recover() }()
		msg := &schema_testpb.FullSchema{}
		err = c.JSONToProto([]byte(in), msg.ProtoReflect())
		return
	}
	decodeQuery := func(in url.Values) (err error, panicked interface{}) {
		defer func() { panicked = recover() }()
		msg := &schema_testpb.FullSchema{}
		err = c.QueryToProto(in, msg.ProtoReflect())
		return
	}

	// every unpadded length 0..13 of the base64 alphabet
	for n := 0; n <= 13; n++ {
		val := ""
		for i := 0; i < n; i++ {
			val += "A"
		}
		for _, in := range []string{
			fmt.Sprintf(`{"sBytes": %q}`, val),
			fmt.Sprintf(`{"rBytes": ["AAAA", %q]}`, val),
		} {
			if _, p := decodeJSON(in); p != nil {
				t.Errorf("JSONToProto(%s) panicked: %v", in, p)
			}
		}
		q := url.Values{"sBytes": {val}}
		if _, p := decodeQuery(q); p != nil {
			t.Errorf("QueryToProto(%v) panicked: %v", q, p)
		}
	}

	// A well formed unpadded value (10 chars) must still decode.
	if err, p := decodeJSON(`{"sBytes": "c0J5dGVzMQ"}`); p != nil {
		t.Errorf("unpadded base64 of 7 bytes panicked: %v", p)
	} else if err != nil {
		t.Errorf("unpadded base64 of 7 bytes: %s", err)
	}
}
