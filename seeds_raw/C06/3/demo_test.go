// copy to: internal/codec/
package codec

import (
	"net/url"
	"testing"

	"github.com/pentops/j5/gen/test/schema/v1/schema_testpb"
)

// C06 seed 3: the query decoder must be total. Several dotted query keys which
// walk through the same intermediate property must yield success or an error,
// never a panic - for every kind of container on the path (object, wrapped
// oneof, exposed oneof, flattened message, recursive type).
func TestC06Seed3_SharedQueryPrefixIsTotal(t *testing.T) {
	c := NewCodec()

	for _, q := range []url.Values{
		// object prefix
		{"sBar.barId": {"a"}, "sBar.barField": {"b"}},
		{"sBar.barId": {"a"}, "s_bar.bar_id": {"b"}},
		// wrapper oneof prefix
		{"wrappedOneof.wOneofString": {"a"}, "wrappedOneof.wOneofFloat": {"1.5"}},
		{"wrappedOneof.wOneofBar.barId": {"a"}, "wrappedOneof.wOneofBar.barField": {"b"}},
		// exposed oneof prefix, top level
		{"exposedOneof.exposedString": {"a"}, "exposed_oneof.exposed_string": {"b"}},
		// exposed oneof inside an object, two members
		{"nestedExposedOneof.type.de1": {"a"}, "nestedExposedOneof.type.de2": {"b"}},
		// recursive type, two levels
		{"nestedExposedOneof.type.de3.type.de1": {"a"}, "nestedExposedOneof.type.de3.type.de2": {"b"}},
		{"nestedExposedOneof.type.de3.type.de1": {"a"}, "nested_exposed_oneof.type.de3.type.de3.type.de1": {"b"}},
		// same leaf, spelled two ways
		{"nestedExposedOneof.type.de1": {"a"}, "nested_exposed_oneof.type.de1": {"b"}},
	} {
		// url.Values is a map: run a few times so both key orders are seen.
		for i := 0; i < 8; i++ {
			func() {
				defer func() {
					if p := recover(); p != nil {
						t.Errorf("QueryToProto(%v) panicked: %v", q, p)
					}
				}()
				msg := &schema_testpb.FullSchema{}
				_ = c.QueryToProto(q, msg.ProtoReflect())
			}()
		}
	}

	// two members of one exposed oneof addressed by path: last one wins, no error
	msg := &schema_testpb.FullSchema{}
	func() {
		defer func() {
			if p := recover(); p != nil {
				t.Errorf("panicked: %v", p)
			}
		}()
		err := c.QueryToProto(url.Values{
			"nestedExposedOneof.type.de3.type.de1": {"a"},
			"nestedExposedOneof.type.de3.type.de2": {"b"},
		}, msg.ProtoReflect())
		if err != nil {
			t.Errorf("unexpected error: %s", err)
		}
	}()
}
