// copy to: internal/codec/
package codec

import (
	"testing"

	"github.com/pentops/j5/gen/test/schema/v1/schema_testpb"
)

// C06 seed 2: the decoder must be total. An Any-typed field (j5.types.any.v1.Any
// or google.protobuf.Any) whose JSON object is missing one or both of the
// "!type" / value keys must yield success or an error, never a panic.
func TestC06Seed2_AnyShapesAreTotal(t *testing.T) {
	for name, c := range map[string]*Codec{
		"plain":      NewCodec(),
		"protoToAny": NewCodec(WithProtoToAny()),
	} {
		decodeJSON := func(in string) (err error, panicked interface{}) {
			defer func() { panicked = recover() }()
			msg := &schema_testpb.FullSchema{}
			err = c.JSONToProto([]byte(in), msg.ProtoReflect())
			return
		}

		for _, field := range []string{"j5any", "pbany"} {
			for _, body := range []string{
				`null`,
				`{}`,
				`{"!type": "test.schema.v1.Bar"}`,
				`{"value": {"barId": "x"}}`,
				`{"value": null}`,
				`{"value": 1}`,
				`{"anything": []}`,
				`{"!type": "test.schema.v1.Bar", "value": {"barId": "x"}}`,
				`{"value": {"barId": "x"}, "!type": "test.schema.v1.Bar"}`,
				`{"!type": "test.schema.v1.Bar", "value": {"barId": "x"}, "value2": {}}`,
				// Any nested in Any, inner one has no !type
				`{"!type": "test.schema.v1.FullSchema", "value": {"` + field + `": {"value": {}}}}`,
			} {
				in := `{"` + field + `": ` + body + `}`
				if _, p := decodeJSON(in); p != nil {
					t.Errorf("%s: JSONToProto(%s) panicked: %v", name, in, p)
				}
			}
		}

		// A value without a type must be rejected.
		if err, p := decodeJSON(`{"j5any": {"value": {"barId": "x"}}}`); p == nil && err == nil {
			t.Errorf("%s: Any without !type was accepted", name)
		}
	}
}
