// copy to: internal/codec/
package codec

import (
	"fmt"
	"math"
	"testing"

	"github.com/pentops/flowtest/prototest"
	"google.golang.org/protobuf/proto"
	"google.golang.org/protobuf/reflect/protoreflect"
	"google.golang.org/protobuf/types/dynamicpb"
)

// C01 seed 2: round trip of uint64 values around the int64 boundary.
func TestSeedC01_2_Uint64RoundTrip(t *testing.T) {
	desc := prototest.SingleMessage(t,
		"uint64 s_uint64 = 1;",
		"optional uint64 o_uint64 = 2;",
	)
	sField := desc.Fields().ByName("s_uint64")
	oField := desc.Fields().ByName("o_uint64")

	codec := NewCodec()

	for _, val := range []uint64{
		1,
		math.MaxInt64 - 1,
		math.MaxInt64,
		math.MaxInt64 + 1,
		math.MaxUint64 - 1,
		math.MaxUint64,
	} {
		t.Run(fmt.Sprintf("%d", val), func(t *testing.T) {
			msgIn := dynamicpb.NewMessage(desc)
			msgIn.Set(sField, protoreflect.ValueOfUint64(val))
			msgIn.Set(oField, protoreflect.ValueOfUint64(val))

			asJSON, err := codec.ProtoToJSON(msgIn.ProtoReflect())
			if err != nil {
				t.Fatalf("encode: %s", err)
			}

			msgOut := dynamicpb.NewMessage(desc)
			if err := codec.JSONToProto(asJSON, msgOut.ProtoReflect()); err != nil {
				t.Fatalf("decode of %s: %s", asJSON, err)
			}

			if !proto.Equal(msgIn, msgOut) {
				t.Fatalf("round trip mismatch via %s:\n in: %v\nout: %v", asJSON, msgIn, msgOut)
			}
		})
	}
}
