// copy to: internal/codec/
package codec

import (
	"testing"

	"github.com/pentops/flowtest/prototest"
	"google.golang.org/protobuf/proto"
	"google.golang.org/protobuf/reflect/protoreflect"
	"google.golang.org/protobuf/types/dynamicpb"
)

// C01 seed 3: round trip of every defined value of an enum whose numbers are
// not contiguous (value 2 was removed / reserved), as a scalar, in an array
// and in a map.
func TestSeedC01_3_SparseEnumRoundTrip(t *testing.T) {
	rs := prototest.DescriptorsFromSource(t, map[string]string{
		"seed.proto": `
		syntax = "proto3";
		package seedtest;

		enum Status {
			STATUS_UNSPECIFIED = 0;
			STATUS_ACTIVE = 1;
			reserved 2;
			STATUS_DELETED = 3;
			STATUS_ARCHIVED = 4;
		}

		message Holder {
			Status status = 1;
			repeated Status history = 2;
			map<string, Status> by_key = 3;
		}
		`,
	})
	desc := rs.MessageByName(t, "seedtest.Holder")
	statusField := desc.Fields().ByName("status")
	historyField := desc.Fields().ByName("history")
	byKeyField := desc.Fields().ByName("by_key")

	codec := NewCodec()

	values := statusField.Enum().Values()
	for i := 0; i < values.Len(); i++ {
		enumVal := values.Get(i)
		t.Run(string(enumVal.Name()), func(t *testing.T) {
			num := protoreflect.ValueOfEnum(enumVal.Number())

			msgIn := dynamicpb.NewMessage(desc)
			msgIn.Set(statusField, num)
			msgIn.Mutable(historyField).List().Append(num)
			msgIn.Mutable(byKeyField).Map().Set(protoreflect.ValueOfString("k").MapKey(), num)

			asJSON, err := codec.ProtoToJSON(msgIn.ProtoReflect())
			if err != nil {
				t.Fatalf("encode: %s", err)
			}

			msgOut := dynamicpb.NewMessage(desc)
			if err := codec.JSONToProto(asJSON, msgOut.ProtoReflect()); err != nil {
				t.Fatalf("decode of %s: %s", asJSON, err)
			}

			if !proto.Equal(msgIn, msgOut) {
				t.Fatalf("round trip mismatch via %s:\n in: %v\nout: %v", asJSON, msgIn, msgOut)
			}
		})
	}
}
