// copy to: internal/codec/
package codec

import (
	"fmt"
	"testing"

	"github.com/pentops/flowtest/prototest"
	"google.golang.org/protobuf/proto"
	"google.golang.org/protobuf/reflect/protoreflect"
	"google.golang.org/protobuf/types/dynamicpb"
)

// C01 seed 1: round trip of strings (values and map keys) containing every
// ASCII control character. All of them are valid UTF-8 and representable in
// JSON via \uXXXX escapes.
func TestSeedC01_1_ControlCharRoundTrip(t *testing.T) {
	desc := prototest.SingleMessage(t,
		"string s_string = 1;",
		"map<string, string> tags = 2;",
	)
	sField := desc.Fields().ByName("s_string")
	mField := desc.Fields().ByName("tags")

	codec := NewCodec()

	for r := rune(0); r < 0x20; r++ {
		t.Run(fmt.Sprintf("U+%04X", r), func(t *testing.T) {
			str := "a" + string(r) + "z"

			msgIn := dynamicpb.NewMessage(desc)
			msgIn.Set(sField, protoreflect.ValueOfString(str))
			msgIn.Mutable(mField).Map().Set(
				protoreflect.ValueOfString(str).MapKey(),
				protoreflect.ValueOfString(str),
			)

			asJSON, err := codec.ProtoToJSON(msgIn.ProtoReflect())
			if err != nil {
				t.Fatalf("encode: %s", err)
			}

			msgOut := dynamicpb.NewMessage(desc)
			if err := codec.JSONToProto(asJSON, msgOut.ProtoReflect()); err != nil {
				t.Fatalf("decode of %s: %s", asJSON, err)
			}

			if !proto.Equal(msgIn, msgOut) {
				t.Fatalf("round trip mismatch via %s:\n in: %v\nout: %v", asJSON, msgIn, msgOut)
			}
		})
	}
}
