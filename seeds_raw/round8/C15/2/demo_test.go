// copy to: internal/structure/
package structure

// Demonstration for seeded change C15/2.
//
// A oneof wrapper message declared in demo.v1 is used by fields (single and
// repeated) of a message in the sub-package demo.v1.service, i.e. the oneof is
// referenced ACROSS packages. The schemas are reflected, exported to the
// source-API form, re-imported with j5schema.PackageSetFromSourceAPI and
// exported again. Both exports must be identical and every reference must be
// resolved.
//
// The second case adds a oneof wrapper of the same name in the referencing
// package, so that a reference resolved in the wrong package still finds
// something.

import (
	"sort"
	"testing"

	"github.com/pentops/j5/gen/j5/schema/v1/schema_j5pb"
	"github.com/pentops/j5/gen/j5/source/v1/source_j5pb"
	"github.com/pentops/j5/lib/j5schema"
	"google.golang.org/protobuf/encoding/prototext"
	"google.golang.org/protobuf/proto"
	"google.golang.org/protobuf/types/descriptorpb"
)

func c15d2String(name string, number int32) *descriptorpb.FieldDescriptorProto {
	return &descriptorpb.FieldDescriptorProto{
		Name:   proto.String(name),
		Number: proto.Int32(number),
		Type:   descriptorpb.FieldDescriptorProto_TYPE_STRING.Enum(),
	}
}

func c15d2Message(name string, number int32, typeName string) *descriptorpb.FieldDescriptorProto {
	return &descriptorpb.FieldDescriptorProto{
		Name:     proto.String(name),
		Number:   proto.Int32(number),
		Type:     descriptorpb.FieldDescriptorProto_TYPE_MESSAGE.Enum(),
		TypeName: proto.String(typeName),
	}
}

func c15d2Repeated(field *descriptorpb.FieldDescriptorProto) *descriptorpb.FieldDescriptorProto {
	field.Label = descriptorpb.FieldDescriptorProto_LABEL_REPEATED.Enum()
	return field
}

// c15d2Wrapper is a message with exactly one oneof, called 'type', holding
// only message fields: a J5 oneof wrapper.
func c15d2Wrapper(name string, members ...*descriptorpb.FieldDescriptorProto) *descriptorpb.DescriptorProto {
	for _, member := range members {
		member.OneofIndex = proto.Int32(0)
	}
	return &descriptorpb.DescriptorProto{
		Name:      proto.String(name),
		OneofDecl: []*descriptorpb.OneofDescriptorProto{{Name: proto.String("type")}},
		Field:     members,
	}
}

func c15d2Image(localTwin bool) *source_j5pb.SourceImage {
	serviceMessages := []*descriptorpb.DescriptorProto{{
		Name: proto.String("Envelope"),
		Field: []*descriptorpb.FieldDescriptorProto{
			c15d2String("envelope_id", 1),
			c15d2Message("payload", 2, ".demo.v1.Payload"),
			c15d2Repeated(c15d2Message("history", 3, ".demo.v1.Payload")),
		},
	}}

	if localTwin {
		serviceMessages = append(serviceMessages,
			&descriptorpb.DescriptorProto{
				Name:  proto.String("Ack"),
				Field: []*descriptorpb.FieldDescriptorProto{c15d2String("ack_id", 1)},
			},
			c15d2Wrapper("Payload",
				c15d2Message("ack", 1, ".demo.v1.service.Ack"),
			),
			&descriptorpb.DescriptorProto{
				Name: proto.String("Reply"),
				Field: []*descriptorpb.FieldDescriptorProto{
					c15d2Message("payload", 1, ".demo.v1.service.Payload"),
				},
			},
		)
	}

	return &source_j5pb.SourceImage{
		Packages: []*source_j5pb.PackageInfo{{
			Label: "Demo",
			Name:  "demo.v1",
		}},
		File: []*descriptorpb.FileDescriptorProto{{
			Syntax:  proto.String("proto3"),
			Name:    proto.String("demo/v1/payload.proto"),
			Package: proto.String("demo.v1"),
			MessageType: []*descriptorpb.DescriptorProto{
				{
					Name:  proto.String("Text"),
					Field: []*descriptorpb.FieldDescriptorProto{c15d2String("value", 1)},
				},
				{
					Name:  proto.String("Blob"),
					Field: []*descriptorpb.FieldDescriptorProto{c15d2String("location", 1)},
				},
				c15d2Wrapper("Payload",
					c15d2Message("text", 1, ".demo.v1.Text"),
					c15d2Message("blob", 2, ".demo.v1.Blob"),
				),
			},
		}, {
			Syntax:      proto.String("proto3"),
			Name:        proto.String("demo/v1/service/envelope.proto"),
			Package:     proto.String("demo.v1.service"),
			Dependency:  []string{"demo/v1/payload.proto"},
			MessageType: serviceMessages,
		}},
	}
}

// c15d2Flatten lists the exported API as full package name -> schema name -> schema.
func c15d2Flatten(api *source_j5pb.API) map[string]map[string]*schema_j5pb.RootSchema {
	out := map[string]map[string]*schema_j5pb.RootSchema{}
	add := func(pkgName string, schemas map[string]*schema_j5pb.RootSchema) {
		if len(schemas) == 0 {
			return
		}
		if out[pkgName] == nil {
			out[pkgName] = map[string]*schema_j5pb.RootSchema{}
		}
		for name, schema := range schemas {
			out[pkgName][name] = schema
		}
	}
	for _, pkg := range api.Packages {
		add(pkg.Name, pkg.Schemas)
		for _, sub := range pkg.SubPackages {
			add(pkg.Name+"."+sub.Name, sub.Schemas)
		}
	}
	return out
}

func c15d2Keys(m map[string]map[string]*schema_j5pb.RootSchema) []string {
	keys := make([]string, 0, len(m))
	for pkgName, schemas := range m {
		for name := range schemas {
			keys = append(keys, pkgName+"/"+name)
		}
	}
	sort.Strings(keys)
	return keys
}

func c15d2RoundTrip(t *testing.T, image *source_j5pb.SourceImage) {
	t.Helper()

	api, err := APIFromImage(image)
	if err != nil {
		t.Fatalf("APIFromImage: %s", err)
	}
	first := c15d2Flatten(api)

	// the shape under test: Envelope.payload is a oneof reference into demo.v1
	envelope := first["demo.v1.service"]["Envelope"].GetObject()
	if envelope == nil {
		t.Fatalf("Envelope was not exported as an object")
	}
	payloadRef := envelope.Properties[1].Schema.GetOneof().GetRef()
	if payloadRef == nil || payloadRef.Package != "demo.v1" || payloadRef.Schema != "Payload" {
		t.Fatalf("setup: Envelope.payload is not a oneof ref to demo.v1.Payload: %s", prototext.Format(envelope.Properties[1]))
	}

	schemaSet, err := j5schema.PackageSetFromSourceAPI(api.Packages)
	if err != nil {
		t.Fatalf("PackageSetFromSourceAPI: %s", err)
	}

	second := map[string]map[string]*schema_j5pb.RootSchema{}
	for pkgName, pkg := range schemaSet.Packages {
		for name, ref := range pkg.Schemas {
			if ref.To == nil {
				t.Fatalf("unresolved reference %s.%s after re-import", pkgName, name)
			}
			if second[pkgName] == nil {
				second[pkgName] = map[string]*schema_j5pb.RootSchema{}
			}
			second[pkgName][name] = ref.To.ToJ5Root()
		}
	}

	firstKeys := c15d2Keys(first)
	secondKeys := c15d2Keys(second)
	if len(firstKeys) != len(secondKeys) {
		t.Fatalf("first export has %v, second has %v", firstKeys, secondKeys)
	}
	for idx := range firstKeys {
		if firstKeys[idx] != secondKeys[idx] {
			t.Fatalf("first export has %v, second has %v", firstKeys, secondKeys)
		}
	}

	for pkgName, schemas := range first {
		for name, want := range schemas {
			got := second[pkgName][name]
			if !proto.Equal(want, got) {
				t.Errorf("%s.%s differs after round trip\nfirst:  %s\nsecond: %s", pkgName, name, prototext.Format(want), prototext.Format(got))
			}
		}
	}
}

func TestC15Demo2CrossPackageOneofRoundTrip(t *testing.T) {
	t.Run("oneof declared only in the other package", func(t *testing.T) {
		c15d2RoundTrip(t, c15d2Image(false))
	})
	t.Run("oneof of the same name in both packages", func(t *testing.T) {
		c15d2RoundTrip(t, c15d2Image(true))
	})
}
