// copy to: internal/structure/
package structure

// Demonstration for seeded change C15/1.
//
// A package with TWO sub-packages (demo.v1.service and demo.v1.topic) is
// reflected, exported to the source-API form, re-imported with
// j5schema.PackageSetFromSourceAPI and exported again. Both exports must be
// identical, package by package and schema by schema, and every reference
// must be resolved.

import (
	"sort"
	"testing"

	"github.com/pentops/j5/gen/j5/schema/v1/schema_j5pb"
	"github.com/pentops/j5/gen/j5/source/v1/source_j5pb"
	"github.com/pentops/j5/lib/j5schema"
	"google.golang.org/protobuf/encoding/prototext"
	"google.golang.org/protobuf/proto"
	"google.golang.org/protobuf/types/descriptorpb"
)

func c15d1Field(name string, number int32, typeName string) *descriptorpb.FieldDescriptorProto {
	f := &descriptorpb.FieldDescriptorProto{
		Name:   proto.String(name),
		Number: proto.Int32(number),
	}
	if typeName == "" {
		f.Type = descriptorpb.FieldDescriptorProto_TYPE_STRING.Enum()
	} else {
		f.Type = descriptorpb.FieldDescriptorProto_TYPE_MESSAGE.Enum()
		f.TypeName = proto.String(typeName)
	}
	return f
}

func c15d1Image() *source_j5pb.SourceImage {
	return &source_j5pb.SourceImage{
		Packages: []*source_j5pb.PackageInfo{{
			Label: "Demo",
			Name:  "demo.v1",
		}},
		File: []*descriptorpb.FileDescriptorProto{{
			Syntax:  proto.String("proto3"),
			Name:    proto.String("demo/v1/thing.proto"),
			Package: proto.String("demo.v1"),
			MessageType: []*descriptorpb.DescriptorProto{{
				Name:  proto.String("Thing"),
				Field: []*descriptorpb.FieldDescriptorProto{c15d1Field("thing_id", 1, "")},
			}},
		}, {
			Syntax:     proto.String("proto3"),
			Name:       proto.String("demo/v1/service/lookup.proto"),
			Package:    proto.String("demo.v1.service"),
			Dependency: []string{"demo/v1/thing.proto"},
			MessageType: []*descriptorpb.DescriptorProto{{
				Name: proto.String("Lookup"),
				Field: []*descriptorpb.FieldDescriptorProto{
					c15d1Field("thing", 1, ".demo.v1.Thing"),
				},
			}},
		}, {
			Syntax:     proto.String("proto3"),
			Name:       proto.String("demo/v1/topic/changed.proto"),
			Package:    proto.String("demo.v1.topic"),
			Dependency: []string{"demo/v1/thing.proto"},
			MessageType: []*descriptorpb.DescriptorProto{{
				Name: proto.String("ThingChanged"),
				Field: []*descriptorpb.FieldDescriptorProto{
					c15d1Field("thing", 1, ".demo.v1.Thing"),
					c15d1Field("note", 2, ""),
				},
			}},
		}},
	}
}

// c15d1Flatten lists the exported API as full package name -> schema name -> schema.
func c15d1Flatten(api *source_j5pb.API) map[string]map[string]*schema_j5pb.RootSchema {
	out := map[string]map[string]*schema_j5pb.RootSchema{}
	add := func(pkgName string, schemas map[string]*schema_j5pb.RootSchema) {
		if len(schemas) == 0 {
			return
		}
		if out[pkgName] == nil {
			out[pkgName] = map[string]*schema_j5pb.RootSchema{}
		}
		for name, schema := range schemas {
			out[pkgName][name] = schema
		}
	}
	for _, pkg := range api.Packages {
		add(pkg.Name, pkg.Schemas)
		for _, sub := range pkg.SubPackages {
			add(pkg.Name+"."+sub.Name, sub.Schemas)
		}
	}
	return out
}

func c15d1Keys(m map[string]map[string]*schema_j5pb.RootSchema) []string {
	keys := make([]string, 0, len(m))
	for pkgName, schemas := range m {
		for name := range schemas {
			keys = append(keys, pkgName+"/"+name)
		}
	}
	sort.Strings(keys)
	return keys
}

func TestC15Demo1TwoSubPackagesRoundTrip(t *testing.T) {
	api, err := APIFromImage(c15d1Image())
	if err != nil {
		t.Fatalf("APIFromImage: %s", err)
	}
	first := c15d1Flatten(api)

	schemaSet, err := j5schema.PackageSetFromSourceAPI(api.Packages)
	if err != nil {
		t.Fatalf("PackageSetFromSourceAPI: %s", err)
	}

	second := map[string]map[string]*schema_j5pb.RootSchema{}
	for pkgName, pkg := range schemaSet.Packages {
		for name, ref := range pkg.Schemas {
			if ref.To == nil {
				t.Fatalf("unresolved reference %s.%s after re-import", pkgName, name)
			}
			if second[pkgName] == nil {
				second[pkgName] = map[string]*schema_j5pb.RootSchema{}
			}
			second[pkgName][name] = ref.To.ToJ5Root()
		}
	}

	firstKeys := c15d1Keys(first)
	secondKeys := c15d1Keys(second)
	t.Logf("first export:  %v", firstKeys)
	t.Logf("second export: %v", secondKeys)

	if len(firstKeys) != len(secondKeys) {
		t.Fatalf("first export has %d schemas, second has %d", len(firstKeys), len(secondKeys))
	}
	for idx := range firstKeys {
		if firstKeys[idx] != secondKeys[idx] {
			t.Errorf("schema %d: first export has %s, second export has %s", idx, firstKeys[idx], secondKeys[idx])
		}
	}
	if t.Failed() {
		return
	}

	for pkgName, schemas := range first {
		for name, want := range schemas {
			got := second[pkgName][name]
			if !proto.Equal(want, got) {
				t.Errorf("%s.%s differs after round trip\nfirst:  %s\nsecond: %s", pkgName, name, prototext.Format(want), prototext.Format(got))
			}
		}
	}
}
