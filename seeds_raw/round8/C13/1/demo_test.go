// copy to: internal/j5s/protobuild/
package protobuild

import (
	"fmt"
	"sort"
	"testing"

	"google.golang.org/protobuf/reflect/protoreflect"
)

// c13Identities lists the wire identity of everything in the compiled files:
// one line per field, enum value and method.
func c13Identities(files fileSet) map[string]string {
	out := map[string]string{}
	var walkEnums func(enums protoreflect.EnumDescriptors)
	walkEnums = func(enums protoreflect.EnumDescriptors) {
		for i := 0; i < enums.Len(); i++ {
			e := enums.Get(i)
			out["enum "+string(e.FullName())] = ""
			for j := 0; j < e.Values().Len(); j++ {
				v := e.Values().Get(j)
				out[fmt.Sprintf("value %s#%d", e.FullName(), j)] = fmt.Sprintf("%s = %d", v.Name(), v.Number())
			}
		}
	}
	var walkMsgs func(msgs protoreflect.MessageDescriptors)
	walkMsgs = func(msgs protoreflect.MessageDescriptors) {
		for i := 0; i < msgs.Len(); i++ {
			m := msgs.Get(i)
			out["message "+string(m.FullName())] = ""
			for j := 0; j < m.Fields().Len(); j++ {
				f := m.Fields().Get(j)
				typeName := f.Kind().String()
				if f.Message() != nil {
					typeName = string(f.Message().FullName())
				}
				if f.Enum() != nil {
					typeName = string(f.Enum().FullName())
				}
				out[fmt.Sprintf("field %s.%s", m.FullName(), f.Name())] = fmt.Sprintf("number=%d type=%s label=%s json=%s", f.Number(), typeName, f.Cardinality(), f.JSONName())
			}
			walkMsgs(m.Messages())
			walkEnums(m.Enums())
		}
	}
	for _, file := range files {
		walkMsgs(file.Messages())
		walkEnums(file.Enums())
		for i := 0; i < file.Services().Len(); i++ {
			s := file.Services().Get(i)
			out["service "+string(s.FullName())] = ""
			for j := 0; j < s.Methods().Len(); j++ {
				m := s.Methods().Get(j)
				out["method "+string(m.FullName())] = fmt.Sprintf("in=%s out=%s", m.Input().FullName(), m.Output().FullName())
			}
		}
	}
	return out
}

// c13AssertAppendStable: everything that was compiled from the source before
// the append is still there, unchanged, after it.
func c13AssertAppendStable(t *testing.T, before, after fileSet) {
	t.Helper()
	was := c13Identities(before)
	is := c13Identities(after)
	keys := make([]string, 0, len(was))
	for k := range was {
		keys = append(keys, k)
	}
	sort.Strings(keys)
	for _, k := range keys {
		got, ok := is[k]
		if !ok {
			t.Errorf("%s: gone after the append", k)
		} else if got != was[k] {
			t.Errorf("%s: changed by the append\n  before: %s\n  after:  %s", k, was[k], got)
		}
	}
}

// A response that refers to an object of the package (Address) gets a new last
// field: an inline object whose generated name is also Address. The fields that
// were there before must keep their types. The same for a topic message and an
// enum of the package.
func TestC13AppendInlineFieldNextToPackageRef(t *testing.T) {
	compile := func(responseTail, messageTail []string) fileSet {
		lines := []string{
			"object Address {",
			"  field street string",
			"}",
			"enum Status {",
			"  option ACTIVE",
			"  option CLOSED",
			"}",
			"service Customer {",
			"  basePath = \"/customer\"",
			"  method GetCustomer {",
			"    httpMethod = \"GET\"",
			"    httpPath = \"/:id\"",
			"    request {",
			"      field id string",
			"    }",
			"    response {",
			"      field name string",
			"      field billing_address object:Address",
		}
		lines = append(lines, responseTail...)
		lines = append(lines,
			"    }",
			"  }",
			"}",
			"topic CustomerNews publish {",
			"  message Moved {",
			"    field id string",
			"    field was enum:Status",
		)
		lines = append(lines, messageTail...)
		lines = append(lines,
			"  }",
			"}",
		)
		tf := newTestFiles()
		tf.tAddJ5SFile("local/v1/foo.j5s", lines...)
		return testCompile(t, tf, newTestDeps(), "local.v1")
	}

	before := compile(nil, nil)

	t.Run("response", func(t *testing.T) {
		after := compile([]string{
			"      field address object {",
			"        field line string",
			"      }",
		}, nil)
		c13AssertAppendStable(t, before, after)
	})

	t.Run("topic message", func(t *testing.T) {
		after := compile(nil, []string{
			"    field status enum {",
			"      option MOVED",
			"      option GONE",
			"    }",
		})
		c13AssertAppendStable(t, before, after)
	})
}
