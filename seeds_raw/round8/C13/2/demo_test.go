// copy to: internal/j5s/protobuild/
package protobuild

import (
	"fmt"
	"sort"
	"testing"

	"google.golang.org/protobuf/reflect/protoreflect"
)

// c13Identities lists the wire identity of everything in the compiled files:
// one line per field, enum value and method.
func c13Identities(files fileSet) map[string]string {
	out := map[string]string{}
	var walkEnums func(enums protoreflect.EnumDescriptors)
	walkEnums = func(enums protoreflect.EnumDescriptors) {
		for i := 0; i < enums.Len(); i++ {
			e := enums.Get(i)
			out["enum "+string(e.FullName())] = ""
			for j := 0; j < e.Values().Len(); j++ {
				v := e.Values().Get(j)
				out[fmt.Sprintf("value %s#%d", e.FullName(), j)] = fmt.Sprintf("%s = %d", v.Name(), v.Number())
			}
		}
	}
	var walkMsgs func(msgs protoreflect.MessageDescriptors)
	walkMsgs = func(msgs protoreflect.MessageDescriptors) {
		for i := 0; i < msgs.Len(); i++ {
			m := msgs.Get(i)
			out["message "+string(m.FullName())] = ""
			for j := 0; j < m.Fields().Len(); j++ {
				f := m.Fields().Get(j)
				typeName := f.Kind().String()
				if f.Message() != nil {
					typeName = string(f.Message().FullName())
				}
				if f.Enum() != nil {
					typeName = string(f.Enum().FullName())
				}
				out[fmt.Sprintf("field %s.%s", m.FullName(), f.Name())] = fmt.Sprintf("number=%d type=%s label=%s json=%s", f.Number(), typeName, f.Cardinality(), f.JSONName())
			}
			walkMsgs(m.Messages())
			walkEnums(m.Enums())
		}
	}
	for _, file := range files {
		walkMsgs(file.Messages())
		walkEnums(file.Enums())
		for i := 0; i < file.Services().Len(); i++ {
			s := file.Services().Get(i)
			out["service "+string(s.FullName())] = ""
			for j := 0; j < s.Methods().Len(); j++ {
				m := s.Methods().Get(j)
				out["method "+string(m.FullName())] = fmt.Sprintf("in=%s out=%s", m.Input().FullName(), m.Output().FullName())
			}
		}
	}
	return out
}

// c13AssertAppendStable: everything that was compiled from the source before
// the append is still there, unchanged, after it.
func c13AssertAppendStable(t *testing.T, before, after fileSet) {
	t.Helper()
	was := c13Identities(before)
	is := c13Identities(after)
	keys := make([]string, 0, len(was))
	for k := range was {
		keys = append(keys, k)
	}
	sort.Strings(keys)
	for _, k := range keys {
		got, ok := is[k]
		if !ok {
			t.Errorf("%s: gone after the append", k)
		} else if got != was[k] {
			t.Errorf("%s: changed by the append\n  before: %s\n  after:  %s", k, was[k], got)
		}
	}
}

// Two enums called Status: one of this package, one imported. A later object
// (Shipment) uses the imported one. An earlier object (Order), which so far has
// no enum at all, gets a new last field of the package's own Status. Nothing
// that was compiled before may change; in particular Shipment.carrier_status
// stays other.v1.Status.
func TestC13AppendRefToSameNamedTypeInEarlierObject(t *testing.T) {
	compile := func(orderTail ...string) fileSet {
		lines := []string{
			`import "other/v1/carrier.j5s.proto"`,
			"enum Status {",
			"  option OPEN",
			"  option PAID",
			"}",
			"object Order {",
			"  field order_id string",
		}
		lines = append(lines, orderTail...)
		lines = append(lines,
			"}",
			"object Shipment {",
			"  field shipment_id string",
			"  field carrier_status enum:other.v1.Status",
			"}",
		)
		tf := newTestFiles()
		tf.tAddJ5SFile("other/v1/carrier.j5s",
			"enum Status {",
			"  option IN_TRANSIT",
			"  option DELIVERED",
			"  option LOST",
			"}",
		)
		tf.tAddJ5SFile("local/v1/foo.j5s", lines...)
		return testCompile(t, tf, newTestDeps(), "local.v1")
	}

	before := compile()
	after := compile(
		"  field status enum:Status",
	)
	c13AssertAppendStable(t, before, after)
}
