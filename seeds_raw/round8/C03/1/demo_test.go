// copy to: internal/codec/
package codec

import (
	"testing"

	"github.com/pentops/j5/gen/test/schema/v1/schema_testpb"
	"google.golang.org/protobuf/proto"
)

// A "!type" that contradicts the key present in a oneof must be rejected
// wherever the "!type" member stands in the object: member order is not
// significant in JSON.
func TestDemoOneofTypeAfterKey(t *testing.T) {
	codec := NewCodec()

	// sanity: the agreeing forms decode, in both orders, to the same message
	want := &schema_testpb.FullSchema{
		WrappedOneof: &schema_testpb.WrappedOneof{
			Type: &schema_testpb.WrappedOneof_WOneofString{WOneofString: "x"},
		},
	}
	for _, doc := range []string{
		`{"wrappedOneof": {"!type": "wOneofString", "wOneofString": "x"}}`,
		`{"wrappedOneof": {"wOneofString": "x", "!type": "wOneofString"}}`,
	} {
		msg := &schema_testpb.FullSchema{}
		if err := codec.JSONToProto([]byte(doc), msg.ProtoReflect()); err != nil {
			t.Fatalf("valid document %s rejected: %s", doc, err)
		}
		if !proto.Equal(want, msg) {
			t.Fatalf("valid document %s decoded to %v", doc, msg)
		}
	}

	for _, doc := range []string{
		// "!type" first
		`{"wrappedOneof": {"!type": "wOneofBar", "wOneofString": "x"}}`,
		// "!type" last
		`{"wrappedOneof": {"wOneofString": "x", "!type": "wOneofBar"}}`,
		// same, in an array element of exposed oneofs
		`{"nestedExposedOneofs": [{"type": {"!type": "de1", "de1": "a"}}, {"type": {"de2": "b", "!type": "de1"}}]}`,
		// same, on a oneof at the root
	} {
		msg := &schema_testpb.FullSchema{}
		err := codec.JSONToProto([]byte(doc), msg.ProtoReflect())
		if err == nil {
			t.Errorf("document %s has a !type contradicting its key but was accepted as %v", doc, msg)
		}
	}

	root := &schema_testpb.WrappedOneof{}
	doc := `{"wOneofFloat": 1.5, "!type": "wOneofString"}`
	if err := codec.JSONToProto([]byte(doc), root.ProtoReflect()); err == nil {
		t.Errorf("root oneof document %s has a !type contradicting its key but was accepted as %v", doc, root)
	}
}
