// copy to: internal/codec/
package codec

import (
	"fmt"
	"testing"

	"github.com/pentops/flowtest/prototest"
	"google.golang.org/protobuf/proto"
	"google.golang.org/protobuf/reflect/protoreflect"
	"google.golang.org/protobuf/types/dynamicpb"
)

// An enum whose prefix is STEP_ and which has both an option UP and an option
// STEP_UP (proto names STEP_UP and STEP_STEP_UP). The canonical spelling of the
// second option is "STEP_UP"; decoding what the encoder wrote must give the
// same message back, whichever order the options were declared in.
func TestDemoEnumShortNameBeginsWithPrefix(t *testing.T) {

	for _, order := range []struct {
		name   string
		values string
	}{{
		name: "longer name declared first",
		values: `
			STEP_UNSPECIFIED = 0;
			STEP_STEP_UP = 1;
			STEP_UP = 2;
			STEP_DOWN = 3;`,
	}, {
		name: "shorter name declared first",
		values: `
			STEP_UNSPECIFIED = 0;
			STEP_UP = 1;
			STEP_STEP_UP = 2;
			STEP_DOWN = 3;`,
	}} {
		t.Run(order.name, func(t *testing.T) {
			rs := prototest.DescriptorsFromSource(t, map[string]string{
				"test.proto": fmt.Sprintf(`
				syntax = "proto3";
				package test;
				enum Step {%s
				}
				message Move {
					Step step = 1;
					repeated Step steps = 2;
					map<string, Step> named = 3;
				}`, order.values),
			})
			desc := rs.MessageByName(t, "test.Move")
			enumDesc := desc.Fields().ByName("step").Enum()
			num := func(name protoreflect.Name) protoreflect.EnumNumber {
				v := enumDesc.Values().ByName(name)
				if v == nil {
					t.Fatalf("no enum value %s", name)
				}
				return v.Number()
			}

			codec := NewCodec()

			for _, protoName := range []protoreflect.Name{"STEP_UP", "STEP_STEP_UP", "STEP_DOWN"} {
				msgIn := dynamicpb.NewMessage(desc)
				val := protoreflect.ValueOfEnum(num(protoName))
				msgIn.Set(desc.Fields().ByName("step"), val)
				list := msgIn.Mutable(desc.Fields().ByName("steps")).List()
				list.Append(protoreflect.ValueOfEnum(num("STEP_DOWN")))
				list.Append(val)
				msgIn.Mutable(desc.Fields().ByName("named")).Map().Set(protoreflect.ValueOfString("k").MapKey(), val)

				asJSON, err := codec.ProtoToJSON(msgIn)
				if err != nil {
					t.Fatal(err)
				}

				msgOut := dynamicpb.NewMessage(desc)
				if err := codec.JSONToProto(asJSON, msgOut); err != nil {
					t.Fatalf("canonical encoding %s rejected: %s", asJSON, err)
				}
				if !proto.Equal(msgIn, msgOut) {
					t.Errorf("%s: canonical encoding %s decoded to a different message:\n want %v\n got  %v", protoName, asJSON, msgIn, msgOut)
				}
			}

			// the fully prefixed spellings stay unambiguous
			for _, tc := range []struct {
				doc  string
				want protoreflect.Name
			}{
				{`{"step": "UP"}`, "STEP_UP"},
				{`{"step": "STEP_STEP_UP"}`, "STEP_STEP_UP"},
				{`{"step": "STEP_DOWN"}`, "STEP_DOWN"},
				{`{"step": "DOWN"}`, "STEP_DOWN"},
			} {
				msgOut := dynamicpb.NewMessage(desc)
				if err := codec.JSONToProto([]byte(tc.doc), msgOut); err != nil {
					t.Fatalf("%s rejected: %s", tc.doc, err)
				}
				got := msgOut.Get(desc.Fields().ByName("step")).Enum()
				if got != num(tc.want) {
					t.Errorf("%s decoded to %d, want %s (%d)", tc.doc, got, tc.want, num(tc.want))
				}
			}
		})
	}
}
