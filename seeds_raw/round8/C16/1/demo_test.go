// copy to: internal/j5client/
//
// A list method whose response rows hold the same object type under two
// different fields (created / updated, both of type Stamp). Every declared
// filterable / sortable / searchable field of the row must be offered by the
// client API's list request, under each path it is reachable by.
package j5client_test

import (
	"context"
	"encoding/json"
	"fmt"
	"sort"
	"strings"
	"testing"

	"github.com/pentops/j5/gen/j5/client/v1/client_j5pb"
	"github.com/pentops/j5/gen/j5/source/v1/source_j5pb"
	"github.com/pentops/j5/internal/export"
	"github.com/pentops/j5/internal/j5client"
	"github.com/pentops/j5/internal/j5s/protobuild"
	"github.com/pentops/j5/internal/structure"
	"github.com/pentops/j5/lib/j5codec"
	"google.golang.org/protobuf/reflect/protodesc"
	"google.golang.org/protobuf/reflect/protoreflect"
	"google.golang.org/protobuf/types/descriptorpb"
)

// ---- in-memory pipeline: j5s -> descriptors -> image -> source API -> client API -> J5 JSON -> OpenAPI

type demoFiles struct {
	files map[string][]byte
	pkgs  []string
}

func (m *demoFiles) GetLocalFile(_ context.Context, name string) ([]byte, error) {
	if b, ok := m.files[name]; ok {
		return b, nil
	}
	return nil, fmt.Errorf("file not found: %s", name)
}
func (m *demoFiles) ListPackages() []string { return m.pkgs }
func (m *demoFiles) ListSourceFiles(_ context.Context, prefix string) ([]string, error) {
	var out []string
	for k := range m.files {
		if strings.HasPrefix(k, prefix) {
			out = append(out, k)
		}
	}
	sort.Strings(out)
	return out, nil
}

type demoNoDeps struct{}

func (demoNoDeps) ListDependencyFiles(string) []string { return nil }
func (demoNoDeps) GetDependencyFile(f string) (*descriptorpb.FileDescriptorProto, error) {
	return nil, fmt.Errorf("no dependency %s", f)
}

func demoPipeline(t *testing.T, pkg string, files map[string]string) *client_j5pb.API {
	t.Helper()
	mf := &demoFiles{files: map[string][]byte{}, pkgs: []string{pkg}}
	for k, v := range files {
		mf.files[k] = []byte(v)
	}
	ps, err := protobuild.NewPackageSet(demoNoDeps{}, mf)
	if err != nil {
		t.Fatalf("package set: %s", err)
	}
	linked, err := ps.CompilePackage(context.Background(), pkg)
	if err != nil {
		t.Fatalf("compile: %s", err)
	}
	img := &source_j5pb.SourceImage{
		Packages: []*source_j5pb.PackageInfo{{Name: pkg, Label: "demo"}},
	}
	seen := map[string]bool{}
	var add func(fd protoreflect.FileDescriptor)
	add = func(fd protoreflect.FileDescriptor) {
		if seen[fd.Path()] {
			return
		}
		seen[fd.Path()] = true
		imports := fd.Imports()
		for i := 0; i < imports.Len(); i++ {
			add(imports.Get(i).FileDescriptor)
		}
		img.File = append(img.File, protodesc.ToFileDescriptorProto(fd))
	}
	for _, f := range linked {
		add(f)
		img.SourceFilenames = append(img.SourceFilenames, f.Path())
	}
	sourceAPI, err := structure.APIFromImage(img)
	if err != nil {
		t.Fatalf("APIFromImage: %s", err)
	}
	clientAPI, err := j5client.APIFromSource(sourceAPI)
	if err != nil {
		t.Fatalf("APIFromSource: %s", err)
	}
	if _, err := j5codec.NewCodec().ProtoToJSON(clientAPI.ProtoReflect()); err != nil {
		t.Fatalf("ProtoToJSON: %s", err)
	}
	doc, err := export.BuildSwagger(clientAPI)
	if err != nil {
		t.Fatalf("BuildSwagger: %s", err)
	}
	if _, err := json.Marshal(doc); err != nil {
		t.Fatalf("swagger marshal: %s", err)
	}
	return clientAPI
}

func demoFindMethod(t *testing.T, api *client_j5pb.API, name string) *client_j5pb.Method {
	t.Helper()
	for _, pkg := range api.Packages {
		for _, svc := range pkg.Services {
			for _, m := range svc.Methods {
				if m.Name == name {
					return m
				}
			}
		}
	}
	t.Fatalf("method %s not in client API", name)
	return nil
}

const demoListSource = `package demo.v1

object Stamp {
	field at timestamp {
		listRules.sorting.sortable = true
		listRules.filtering.filterable = true
	}
	field by string {
		listRules.searching.searchable = true
	}
}

object Thing {
	field thingId key:id62
	field created object:Stamp
	field updated object:Stamp
}

service Thing {
	basePath = "/demo/v1/thing"

	method ListThings {
		httpMethod = "GET"
		httpPath = ""

		request {
			field page object:j5.list.v1.PageRequest
			field query object:j5.list.v1.QueryRequest
		}

		response {
			field things array:object:Thing
			field page object:j5.list.v1.PageResponse
		}
	}
}
`

func TestDemoListFieldsOfRepeatedObjectType(t *testing.T) {
	api := demoPipeline(t, "demo.v1", map[string]string{"demo/v1/thing.j5s": demoListSource})
	method := demoFindMethod(t, api, "ListThings")
	list := method.Request.List
	if list == nil {
		t.Fatalf("ListThings has no list request")
	}

	var sortable, filterable, searchable []string
	for _, f := range list.SortableFields {
		sortable = append(sortable, f.Name)
	}
	for _, f := range list.FilterableFields {
		filterable = append(filterable, f.Name)
	}
	for _, f := range list.SearchableFields {
		searchable = append(searchable, f.Name)
	}

	expect := func(what string, got []string, want ...string) {
		t.Helper()
		if strings.Join(got, ",") != strings.Join(want, ",") {
			t.Errorf("%s fields: got %q, want %q", what, got, want)
		}
	}
	expect("sortable", sortable, "created.at", "updated.at")
	expect("filterable", filterable, "created.at", "updated.at")
	expect("searchable", searchable, "created.by", "updated.by")
}
