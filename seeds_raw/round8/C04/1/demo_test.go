// copy to: internal/j5s/protobuild/
package protobuild

// Demonstration for C04 seed 1: a map that has BOTH pair-count rules
// (rules.minPairs / rules.maxPairs) AND a value type which carries validation
// of its own (key:id62, an integer with bounds, an enum with an in-list) must
// read back with the value schema the source declared.

import (
	"context"
	"testing"

	"github.com/pentops/j5/gen/j5/schema/v1/schema_j5pb"
	"github.com/pentops/j5/internal/j5s/protoprint"
	"github.com/pentops/j5/lib/j5schema"
	"google.golang.org/protobuf/proto"
	"google.golang.org/protobuf/reflect/protodesc"
	"google.golang.org/protobuf/reflect/protoreflect"
	"google.golang.org/protobuf/types/descriptorpb"
)

// seed1Retype re-links a file parsed from proto text against the generated Go
// option types, which is what the schema reflection expects.
func seed1Retype(t *testing.T, file protoreflect.FileDescriptor) protoreflect.FileDescriptor {
	t.Helper()
	set := &descriptorpb.FileDescriptorSet{}
	seen := map[string]bool{}
	var add func(f protoreflect.FileDescriptor)
	add = func(f protoreflect.FileDescriptor) {
		if seen[f.Path()] {
			return
		}
		seen[f.Path()] = true
		imports := f.Imports()
		for i := 0; i < imports.Len(); i++ {
			add(imports.Get(i).FileDescriptor)
		}
		set.File = append(set.File, protodesc.ToFileDescriptorProto(f))
	}
	add(file)
	raw, err := proto.Marshal(set)
	if err != nil {
		t.Fatal(err)
	}
	set2 := &descriptorpb.FileDescriptorSet{}
	if err := proto.Unmarshal(raw, set2); err != nil {
		t.Fatal(err)
	}
	reg, err := protodesc.NewFiles(set2)
	if err != nil {
		t.Fatal(err)
	}
	out, err := reg.FindFileByPath(file.Path())
	if err != nil {
		t.Fatal(err)
	}
	return out
}

func seed1Object(t *testing.T, file protoreflect.FileDescriptor, name string) *schema_j5pb.Object {
	t.Helper()
	msg := file.Messages().ByName(protoreflect.Name(name))
	if msg == nil {
		t.Fatalf("no message %s", name)
	}
	schema, err := j5schema.NewSchemaCache().Schema(msg)
	if err != nil {
		t.Fatalf("reflecting %s: %s", name, err)
	}
	obj := schema.ToJ5Root().GetObject()
	if obj == nil {
		t.Fatalf("%s is not an object", name)
	}
	return obj
}

func seed1Check(t *testing.T, route string, obj *schema_j5pb.Object) {
	t.Helper()
	props := map[string]*schema_j5pb.MapField{}
	for _, prop := range obj.Properties {
		mm := prop.GetSchema().GetMap()
		if mm == nil {
			t.Fatalf("%s: property %s is not a map", route, prop.Name)
		}
		props[prop.Name] = mm
	}

	// ids: map:key:id62 with maxPairs
	ids := props["ids"]
	if got := ids.GetRules().GetMaxPairs(); got != 3 {
		t.Errorf("%s: ids: maxPairs = %d, want 3", route, got)
	}
	if ids.GetItemSchema().GetKey().GetFormat().GetId62() == nil {
		t.Errorf("%s: ids: values declared key:id62, read back as %s", route, ids.GetItemSchema())
	}

	// counts: map:integer:INT32 with minPairs and a bound on the values
	counts := props["counts"]
	if got := counts.GetRules().GetMinPairs(); got != 1 {
		t.Errorf("%s: counts: minPairs = %d, want 1", route, got)
	}
	intRules := counts.GetItemSchema().GetInteger().GetRules()
	if intRules == nil || intRules.Minimum == nil || *intRules.Minimum != 5 {
		t.Errorf("%s: counts: values declared minimum 5, read back as %s", route, counts.GetItemSchema())
	}

	// kinds: map:enum with maxPairs and an in-list on the values
	kinds := props["kinds"]
	if got := kinds.GetRules().GetMaxPairs(); got != 2 {
		t.Errorf("%s: kinds: maxPairs = %d, want 2", route, got)
	}
	if in := kinds.GetItemSchema().GetEnum().GetRules().GetIn(); len(in) != 1 || in[0] != "A" {
		t.Errorf("%s: kinds: values declared in [A], read back as %s", route, kinds.GetItemSchema())
	}

	// plain: the same value type without pair rules (control)
	plain := props["plain"]
	if plain.GetItemSchema().GetKey().GetFormat().GetId62() == nil {
		t.Errorf("%s: plain: values declared key:id62, read back as %s", route, plain.GetItemSchema())
	}
	if !proto.Equal(plain.GetItemSchema(), ids.GetItemSchema()) {
		t.Errorf("%s: 'ids' and 'plain' declare the same value type but read back differently:\n ids:   %s\n plain: %s",
			route, ids.GetItemSchema(), plain.GetItemSchema())
	}
}

func TestSeed1MapPairRulesWithValueRules(t *testing.T) {
	tf := newTestFiles()
	tf.tAddJ5SFile("local/v1/foo.j5s",
		"object Foo {",
		"  field ids map:key:id62 {",
		"    rules.maxPairs = 3",
		"  }",
		"",
		"  field counts map:integer:INT32 {",
		"    rules.minPairs = 1",
		"    itemSchema.integer.rules.minimum = 5",
		"  }",
		"",
		"  field kinds map:enum:Kind {",
		"    rules.maxPairs = 2",
		"    itemSchema.enum.rules.in = [\"A\"]",
		"  }",
		"",
		"  field plain map:key:id62",
		"}",
		"",
		"enum Kind {",
		"  option A",
		"  option B",
		"}",
	)

	files := testCompile(t, tf, newTestDeps(), "local.v1")
	file := files.expectFile(t, "local/v1/foo.j5s.proto")

	// route 1: the in-memory descriptors
	seed1Check(t, "descriptors", seed1Object(t, file, "Foo"))

	// route 2: the generated .proto text, parsed again
	text, err := protoprint.PrintFile(context.Background(), file, "")
	if err != nil {
		t.Fatal(err)
	}
	tf2 := newTestFiles()
	tf2.localFiles["local/v1/foo.proto"] = []byte(text)
	tf2.tIncludePackage("local.v1")
	files2 := testCompile(t, tf2, newTestDeps(), "local.v1")
	file2 := seed1Retype(t, files2.expectFile(t, "local/v1/foo.proto"))
	seed1Check(t, "proto text", seed1Object(t, file2, "Foo"))
}
