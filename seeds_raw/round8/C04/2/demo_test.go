// copy to: internal/j5s/protobuild/
package protobuild

// Demonstration for C04 seed 2: an enum which declares its zero option
// explicitly ("option UNSPECIFIED" first) can be named in the not-in rule of an
// enum field. The rule must read back with every option the source listed,
// including that zero option, from both the descriptors and the proto text.

import (
	"context"
	"testing"

	"github.com/pentops/j5/gen/j5/schema/v1/schema_j5pb"
	"github.com/pentops/j5/internal/j5s/protoprint"
	"github.com/pentops/j5/lib/j5schema"
	"google.golang.org/protobuf/proto"
	"google.golang.org/protobuf/reflect/protodesc"
	"google.golang.org/protobuf/reflect/protoreflect"
	"google.golang.org/protobuf/types/descriptorpb"
)

// seed2Retype re-links a file parsed from proto text against the generated Go
// option types, which is what the schema reflection expects.
func seed2Retype(t *testing.T, file protoreflect.FileDescriptor) protoreflect.FileDescriptor {
	t.Helper()
	set := &descriptorpb.FileDescriptorSet{}
	seen := map[string]bool{}
	var add func(f protoreflect.FileDescriptor)
	add = func(f protoreflect.FileDescriptor) {
		if seen[f.Path()] {
			return
		}
		seen[f.Path()] = true
		imports := f.Imports()
		for i := 0; i < imports.Len(); i++ {
			add(imports.Get(i).FileDescriptor)
		}
		set.File = append(set.File, protodesc.ToFileDescriptorProto(f))
	}
	add(file)
	raw, err := proto.Marshal(set)
	if err != nil {
		t.Fatal(err)
	}
	set2 := &descriptorpb.FileDescriptorSet{}
	if err := proto.Unmarshal(raw, set2); err != nil {
		t.Fatal(err)
	}
	reg, err := protodesc.NewFiles(set2)
	if err != nil {
		t.Fatal(err)
	}
	out, err := reg.FindFileByPath(file.Path())
	if err != nil {
		t.Fatal(err)
	}
	return out
}

func seed2Object(t *testing.T, file protoreflect.FileDescriptor, name string) *schema_j5pb.Object {
	t.Helper()
	msg := file.Messages().ByName(protoreflect.Name(name))
	if msg == nil {
		t.Fatalf("no message %s", name)
	}
	schema, err := j5schema.NewSchemaCache().Schema(msg)
	if err != nil {
		t.Fatalf("reflecting %s: %s", name, err)
	}
	obj := schema.ToJ5Root().GetObject()
	if obj == nil {
		t.Fatalf("%s is not an object", name)
	}
	return obj
}

func seed2Check(t *testing.T, route string, obj *schema_j5pb.Object) {
	t.Helper()
	want := map[string][]string{
		"status":   {"UNSPECIFIED", "ARCHIVED"},
		"onlyZero": {"UNSPECIFIED"},
		"later":    {"ARCHIVED", "UNSPECIFIED"},
		"control":  {"ARCHIVED"},
		"history":  {"UNSPECIFIED", "ACTIVE"},
	}
	seen := 0
	for _, prop := range obj.Properties {
		wantNotIn, ok := want[prop.Name]
		if !ok {
			continue
		}
		seen++
		field := prop.GetSchema()
		if arr := field.GetArray(); arr != nil {
			field = arr.GetItems()
		}
		enumField := field.GetEnum()
		if enumField == nil {
			t.Fatalf("%s: property %s is not an enum: %s", route, prop.Name, prop.GetSchema())
		}
		got := enumField.GetRules().GetNotIn()
		if len(got) != len(wantNotIn) {
			t.Errorf("%s: %s: notIn read back as %q, source declared %q", route, prop.Name, got, wantNotIn)
			continue
		}
		for idx := range got {
			if got[idx] != wantNotIn[idx] {
				t.Errorf("%s: %s: notIn read back as %q, source declared %q", route, prop.Name, got, wantNotIn)
				break
			}
		}
	}
	if seen != len(want) {
		t.Fatalf("%s: found %d of %d properties", route, seen, len(want))
	}
}

func TestSeed2EnumNotInWithExplicitZeroOption(t *testing.T) {
	tf := newTestFiles()
	tf.tAddJ5SFile("local/v1/foo.j5s",
		"object Foo {",
		"  field status enum:Status {",
		"    rules.notIn = [\"UNSPECIFIED\", \"ARCHIVED\"]",
		"  }",
		"",
		"  field onlyZero enum:Status {",
		"    rules.notIn = [\"UNSPECIFIED\"]",
		"  }",
		"",
		"  field later enum:Status {",
		"    rules.notIn = [\"ARCHIVED\", \"UNSPECIFIED\"]",
		"  }",
		"",
		"  field control enum:Status {",
		"    rules.notIn = [\"ARCHIVED\"]",
		"  }",
		"",
		"  field history array:enum:Status {",
		"    items.enum.rules.notIn = [\"UNSPECIFIED\", \"ACTIVE\"]",
		"  }",
		"}",
		"",
		"enum Status {",
		"  option UNSPECIFIED",
		"  option ACTIVE",
		"  option ARCHIVED",
		"}",
	)

	files := testCompile(t, tf, newTestDeps(), "local.v1")
	file := files.expectFile(t, "local/v1/foo.j5s.proto")

	// the compiled enum has exactly the declared options, zero first
	status := file.Enums().ByName("Status")
	if status == nil || status.Values().Len() != 3 || status.Values().Get(0).Name() != "STATUS_UNSPECIFIED" {
		t.Fatalf("unexpected enum compiled from the source")
	}

	// route 1: the in-memory descriptors
	seed2Check(t, "descriptors", seed2Object(t, file, "Foo"))

	// route 2: the generated .proto text, parsed again
	text, err := protoprint.PrintFile(context.Background(), file, "")
	if err != nil {
		t.Fatal(err)
	}
	tf2 := newTestFiles()
	tf2.localFiles["local/v1/foo.proto"] = []byte(text)
	tf2.tIncludePackage("local.v1")
	files2 := testCompile(t, tf2, newTestDeps(), "local.v1")
	file2 := seed2Retype(t, files2.expectFile(t, "local/v1/foo.proto"))
	seed2Check(t, "proto text", seed2Object(t, file2, "Foo"))
}
