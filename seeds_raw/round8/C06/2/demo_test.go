// copy to: internal/codec/
package codec

import (
	"net/url"
	"runtime"
	"testing"
	"time"

	"github.com/pentops/j5/gen/test/schema/v1/schema_testpb"
)

// Decoding must stay bounded by the size of the input. Each input here is
// under 100 bytes; decoding it (whether it ends in success or in an error)
// must not allocate more than a few megabytes.
func TestSeedDecimalWorkBoundedByInput(t *testing.T) {
	const allocBound = 16 << 20 // bytes, for a document of < 100 bytes

	measure := func(t *testing.T, size int, run func() error) {
		t.Helper()
		var before, after runtime.MemStats
		runtime.GC()
		runtime.ReadMemStats(&before)
		start := time.Now()
		err := run()
		took := time.Since(start)
		runtime.ReadMemStats(&after)
		allocated := after.TotalAlloc - before.TotalAlloc
		t.Logf("input of %d bytes: err=%v, allocated %d bytes, took %s", size, err, allocated, took)
		if allocated > allocBound {
			t.Errorf("decoding %d bytes of input allocated %d bytes (bound %d)", size, allocated, allocBound)
		}
	}

	for _, doc := range []string{
		`{"decimal":"0e-100000000"}`,            // zero, quoted, huge negative exponent
		`{"decimal":0E-100000000}`,              // the same, unquoted
		`{"rDecimal":["1.5","0.0e-100000000"]}`, // second element of an array
		// controls: one unusual thing at a time
		`{"decimal":"0e-500"}`,
		`{"decimal":"0.000"}`,
		`{"decimal":"1e-100000000"}`,
	} {
		t.Run(doc, func(t *testing.T) {
			measure(t, len(doc), func() error {
				msg := &schema_testpb.FullSchema{}
				return NewCodec().JSONToProto([]byte(doc), msg.ProtoReflect())
			})
		})
	}

	t.Run("query", func(t *testing.T) {
		q := url.Values{"decimal": []string{"-0e-100000000"}}
		measure(t, len(q.Encode()), func() error {
			msg := &schema_testpb.FullSchema{}
			return NewCodec().QueryToProto(q, msg.ProtoReflect())
		})
	})
}
