// copy to: internal/codec/
package codec

import (
	"testing"

	"github.com/pentops/j5/gen/test/schema/v1/schema_testpb"
	"google.golang.org/protobuf/proto"
)

// A oneof that carries the optional "!type" marker together with a member
// whose value is null. Decoding must return (success or an error); it must
// not panic.
func TestSeedOneofTypeMarkerWithNullMember(t *testing.T) {
	for _, tc := range []struct {
		name string
		msg  proto.Message
		json string
	}{
		{"wrapper property", &schema_testpb.FullSchema{}, `{"wrappedOneof":{"!type":"wOneofBar","wOneofBar":null}}`},
		{"marker after member", &schema_testpb.FullSchema{}, `{"wrappedOneof":{"wOneofString":null,"!type":"wOneofString"}}`},
		{"marker names other member", &schema_testpb.FullSchema{}, `{"wrappedOneof":{"!type":"wOneofBar","wOneofFloat":null}}`},
		{"array element", &schema_testpb.FullSchema{}, `{"wrappedOneofs":[{"wOneofString":"x"},{"!type":"wOneofEnum","wOneofEnum":null}]}`},
		{"exposed oneof", &schema_testpb.FullSchema{}, `{"exposedOneof":{"!type":"exposedString","exposedString":null}}`},
		{"root oneof", &schema_testpb.WrappedOneof{}, `{"!type":"wOneofBar","wOneofBar":null}`},
		// controls: each feature on its own
		{"null member only", &schema_testpb.FullSchema{}, `{"wrappedOneof":{"wOneofBar":null}}`},
		{"marker only", &schema_testpb.FullSchema{}, `{"wrappedOneof":{"!type":"wOneofBar"}}`},
	} {
		t.Run(tc.name, func(t *testing.T) {
			defer func() {
				if r := recover(); r != nil {
					t.Fatalf("decoder panicked on %s: %v", tc.json, r)
				}
			}()
			err := NewCodec().JSONToProto([]byte(tc.json), tc.msg.ProtoReflect())
			t.Logf("returned: %v", err)
		})
	}
}
