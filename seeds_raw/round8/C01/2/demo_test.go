// copy to: internal/codec/
package codec

import (
	"testing"

	"github.com/pentops/j5/gen/j5/ext/v1/ext_j5pb"
	"google.golang.org/protobuf/proto"
	"google.golang.org/protobuf/reflect/protodesc"
	"google.golang.org/protobuf/reflect/protoreflect"
	"google.golang.org/protobuf/reflect/protoregistry"
	"google.golang.org/protobuf/types/descriptorpb"
	"google.golang.org/protobuf/types/dynamicpb"
)

func seedC01_2_str(name string, num int32) *descriptorpb.FieldDescriptorProto {
	return &descriptorpb.FieldDescriptorProto{
		Name:   proto.String(name),
		Number: proto.Int32(num),
		Type:   descriptorpb.FieldDescriptorProto_TYPE_STRING.Enum(),
		Label:  descriptorpb.FieldDescriptorProto_LABEL_OPTIONAL.Enum(),
	}
}

func seedC01_2_msg(name string, num int32, typeName string, flatten bool) *descriptorpb.FieldDescriptorProto {
	f := &descriptorpb.FieldDescriptorProto{
		Name:     proto.String(name),
		Number:   proto.Int32(num),
		Type:     descriptorpb.FieldDescriptorProto_TYPE_MESSAGE.Enum(),
		Label:    descriptorpb.FieldDescriptorProto_LABEL_OPTIONAL.Enum(),
		TypeName: proto.String(typeName),
	}
	if flatten {
		f.Options = &descriptorpb.FieldOptions{}
		proto.SetExtension(f.Options, ext_j5pb.E_Field, &ext_j5pb.FieldOptions{
			Type: &ext_j5pb.FieldOptions_Message{
				Message: &ext_j5pb.MessageFieldOptions{Flatten: true},
			},
		})
	}
	return f
}

func seedC01_2_file(t *testing.T, pkg string, msgs ...*descriptorpb.DescriptorProto) protoreflect.FileDescriptor {
	t.Helper()
	fdp := &descriptorpb.FileDescriptorProto{
		Name:        proto.String(pkg + "/seed.proto"),
		Package:     proto.String(pkg),
		Syntax:      proto.String("proto3"),
		Dependency:  []string{"j5/ext/v1/annotations.proto"},
		MessageType: msgs,
	}
	fd, err := protodesc.NewFile(fdp, protoregistry.GlobalFiles)
	if err != nil {
		t.Fatal(err)
	}
	return fd
}

func seedC01_2_roundTrip(t *testing.T, m *dynamicpb.Message, wantJSON string) {
	t.Helper()
	cc := NewCodec()
	out, err := cc.ProtoToJSON(m)
	if err != nil {
		t.Fatalf("ProtoToJSON: %s", err)
	}
	t.Logf("encoded: %s", out)
	if wantJSON != "" {
		CompareJSON(t, []byte(wantJSON), out)
	}
	back := dynamicpb.NewMessage(m.Descriptor())
	if err := cc.JSONToProto(out, back); err != nil {
		t.Fatalf("JSONToProto: %s", err)
	}
	if !proto.Equal(m, back) {
		t.Fatalf("round trip changed the message:\nwant %v\ngot  %v", m, back)
	}
}

// A flattened field never shows in the JSON under its own name: only the
// members of its message do. So the field's own name is free to be the name
// of one of those members (address.address is lifted to "address").
func TestSeedC01_2_FlattenedFieldNamedLikeItsMember(t *testing.T) {

	t.Run("control, all names differ", func(t *testing.T) {
		fd := seedC01_2_file(t, "seed.c01b.ctl.v1",
			&descriptorpb.DescriptorProto{Name: proto.String("Customer"), Field: []*descriptorpb.FieldDescriptorProto{
				seedC01_2_str("customer_id", 1),
				seedC01_2_msg("location", 5, ".seed.c01b.ctl.v1.Address", true),
			}},
			&descriptorpb.DescriptorProto{Name: proto.String("Address"), Field: []*descriptorpb.FieldDescriptorProto{
				seedC01_2_str("address", 1),
				seedC01_2_str("city", 2),
			}},
		)
		customer := fd.Messages().ByName("Customer")
		address := fd.Messages().ByName("Address")

		m := dynamicpb.NewMessage(customer)
		m.Set(customer.Fields().ByName("customer_id"), protoreflect.ValueOfString("c1"))
		am := m.Mutable(customer.Fields().ByName("location")).Message()
		am.Set(address.Fields().ByName("address"), protoreflect.ValueOfString("1 High St"))
		am.Set(address.Fields().ByName("city"), protoreflect.ValueOfString("Springfield"))

		seedC01_2_roundTrip(t, m, `{"customerId":"c1","address":"1 High St","city":"Springfield"}`)
	})

	t.Run("flattened field has the name of its own member", func(t *testing.T) {
		fd := seedC01_2_file(t, "seed.c01b.own.v1",
			&descriptorpb.DescriptorProto{Name: proto.String("Customer"), Field: []*descriptorpb.FieldDescriptorProto{
				seedC01_2_str("customer_id", 1),
				seedC01_2_msg("address", 5, ".seed.c01b.own.v1.Address", true),
			}},
			&descriptorpb.DescriptorProto{Name: proto.String("Address"), Field: []*descriptorpb.FieldDescriptorProto{
				seedC01_2_str("address", 1),
				seedC01_2_str("city", 2),
			}},
		)
		customer := fd.Messages().ByName("Customer")
		address := fd.Messages().ByName("Address")

		m := dynamicpb.NewMessage(customer)
		m.Set(customer.Fields().ByName("customer_id"), protoreflect.ValueOfString("c1"))
		am := m.Mutable(customer.Fields().ByName("address")).Message()
		am.Set(address.Fields().ByName("address"), protoreflect.ValueOfString("1 High St"))
		am.Set(address.Fields().ByName("city"), protoreflect.ValueOfString("Springfield"))

		seedC01_2_roundTrip(t, m, `{"customerId":"c1","address":"1 High St","city":"Springfield"}`)
	})

	t.Run("flattened field has the name of a member of another flattened field", func(t *testing.T) {
		fd := seedC01_2_file(t, "seed.c01b.other.v1",
			&descriptorpb.DescriptorProto{Name: proto.String("Order"), Field: []*descriptorpb.FieldDescriptorProto{
				seedC01_2_msg("meta", 1, ".seed.c01b.other.v1.Audit", true),
				seedC01_2_msg("body", 2, ".seed.c01b.other.v1.Body", true),
			}},
			&descriptorpb.DescriptorProto{Name: proto.String("Audit"), Field: []*descriptorpb.FieldDescriptorProto{
				seedC01_2_str("created_by", 1),
			}},
			&descriptorpb.DescriptorProto{Name: proto.String("Body"), Field: []*descriptorpb.FieldDescriptorProto{
				seedC01_2_str("meta", 1),
				seedC01_2_str("note", 2),
			}},
		)
		order := fd.Messages().ByName("Order")
		audit := fd.Messages().ByName("Audit")
		body := fd.Messages().ByName("Body")

		m := dynamicpb.NewMessage(order)
		xm := m.Mutable(order.Fields().ByName("meta")).Message()
		xm.Set(audit.Fields().ByName("created_by"), protoreflect.ValueOfString("someone"))
		bm := m.Mutable(order.Fields().ByName("body")).Message()
		bm.Set(body.Fields().ByName("meta"), protoreflect.ValueOfString("free text"))
		bm.Set(body.Fields().ByName("note"), protoreflect.ValueOfString("n"))

		seedC01_2_roundTrip(t, m, `{"createdBy":"someone","meta":"free text","note":"n"}`)
	})

	t.Run("flattened inside flattened, inner field named like a leaf member", func(t *testing.T) {
		fd := seedC01_2_file(t, "seed.c01b.deep.v1",
			&descriptorpb.DescriptorProto{Name: proto.String("Top"), Field: []*descriptorpb.FieldDescriptorProto{
				seedC01_2_str("top_id", 1),
				seedC01_2_msg("mid", 5, ".seed.c01b.deep.v1.Mid", true),
			}},
			&descriptorpb.DescriptorProto{Name: proto.String("Mid"), Field: []*descriptorpb.FieldDescriptorProto{
				seedC01_2_str("mid_id", 1),
				seedC01_2_msg("tag", 7, ".seed.c01b.deep.v1.Leaf", true),
			}},
			&descriptorpb.DescriptorProto{Name: proto.String("Leaf"), Field: []*descriptorpb.FieldDescriptorProto{
				seedC01_2_str("tag", 3),
				seedC01_2_str("colour", 4),
			}},
		)
		top := fd.Messages().ByName("Top")
		mid := fd.Messages().ByName("Mid")
		leaf := fd.Messages().ByName("Leaf")

		m := dynamicpb.NewMessage(top)
		m.Set(top.Fields().ByName("top_id"), protoreflect.ValueOfString("t"))
		mm := m.Mutable(top.Fields().ByName("mid")).Message()
		mm.Set(mid.Fields().ByName("mid_id"), protoreflect.ValueOfString("m"))
		lm := mm.Mutable(mid.Fields().ByName("tag")).Message()
		lm.Set(leaf.Fields().ByName("tag"), protoreflect.ValueOfString("a"))
		lm.Set(leaf.Fields().ByName("colour"), protoreflect.ValueOfString("b"))

		seedC01_2_roundTrip(t, m, `{"topId":"t","midId":"m","tag":"a","colour":"b"}`)
	})
}
