// copy to: internal/codec/
package codec

import (
	"testing"

	"google.golang.org/protobuf/encoding/prototext"
	"google.golang.org/protobuf/proto"

	"github.com/pentops/j5/gen/test/schema/v1/schema_testpb"
	"github.com/pentops/j5/j5types/any_j5t"
)

// Round trip of a message holding a j5 Any whose embedded J5 JSON has a string
// with the characters <, > and & in it. decode(encode(m)) must equal m.
func TestSeedC01_1_AnyJ5JsonRoundTrip(t *testing.T) {

	for _, tc := range []struct {
		name  string
		barID string
	}{
		{name: "plain", barID: "plain-id"},
		{name: "quotes and unicode", barID: "q\"uo\\te é \U0001F600"},
		{name: "angle brackets", barID: "a<b"},
		{name: "ampersand", barID: "fish & chips"},
		{name: "line separator", barID: "one\u2028two"},
	} {
		t.Run(tc.name, func(t *testing.T) {
			for _, withProto := range []bool{false, true} {
				var cc *Codec
				if withProto {
					cc = NewCodec(WithProtoToAny())
				} else {
					cc = NewCodec()
				}

				inner := &schema_testpb.Bar{BarId: tc.barID}

				// the any value as the codec itself builds it
				anyVal, err := cc.EncodeAny(inner.ProtoReflect())
				if err != nil {
					t.Fatal(err)
				}
				if !withProto {
					anyVal = &any_j5t.Any{
						TypeName: anyVal.TypeName,
						J5Json:   anyVal.J5Json,
					}
				}

				orig := &schema_testpb.FullSchema{
					SString: "outer",
					J5Any:   anyVal,
				}

				encoded, err := cc.ProtoToJSON(orig.ProtoReflect())
				if err != nil {
					t.Fatalf("ProtoToJSON: %s", err)
				}
				t.Logf("encoded: %s", string(encoded))

				back := &schema_testpb.FullSchema{}
				if err := cc.JSONToProto(encoded, back.ProtoReflect()); err != nil {
					t.Fatalf("JSONToProto: %s", err)
				}

				if !proto.Equal(orig, back) {
					t.Fatalf("withProto=%v: round trip changed the message\nwant: %s\ngot:  %s",
						withProto, prototext.Format(orig), prototext.Format(back))
				}

				// and the embedded value still reads as the inner message
				gotInner := &schema_testpb.Bar{}
				if err := cc.DecodeAnyTo(back.J5Any, gotInner); err != nil {
					t.Fatalf("DecodeAnyTo: %s", err)
				}
				if !proto.Equal(inner, gotInner) {
					t.Fatalf("inner message changed: want %s got %s", prototext.Format(inner), prototext.Format(gotInner))
				}
			}
		})
	}
}
