// copy to: internal/bcl/internal/parser/
package parser

import (
	"fmt"
	"strings"
	"testing"
)

// demoApplyEdits checks that the edits are ordered, non-overlapping and within
// the document, and applies them line-wise.
func demoApplyEdits(input string, diffs []FmtDiff) (string, error) {
	lines := strings.Split(input, "\n")
	prevEnd := 0
	var sb strings.Builder
	for i, d := range diffs {
		if d.FromLine < prevEnd {
			return "", fmt.Errorf("edit %d [%d,%d) overlaps or is out of order (previous end %d)", i, d.FromLine, d.ToLine, prevEnd)
		}
		if d.FromLine > d.ToLine || d.ToLine > len(lines) {
			return "", fmt.Errorf("edit %d [%d,%d) malformed for %d lines", i, d.FromLine, d.ToLine, len(lines))
		}
		for _, l := range lines[prevEnd:d.FromLine] {
			sb.WriteString(l + "\n")
		}
		sb.WriteString(d.NewText)
		prevEnd = d.ToLine
	}
	for _, l := range lines[prevEnd:] {
		sb.WriteString(l + "\n")
	}
	return sb.String(), nil
}

func TestDemoSharedLineThenMultiLine(t *testing.T) {
	for _, input := range []string{
		// a statement that starts on the line of a closing brace and runs on
		// to the next line through an escaped newline in its string value
		"blk a {\n} x = \"p\\\nq\"\ny = 1\n",
		// same, as the last statement of the file
		"blk a {\n} x = \"p\\\nq\"\n",
		// a block comment that opens on the closing-brace line and ends on the next
		"blk a {\n} /* c\n d */\ny = 1\n",
	} {
		want, err := Fmt(input)
		if err != nil {
			t.Fatalf("Fmt(%q): %v", input, err)
		}
		diffs, err := FmtDiffs(input)
		if err != nil {
			t.Fatalf("FmtDiffs(%q): %v", input, err)
		}
		got, err := demoApplyEdits(input, diffs)
		if err != nil {
			t.Errorf("input %q: %v", input, err)
			continue
		}
		if strings.TrimRight(got, "\n") != strings.TrimRight(want, "\n") {
			t.Errorf("input %q:\n applied edits: %q\n formatter:     %q\n edits: %#v", input, got, want, diffs)
		}
	}
}
