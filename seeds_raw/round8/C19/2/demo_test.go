// copy to: internal/bcl/internal/parser/
package parser

import (
	"fmt"
	"strings"
	"testing"
)

// demoApplyEdits2 checks that the edits are ordered, non-overlapping and
// within the document, and applies them line-wise.
func demoApplyEdits2(input string, diffs []FmtDiff) (string, error) {
	lines := strings.Split(input, "\n")
	prevEnd := 0
	var sb strings.Builder
	for i, d := range diffs {
		if d.FromLine < prevEnd {
			return "", fmt.Errorf("edit %d [%d,%d) overlaps or is out of order (previous end %d)", i, d.FromLine, d.ToLine, prevEnd)
		}
		if d.FromLine > d.ToLine || d.ToLine > len(lines) {
			return "", fmt.Errorf("edit %d [%d,%d) malformed for %d lines", i, d.FromLine, d.ToLine, len(lines))
		}
		for _, l := range lines[prevEnd:d.FromLine] {
			sb.WriteString(l + "\n")
		}
		sb.WriteString(d.NewText)
		prevEnd = d.ToLine
	}
	for _, l := range lines[prevEnd:] {
		sb.WriteString(l + "\n")
	}
	return sb.String(), nil
}

func TestDemoQualifierWithEscapedNewline(t *testing.T) {
	for _, input := range []string{
		// body-less block header, last statement of the file, whose
		// qualifier is a string carrying an escaped newline
		"x = 1\nblk a : \"q\\\nr\"\n",
		// same with a trailing comment
		"blk a : \"q\\\nr\" // c\n",
		// second qualifier rather than the first
		"blk a : b : \"q\\\nr\"",
	} {
		want, err := Fmt(input)
		if err != nil {
			t.Fatalf("Fmt(%q): %v", input, err)
		}
		diffs, err := FmtDiffs(input)
		if err != nil {
			t.Fatalf("FmtDiffs(%q): %v", input, err)
		}
		got, err := demoApplyEdits2(input, diffs)
		if err != nil {
			t.Errorf("input %q: %v", input, err)
			continue
		}
		if strings.TrimRight(got, "\n") != strings.TrimRight(want, "\n") {
			t.Errorf("input %q:\n applied edits: %q\n formatter:     %q\n edits: %#v", input, got, want, diffs)
		}
	}
}
