// copy to: internal/j5s/protobuild/
package protobuild

import (
	"context"
	"strings"
	"testing"
)

// An entity is a documented root element; its keys may be primary, shard keys,
// both or neither. Every combination must compile and link: the generated
// query service takes the primary and the shard keys in its request messages
// and URL paths.
func TestDemoC07EntityShardKeys(t *testing.T) {
	for _, tc := range []struct {
		name string
		keys []string
	}{{
		name: "primary only",
		keys: []string{
			"  key fooId key:id62 {",
			"    primary = true",
			"  }",
		},
	}, {
		name: "primary which is also the shard key",
		keys: []string{
			"  key fooId key:id62 {",
			"    primary = true",
			"    shardKey = true",
			"  }",
		},
	}, {
		name: "primary and a plain tenant key",
		keys: []string{
			"  key fooId key:id62 {",
			"    primary = true",
			"  }",
			"  key accountId key:id62 {",
			"    tenant = \"account\"",
			"  }",
		},
	}, {
		name: "primary, then a shard key which is not primary",
		keys: []string{
			"  key fooId key:id62 {",
			"    primary = true",
			"  }",
			"  key accountId key:id62 {",
			"    shardKey = true",
			"  }",
		},
	}, {
		name: "shard key which is not primary, then primary",
		keys: []string{
			"  key accountId key:id62 {",
			"    shardKey = true",
			"  }",
			"  key fooId key:id62 {",
			"    primary = true",
			"  }",
		},
	}} {
		t.Run(tc.name, func(t *testing.T) {
			body := []string{"entity Foo {"}
			body = append(body, tc.keys...)
			body = append(body,
				"  data name string",
				"  status ACTIVE",
				"  event Create {",
				"    field name string",
				"  }",
				"}",
			)

			tf := newTestFiles()
			tf.tAddJ5SFile("local/v1/foo.j5s", body...)
			td := newTestDeps()

			cc, err := NewPackageSet(td, tf)
			if err != nil {
				t.Fatalf("NewPackageSet: %s", err)
			}
			out, err := cc.CompilePackage(context.Background(), "local.v1")
			if err != nil {
				t.Fatalf("valid entity was not accepted: %s", err)
			}

			// the Get request of the query service has each URL key exactly once
			var checked bool
			for _, file := range out {
				if !strings.HasPrefix(file.Path(), "local/v1/service/") {
					continue
				}
				req := file.Messages().ByName("FooGetRequest")
				if req == nil {
					t.Fatalf("FooGetRequest missing from %s", file.Path())
				}
				seen := map[string]bool{}
				for i := 0; i < req.Fields().Len(); i++ {
					name := string(req.Fields().Get(i).Name())
					if seen[name] {
						t.Fatalf("field %s twice in FooGetRequest", name)
					}
					seen[name] = true
				}
				if !seen["foo_id"] {
					t.Fatalf("primary key foo_id is not in FooGetRequest (has %v)", seen)
				}
				checked = true
			}
			if !checked {
				t.Fatalf("no service file in the output")
			}
		})
	}
}
