// copy to: internal/j5s/protobuild/
package protobuild

import (
	"context"
	"testing"
)

// A package that contains nothing but one object with map fields must compile
// and link, whatever (valid) spelling the map property names have.
func TestDemoC07MapFieldNames(t *testing.T) {
	for _, tc := range []struct {
		name  string
		field string
	}{
		{name: "plain", field: "labels"},
		{name: "camel", field: "fooBar"},
		{name: "snake", field: "foo_bar"},
		{name: "digit then upper", field: "line2Items"},
		// an acronym in the name: proto field tags_by_id
		{name: "acronym", field: "tagsByID"},
		// a digit followed by a lower case letter: proto field address_2_line
		{name: "digit then lower", field: "address2line"},
	} {
		t.Run(tc.name, func(t *testing.T) {
			tf := newTestFiles()
			tf.tAddJ5SFile("local/v1/foo.j5s",
				"object Foo {",
				"  field "+tc.field+" map:string",
				"}",
			)
			td := newTestDeps()

			cc, err := NewPackageSet(td, tf)
			if err != nil {
				t.Fatalf("NewPackageSet: %s", err)
			}
			out, err := cc.CompilePackage(context.Background(), "local.v1")
			if err != nil {
				t.Fatalf("valid package was not accepted: %s", err)
			}
			var found bool
			for _, file := range out {
				if file.Path() != "local/v1/foo.j5s.proto" {
					continue
				}
				msg := file.Messages().ByName("Foo")
				if msg == nil {
					t.Fatalf("message Foo missing")
				}
				if msg.Fields().Len() != 1 || !msg.Fields().Get(0).IsMap() {
					t.Fatalf("field %s is not a map in the linked file", tc.field)
				}
				found = true
			}
			if !found {
				t.Fatalf("local/v1/foo.j5s.proto not in output")
			}
		})
	}
}
