// copy to: internal/j5s/protobuild/
package protobuild

// Demonstration for C12 seed 2: `rules.maxLength` of a j5s string field is a
// limit on the number of characters, so a string of exactly maxLength
// non-ASCII characters must be accepted. Uses the package's own test helpers
// (newTestFiles / newTestDeps / testCompile) to compile the j5s source, then
// validates dynamic messages with the standard protovalidate validator.

import (
	"testing"

	"github.com/bufbuild/protovalidate-go"
	"google.golang.org/protobuf/reflect/protoreflect"
	"google.golang.org/protobuf/types/dynamicpb"
)

func TestSeedC12_2_StringMaxLengthCharacters(t *testing.T) {
	tf := newTestFiles()
	tf.tAddJ5SFile("local/v1/foo.j5s",
		"object Foo {",
		// An (empty) array of id62 keys makes the converter add the
		// buf/validate import; on the unchanged tree a file whose only rules
		// are string rules fails to link. Unrelated to this demonstration.
		"  field refs array:key:id62",
		"  field name string {",
		"    rules.minLength = 2",
		"    rules.maxLength = 3",
		"  }",
		"}",
	)
	files := testCompile(t, tf, newTestDeps(), "local.v1")
	file := files.expectFile(t, "local/v1/foo.j5s.proto")
	md := file.Messages().ByName("Foo")
	if md == nil {
		t.Fatal("message Foo not found")
	}

	v, err := protovalidate.New()
	if err != nil {
		t.Fatal(err)
	}

	check := func(name string, wantValid bool) {
		t.Helper()
		msg := dynamicpb.NewMessage(md)
		msg.Set(md.Fields().ByName("name"), protoreflect.ValueOfString(name))
		err := v.Validate(msg)
		if wantValid && err != nil {
			t.Errorf("name=%q: expected valid, got %v", name, err)
		}
		if !wantValid && err == nil {
			t.Errorf("name=%q: expected a violation, got none", name)
		}
	}

	// ASCII: below / at / above each bound
	check("a", false)
	check("ab", true)
	check("abc", true)
	check("abcd", false)

	// multi-byte characters: the limits count characters, not bytes
	check("é", false)    // 1 character, 2 bytes
	check("éé", true)    // 2 characters, 4 bytes
	check("日本語", true)   // 3 characters, 9 bytes: exactly maxLength
	check("日本語で", false) // 4 characters
}
