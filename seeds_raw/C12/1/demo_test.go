// copy to: internal/j5s/protobuild/
package protobuild

// Demonstration for C12 seed 1: an int64 field declared with `minimum = 0`
// must reject negative values. Uses the package's own test helpers
// (newTestFiles / newTestDeps / testCompile) to compile the j5s source, then
// validates dynamic messages with the standard protovalidate validator.

import (
	"testing"

	"github.com/bufbuild/protovalidate-go"
	"google.golang.org/protobuf/reflect/protoreflect"
	"google.golang.org/protobuf/types/dynamicpb"
)

func TestSeedC12_1_Int64ZeroMinimum(t *testing.T) {
	tf := newTestFiles()
	tf.tAddJ5SFile("local/v1/foo.j5s",
		"object Foo {",
		// An (empty) array of id62 keys makes the converter add the
		// buf/validate import; on the unchanged tree a file whose only rules
		// are integer rules fails to link. Unrelated to this demonstration.
		"  field refs array:key:id62",
		"  field zeroMin integer:INT64 {",
		"    rules.minimum = 0",
		"    rules.exclusiveMinimum = false",
		"  }",
		"  field posMin integer:INT64 {",
		"    rules.minimum = 10",
		"    rules.exclusiveMinimum = false",
		"  }",
		"}",
	)
	files := testCompile(t, tf, newTestDeps(), "local.v1")
	file := files.expectFile(t, "local/v1/foo.j5s.proto")
	md := file.Messages().ByName("Foo")
	if md == nil {
		t.Fatal("message Foo not found")
	}

	v, err := protovalidate.New()
	if err != nil {
		t.Fatal(err)
	}

	check := func(zeroMin, posMin int64, wantValid bool) {
		t.Helper()
		msg := dynamicpb.NewMessage(md)
		msg.Set(md.Fields().ByName("zero_min"), protoreflect.ValueOfInt64(zeroMin))
		msg.Set(md.Fields().ByName("pos_min"), protoreflect.ValueOfInt64(posMin))
		err := v.Validate(msg)
		if wantValid && err != nil {
			t.Errorf("zeroMin=%d posMin=%d: expected valid, got %v", zeroMin, posMin, err)
		}
		if !wantValid && err == nil {
			t.Errorf("zeroMin=%d posMin=%d: expected a violation, got none", zeroMin, posMin)
		}
	}

	// well inside both bounds
	check(5, 50, true)
	// non-zero lower bound: far below is rejected
	check(5, 3, false)
	// zero lower bound: far below (negative) must be rejected too
	check(-5, 50, false)
	check(-1, 50, false)
}
