// copy to: internal/j5s/protobuild/
package protobuild

// Demonstration for C12 seed 3: an array field that declares both array-level
// rules (item counts / uniqueness) and per-item rules must enforce both.
// Uses the package's own test helpers (newTestFiles / newTestDeps /
// testCompile) to compile the j5s source, then validates dynamic messages
// with the standard protovalidate validator.

import (
	"testing"

	"github.com/bufbuild/protovalidate-go"
	"google.golang.org/protobuf/reflect/protoreflect"
	"google.golang.org/protobuf/types/dynamicpb"
)

func TestSeedC12_3_ArrayRulesWithItemRules(t *testing.T) {
	tf := newTestFiles()
	tf.tAddJ5SFile("local/v1/foo.j5s",
		"object Foo {",
		// item rules only
		"  field plain array:string {",
		"    items.string.rules.minLength = 2",
		"  }",
		// item rules and array rules together
		"  field tags array:string {",
		"    rules.minItems = 1",
		"    rules.maxItems = 3",
		"    rules.uniqueItems = true",
		"    items.string.rules.minLength = 2",
		"  }",
		// item rules implied by the item type, plus array rules
		"  field ids array:key:id62 {",
		"    rules.maxItems = 2",
		"  }",
		"}",
	)
	files := testCompile(t, tf, newTestDeps(), "local.v1")
	file := files.expectFile(t, "local/v1/foo.j5s.proto")
	md := file.Messages().ByName("Foo")
	if md == nil {
		t.Fatal("message Foo not found")
	}

	v, err := protovalidate.New()
	if err != nil {
		t.Fatal(err)
	}

	const goodID = "0000000000000000000001" // 22 base62 characters

	check := func(label string, plain, tags, ids []string, wantValid bool) {
		t.Helper()
		msg := dynamicpb.NewMessage(md)
		for name, vals := range map[string][]string{"plain": plain, "tags": tags, "ids": ids} {
			list := msg.Mutable(md.Fields().ByName(protoreflect.Name(name))).List()
			for _, s := range vals {
				list.Append(protoreflect.ValueOfString(s))
			}
		}
		err := v.Validate(msg)
		if wantValid && err != nil {
			t.Errorf("%s: expected valid, got %v", label, err)
		}
		if !wantValid && err == nil {
			t.Errorf("%s: expected a violation, got none", label)
		}
	}

	okTags := []string{"aa", "bb"}

	check("all good", []string{"xx"}, okTags, []string{goodID}, true)

	// array-level rules
	check("tags: too few items", nil, nil, nil, false)
	check("tags: too many items", nil, []string{"aa", "bb", "cc", "dd"}, nil, false)
	check("tags: duplicate items", nil, []string{"aa", "aa"}, nil, false)
	check("ids: too many items", nil, okTags, []string{goodID, goodID, goodID}, false)

	// per-item rules, array without array-level rules
	check("plain: short item", []string{"x"}, okTags, nil, false)

	// per-item rules on arrays which also have array-level rules
	check("tags: short item", nil, []string{"aa", "b"}, nil, false)
	check("ids: item is not an id62", nil, okTags, []string{"not-an-id"}, false)
}
