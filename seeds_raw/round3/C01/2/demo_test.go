// copy to: internal/codec/
package codec

import (
	"testing"

	"github.com/pentops/flowtest/prototest"
	"google.golang.org/protobuf/proto"
	"google.golang.org/protobuf/reflect/protoreflect"
	"google.golang.org/protobuf/types/dynamicpb"
)

// A message that has a oneof called "type" whose members are all messages,
// but which ALSO has ordinary fields next to the oneof, is a plain object (the
// oneof members are just optional properties of it). It must round-trip.
func TestSeedC01_2_ObjectWithTypeOneofAndSiblings(t *testing.T) {
	rs := prototest.DescriptorsFromSource(t, map[string]string{
		"seed/v1/thing.proto": `
			syntax = "proto3";
			package seed.v1;

			message Thing {
				string thing_id = 1;
				Meta meta = 2;
				oneof type {
					Foo foo = 10;
					Bar bar = 11;
				}
			}
			message Meta { string note = 1; }
			message Foo { string name = 1; }
			message Bar { int32 size = 1; }
		`,
	})

	desc := rs.MessageByName(t, "seed.v1.Thing")
	fooDesc := rs.MessageByName(t, "seed.v1.Foo")
	barDesc := rs.MessageByName(t, "seed.v1.Bar")
	metaDesc := rs.MessageByName(t, "seed.v1.Meta")
	field := func(d protoreflect.MessageDescriptor, name string) protoreflect.FieldDescriptor {
		fd := d.Fields().ByName(protoreflect.Name(name))
		if fd == nil {
			t.Fatalf("no field %s", name)
		}
		return fd
	}

	for _, tc := range []struct {
		name  string
		build func(m *dynamicpb.Message)
	}{{
		name: "id and foo",
		build: func(m *dynamicpb.Message) {
			m.Set(field(desc, "thing_id"), protoreflect.ValueOfString("thing-1"))
			foo := dynamicpb.NewMessage(fooDesc)
			foo.Set(field(fooDesc, "name"), protoreflect.ValueOfString("the foo"))
			m.Set(field(desc, "foo"), protoreflect.ValueOfMessage(foo))
		},
	}, {
		name: "meta and bar",
		build: func(m *dynamicpb.Message) {
			meta := dynamicpb.NewMessage(metaDesc)
			meta.Set(field(metaDesc, "note"), protoreflect.ValueOfString("n"))
			m.Set(field(desc, "meta"), protoreflect.ValueOfMessage(meta))
			bar := dynamicpb.NewMessage(barDesc)
			bar.Set(field(barDesc, "size"), protoreflect.ValueOfInt32(7))
			m.Set(field(desc, "bar"), protoreflect.ValueOfMessage(bar))
		},
	}} {
		t.Run(tc.name, func(t *testing.T) {
			codec := NewCodec()
			in := dynamicpb.NewMessage(desc)
			tc.build(in)

			encoded, err := codec.ProtoToJSON(in)
			if err != nil {
				t.Fatalf("ProtoToJSON: %s", err)
			}
			t.Logf("encoded: %s", encoded)

			out := dynamicpb.NewMessage(desc)
			if err := codec.JSONToProto(encoded, out); err != nil {
				t.Fatalf("JSONToProto: %s", err)
			}
			if !proto.Equal(in, out) {
				t.Fatalf("round trip mismatch:\n in:  %v\n out: %v", in, out)
			}
		})
	}
}
