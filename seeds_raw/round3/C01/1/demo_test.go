// copy to: internal/codec/
package codec

import (
	"testing"

	"github.com/pentops/j5/gen/test/schema/v1/schema_testpb"
	"github.com/pentops/j5/j5types/any_j5t"
	"google.golang.org/protobuf/encoding/prototext"
	"google.golang.org/protobuf/proto"
)

// A j5 Any whose payload contains a string with '<', '>' or '&' (or U+2028)
// must come back with exactly the j5_json bytes it went out with.
func TestSeedC01_1_AnyPayloadWithMarkupCharacters(t *testing.T) {

	roundTrip := func(t *testing.T, codec *Codec, in *schema_testpb.FullSchema) {
		t.Helper()
		encoded, err := codec.ProtoToJSON(in.ProtoReflect())
		if err != nil {
			t.Fatalf("ProtoToJSON: %s", err)
		}
		t.Logf("encoded: %s", encoded)

		out := &schema_testpb.FullSchema{}
		if err := codec.JSONToProto(encoded, out.ProtoReflect()); err != nil {
			t.Fatalf("JSONToProto: %s", err)
		}
		if !proto.Equal(in, out) {
			t.Fatalf("round trip mismatch:\n in:  %s\n out: %s", prototext.Format(in), prototext.Format(out))
		}
	}

	t.Run("plain payload (control)", func(t *testing.T) {
		codec := NewCodec()
		roundTrip(t, codec, &schema_testpb.FullSchema{
			J5Any: &any_j5t.Any{
				TypeName: "test.schema.v1.Bar",
				J5Json:   []byte(`{"barId":"id","barField":"plain text"}`),
			},
		})
	})

	t.Run("j5json only", func(t *testing.T) {
		codec := NewCodec()
		roundTrip(t, codec, &schema_testpb.FullSchema{
			J5Any: &any_j5t.Any{
				TypeName: "test.schema.v1.Bar",
				J5Json:   []byte(`{"barId":"id","barField":"Tom & Jerry <tj@example.com>"}`),
			},
		})
	})

	t.Run("built with EncodeAny, proto and json", func(t *testing.T) {
		codec := NewCodec(WithProtoToAny())
		inner := &schema_testpb.Bar{
			BarId:    "id",
			BarField: "if a<b && b>c then\u2028next",
		}
		anyVal, err := codec.EncodeAny(inner.ProtoReflect())
		if err != nil {
			t.Fatal(err)
		}
		roundTrip(t, codec, &schema_testpb.FullSchema{
			SString: "outer",
			J5Any:   anyVal,
		})
	})
}
