// copy to: internal/codec/
package codec

import (
	"testing"

	"github.com/pentops/j5/gen/test/schema/v1/schema_testpb"
	"google.golang.org/protobuf/encoding/prototext"
	"google.golang.org/protobuf/proto"
)

// The bytes returned by ProtoToJSON / EncodeAny belong to the caller: encoding
// a second message must not change what an earlier encode returned.
func TestSeedC01_3_EncodedBytesSurviveLaterEncodes(t *testing.T) {

	decodeAndCompare := func(t *testing.T, codec *Codec, encoded []byte, want *schema_testpb.FullSchema) {
		t.Helper()
		got := &schema_testpb.FullSchema{}
		if err := codec.JSONToProto(encoded, got.ProtoReflect()); err != nil {
			t.Fatalf("JSONToProto(%s): %s", encoded, err)
		}
		if !proto.Equal(want, got) {
			t.Fatalf("round trip mismatch for %s:\n want: %s\n got:  %s", encoded, prototext.Format(want), prototext.Format(got))
		}
	}

	// repeated a few times only so that an unlucky scheduling of the test
	// goroutine cannot hide the effect; every iteration must hold.
	for attempt := 0; attempt < 3; attempt++ {

		// encode two messages first, decode them afterwards
		t.Run("encode A, encode B, decode A, decode B", func(t *testing.T) {
			codec := NewCodec()
			msgA := &schema_testpb.FullSchema{
				SString: "message A",
				RString: []string{"a1", "a2", "a3"},
				SBar:    &schema_testpb.Bar{BarId: "bar-of-a"},
			}
			msgB := &schema_testpb.FullSchema{
				SInt64:    -42,
				KeyString: "the key of message B",
				MapStringString: map[string]string{
					"k": "v",
				},
			}

			jsonA, err := codec.ProtoToJSON(msgA.ProtoReflect())
			if err != nil {
				t.Fatal(err)
			}
			jsonB, err := codec.ProtoToJSON(msgB.ProtoReflect())
			if err != nil {
				t.Fatal(err)
			}

			decodeAndCompare(t, codec, jsonA, msgA)
			decodeAndCompare(t, codec, jsonB, msgB)
		})

		// the documented way to build a j5 Any, then use it in a message
		t.Run("EncodeAny then encode the message holding it", func(t *testing.T) {
			codec := NewCodec(WithProtoToAny())
			inner := &schema_testpb.Bar{
				BarId:    "inner-bar-id",
				BarField: "inner bar field value",
			}
			anyVal, err := codec.EncodeAny(inner.ProtoReflect())
			if err != nil {
				t.Fatal(err)
			}
			wantJSON := string(anyVal.J5Json)

			outer := &schema_testpb.FullSchema{
				SString: "outer message",
				J5Any:   anyVal,
			}
			encoded, err := codec.ProtoToJSON(outer.ProtoReflect())
			if err != nil {
				t.Fatal(err)
			}
			if string(outer.J5Any.J5Json) != wantJSON {
				t.Fatalf("encoding changed the message being encoded: j5_json was %s, is now %s", wantJSON, outer.J5Any.J5Json)
			}
			decodeAndCompare(t, codec, encoded, outer)
		})
	}
}
