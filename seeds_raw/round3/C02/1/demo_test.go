// copy to: internal/j5s/protobuild/
package protobuild

import (
	"testing"

	"google.golang.org/protobuf/reflect/protoreflect"
)

// Map fields whose declared name does not survive a snake_case round trip
// unchanged (a digit followed by a lower-case letter, or a trailing acronym)
// must still compile to a proto map<string, T> with the declared field name,
// JSON name, number and value type.
func TestSeedC02_1_MapFieldWithDigitOrAcronymName(t *testing.T) {
	tf := newTestFiles()
	tf.tAddJ5SFile("local/v1/foo.j5s",
		"object Foo {",
		"  field plainTags map:string",
		"  field md5sums map:string",
		"  field byUserID map:integer:INT32",
		"}",
	)
	td := newTestDeps()

	files := testCompile(t, tf, td, "local.v1")
	ff := files.expectFile(t, "local/v1/foo.j5s.proto")

	foo := ff.Messages().ByName("Foo")
	if foo == nil {
		t.Fatal("message Foo missing")
	}

	for idx, tc := range []struct {
		jsonName  string
		protoName string
		entryName string
		valueKind protoreflect.Kind
	}{
		{"plainTags", "plain_tags", "PlainTagsEntry", protoreflect.StringKind},
		{"md5sums", "md_5_sums", "Md5SumsEntry", protoreflect.StringKind},
		{"byUserID", "by_user_id", "ByUserIdEntry", protoreflect.Int32Kind},
	} {
		field := foo.Fields().ByName(protoreflect.Name(tc.protoName))
		if field == nil {
			t.Fatalf("field %s missing", tc.protoName)
		}
		if got := field.JSONName(); got != tc.jsonName {
			t.Errorf("%s: json name %q, want %q", tc.protoName, got, tc.jsonName)
		}
		if got := int(field.Number()); got != idx+1 {
			t.Errorf("%s: number %d, want %d", tc.protoName, got, idx+1)
		}
		if !field.IsMap() {
			t.Fatalf("%s: not a map field", tc.protoName)
		}
		if got := string(field.Message().Name()); got != tc.entryName {
			t.Errorf("%s: entry message %q, want %q", tc.protoName, got, tc.entryName)
		}
		if got := field.MapKey().Kind(); got != protoreflect.StringKind {
			t.Errorf("%s: key kind %s, want string", tc.protoName, got)
		}
		if got := field.MapValue().Kind(); got != tc.valueKind {
			t.Errorf("%s: value kind %s, want %s", tc.protoName, got, tc.valueKind)
		}
	}
}
