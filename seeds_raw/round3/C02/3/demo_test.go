// copy to: internal/j5s/protobuild/
package protobuild

import (
	"testing"

	"google.golang.org/protobuf/reflect/protoreflect"
)

// The built-in j5 packages (j5.list.v1, j5.state.v1, j5.messaging.v1) can be
// referenced like any other package: fully qualified, through a package import
// by its short name, or through an aliased import. All three forms must
// resolve to the declared type and import the file which defines it.
func TestSeedC02_3_BuiltinTypesThroughShortNameAndAlias(t *testing.T) {
	tf := newTestFiles()
	tf.tAddJ5SFile("local/v1/foo.j5s",
		"import j5.list.v1",
		"import j5.state.v1:st",
		"object Foo {",
		"  field query object:j5.list.v1.QueryRequest",
		"  field page object:list.PageRequest",
		"  field meta ! object:st.StateMetadata",
		"}",
	)
	td := newTestDeps()

	files := testCompile(t, tf, td, "local.v1")
	ff := files.expectFile(t, "local/v1/foo.j5s.proto")

	foo := ff.Messages().ByName("Foo")
	if foo == nil {
		t.Fatal("message Foo missing")
	}

	for idx, tc := range []struct {
		name     string
		typeName string
		file     string
	}{
		{"query", "j5.list.v1.QueryRequest", "j5/list/v1/query.proto"},
		{"page", "j5.list.v1.PageRequest", "j5/list/v1/page.proto"},
		{"meta", "j5.state.v1.StateMetadata", "j5/state/v1/metadata.proto"},
	} {
		field := foo.Fields().ByName(protoreflect.Name(tc.name))
		if field == nil {
			t.Fatalf("field %s missing", tc.name)
		}
		if got := int(field.Number()); got != idx+1 {
			t.Errorf("%s: number %d, want %d", tc.name, got, idx+1)
		}
		if field.Kind() != protoreflect.MessageKind {
			t.Fatalf("%s: kind %s, want message", tc.name, field.Kind())
		}
		if got := string(field.Message().FullName()); got != tc.typeName {
			t.Errorf("%s: type %s, want %s", tc.name, got, tc.typeName)
		}
		imported := false
		imports := ff.Imports()
		for i := 0; i < imports.Len(); i++ {
			if imports.Get(i).Path() == tc.file {
				imported = true
			}
		}
		if !imported {
			t.Errorf("%s: file %s is not imported", tc.name, tc.file)
		}
	}
}
