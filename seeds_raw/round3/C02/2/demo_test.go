// copy to: internal/j5s/protobuild/
package protobuild

import (
	"testing"

	"google.golang.org/genproto/googleapis/api/annotations"
	"google.golang.org/protobuf/proto"
	"google.golang.org/protobuf/reflect/protoreflect"
)

// Two source files of one package whose base names contain a dot
// (orders.query.j5s / orders.command.j5s) each declare a service. Every
// declared service must come out in the .service sub-package, in the
// <file>.p.j5s.proto generated for its own source file.
func TestSeedC02_2_ServicesInDottedSourceFiles(t *testing.T) {
	tf := newTestFiles()
	tf.tAddJ5SFile("local/v1/orders.query.j5s",
		"service OrderQuery {",
		"  basePath = \"/orders/v1/q\"",
		"  method GetOrder {",
		"    httpMethod = \"GET\"",
		"    httpPath = \"/:orderId\"",
		"    request {",
		"      field orderId string",
		"    }",
		"    response {",
		"      field name string",
		"    }",
		"  }",
		"}",
	)
	tf.tAddJ5SFile("local/v1/orders.command.j5s",
		"service OrderCommand {",
		"  basePath = \"/orders/v1/c\"",
		"  method CancelOrder {",
		"    httpMethod = \"POST\"",
		"    httpPath = \"/:orderId/cancel\"",
		"    request {",
		"      field orderId string",
		"    }",
		"    response {",
		"      field name string",
		"    }",
		"  }",
		"}",
	)
	td := newTestDeps()

	files := testCompile(t, tf, td, "local.v1")

	for _, tc := range []struct {
		file    string
		service string
		method  string
		request string
		post    string
		get     string
	}{{
		file:    "local/v1/service/orders.query.p.j5s.proto",
		service: "OrderQueryService",
		method:  "GetOrder",
		request: "GetOrderRequest",
		get:     "/orders/v1/q/{order_id}",
	}, {
		file:    "local/v1/service/orders.command.p.j5s.proto",
		service: "OrderCommandService",
		method:  "CancelOrder",
		request: "CancelOrderRequest",
		post:    "/orders/v1/c/{order_id}/cancel",
	}} {
		// wherever it was put, the declared service must exist exactly once
		var found protoreflect.ServiceDescriptor
		var foundIn string
		for name, ff := range files {
			if svc := ff.Services().ByName(protoreflect.Name(tc.service)); svc != nil {
				if found != nil {
					t.Errorf("service %s emitted twice (%s and %s)", tc.service, foundIn, name)
				}
				found = svc
				foundIn = name
			}
		}
		if found == nil {
			t.Errorf("declared service %s is missing from the compiled package", tc.service)
			continue
		}
		if foundIn != tc.file {
			t.Errorf("service %s emitted into %s, want %s", tc.service, foundIn, tc.file)
		}
		if got := string(found.ParentFile().Package()); got != "local.v1.service" {
			t.Errorf("service %s in package %s, want local.v1.service", tc.service, got)
		}
		method := found.Methods().ByName(protoreflect.Name(tc.method))
		if method == nil {
			t.Errorf("method %s.%s missing", tc.service, tc.method)
			continue
		}
		if got := string(method.Input().Name()); got != tc.request {
			t.Errorf("method %s input %s, want %s", tc.method, got, tc.request)
		}
		rule := proto.GetExtension(method.Options(), annotations.E_Http).(*annotations.HttpRule)
		if rule.GetGet() != tc.get || rule.GetPost() != tc.post {
			t.Errorf("method %s http rule get=%q post=%q, want get=%q post=%q", tc.method, rule.GetGet(), rule.GetPost(), tc.get, tc.post)
		}
	}
}
