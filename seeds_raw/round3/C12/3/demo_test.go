// copy to: internal/j5s/protobuild/
package protobuild

// Demonstration for C12 (round 3) seed 3: a key which spells out that it is
// NOT a primary key (`primary = false`, written to self-document, as in
// j5stest/proto/j5st/v1/foo.j5s) must not be forced to be required; only
// primary keys are.
//
// Uses the helpers of the package's own tests (newTestFiles, newTestDeps,
// testCompile) to compile the package to linked descriptors, then validates
// dynamic messages of the compiled type with protovalidate.

import (
	"testing"

	"github.com/bufbuild/protovalidate-go"
	"google.golang.org/protobuf/reflect/protoreflect"
	"google.golang.org/protobuf/types/dynamicpb"
)

func TestDemoExplicitlyNonPrimaryKeyIsNotRequired(t *testing.T) {
	const goodID = "0123456789abcdefABCDEF" // 22 base62 characters

	tf := newTestFiles()
	tf.tAddJ5SFile("local/v1/foo.j5s",
		"entity Foo {",
		"  key fooId key:id62 {",
		"    primary = true",
		"  }",
		// no format, so no string rule of its own: the empty string is fine
		"  key legacyRef key {",
		"    primary = false",
		"  }",
		// control: says nothing about primary
		"  key otherRef key",
		"  data name string",
		"  status ACTIVE",
		"  event Create {",
		"  }",
		"}",
		// same thing on a plain object
		"object Bar {",
		"  field barId key:id62 {",
		"    entity.primaryKey = true",
		"  }",
		"  field legacyRef key {",
		"    entity.primaryKey = false",
		"  }",
		"}",
	)

	files := testCompile(t, tf, newTestDeps(), "local.v1")
	fd := files.expectFile(t, "local/v1/foo.j5s.proto")

	v, err := protovalidate.New()
	if err != nil {
		t.Fatal(err)
	}

	type kv map[string]string
	for _, tc := range []struct {
		name   string
		msg    string
		set    kv
		wantOK bool
	}{
		{"all keys set", "FooKeys", kv{"foo_id": goodID, "legacy_ref": "abc", "other_ref": "def"}, true},
		{"non-primary keys absent", "FooKeys", kv{"foo_id": goodID}, true},
		{"explicitly non-primary key absent", "FooKeys", kv{"foo_id": goodID, "other_ref": "def"}, true},
		{"primary key absent", "FooKeys", kv{"legacy_ref": "abc", "other_ref": "def"}, false},
		{"primary key malformed", "FooKeys", kv{"foo_id": "short", "legacy_ref": "abc"}, false},

		{"Bar: both set", "Bar", kv{"bar_id": goodID, "legacy_ref": "abc"}, true},
		{"Bar: non-primary key absent", "Bar", kv{"bar_id": goodID}, true},
		{"Bar: primary key absent", "Bar", kv{"legacy_ref": "abc"}, false},
	} {
		md := fd.Messages().ByName(protoreflect.Name(tc.msg))
		if md == nil {
			t.Fatalf("message %s not compiled", tc.msg)
		}
		msg := dynamicpb.NewMessage(md)
		for name, val := range tc.set {
			field := md.Fields().ByName(protoreflect.Name(name))
			if field == nil {
				t.Fatalf("no field %s in %s", name, tc.msg)
			}
			msg.Set(field, protoreflect.ValueOfString(val))
		}

		err := v.Validate(msg)
		if tc.wantOK && err != nil {
			t.Errorf("%s: want accepted, got: %v", tc.name, err)
		}
		if !tc.wantOK && err == nil {
			t.Errorf("%s: want rejected, got accepted", tc.name)
		}
	}
}
