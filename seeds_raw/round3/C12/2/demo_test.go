// copy to: internal/j5s/protobuild/
package protobuild

// Demonstration for C12 (round 3) seed 2: in / not-in rules on a field whose
// j5s enum spells out its zero option (a leading UNSPECIFIED) instead of
// leaving it implicit.
//
// Uses the helpers of the package's own tests (newTestFiles, newTestDeps,
// testCompile) to compile the package to linked descriptors, then validates
// dynamic messages of the compiled type with protovalidate. Expected verdicts
// are derived from the value NAMES of the compiled enum, not from numbers.

import (
	"testing"

	"github.com/bufbuild/protovalidate-go"
	"google.golang.org/protobuf/reflect/protoreflect"
	"google.golang.org/protobuf/types/dynamicpb"
)

func TestDemoEnumRulesWithExplicitUnspecified(t *testing.T) {
	tf := newTestFiles()
	tf.tAddJ5SFile("local/v1/enums.j5s",
		"enum Level {",
		"  option UNSPECIFIED",
		"  option LOW",
		"  option MID",
		"  option HIGH",
		"}",
		// control: zero option left implicit
		"enum Plain {",
		"  option LOW",
		"  option MID",
		"  option HIGH",
		"}",
	)
	// one object per rule, so that each case exercises one constraint only
	tf.tAddJ5SFile("local/v1/foo.j5s",
		"object Only {",
		"  field val enum:Level {",
		`    rules.in = ["LOW", "MID"]`,
		"  }",
		"}",
		"object Never {",
		"  field val enum:Level {",
		`    rules.notIn = ["HIGH"]`,
		"  }",
		"}",
		"object PlainOnly {",
		"  field val enum:Plain {",
		`    rules.in = ["LOW", "MID"]`,
		"  }",
		"}",
		"object PlainNever {",
		"  field val enum:Plain {",
		`    rules.notIn = ["HIGH"]`,
		"  }",
		"}",
	)

	files := testCompile(t, tf, newTestDeps(), "local.v1")
	fd := files.expectFile(t, "local/v1/foo.j5s.proto")

	v, err := protovalidate.New()
	if err != nil {
		t.Fatal(err)
	}

	set := func(msg *dynamicpb.Message, short string) {
		t.Helper()
		field := msg.Descriptor().Fields().ByName("val")
		if field == nil {
			t.Fatalf("no field val in %s", msg.Descriptor().FullName())
		}
		ed := field.Enum()
		var found protoreflect.EnumValueDescriptor
		for i := 0; i < ed.Values().Len(); i++ {
			val := ed.Values().Get(i)
			n := string(val.Name())
			if len(n) > len(short) && n[len(n)-len(short)-1:] == "_"+short {
				found = val
			}
		}
		if found == nil {
			t.Fatalf("enum %s has no value %s", ed.FullName(), short)
		}
		msg.Set(field, protoreflect.ValueOfEnum(found.Number()))
	}

	for _, tc := range []struct {
		object string
		value  string
		wantOK bool
	}{
		{"Only", "LOW", true},
		{"Only", "MID", true},
		{"Only", "HIGH", false},
		{"Only", "UNSPECIFIED", false},
		{"Never", "UNSPECIFIED", true},
		{"Never", "LOW", true},
		{"Never", "MID", true},
		{"Never", "HIGH", false},

		{"PlainOnly", "LOW", true},
		{"PlainOnly", "MID", true},
		{"PlainOnly", "HIGH", false},
		{"PlainOnly", "UNSPECIFIED", false},
		{"PlainNever", "MID", true},
		{"PlainNever", "HIGH", false},
	} {
		md := fd.Messages().ByName(protoreflect.Name(tc.object))
		if md == nil {
			t.Fatalf("message %s not compiled", tc.object)
		}
		msg := dynamicpb.NewMessage(md)
		set(msg, tc.value)

		err := v.Validate(msg)
		if tc.wantOK && err != nil {
			t.Errorf("%s.val=%s: want accepted, got: %v", tc.object, tc.value, err)
		}
		if !tc.wantOK && err == nil {
			t.Errorf("%s.val=%s: want rejected, got accepted", tc.object, tc.value)
		}
	}
}
