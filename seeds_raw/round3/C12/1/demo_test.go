// copy to: internal/j5s/protobuild/
package protobuild

// Demonstration for C12 (round 3) seed 1: an explicitly optional uuid key
// declared next to a required uuid key. Presence of the optional one must not
// be demanded by the compiled constraints.
//
// Uses the helpers of the package's own tests (newTestFiles, newTestDeps,
// testCompile) to compile the package to linked descriptors, then validates
// dynamic messages of the compiled type with protovalidate.

import (
	"testing"

	"github.com/bufbuild/protovalidate-go"
	"google.golang.org/protobuf/reflect/protoreflect"
	"google.golang.org/protobuf/types/dynamicpb"
)

func TestDemoOptionalUUIDKeyNextToRequiredOne(t *testing.T) {
	const goodA = "0190a5c8-2f0e-7cc3-98a1-6f4f3a1d2b01"
	const goodB = "0190a5c8-2f0e-7cc3-98a1-6f4f3a1d2b02"

	tf := newTestFiles()
	tf.tAddJ5SFile("local/v1/foo.j5s",
		"object Foo {",
		"  field fooId ! key:uuid",
		"  field parentId ? key:uuid",
		"  field name string",
		"}",
		// the same optional declaration, in an object without a required uuid key
		"object Bar {",
		"  field parentId ? key:uuid",
		"}",
	)

	files := testCompile(t, tf, newTestDeps(), "local.v1")
	fd := files.expectFile(t, "local/v1/foo.j5s.proto")

	v, err := protovalidate.New()
	if err != nil {
		t.Fatal(err)
	}

	type kv map[string]string
	for _, tc := range []struct {
		name   string
		msg    string
		set    kv
		wantOK bool
	}{
		{"both keys set", "Foo", kv{"foo_id": goodA, "parent_id": goodB}, true},
		{"optional key absent", "Foo", kv{"foo_id": goodA}, true},
		{"required key absent", "Foo", kv{"parent_id": goodB}, false},
		{"optional key present but malformed", "Foo", kv{"foo_id": goodA, "parent_id": "nope"}, false},
		{"optional key present but empty", "Foo", kv{"foo_id": goodA, "parent_id": ""}, false},
		{"required key malformed", "Foo", kv{"foo_id": "nope"}, false},

		{"Bar: optional key absent", "Bar", kv{}, true},
		{"Bar: optional key set", "Bar", kv{"parent_id": goodB}, true},
		{"Bar: optional key malformed", "Bar", kv{"parent_id": "nope"}, false},
	} {
		md := fd.Messages().ByName(protoreflect.Name(tc.msg))
		if md == nil {
			t.Fatalf("message %s not compiled", tc.msg)
		}
		msg := dynamicpb.NewMessage(md)
		for name, val := range tc.set {
			field := md.Fields().ByName(protoreflect.Name(name))
			if field == nil {
				t.Fatalf("no field %s in %s", name, tc.msg)
			}
			msg.Set(field, protoreflect.ValueOfString(val))
		}

		err := v.Validate(msg)
		if tc.wantOK && err != nil {
			t.Errorf("%s: want accepted, got: %v", tc.name, err)
		}
		if !tc.wantOK && err == nil {
			t.Errorf("%s: want rejected, got accepted", tc.name)
		}
	}
}
