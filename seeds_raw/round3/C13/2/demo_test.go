// copy to: internal/j5s/protobuild/
package protobuild

import (
	"fmt"
	"sort"
	"testing"

	"google.golang.org/genproto/googleapis/api/annotations"
	"google.golang.org/protobuf/proto"
	"google.golang.org/protobuf/reflect/protoreflect"
	"google.golang.org/protobuf/types/descriptorpb"
)

// demoIdentities compiles a single-file j5s package and returns one line per
// wire-visible element: messages, fields, enum values, services and methods
// (a method with its input, output and http binding).
func demoIdentities(t *testing.T, lines ...string) map[string]string {
	t.Helper()
	tf := newTestFiles()
	tf.tAddJ5SFile("demo/v1/demo.j5s", lines...)
	files := testCompile(t, tf, newTestDeps(), "demo.v1")

	out := map[string]string{}
	var walkMsgs func(msgs protoreflect.MessageDescriptors)
	var walkEnums func(enums protoreflect.EnumDescriptors)
	walkEnums = func(enums protoreflect.EnumDescriptors) {
		for i := 0; i < enums.Len(); i++ {
			en := enums.Get(i)
			out["enum "+string(en.FullName())] = "enum"
			for j := 0; j < en.Values().Len(); j++ {
				v := en.Values().Get(j)
				out[fmt.Sprintf("enum %s value #%d", en.FullName(), v.Number())] = string(v.Name())
			}
		}
	}
	walkMsgs = func(msgs protoreflect.MessageDescriptors) {
		for i := 0; i < msgs.Len(); i++ {
			msg := msgs.Get(i)
			out["message "+string(msg.FullName())] = "message"
			for j := 0; j < msg.Fields().Len(); j++ {
				f := msg.Fields().Get(j)
				typeName := f.Kind().String()
				if f.Message() != nil {
					typeName = string(f.Message().FullName())
				} else if f.Enum() != nil {
					typeName = string(f.Enum().FullName())
				}
				out[fmt.Sprintf("field %s.%s", msg.FullName(), f.Name())] = fmt.Sprintf("number=%d type=%s label=%s json=%s", f.Number(), typeName, f.Cardinality(), f.JSONName())
			}
			walkMsgs(msg.Messages())
			walkEnums(msg.Enums())
		}
	}
	for _, file := range files {
		walkMsgs(file.Messages())
		walkEnums(file.Enums())
		for i := 0; i < file.Services().Len(); i++ {
			svc := file.Services().Get(i)
			out["service "+string(svc.FullName())] = "service"
			for j := 0; j < svc.Methods().Len(); j++ {
				m := svc.Methods().Get(j)
				binding := "none"
				if opts, ok := m.Options().(*descriptorpb.MethodOptions); ok && proto.HasExtension(opts, annotations.E_Http) {
					rule := proto.GetExtension(opts, annotations.E_Http).(*annotations.HttpRule)
					switch pt := rule.Pattern.(type) {
					case *annotations.HttpRule_Get:
						binding = "GET " + pt.Get
					case *annotations.HttpRule_Post:
						binding = "POST " + pt.Post
					case *annotations.HttpRule_Put:
						binding = "PUT " + pt.Put
					case *annotations.HttpRule_Patch:
						binding = "PATCH " + pt.Patch
					case *annotations.HttpRule_Delete:
						binding = "DELETE " + pt.Delete
					}
					binding += fmt.Sprintf(" body=%q", rule.Body)
				}
				out["method "+string(m.FullName())] = fmt.Sprintf("in=%s out=%s http=[%s]", m.Input().FullName(), m.Output().FullName(), binding)
			}
		}
	}
	return out
}

// demoAssertStable checks that every element of the first compile is present
// and identical in the second.
func demoAssertStable(t *testing.T, before, after map[string]string) {
	t.Helper()
	keys := make([]string, 0, len(before))
	for k := range before {
		keys = append(keys, k)
	}
	sort.Strings(keys)
	for _, k := range keys {
		got, ok := after[k]
		if !ok {
			t.Errorf("%s: present before the append, missing after", k)
			continue
		}
		if got != before[k] {
			t.Errorf("%s: changed by an append\n  before: %s\n  after:  %s", k, before[k], got)
		}
	}
}

func svc(httpMethod string, requestFields ...string) []string {
	lines := []string{
		"service Things {",
		"  basePath = \"/things\"",
		"  method RemoveThing {",
		"    httpMethod = \"" + httpMethod + "\"",
		"    httpPath = \"/:groupId/:thingId\"",
		"    request {",
	}
	for _, f := range requestFields {
		lines = append(lines, "      field "+f)
	}
	return append(lines,
		"    }",
		"    response {",
		"      field ok bool",
		"    }",
		"  }",
		"}",
	)
}

// A DELETE whose request fields are all path parameters; the append adds the
// first field that is not in the path.
func TestC13AppendFirstNonPathRequestField(t *testing.T) {
	before := demoIdentities(t, svc("DELETE", "groupId string", "thingId string")...)
	if _, ok := before["method demo.v1.service.ThingsService.RemoveThing"]; !ok {
		t.Fatalf("setup: method not compiled: %v", before)
	}
	after := demoIdentities(t, svc("DELETE", "groupId string", "thingId string", "reason string")...)
	if _, ok := after["field demo.v1.service.RemoveThingRequest.reason"]; !ok {
		t.Errorf("the appended field was not compiled")
	}
	demoAssertStable(t, before, after)
}

// the same for POST
func TestC13AppendFirstNonPathRequestFieldPost(t *testing.T) {
	before := demoIdentities(t, svc("POST", "groupId string", "thingId string")...)
	after := demoIdentities(t, svc("POST", "groupId string", "thingId string", "reason string")...)
	demoAssertStable(t, before, after)
}

// control: a request that already has a non-path field, and a GET
func TestC13AppendRequestFieldControls(t *testing.T) {
	demoAssertStable(t,
		demoIdentities(t, svc("DELETE", "groupId string", "thingId string", "reason string")...),
		demoIdentities(t, svc("DELETE", "groupId string", "thingId string", "reason string", "force bool")...),
	)
	demoAssertStable(t,
		demoIdentities(t, svc("GET", "groupId string", "thingId string")...),
		demoIdentities(t, svc("GET", "groupId string", "thingId string", "verbose bool")...),
	)
}
