// copy to: internal/j5s/protobuild/
package protobuild

import (
	"fmt"
	"sort"
	"testing"

	"google.golang.org/protobuf/reflect/protoreflect"
)

// demoIdentities compiles a single-file j5s package and returns one line per
// wire-visible element: messages, fields, enum values, services and methods.
func demoIdentities(t *testing.T, lines ...string) map[string]string {
	t.Helper()
	tf := newTestFiles()
	tf.tAddJ5SFile("demo/v1/demo.j5s", lines...)
	files := testCompile(t, tf, newTestDeps(), "demo.v1")

	out := map[string]string{}
	var walkMsgs func(msgs protoreflect.MessageDescriptors)
	var walkEnums func(enums protoreflect.EnumDescriptors)
	walkEnums = func(enums protoreflect.EnumDescriptors) {
		for i := 0; i < enums.Len(); i++ {
			en := enums.Get(i)
			out["enum "+string(en.FullName())] = "enum"
			for j := 0; j < en.Values().Len(); j++ {
				v := en.Values().Get(j)
				out[fmt.Sprintf("enum %s value #%d", en.FullName(), v.Number())] = string(v.Name())
			}
		}
	}
	walkMsgs = func(msgs protoreflect.MessageDescriptors) {
		for i := 0; i < msgs.Len(); i++ {
			msg := msgs.Get(i)
			out["message "+string(msg.FullName())] = "message"
			for j := 0; j < msg.Fields().Len(); j++ {
				f := msg.Fields().Get(j)
				typeName := f.Kind().String()
				if f.Message() != nil {
					typeName = string(f.Message().FullName())
				} else if f.Enum() != nil {
					typeName = string(f.Enum().FullName())
				}
				out[fmt.Sprintf("field %s.%s", msg.FullName(), f.Name())] = fmt.Sprintf("number=%d type=%s label=%s json=%s", f.Number(), typeName, f.Cardinality(), f.JSONName())
			}
			walkMsgs(msg.Messages())
			walkEnums(msg.Enums())
		}
	}
	for _, file := range files {
		walkMsgs(file.Messages())
		walkEnums(file.Enums())
		for i := 0; i < file.Services().Len(); i++ {
			svc := file.Services().Get(i)
			out["service "+string(svc.FullName())] = "service"
			for j := 0; j < svc.Methods().Len(); j++ {
				m := svc.Methods().Get(j)
				out["method "+string(m.FullName())] = fmt.Sprintf("in=%s out=%s", m.Input().FullName(), m.Output().FullName())
			}
		}
	}
	return out
}

// demoAssertStable checks that every element of the first compile is present
// and identical in the second.
func demoAssertStable(t *testing.T, before, after map[string]string) {
	t.Helper()
	keys := make([]string, 0, len(before))
	for k := range before {
		keys = append(keys, k)
	}
	sort.Strings(keys)
	for _, k := range keys {
		got, ok := after[k]
		if !ok {
			t.Errorf("%s: present before the append, missing after", k)
			continue
		}
		if got != before[k] {
			t.Errorf("%s: changed by an append\n  before: %s\n  after:  %s", k, before[k], got)
		}
	}
}

func TestC13AppendServiceAfterTopic(t *testing.T) {
	base := []string{
		"service Alpha {",
		"  basePath = \"/alpha\"",
		"  method GetAlpha {",
		"    httpMethod = \"GET\"",
		"    httpPath = \"/:id\"",
		"    request {",
		"      field id string",
		"    }",
		"    response {",
		"      field name string",
		"    }",
		"  }",
		"}",
		"topic Notes publish {",
		"  message Note {",
		"    field text string",
		"  }",
		"}",
	}
	// append edit: one more top-level declaration at the end of the file
	appended := append(append([]string{}, base...),
		"service Beta {",
		"  basePath = \"/beta\"",
		"  method GetBeta {",
		"    httpMethod = \"GET\"",
		"    httpPath = \"/:id\"",
		"    request {",
		"      field id string",
		"    }",
		"    response {",
		"      field name string",
		"    }",
		"  }",
		"}",
	)

	before := demoIdentities(t, base...)
	if _, ok := before["service demo.v1.service.AlphaService"]; !ok {
		t.Fatalf("setup: AlphaService not compiled: %v", before)
	}
	after := demoIdentities(t, appended...)
	if _, ok := after["service demo.v1.service.BetaService"]; !ok {
		t.Errorf("the appended service was not compiled")
	}
	demoAssertStable(t, before, after)
}

// control: the same append without a topic in between is harmless
func TestC13AppendServiceAfterService(t *testing.T) {
	base := []string{
		"service Alpha {",
		"  basePath = \"/alpha\"",
		"  method GetAlpha {",
		"    httpMethod = \"GET\"",
		"    httpPath = \"/:id\"",
		"    request {",
		"      field id string",
		"    }",
		"    response {",
		"      field name string",
		"    }",
		"  }",
		"}",
	}
	appended := append(append([]string{}, base...),
		"service Beta {",
		"  basePath = \"/beta\"",
		"  method GetBeta {",
		"    httpMethod = \"GET\"",
		"    httpPath = \"/:id\"",
		"    request {",
		"      field id string",
		"    }",
		"  }",
		"}",
	)
	demoAssertStable(t, demoIdentities(t, base...), demoIdentities(t, appended...))
}
