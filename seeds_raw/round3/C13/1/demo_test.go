// copy to: internal/j5s/protobuild/
package protobuild

import (
	"fmt"
	"sort"
	"testing"

	"google.golang.org/protobuf/reflect/protoreflect"
)

// demoIdentities compiles a single-file j5s package and returns one line per
// wire-visible element: messages, fields, enum values, services and methods.
func demoIdentities(t *testing.T, lines ...string) map[string]string {
	t.Helper()
	tf := newTestFiles()
	tf.tAddJ5SFile("demo/v1/demo.j5s", lines...)
	files := testCompile(t, tf, newTestDeps(), "demo.v1")

	out := map[string]string{}
	var walkMsgs func(msgs protoreflect.MessageDescriptors)
	var walkEnums func(enums protoreflect.EnumDescriptors)
	walkEnums = func(enums protoreflect.EnumDescriptors) {
		for i := 0; i < enums.Len(); i++ {
			en := enums.Get(i)
			out["enum "+string(en.FullName())] = "enum"
			for j := 0; j < en.Values().Len(); j++ {
				v := en.Values().Get(j)
				out[fmt.Sprintf("enum %s value #%d", en.FullName(), v.Number())] = string(v.Name())
			}
		}
	}
	walkMsgs = func(msgs protoreflect.MessageDescriptors) {
		for i := 0; i < msgs.Len(); i++ {
			msg := msgs.Get(i)
			out["message "+string(msg.FullName())] = "message"
			for j := 0; j < msg.Fields().Len(); j++ {
				f := msg.Fields().Get(j)
				typeName := f.Kind().String()
				if f.Message() != nil {
					typeName = string(f.Message().FullName())
				} else if f.Enum() != nil {
					typeName = string(f.Enum().FullName())
				}
				out[fmt.Sprintf("field %s.%s", msg.FullName(), f.Name())] = fmt.Sprintf("number=%d type=%s label=%s json=%s", f.Number(), typeName, f.Cardinality(), f.JSONName())
			}
			walkMsgs(msg.Messages())
			walkEnums(msg.Enums())
		}
	}
	for _, file := range files {
		walkMsgs(file.Messages())
		walkEnums(file.Enums())
		for i := 0; i < file.Services().Len(); i++ {
			svc := file.Services().Get(i)
			out["service "+string(svc.FullName())] = "service"
			for j := 0; j < svc.Methods().Len(); j++ {
				m := svc.Methods().Get(j)
				out["method "+string(m.FullName())] = fmt.Sprintf("in=%s out=%s", m.Input().FullName(), m.Output().FullName())
			}
		}
	}
	return out
}

// demoAssertStable checks that every element of the first compile is present
// and identical in the second.
func demoAssertStable(t *testing.T, before, after map[string]string) {
	t.Helper()
	keys := make([]string, 0, len(before))
	for k := range before {
		keys = append(keys, k)
	}
	sort.Strings(keys)
	for _, k := range keys {
		got, ok := after[k]
		if !ok {
			t.Errorf("%s: present before the append, missing after", k)
			continue
		}
		if got != before[k] {
			t.Errorf("%s: changed by an append\n  before: %s\n  after:  %s", k, before[k], got)
		}
	}
}

// A request/reply topic: every message carries an injected `request` metadata
// field in front of the declared ones.
func TestC13AppendFieldToReqResTopicMessage(t *testing.T) {
	base := []string{
		"topic Lookup reqres {",
		"  request {",
		"    field key string",
		"  }",
		"  reply {",
		"    field value string",
		"    field found bool",
		"  }",
		"}",
	}
	// append edit: one more field at the end of the reply message
	appended := []string{
		"topic Lookup reqres {",
		"  request {",
		"    field key string",
		"  }",
		"  reply {",
		"    field value string",
		"    field found bool",
		"    field expiresAt timestamp",
		"  }",
		"}",
	}

	before := demoIdentities(t, base...)
	if _, ok := before["field demo.v1.topic.LookupReplyMessage.request"]; !ok {
		t.Fatalf("setup: the reply message has no injected request field: %v", before)
	}
	after := demoIdentities(t, appended...)
	if _, ok := after["field demo.v1.topic.LookupReplyMessage.expires_at"]; !ok {
		t.Errorf("the appended field was not compiled")
	}
	demoAssertStable(t, before, after)
}

// the same for an upsert topic (injected `upsert` metadata field)
func TestC13AppendFieldToUpsertTopicMessage(t *testing.T) {
	before := demoIdentities(t,
		"topic Thing upsert {",
		"  entityName = \"demo.v1.Thing\"",
		"  message {",
		"    field thingId string",
		"  }",
		"}",
	)
	after := demoIdentities(t,
		"topic Thing upsert {",
		"  entityName = \"demo.v1.Thing\"",
		"  message {",
		"    field thingId string",
		"    field name string",
		"  }",
		"}",
	)
	demoAssertStable(t, before, after)
}

// control: messages without injected fields (plain object, publish topic)
func TestC13AppendFieldToPlainMessages(t *testing.T) {
	before := demoIdentities(t,
		"object Foo {",
		"  field a string",
		"}",
		"topic Notes publish {",
		"  message Note {",
		"    field text string",
		"  }",
		"}",
	)
	after := demoIdentities(t,
		"object Foo {",
		"  field a string",
		"  field b string",
		"}",
		"topic Notes publish {",
		"  message Note {",
		"    field text string",
		"    field author string",
		"  }",
		"}",
	)
	demoAssertStable(t, before, after)
}
