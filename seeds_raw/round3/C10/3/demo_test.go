// copy to: internal/codec/
package codec

// Demonstration for seed C10/3: concurrent encodes of messages that carry an
// Any with only a proto payload (google.protobuf.Any, or j5.types.any.v1.Any
// without j5_json) must each return what they return alone.
//
//	go test -vet=off -count=1 -race -run TestSeedC10_3 ./internal/codec/    (race detector: reliable)
//	go test -vet=off -count=1 -run TestSeedC10_3 ./internal/codec/          (value check: needs a lucky preemption, may pass)

import (
	"fmt"
	"strings"
	"sync"
	"testing"
	"time"

	"github.com/pentops/j5/gen/test/schema/v1/schema_testpb"
	"google.golang.org/protobuf/types/known/anypb"
)

func TestSeedC10_3ConcurrentNestedAny(t *testing.T) {
	const workers = 16

	msgs := make([]*schema_testpb.FullSchema, workers)
	wants := make([]string, workers)
	alone := NewCodec()
	for g := 0; g < workers; g++ {
		inner := &schema_testpb.Bar{
			BarId:    fmt.Sprintf("id-%02d", g),
			BarField: strings.Repeat(fmt.Sprintf("<%02d>", g), 64),
		}
		packed, err := anypb.New(inner)
		if err != nil {
			t.Fatal(err)
		}
		msgs[g] = &schema_testpb.FullSchema{
			SString: fmt.Sprintf("outer-%02d", g),
			Pbany:   packed,
		}
		want, err := alone.ProtoToJSON(msgs[g].ProtoReflect())
		if err != nil {
			t.Fatal(err)
		}
		wants[g] = string(want)
		if !strings.Contains(wants[g], fmt.Sprintf(`"barId":"id-%02d"`, g)) {
			t.Fatalf("unexpected sequential output %s", want)
		}
	}

	shared := NewCodec()
	// warm: the schema cache is not what is being tested
	if _, err := shared.ProtoToJSON(msgs[0].ProtoReflect()); err != nil {
		t.Fatal(err)
	}

	deadline := time.Now().Add(3 * time.Second)
	var wg sync.WaitGroup
	failures := make(chan string, workers)
	for g := 0; g < workers; g++ {
		wg.Add(1)
		go func(g int) {
			defer wg.Done()
			for time.Now().Before(deadline) {
				for ii := 0; ii < 200; ii++ {
					got, err := shared.ProtoToJSON(msgs[g].ProtoReflect())
					if err != nil {
						failures <- fmt.Sprintf("worker %d: %s", g, err)
						return
					}
					if string(got) != wants[g] {
						failures <- fmt.Sprintf("worker %d:\n got %s\nwant %s", g, got, wants[g])
						return
					}
				}
			}
		}(g)
	}
	wg.Wait()
	close(failures)
	for failure := range failures {
		t.Error(failure)
	}
}
