// copy to: internal/codec/
package codec

// Demonstration for seed C10/2: the first DECODES of an enum-valued field that
// overlap on one codec must each find the option they name.
//
//	go test -vet=off -count=1 -run TestSeedC10_2 ./internal/codec/          (value check, also trips Go's fatal "concurrent map" errors)
//	go test -vet=off -count=1 -race -run TestSeedC10_2 ./internal/codec/    (race detector)

import (
	"fmt"
	"strings"
	"sync"
	"testing"

	"github.com/pentops/flowtest/prototest"
	"google.golang.org/protobuf/reflect/protoreflect"
	"google.golang.org/protobuf/types/dynamicpb"
)

func TestSeedC10_2ConcurrentFirstEnumDecode(t *testing.T) {
	const options = 400

	enumLines := []string{"SHADE_UNSPECIFIED = 0;"}
	for ii := 1; ii <= options; ii++ {
		enumLines = append(enumLines, fmt.Sprintf("SHADE_S%d = %d;", ii, ii))
	}
	rs := prototest.DescriptorsFromSource(t, map[string]string{
		"seedc10/v1/shade.proto": `
		syntax = "proto3";
		package seedc10.v1;
		enum Shade {
			` + strings.Join(enumLines, "\n") + `
		}
		message Paint {
			string name = 1;
			Shade shade = 2;
			repeated Shade shades = 3;
		}`,
	})
	desc := rs.MessageByName(t, "seedc10.v1.Paint")
	shadeField := desc.Fields().ByName("shade")
	shadesField := desc.Fields().ByName("shades")

	// goroutine g decodes option wants[g], in short or in prefixed form
	const workers = 4
	inputs := make([]string, workers)
	wants := make([]protoreflect.EnumNumber, workers)
	for g := 0; g < workers; g++ {
		num := options - g
		wants[g] = protoreflect.EnumNumber(num)
		name := fmt.Sprintf("S%d", num)
		if g%2 == 1 {
			name = "SHADE_" + name
		}
		inputs[g] = fmt.Sprintf(`{"name":"w%d","shade":%q,"shades":[%q,"S1"]}`, g, name, name)
	}

	// alone, every input decodes
	alone := NewCodec()
	for g := 0; g < workers; g++ {
		msg := dynamicpb.NewMessage(desc)
		if err := alone.JSONToProto([]byte(inputs[g]), msg); err != nil {
			t.Fatalf("sequential decode of %s: %s", inputs[g], err)
		}
		if got := msg.Get(shadeField).Enum(); got != wants[g] {
			t.Fatalf("sequential decode of %s: shade = %d", inputs[g], got)
		}
	}

	const rounds = 1500
	for round := 0; round < rounds; round++ {
		shared := NewCodec()

		// the schema itself is warm: only the first decode of the enum overlaps
		if _, err := shared.ProtoToJSON(dynamicpb.NewMessage(desc)); err != nil {
			t.Fatal(err)
		}

		var wg sync.WaitGroup
		start := make(chan struct{})
		errs := make([]error, workers)
		msgs := make([]*dynamicpb.Message, workers)
		for g := 0; g < workers; g++ {
			wg.Add(1)
			go func(g int) {
				defer wg.Done()
				msgs[g] = dynamicpb.NewMessage(desc)
				<-start
				errs[g] = shared.JSONToProto([]byte(inputs[g]), msgs[g])
			}(g)
		}
		close(start)
		wg.Wait()

		for g := 0; g < workers; g++ {
			if errs[g] != nil {
				t.Fatalf("round %d: decode of %s on the shared codec: %s", round, inputs[g], errs[g])
			}
			if got := msgs[g].Get(shadeField).Enum(); got != wants[g] {
				t.Fatalf("round %d: decode of %s: shade = %d, want %d", round, inputs[g], got, wants[g])
			}
			list := msgs[g].Get(shadesField).List()
			if list.Len() != 2 || list.Get(0).Enum() != wants[g] || list.Get(1).Enum() != 1 {
				t.Fatalf("round %d: decode of %s: shades = %v", round, inputs[g], list)
			}
		}
	}
}
