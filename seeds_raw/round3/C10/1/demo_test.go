// copy to: internal/codec/
package codec

// Demonstration for seed C10/1: schemas of one package that are built because a
// message of ANOTHER package refers to them must not be visible half-built (or
// raced on) by a goroutine which asks for them directly.
//
//	go test -vet=off -count=1 -run TestSeedC10_1 ./internal/codec/          (value check)
//	go test -vet=off -count=1 -race -run TestSeedC10_1 ./internal/codec/    (race detector)

import (
	"sync"
	"testing"

	"github.com/pentops/j5/gen/j5/list/v1/list_j5pb"
	"github.com/pentops/j5/gen/test/foo/v1/foo_testspb"
	"google.golang.org/protobuf/proto"
)

func seedC10_1Query() *list_j5pb.QueryRequest {
	leaf := func(name, val string) *list_j5pb.Filter {
		return &list_j5pb.Filter{Type: &list_j5pb.Filter_Field{Field: &list_j5pb.Field{
			Name: name,
			Type: &list_j5pb.FieldType{Type: &list_j5pb.FieldType_Value{Value: val}},
		}}}
	}
	return &list_j5pb.QueryRequest{
		Searches: []*list_j5pb.Search{{Field: "name", Value: "x"}},
		Sorts:    []*list_j5pb.Sort{{Field: "createdAt", Descending: true}},
		Filters: []*list_j5pb.Filter{
			leaf("a", "1"),
			{Type: &list_j5pb.Filter_And{And: &list_j5pb.And{Filters: []*list_j5pb.Filter{
				leaf("b", "2"),
				{Type: &list_j5pb.Filter_Or{Or: &list_j5pb.Or{Filters: []*list_j5pb.Filter{
					{Type: &list_j5pb.Filter_Field{Field: &list_j5pb.Field{
						Name: "c",
						Type: &list_j5pb.FieldType{Type: &list_j5pb.FieldType_Range{Range: &list_j5pb.Range{Min: "1", Max: "9"}}},
					}}},
				}}}},
			}}}},
		},
	}
}

func TestSeedC10_1CrossPackageFirstUse(t *testing.T) {
	// test.foo.v1.service.ListFoosRequest refers to j5.list.v1.PageRequest and
	// j5.list.v1.QueryRequest: two packages.
	outer := &foo_testspb.ListFoosRequest{
		Page:  &list_j5pb.PageRequest{Token: proto.String("tok"), PageSize: proto.Int64(7)},
		Query: seedC10_1Query(),
	}
	inner := seedC10_1Query()

	// what each call returns when it runs alone
	alone := NewCodec()
	wantOuter, err := alone.ProtoToJSON(outer.ProtoReflect())
	if err != nil {
		t.Fatal(err)
	}
	wantInner, err := alone.ProtoToJSON(inner.ProtoReflect())
	if err != nil {
		t.Fatal(err)
	}

	const rounds = 3000
	for round := 0; round < rounds; round++ {
		shared := NewCodec() // cold cache: the first use of every type is overlapped

		var wg sync.WaitGroup
		start := make(chan struct{})
		var gotOuter, gotInner []byte
		var errOuter, errInner error

		wg.Add(2)
		go func() {
			defer wg.Done()
			<-start
			gotOuter, errOuter = shared.ProtoToJSON(outer.ProtoReflect())
		}()
		go func() {
			defer wg.Done()
			<-start
			gotInner, errInner = shared.ProtoToJSON(inner.ProtoReflect())
		}()
		close(start)
		wg.Wait()

		if errOuter != nil {
			t.Fatalf("round %d: ListFoosRequest: %s", round, errOuter)
		}
		if errInner != nil {
			t.Fatalf("round %d: QueryRequest: %s", round, errInner)
		}
		if string(gotOuter) != string(wantOuter) {
			t.Fatalf("round %d: ListFoosRequest\n got %s\nwant %s", round, gotOuter, wantOuter)
		}
		if string(gotInner) != string(wantInner) {
			t.Fatalf("round %d: QueryRequest\n got %s\nwant %s", round, gotInner, wantInner)
		}
	}
}
