// copy to: internal/j5s/protobuild/
package protobuild

import (
	"context"
	"strings"
	"testing"

	"github.com/bufbuild/protocompile"
	"github.com/pentops/j5/internal/j5s/protoprint"
	"google.golang.org/protobuf/proto"
	"google.golang.org/protobuf/reflect/protodesc"
	"google.golang.org/protobuf/reflect/protoreflect"
	"google.golang.org/protobuf/reflect/protoregistry"
	"google.golang.org/protobuf/types/descriptorpb"

	_ "buf.build/gen/go/bufbuild/protovalidate/protocolbuffers/go/buf/validate"
	_ "github.com/pentops/j5/gen/j5/ext/v1/ext_j5pb"
	_ "github.com/pentops/j5/gen/j5/list/v1/list_j5pb"
)

// demoRoundTrip prints the file, parses and links the printed text again with
// the imports of the original file, and compares the two descriptors
// (options decoded with the generated extension types), the leading comments
// and the text of a second print.
func demoRoundTrip(t *testing.T, orig protoreflect.FileDescriptor) {
	t.Helper()
	ctx := context.Background()

	text, err := protoprint.PrintFile(ctx, orig, "gen")
	if err != nil {
		t.Fatalf("print: %s", err)
	}
	t.Logf("printed %s:\n%s", orig.Path(), text)

	deps := map[string]protoreflect.FileDescriptor{}
	var walk func(fd protoreflect.FileDescriptor)
	walk = func(fd protoreflect.FileDescriptor) {
		imports := fd.Imports()
		for i := 0; i < imports.Len(); i++ {
			dep := imports.Get(i).FileDescriptor
			if _, ok := deps[dep.Path()]; ok {
				continue
			}
			deps[dep.Path()] = dep
			walk(dep)
		}
	}
	walk(orig)

	cc := protocompile.Compiler{
		Resolver: protocompile.ResolverFunc(func(filename string) (protocompile.SearchResult, error) {
			if filename == orig.Path() {
				return protocompile.SearchResult{Source: strings.NewReader(text)}, nil
			}
			if dep, ok := deps[filename]; ok {
				return protocompile.SearchResult{Desc: dep}, nil
			}
			return protocompile.SearchResult{}, protoregistry.NotFound
		}),
		SourceInfoMode: protocompile.SourceInfoStandard,
	}
	out, err := cc.Compile(ctx, orig.Path())
	if err != nil {
		t.Fatalf("printed text does not compile: %s", err)
	}
	again := out[0]

	canonical := func(fd protoreflect.FileDescriptor) *descriptorpb.FileDescriptorProto {
		fdp := protodesc.ToFileDescriptorProto(fd)
		fdp.SourceCodeInfo = nil
		demoClearEmptyOptions(fdp.ProtoReflect())
		b, err := proto.MarshalOptions{Deterministic: true}.Marshal(fdp)
		if err != nil {
			t.Fatal(err)
		}
		decoded := &descriptorpb.FileDescriptorProto{}
		if err := proto.Unmarshal(b, decoded); err != nil {
			t.Fatal(err)
		}
		return decoded
	}
	want, got := canonical(orig), canonical(again)
	if !proto.Equal(want, got) {
		t.Errorf("descriptor changed by print + parse\nwant: %s\n got: %s", want, got)
	}

	demoCompareComments(t, orig, again)

	text2, err := protoprint.PrintFile(ctx, again, "gen")
	if err != nil {
		t.Fatalf("print again: %s", err)
	}
	if text2 != text {
		t.Errorf("second print differs:\n%s", text2)
	}
}

// demoClearEmptyOptions drops options messages which are present but carry
// nothing ('rpc X(..) returns (..) {}' parses to empty method options).
func demoClearEmptyOptions(msg protoreflect.Message) {
	msg.Range(func(fd protoreflect.FieldDescriptor, val protoreflect.Value) bool {
		if fd.Message() == nil || fd.IsMap() {
			return true
		}
		if fd.IsList() {
			for i := 0; i < val.List().Len(); i++ {
				demoClearEmptyOptions(val.List().Get(i).Message())
			}
			return true
		}
		if fd.Name() == "options" && proto.Size(val.Message().Interface()) == 0 {
			msg.Clear(fd)
			return true
		}
		demoClearEmptyOptions(val.Message())
		return true
	})
}

func demoCompareComments(t *testing.T, orig, again protoreflect.FileDescriptor) {
	t.Helper()
	var each func(d protoreflect.Descriptor, cb func(protoreflect.Descriptor))
	each = func(d protoreflect.Descriptor, cb func(protoreflect.Descriptor)) {
		cb(d)
		switch d := d.(type) {
		case protoreflect.FileDescriptor:
			for i := 0; i < d.Messages().Len(); i++ {
				each(d.Messages().Get(i), cb)
			}
			for i := 0; i < d.Enums().Len(); i++ {
				each(d.Enums().Get(i), cb)
			}
			for i := 0; i < d.Services().Len(); i++ {
				each(d.Services().Get(i), cb)
			}
		case protoreflect.MessageDescriptor:
			for i := 0; i < d.Fields().Len(); i++ {
				cb(d.Fields().Get(i))
			}
			for i := 0; i < d.Oneofs().Len(); i++ {
				cb(d.Oneofs().Get(i))
			}
			for i := 0; i < d.Messages().Len(); i++ {
				each(d.Messages().Get(i), cb)
			}
			for i := 0; i < d.Enums().Len(); i++ {
				each(d.Enums().Get(i), cb)
			}
		case protoreflect.EnumDescriptor:
			for i := 0; i < d.Values().Len(); i++ {
				cb(d.Values().Get(i))
			}
		case protoreflect.ServiceDescriptor:
			for i := 0; i < d.Methods().Len(); i++ {
				cb(d.Methods().Get(i))
			}
		}
	}
	wantComments := map[protoreflect.FullName]string{}
	each(orig, func(d protoreflect.Descriptor) {
		if _, isFile := d.(protoreflect.FileDescriptor); isFile {
			return
		}
		wantComments[d.FullName()] = orig.SourceLocations().ByDescriptor(d).LeadingComments
	})
	each(again, func(d protoreflect.Descriptor) {
		if _, isFile := d.(protoreflect.FileDescriptor); isFile {
			return
		}
		got := again.SourceLocations().ByDescriptor(d).LeadingComments
		if want := wantComments[d.FullName()]; want != got {
			t.Errorf("leading comment of %s: want %q, got %q", d.FullName(), want, got)
		}
	})
}


// '?' marks a property explicitly optional, which compiles to a proto3
// 'optional' field (proto3_optional plus a synthetic oneof) whatever the type
// of the field is: here a scalar, an enum, an object reference, an inline
// object and a timestamp.
func TestDemoExplicitlyOptionalObject(t *testing.T) {
	tf := newTestFiles()
	tf.tAddJ5SFile("local/v1/foo.j5s",
		"object Foo {",
		"  field name ? string",
		"  field status ? enum:Status",
		"  field bar ? object:Bar",
		"  field inline ? object {",
		"    field a string",
		"  }",
		"  field when ? timestamp",
		"  field plain object:Bar",
		"}",
		"object Bar {",
		"  field id key:id62",
		"}",
		"enum Status {",
		"  option ACTIVE",
		"  option INACTIVE",
		"}",
	)
	files := testCompile(t, tf, newTestDeps(), "local.v1")
	demoRoundTrip(t, files.expectFile(t, "local/v1/foo.j5s.proto"))
}
