// copy to: internal/structure/
package structure

// Round-trip harness shared by the C15 demonstrations: proto source ->
// descriptors -> APIFromImage (export) -> PackageSetFromSourceAPI (import) ->
// export again, compared with proto.Equal.

import (
	"context"
	"fmt"
	"sort"
	"testing"

	"github.com/bufbuild/protocompile"
	"github.com/google/go-cmp/cmp"
	"github.com/pentops/j5/gen/j5/schema/v1/schema_j5pb"
	"github.com/pentops/j5/gen/j5/source/v1/source_j5pb"
	"github.com/pentops/j5/lib/j5schema"
	"google.golang.org/protobuf/proto"
	"google.golang.org/protobuf/reflect/protodesc"
	"google.golang.org/protobuf/reflect/protoreflect"
	"google.golang.org/protobuf/reflect/protoregistry"
	"google.golang.org/protobuf/testing/protocmp"
	"google.golang.org/protobuf/types/descriptorpb"

	_ "buf.build/gen/go/bufbuild/protovalidate/protocolbuffers/go/buf/validate"
	_ "github.com/pentops/j5/gen/j5/ext/v1/ext_j5pb"
	_ "github.com/pentops/j5/gen/j5/list/v1/list_j5pb"
	_ "github.com/pentops/j5/j5types/date_j5t"
	_ "github.com/pentops/j5/j5types/decimal_j5t"
	_ "google.golang.org/genproto/googleapis/api/annotations"
)

func c15Image(t *testing.T, packages []string, files map[string]string) *source_j5pb.SourceImage {
	t.Helper()
	names := make([]string, 0, len(files))
	for name := range files {
		names = append(names, name)
	}
	sort.Strings(names)

	compiler := protocompile.Compiler{
		Resolver: protocompile.CompositeResolver{
			&protocompile.SourceResolver{Accessor: protocompile.SourceAccessorFromMap(files)},
			protocompile.ResolverFunc(func(name string) (protocompile.SearchResult, error) {
				fd, err := protoregistry.GlobalFiles.FindFileByPath(name)
				if err != nil {
					return protocompile.SearchResult{}, err
				}
				return protocompile.SearchResult{Desc: fd}, nil
			}),
		},
	}
	linked, err := compiler.Compile(context.Background(), names...)
	if err != nil {
		t.Fatalf("compile: %v", err)
	}

	img := &source_j5pb.SourceImage{}
	for _, pkg := range packages {
		img.Packages = append(img.Packages, &source_j5pb.PackageInfo{Name: pkg, Label: pkg})
	}
	seen := map[string]bool{}
	var add func(fd protoreflect.FileDescriptor)
	add = func(fd protoreflect.FileDescriptor) {
		if seen[fd.Path()] {
			return
		}
		seen[fd.Path()] = true
		imports := fd.Imports()
		for i := 0; i < imports.Len(); i++ {
			add(imports.Get(i).FileDescriptor)
		}
		// via the wire form so that the option extensions are decoded into
		// their generated Go types, as they are in an image read from disk
		wire, err := proto.Marshal(protodesc.ToFileDescriptorProto(fd))
		if err != nil {
			t.Fatal(err)
		}
		fdp := &descriptorpb.FileDescriptorProto{}
		if err := proto.Unmarshal(wire, fdp); err != nil {
			t.Fatal(err)
		}
		img.File = append(img.File, fdp)
	}
	for _, file := range linked {
		add(file)
	}
	return img
}

// c15Flatten returns full-package-name -> schema-name -> schema for an API
func c15Flatten(api *source_j5pb.API) map[string]map[string]*schema_j5pb.RootSchema {
	out := map[string]map[string]*schema_j5pb.RootSchema{}
	for _, pkg := range api.Packages {
		if len(pkg.Schemas) > 0 {
			out[pkg.Name] = pkg.Schemas
		}
		for _, sub := range pkg.SubPackages {
			if len(sub.Schemas) > 0 {
				out[fmt.Sprintf("%s.%s", pkg.Name, sub.Name)] = sub.Schemas
			}
		}
	}
	return out
}

// c15RoundTrip exports, re-imports and exports again, failing the test when
// the import fails, a reference is left unresolved or the second export
// differs from the first.
func c15RoundTrip(t *testing.T, img *source_j5pb.SourceImage) {
	t.Helper()
	api, err := APIFromImage(img)
	if err != nil {
		t.Fatalf("APIFromImage: %v", err)
	}
	// through the wire form, as the registry does
	wire, err := proto.Marshal(api)
	if err != nil {
		t.Fatal(err)
	}
	api = &source_j5pb.API{}
	if err := proto.Unmarshal(wire, api); err != nil {
		t.Fatal(err)
	}

	first := c15Flatten(api)

	set, err := j5schema.PackageSetFromSourceAPI(api.Packages)
	if err != nil {
		t.Fatalf("re-import of the exported API failed: %v", err)
	}

	second := map[string]map[string]*schema_j5pb.RootSchema{}
	for _, pkg := range set.Packages {
		if len(pkg.Schemas) == 0 {
			continue
		}
		schemas := map[string]*schema_j5pb.RootSchema{}
		for name, ref := range pkg.Schemas {
			if ref.To == nil {
				t.Errorf("unresolved reference %s.%s after re-import", pkg.Name, name)
				continue
			}
			schemas[name] = ref.To.ToJ5Root()
		}
		second[pkg.Name] = schemas
	}

	nSchemas := 0
	for pkgName, schemas := range first {
		got, ok := second[pkgName]
		if !ok {
			t.Errorf("package %s missing after re-import", pkgName)
			continue
		}
		for name, want := range schemas {
			nSchemas++
			gotSchema, ok := got[name]
			if !ok {
				t.Errorf("schema %s.%s missing after re-import", pkgName, name)
				continue
			}
			if !proto.Equal(want, gotSchema) {
				t.Errorf("schema %s.%s differs after round trip:\n%s", pkgName, name, cmp.Diff(want, gotSchema, protocmp.Transform()))
			}
		}
	}
	for pkgName, schemas := range second {
		for name := range schemas {
			if _, ok := first[pkgName][name]; !ok {
				t.Errorf("schema %s.%s appeared in the re-import only", pkgName, name)
			}
		}
	}
	t.Logf("round-tripped %d schemas in %d packages", nSchemas, len(first))
}

const c15BetaChoice = `
syntax = "proto3";
package beta.v1;
import "j5/ext/v1/annotations.proto";

message Choice {
  option (j5.ext.v1.message).oneof = {};
  oneof type {
    A a = 1;
    B b = 2;
  }
  message A { string x = 1; }
  message B { string y = 1; }
}
`

// A oneof declared in one package and used as a field type in ANOTHER
// package (object and enum references across packages are not enough).
func TestC15CrossPackageOneof(t *testing.T) {
	t.Run("plain", func(t *testing.T) {
		img := c15Image(t, []string{"alpha.v1", "beta.v1"}, map[string]string{
			"beta/v1/beta.proto": c15BetaChoice,
			"alpha/v1/alpha.proto": `
syntax = "proto3";
package alpha.v1;
import "beta/v1/beta.proto";

message Thing {
  string name = 1;
  beta.v1.Choice choice = 2;
}
`,
		})
		c15RoundTrip(t, img)
	})

	t.Run("in array, from sub-package", func(t *testing.T) {
		img := c15Image(t, []string{"beta.v1"}, map[string]string{
			"beta/v1/beta.proto": c15BetaChoice,
			"beta/v1/service/svc.proto": `
syntax = "proto3";
package beta.v1.service;
import "beta/v1/beta.proto";

message Things {
  repeated beta.v1.Choice choices = 1;
}
`,
		})
		c15RoundTrip(t, img)
	})

	// the referencing package has its own oneof of the same short name: the
	// reference must still point at the other package's schema
	t.Run("same short name in both packages", func(t *testing.T) {
		img := c15Image(t, []string{"alpha.v1", "beta.v1"}, map[string]string{
			"beta/v1/beta.proto": c15BetaChoice,
			"alpha/v1/alpha.proto": `
syntax = "proto3";
package alpha.v1;
import "j5/ext/v1/annotations.proto";
import "beta/v1/beta.proto";

message Thing {
  Choice local = 1;
  beta.v1.Choice remote = 2;
}

message Choice {
  option (j5.ext.v1.message).oneof = {};
  oneof type {
    P p = 1;
  }
  message P { string z = 1; }
}
`,
		})
		c15RoundTrip(t, img)
	})
}
