// copy to: internal/j5client/
package j5client

import (
	"context"
	"encoding/json"
	"fmt"
	"sort"
	"strings"
	"testing"

	"github.com/pentops/j5/gen/j5/client/v1/client_j5pb"
	"github.com/pentops/j5/gen/j5/source/v1/source_j5pb"
	"github.com/pentops/j5/internal/export"
	"github.com/pentops/j5/internal/j5s/protobuild"
	"github.com/pentops/j5/internal/structure"
	"github.com/pentops/j5/lib/j5codec"
	"google.golang.org/protobuf/reflect/protodesc"
	"google.golang.org/protobuf/reflect/protoreflect"
	"google.golang.org/protobuf/types/descriptorpb"
)

type demoFiles struct {
	files    map[string][]byte
	packages []string
}

func (tf *demoFiles) ListPackages() []string { return tf.packages }

func (tf *demoFiles) ListSourceFiles(ctx context.Context, prefix string) ([]string, error) {
	var files []string
	for k := range tf.files {
		if strings.HasPrefix(k, prefix) {
			files = append(files, k)
		}
	}
	sort.Strings(files)
	return files, nil
}

func (tf *demoFiles) GetLocalFile(ctx context.Context, filename string) ([]byte, error) {
	if desc, ok := tf.files[filename]; ok {
		return desc, nil
	}
	return nil, fmt.Errorf("file not found: %s", filename)
}

type demoDeps struct{}

func (demoDeps) GetDependencyFile(filename string) (*descriptorpb.FileDescriptorProto, error) {
	return nil, fmt.Errorf("file not found: %s", filename)
}
func (demoDeps) ListDependencyFiles(root string) []string { return nil }

type demoResult struct {
	Image   *source_j5pb.SourceImage
	Source  *source_j5pb.API
	Client  *client_j5pb.API
	JSON    []byte
	Swagger []byte
}

// demoPipeline compiles one j5s file (package foo.v1) and runs the whole chain.
func demoPipeline(t *testing.T, j5s string) *demoResult {
	t.Helper()
	ctx := context.Background()
	tf := &demoFiles{
		files:    map[string][]byte{"foo/v1/foo.j5s": []byte(j5s)},
		packages: []string{"foo.v1"},
	}
	ps, err := protobuild.NewPackageSet(demoDeps{}, tf)
	if err != nil {
		t.Fatalf("NewPackageSet: %s", err)
	}
	linked, err := ps.CompilePackage(ctx, "foo.v1")
	if err != nil {
		t.Fatalf("CompilePackage: %s", err)
	}

	img := &source_j5pb.SourceImage{
		Packages: []*source_j5pb.PackageInfo{{Name: "foo.v1", Label: "Foo"}},
	}
	seen := map[string]bool{}
	var add func(fd protoreflect.FileDescriptor)
	add = func(fd protoreflect.FileDescriptor) {
		if seen[fd.Path()] {
			return
		}
		seen[fd.Path()] = true
		imports := fd.Imports()
		for i := 0; i < imports.Len(); i++ {
			add(imports.Get(i).FileDescriptor)
		}
		img.File = append(img.File, protodesc.ToFileDescriptorProto(fd))
	}
	for _, f := range linked {
		add(f)
		img.SourceFilenames = append(img.SourceFilenames, f.Path())
	}

	res := &demoResult{Image: img}

	res.Source, err = structure.APIFromImage(img)
	if err != nil {
		t.Fatalf("APIFromImage: %s", err)
	}
	res.Client, err = APIFromSource(res.Source)
	if err != nil {
		t.Fatalf("APIFromSource: %s", err)
	}
	res.JSON, err = j5codec.NewCodec().ProtoToJSON(res.Client.ProtoReflect())
	if err != nil {
		t.Fatalf("ProtoToJSON: %s", err)
	}
	doc, err := export.BuildSwagger(res.Client)
	if err != nil {
		t.Fatalf("BuildSwagger: %s", err)
	}
	res.Swagger, err = json.Marshal(doc)
	if err != nil {
		t.Fatalf("swagger marshal: %s", err)
	}
	return res
}

// TestSeedRequestSplitPrefixNamedProperty: a body method whose request has a
// property ("thing") whose name is a strict prefix of a path parameter's name
// ("thingId"). Path parameters must be exactly the :names of the path; every
// other property belongs to the body.
func TestSeedRequestSplitPrefixNamedProperty(t *testing.T) {
	res := demoPipeline(t, `package foo.v1

object ThingSpec {
	field name string
	field weight integer:INT32
}

service Thing {
	basePath = "/foo/v1"
	method ReplaceThing {
		httpMethod = "PUT"
		httpPath = "/things/:thingId"

		request {
			field thingId key:id62
			field thing object:ThingSpec
			field note string
		}

		response {
			field thing object:ThingSpec
		}
	}
}
`)

	var method *client_j5pb.Method
	for _, pkg := range res.Client.Packages {
		for _, svc := range pkg.Services {
			for _, m := range svc.Methods {
				if m.Name == "ReplaceThing" {
					method = m
				}
			}
		}
	}
	if method == nil {
		t.Fatal("method ReplaceThing not in client API")
	}
	if method.HttpPath != "/foo/v1/things/:thingId" {
		t.Errorf("path: %s", method.HttpPath)
	}

	wantPath := []string{}
	for _, part := range strings.Split(method.HttpPath, "/") {
		if strings.HasPrefix(part, ":") {
			wantPath = append(wantPath, part[1:])
		}
	}
	gotPath := []string{}
	for _, p := range method.Request.PathParameters {
		gotPath = append(gotPath, p.Name)
	}
	sort.Strings(wantPath)
	sort.Strings(gotPath)
	if strings.Join(wantPath, ",") != strings.Join(gotPath, ",") {
		t.Errorf("path parameters: path names %v, client API lists %v", wantPath, gotPath)
	}

	if method.Request.Body == nil {
		t.Fatal("PUT method has no request body")
	}
	gotBody := []string{}
	for _, p := range method.Request.Body.Properties {
		gotBody = append(gotBody, p.Name)
	}
	if strings.Join(gotBody, ",") != "thing,note" {
		t.Errorf("body properties: want [thing note], got %v", gotBody)
	}
	if len(method.Request.QueryParameters) != 0 {
		t.Errorf("unexpected query parameters on a PUT method")
	}

	// the swagger operation must agree
	var doc struct {
		Paths map[string]map[string]struct {
			Parameters []struct {
				Name string `json:"name"`
				In   string `json:"in"`
			} `json:"parameters"`
		} `json:"paths"`
	}
	if err := json.Unmarshal(res.Swagger, &doc); err != nil {
		t.Fatal(err)
	}
	op, ok := doc.Paths["/foo/v1/things/:thingId"]["put"]
	if !ok {
		t.Fatalf("swagger has no PUT /foo/v1/things/:thingId")
	}
	if len(op.Parameters) != 1 || op.Parameters[0].Name != "thingId" || op.Parameters[0].In != "path" {
		t.Errorf("swagger parameters: %+v", op.Parameters)
	}
}
