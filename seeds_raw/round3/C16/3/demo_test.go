// copy to: internal/j5client/
package j5client

import (
	"context"
	"encoding/json"
	"fmt"
	"sort"
	"strings"
	"testing"

	"github.com/pentops/j5/gen/j5/client/v1/client_j5pb"
	"github.com/pentops/j5/gen/j5/source/v1/source_j5pb"
	"github.com/pentops/j5/internal/export"
	"github.com/pentops/j5/internal/j5s/protobuild"
	"github.com/pentops/j5/internal/structure"
	"github.com/pentops/j5/lib/j5codec"
	"google.golang.org/protobuf/reflect/protodesc"
	"google.golang.org/protobuf/reflect/protoreflect"
	"google.golang.org/protobuf/types/descriptorpb"
)

type demoFiles struct {
	files    map[string][]byte
	packages []string
}

func (tf *demoFiles) ListPackages() []string { return tf.packages }

func (tf *demoFiles) ListSourceFiles(ctx context.Context, prefix string) ([]string, error) {
	var files []string
	for k := range tf.files {
		if strings.HasPrefix(k, prefix) {
			files = append(files, k)
		}
	}
	sort.Strings(files)
	return files, nil
}

func (tf *demoFiles) GetLocalFile(ctx context.Context, filename string) ([]byte, error) {
	if desc, ok := tf.files[filename]; ok {
		return desc, nil
	}
	return nil, fmt.Errorf("file not found: %s", filename)
}

type demoDeps struct{}

func (demoDeps) GetDependencyFile(filename string) (*descriptorpb.FileDescriptorProto, error) {
	return nil, fmt.Errorf("file not found: %s", filename)
}
func (demoDeps) ListDependencyFiles(root string) []string { return nil }

type demoResult struct {
	Image   *source_j5pb.SourceImage
	Source  *source_j5pb.API
	Client  *client_j5pb.API
	JSON    []byte
	Swagger []byte
}

// demoPipeline compiles one j5s file (package foo.v1) and runs the whole chain.
func demoPipeline(t *testing.T, j5s string) *demoResult {
	t.Helper()
	ctx := context.Background()
	tf := &demoFiles{
		files:    map[string][]byte{"foo/v1/foo.j5s": []byte(j5s)},
		packages: []string{"foo.v1"},
	}
	ps, err := protobuild.NewPackageSet(demoDeps{}, tf)
	if err != nil {
		t.Fatalf("NewPackageSet: %s", err)
	}
	linked, err := ps.CompilePackage(ctx, "foo.v1")
	if err != nil {
		t.Fatalf("CompilePackage: %s", err)
	}

	img := &source_j5pb.SourceImage{
		Packages: []*source_j5pb.PackageInfo{{Name: "foo.v1", Label: "Foo"}},
	}
	seen := map[string]bool{}
	var add func(fd protoreflect.FileDescriptor)
	add = func(fd protoreflect.FileDescriptor) {
		if seen[fd.Path()] {
			return
		}
		seen[fd.Path()] = true
		imports := fd.Imports()
		for i := 0; i < imports.Len(); i++ {
			add(imports.Get(i).FileDescriptor)
		}
		img.File = append(img.File, protodesc.ToFileDescriptorProto(fd))
	}
	for _, f := range linked {
		add(f)
		img.SourceFilenames = append(img.SourceFilenames, f.Path())
	}

	res := &demoResult{Image: img}

	res.Source, err = structure.APIFromImage(img)
	if err != nil {
		t.Fatalf("APIFromImage: %s", err)
	}
	res.Client, err = APIFromSource(res.Source)
	if err != nil {
		t.Fatalf("APIFromSource: %s", err)
	}
	res.JSON, err = j5codec.NewCodec().ProtoToJSON(res.Client.ProtoReflect())
	if err != nil {
		t.Fatalf("ProtoToJSON: %s", err)
	}
	doc, err := export.BuildSwagger(res.Client)
	if err != nil {
		t.Fatalf("BuildSwagger: %s", err)
	}
	res.Swagger, err = json.Marshal(doc)
	if err != nil {
		t.Fatalf("swagger marshal: %s", err)
	}
	return res
}

// TestSeedFormatlessKeyToSwagger: a key field declared without a format
// ("field ref key") anywhere in a reachable schema. The whole chain, including
// the OpenAPI export, must complete.
func TestSeedFormatlessKeyToSwagger(t *testing.T) {
	res := demoPipeline(t, `package foo.v1

object Thing {
	field thingId key:id62
	field ownerId key:uuid
	field externalRef key
	field name string
}

service Thing {
	basePath = "/foo/v1"
	method GetThing {
		httpMethod = "GET"
		httpPath = "/things/:thingId"

		request {
			field thingId key:id62
		}

		response {
			field thing object:Thing
		}
	}
}
`)

	var doc struct {
		Components struct {
			Schemas map[string]struct {
				Properties map[string]map[string]interface{} `json:"properties"`
			} `json:"schemas"`
		} `json:"components"`
	}
	if err := json.Unmarshal(res.Swagger, &doc); err != nil {
		t.Fatal(err)
	}
	thing, ok := doc.Components.Schemas["foo.v1.Thing"]
	if !ok {
		t.Fatal("foo.v1.Thing missing from swagger components")
	}
	for name, wantFormat := range map[string]interface{}{
		"thingId":     "id62",
		"ownerId":     "uuid",
		"externalRef": nil,
	} {
		prop, ok := thing.Properties[name]
		if !ok {
			t.Errorf("property %s missing", name)
			continue
		}
		if prop["type"] != "string" {
			t.Errorf("property %s: type %v", name, prop["type"])
		}
		if prop["format"] != wantFormat {
			t.Errorf("property %s: format %v, want %v", name, prop["format"], wantFormat)
		}
	}
}
