// copy to: internal/j5s/protobuild/
package protobuild

import (
	"fmt"
	"testing"

	"github.com/pentops/j5/gen/j5/schema/v1/schema_j5pb"
	"github.com/pentops/j5/lib/j5schema"
)

// Seed C04/1: uniqueItems on an array whose items are message-typed in proto
// (object refs, dates, decimals, timestamps) must read back as declared.
func TestSeedC04_1_UniqueItemsOnMessageArrays(t *testing.T) {
	tf := newTestFiles()
	tf.tAddJ5SFile("local/v1/foo.j5s",
		"object Item {",
		"  field a string",
		"}",
		"",
		"object Foo {",
		"  field names array:string {",
		"    rules.uniqueItems = true",
		"  }",
		"  field items array:object:Item {",
		"    rules.uniqueItems = true",
		"    rules.minItems = 2",
		"  }",
		"  field days array:date {",
		"    rules.uniqueItems = true",
		"  }",
		"  field loose array:object:Item {",
		"    rules.uniqueItems = false",
		"    rules.maxItems = 4",
		"  }",
		"}",
	)
	td := newTestDeps()
	files := testCompile(t, tf, td, "local.v1")
	file := files.expectFile(t, "local/v1/foo.j5s.proto")

	msg := file.Messages().ByName("Foo")
	if msg == nil {
		t.Fatal("message Foo not compiled")
	}

	cache := j5schema.NewSchemaCache()
	root, err := cache.Schema(msg)
	if err != nil {
		t.Fatalf("reflecting Foo: %s", err)
	}
	obj := root.ToJ5Root().GetObject()
	if obj == nil {
		t.Fatalf("Foo is not an object: %v", root.ToJ5Root())
	}

	type want struct {
		unique   *bool
		minItems *uint64
		maxItems *uint64
	}
	yes, no := true, false
	two, four := uint64(2), uint64(4)
	wants := map[string]want{
		"names": {unique: &yes},
		"items": {unique: &yes, minItems: &two},
		"days":  {unique: &yes},
		"loose": {unique: &no, maxItems: &four},
	}

	seen := 0
	for _, prop := range obj.Properties {
		w, ok := wants[prop.Name]
		if !ok {
			continue
		}
		seen++
		arr := prop.Schema.GetArray()
		if arr == nil {
			t.Errorf("%s: not an array: %v", prop.Name, prop.Schema)
			continue
		}
		rules := arr.Rules
		if rules == nil {
			rules = &schema_j5pb.ArrayField_Rules{}
		}
		if !eqPtr(rules.UniqueItems, w.unique) {
			t.Errorf("%s: uniqueItems declared %s, read back %s", prop.Name, fmtPtr(w.unique), fmtPtr(rules.UniqueItems))
		}
		if !eqPtr(rules.MinItems, w.minItems) {
			t.Errorf("%s: minItems declared %s, read back %s", prop.Name, fmtPtr(w.minItems), fmtPtr(rules.MinItems))
		}
		if !eqPtr(rules.MaxItems, w.maxItems) {
			t.Errorf("%s: maxItems declared %s, read back %s", prop.Name, fmtPtr(w.maxItems), fmtPtr(rules.MaxItems))
		}
	}
	if seen != len(wants) {
		t.Fatalf("expected %d array properties, saw %d", len(wants), seen)
	}
}

func eqPtr[T comparable](a, b *T) bool {
	if a == nil || b == nil {
		return a == nil && b == nil
	}
	return *a == *b
}

func fmtPtr[T any](a *T) string {
	if a == nil {
		return "<unset>"
	}
	return fmt.Sprint(*a)
}
