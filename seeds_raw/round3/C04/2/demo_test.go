// copy to: internal/j5s/protobuild/
package protobuild

import (
	"reflect"
	"testing"

	"github.com/pentops/j5/gen/j5/schema/v1/schema_j5pb"
	"github.com/pentops/j5/lib/j5schema"
	"google.golang.org/protobuf/reflect/protoreflect"
	"google.golang.org/protobuf/reflect/protoregistry"
)

// Seed C04/2: enum in / notIn rules must read back with the option names the
// source declared, including an explicitly declared UNSPECIFIED option.
func TestSeedC04_2_EnumNotInWithDeclaredZeroOption(t *testing.T) {
	tf := newTestFiles()
	tf.tAddJ5SFile("local/v1/foo.j5s",
		"enum Color {",
		"  option UNSPECIFIED | not chosen yet",
		"  option RED",
		"  option GREEN",
		"  option BLUE",
		"}",
		"",
		"object Foo {",
		"  field plain enum:Color {",
		"    rules.notIn = [\"GREEN\", \"BLUE\"]",
		"  }",
		"  field chosen enum:Color {",
		"    rules.notIn = [\"UNSPECIFIED\", \"GREEN\"]",
		"  }",
		"  field onlyZero enum:Color {",
		"    rules.notIn = [\"BLUE\", \"UNSPECIFIED\"]",
		"  }",
		"  field allowed enum:Color {",
		"    rules.in = [\"UNSPECIFIED\", \"RED\"]",
		"  }",
		"  field many array:enum:Color {",
		"    items.enum.rules.notIn = [\"RED\", \"UNSPECIFIED\"]",
		"  }",
		"}",
	)
	td := newTestDeps()
	files := testCompile(t, tf, td, "local.v1")
	file := files.expectFile(t, "local/v1/foo.j5s.proto")

	type want struct {
		in    []string
		notIn []string
	}
	wants := map[string]want{
		"plain":    {notIn: []string{"GREEN", "BLUE"}},
		"chosen":   {notIn: []string{"UNSPECIFIED", "GREEN"}},
		"onlyZero": {notIn: []string{"BLUE", "UNSPECIFIED"}},
		"allowed":  {in: []string{"UNSPECIFIED", "RED"}},
		"many":     {notIn: []string{"RED", "UNSPECIFIED"}},
	}

	check := func(t *testing.T, obj *schema_j5pb.Object) {
		t.Helper()
		if obj == nil {
			t.Fatal("Foo is not an object")
		}
		seen := 0
		for _, prop := range obj.Properties {
			w, ok := wants[prop.Name]
			if !ok {
				continue
			}
			seen++
			field := prop.Schema.GetEnum()
			if arr := prop.Schema.GetArray(); arr != nil {
				field = arr.Items.GetEnum()
			}
			if field == nil {
				t.Errorf("%s: not an enum field: %v", prop.Name, prop.Schema)
				continue
			}
			gotIn := field.GetRules().GetIn()
			gotNotIn := field.GetRules().GetNotIn()
			if !sameStrings(gotIn, w.in) {
				t.Errorf("%s: rules.in declared %q, read back %q", prop.Name, w.in, gotIn)
			}
			if !sameStrings(gotNotIn, w.notIn) {
				t.Errorf("%s: rules.notIn declared %q, read back %q", prop.Name, w.notIn, gotNotIn)
			}
		}
		if seen != len(wants) {
			t.Fatalf("expected %d enum properties, saw %d", len(wants), seen)
		}
	}

	t.Run("SchemaCache", func(t *testing.T) {
		cache := j5schema.NewSchemaCache()
		root, err := cache.Schema(file.Messages().ByName("Foo"))
		if err != nil {
			t.Fatalf("reflecting Foo: %s", err)
		}
		check(t, root.ToJ5Root().GetObject())
	})

	t.Run("SchemaSetFromFiles", func(t *testing.T) {
		reg := &protoregistry.Files{}
		if err := reg.RegisterFile(file); err != nil {
			t.Fatal(err)
		}
		set, err := j5schema.SchemaSetFromFiles(reg, func(fd protoreflect.FileDescriptor) bool { return true })
		if err != nil {
			t.Fatalf("reflecting files: %s", err)
		}
		root, err := set.SchemaByName("local.v1", "Foo")
		if err != nil {
			t.Fatal(err)
		}
		check(t, root.ToJ5Root().GetObject())

		// the enum itself still declares the zero option
		enumRoot, err := set.SchemaByName("local.v1", "Color")
		if err != nil {
			t.Fatal(err)
		}
		options := enumRoot.ToJ5Root().GetEnum().GetOptions()
		if len(options) != 4 || options[0].Name != "UNSPECIFIED" || options[0].Description != "not chosen yet" {
			t.Fatalf("unexpected enum options: %v", options)
		}
	})
}

func sameStrings(a, b []string) bool {
	if len(a) == 0 && len(b) == 0 {
		return true
	}
	return reflect.DeepEqual(a, b)
}
