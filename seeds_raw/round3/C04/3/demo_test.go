// copy to: internal/j5s/protobuild/
package protobuild

import (
	"testing"

	"github.com/pentops/j5/gen/j5/schema/v1/schema_j5pb"
	"github.com/pentops/j5/lib/j5schema"
	"google.golang.org/protobuf/reflect/protoreflect"
	"google.golang.org/protobuf/reflect/protoregistry"
)

// Seed C04/3: descriptions of inline (nested) enums and of their options must
// read back as declared, wherever the enum field sits among the other fields
// of the object.
func TestSeedC04_3_InlineEnumDescriptionsAfterNestedTypes(t *testing.T) {
	tf := newTestFiles()
	tf.tAddJ5SFile("local/v1/foo.j5s",
		// inline enum first: no nested message precedes it
		"object Simple {",
		"  | simple desc",
		"  field kind enum {",
		"    | kind field desc",
		"    enum.description = \"kind enum desc\"",
		"    option A | kind a desc",
		"    option B",
		"  }",
		"  field name string | name desc",
		"}",
		"",
		// a map and an inline object come before the inline enums
		"object Foo {",
		"  | foo desc",
		"  field labels map:string",
		"  field sub object {",
		"    | sub field desc",
		"    object.description = \"sub object desc\"",
		"    field x string | x desc",
		"  }",
		"  field level enum {",
		"    | level field desc",
		"    enum.description = \"level enum desc\"",
		"    option LOW | low desc",
		"    option HIGH | high desc",
		"  }",
		"  field tone enum {",
		"    enum.description = \"tone enum desc\"",
		"    option WARM",
		"    option COLD | cold desc",
		"  }",
		"}",
	)
	td := newTestDeps()
	files := testCompile(t, tf, td, "local.v1")
	file := files.expectFile(t, "local/v1/foo.j5s.proto")

	reg := &protoregistry.Files{}
	if err := reg.RegisterFile(file); err != nil {
		t.Fatal(err)
	}
	set, err := j5schema.SchemaSetFromFiles(reg, func(fd protoreflect.FileDescriptor) bool { return true })
	if err != nil {
		t.Fatalf("reflecting files: %s", err)
	}

	root := func(name string) *schema_j5pb.RootSchema {
		t.Helper()
		schema, err := set.SchemaByName("local.v1", name)
		if err != nil {
			t.Fatal(err)
		}
		return schema.ToJ5Root()
	}

	expectEnum := func(name, desc string, options map[string]string) {
		t.Helper()
		enum := root(name).GetEnum()
		if enum == nil {
			t.Errorf("%s is not an enum", name)
			return
		}
		if enum.Description != desc {
			t.Errorf("enum %s: description declared %q, read back %q", name, desc, enum.Description)
		}
		for _, opt := range enum.Options {
			want := options[opt.Name]
			if opt.Description != want {
				t.Errorf("enum %s option %s: description declared %q, read back %q", name, opt.Name, want, opt.Description)
			}
		}
	}

	expectObject := func(name, desc string, props map[string]string) {
		t.Helper()
		obj := root(name).GetObject()
		if obj == nil {
			t.Errorf("%s is not an object", name)
			return
		}
		if obj.Description != desc {
			t.Errorf("object %s: description declared %q, read back %q", name, desc, obj.Description)
		}
		for _, prop := range obj.Properties {
			want := props[prop.Name]
			if prop.Description != want {
				t.Errorf("object %s property %s: description declared %q, read back %q", name, prop.Name, want, prop.Description)
			}
		}
	}

	expectObject("Simple", "simple desc", map[string]string{"kind": "kind field desc", "name": "name desc"})
	expectEnum("Simple_Kind", "kind enum desc", map[string]string{"A": "kind a desc"})

	expectObject("Foo", "foo desc", map[string]string{"sub": "sub field desc", "level": "level field desc"})
	expectObject("Foo_Sub", "sub object desc", map[string]string{"x": "x desc"})
	expectEnum("Foo_Level", "level enum desc", map[string]string{"LOW": "low desc", "HIGH": "high desc"})
	expectEnum("Foo_Tone", "tone enum desc", map[string]string{"COLD": "cold desc"})
}
