// copy to: internal/j5s/protobuild/
package protobuild

import (
	"context"
	"testing"
)

// A map field is legal under any property name. The map entry message the
// compiler synthesises must be named the way protoc derives it from the
// *proto* field name, otherwise the linker refuses the file.
func TestSeedC07_2_MapFieldNames(t *testing.T) {
	for _, fieldName := range []string{
		"labels",      // one word
		"extraLabels", // ordinary camelCase
		"tagsByID",    // trailing acronym
		"fooURLs",     // acronym in the middle
	} {
		t.Run(fieldName, func(t *testing.T) {
			tf := newTestFiles()
			tf.tAddJ5SFile("local/v1/foo.j5s",
				"object Foo {",
				"  field "+fieldName+" map:string",
				"}",
			)
			td := newTestDeps()

			cc, err := NewPackageSet(td, tf)
			if err != nil {
				t.Fatalf("NewPackageSet: %s", err)
			}

			out, err := cc.CompilePackage(context.Background(), "local.v1")
			if err != nil {
				t.Fatalf("valid map field %q was rejected: %s", fieldName, err)
			}

			for _, file := range out {
				if file.Path() != "local/v1/foo.j5s.proto" {
					continue
				}
				foo := file.Messages().ByName("Foo")
				if foo == nil {
					t.Fatalf("message Foo missing")
				}
				if foo.Fields().Len() != 1 || !foo.Fields().Get(0).IsMap() {
					t.Fatalf("expected a single map field in Foo")
				}
			}

			// the lint entry point must agree
			cc2, err := NewPackageSet(td, tf)
			if err != nil {
				t.Fatalf("NewPackageSet: %s", err)
			}
			es, err := LintAll(context.Background(), cc2)
			if err != nil {
				t.Fatalf("LintAll on a valid file: %s", err)
			}
			if es != nil {
				t.Fatalf("LintAll reported problems on a valid file: %v", es)
			}
		})
	}
}
