// copy to: internal/j5s/protobuild/
package protobuild

import (
	"context"
	"testing"
)

// An entity may declare helper schemas next to its keys / data / events
// ("object", "enum", "oneof" blocks inside the entity body). They become
// ordinary package-level types which the entity's own fields can reference.
func TestSeedC07_1_EntityNestedObject(t *testing.T) {
	tf := newTestFiles()
	tf.tAddJ5SFile("local/v1/foo.j5s",
		"entity Foo {",
		"  key fooId key:id62 {",
		"    primary = true",
		"  }",
		"",
		"  data address object:Address",
		"",
		"  status ACTIVE",
		"",
		"  event Create {",
		"    field name string",
		"  }",
		"",
		"  object Address {",
		"    field street string",
		"  }",
		"}",
	)
	td := newTestDeps()

	cc, err := NewPackageSet(td, tf)
	if err != nil {
		t.Fatalf("NewPackageSet: %s", err)
	}

	out, err := cc.CompilePackage(context.Background(), "local.v1")
	if err != nil {
		t.Fatalf("valid entity with a nested object was rejected: %s", err)
	}

	var found bool
	for _, file := range out {
		if file.Path() != "local/v1/foo.j5s.proto" {
			continue
		}
		found = true
		if file.Messages().ByName("Address") == nil {
			t.Errorf("expected message Address at the root of %s", file.Path())
		}
		eventType := file.Messages().ByName("FooEventType")
		if eventType == nil {
			t.Fatalf("expected message FooEventType")
		}
		if eventType.Messages().ByName("Address") != nil {
			t.Errorf("nested object Address was turned into an event")
		}
		if got := eventType.Fields().Len(); got != 1 {
			t.Errorf("expected exactly one event (Create), got %d", got)
		}
	}
	if !found {
		t.Fatalf("local/v1/foo.j5s.proto not in output")
	}
}
