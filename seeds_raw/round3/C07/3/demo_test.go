// copy to: internal/j5s/protobuild/
package protobuild

import (
	"context"
	"testing"
)

// A type from another package may be used as the item type of an array or the
// value type of a map. That single use is enough to make the other package a
// dependency of the file: nothing else in the file (or in the package) has to
// mention it.
func TestSeedC07_3_ImportedTypeOnlyInContainer(t *testing.T) {
	for _, tc := range []struct {
		name  string
		field string
	}{
		{name: "direct", field: "field item object:bar.v1.Item"},
		{name: "array", field: "field items array:object:bar.v1.Item"},
		{name: "map", field: "field itemsByName map:object:bar.v1.Item"},
		{name: "map short alias", field: "field itemsByName map:object:bar.Item"},
	} {
		t.Run(tc.name, func(t *testing.T) {
			tf := newTestFiles()
			tf.tAddJ5SFile("bar/v1/item.j5s",
				"object Item {",
				"  field name string",
				"}",
			)
			tf.tAddJ5SFile("foo/v1/foo.j5s",
				"import bar.v1",
				"",
				"object Foo {",
				"  "+tc.field,
				"}",
			)
			td := newTestDeps()

			cc, err := NewPackageSet(td, tf)
			if err != nil {
				t.Fatalf("NewPackageSet: %s", err)
			}

			out, err := cc.CompilePackage(context.Background(), "foo.v1")
			if err != nil {
				t.Fatalf("valid package was rejected: %s", err)
			}

			var foundFile bool
			for _, file := range out {
				if file.Path() != "foo/v1/foo.j5s.proto" {
					continue
				}
				foundFile = true
				var importsBar bool
				imports := file.Imports()
				for i := 0; i < imports.Len(); i++ {
					if imports.Get(i).Path() == "bar/v1/item.j5s.proto" {
						importsBar = true
					}
				}
				if !importsBar {
					t.Errorf("foo/v1/foo.j5s.proto does not import bar/v1/item.j5s.proto")
				}
			}
			if !foundFile {
				t.Fatalf("foo/v1/foo.j5s.proto not in output")
			}

			// and the lint entry point must not complain about the import
			cc2, err := NewPackageSet(td, tf)
			if err != nil {
				t.Fatalf("NewPackageSet: %s", err)
			}
			es, err := LintAll(context.Background(), cc2)
			if err != nil {
				t.Fatalf("LintAll on a valid package: %s", err)
			}
			if es != nil {
				t.Fatalf("LintAll reported problems on a valid package: %v", es)
			}
		})
	}
}
