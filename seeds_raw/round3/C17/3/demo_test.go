// copy to: internal/j5s/protobuild/
package protobuild

import (
	"reflect"
	"testing"

	"github.com/pentops/j5/gen/j5/client/v1/client_j5pb"
	"github.com/pentops/j5/gen/j5/source/v1/source_j5pb"
	"github.com/pentops/j5/internal/j5client"
	"github.com/pentops/j5/internal/structure"
	"google.golang.org/protobuf/reflect/protodesc"
	"google.golang.org/protobuf/reflect/protoreflect"
	"google.golang.org/protobuf/types/descriptorpb"
)

// seedClientAPI runs the compiled package through the same steps the builder
// uses to derive the client API: descriptors -> source API -> client API.
func seedClientAPI(t *testing.T, files fileSet, pkgName string) *client_j5pb.API {
	t.Helper()
	seen := map[string]bool{}
	var all []*descriptorpb.FileDescriptorProto
	var add func(fd protoreflect.FileDescriptor)
	add = func(fd protoreflect.FileDescriptor) {
		if seen[fd.Path()] {
			return
		}
		seen[fd.Path()] = true
		imports := fd.Imports()
		for i := 0; i < imports.Len(); i++ {
			add(imports.Get(i).FileDescriptor)
		}
		all = append(all, protodesc.ToFileDescriptorProto(fd))
	}
	for _, f := range files {
		add(f)
	}
	img := &source_j5pb.SourceImage{
		File:     all,
		Packages: []*source_j5pb.PackageInfo{{Name: pkgName}},
	}
	sourceAPI, err := structure.APIFromImage(img)
	if err != nil {
		t.Fatalf("APIFromImage: %s", err)
	}
	clientAPI, err := j5client.APIFromSource(sourceAPI)
	if err != nil {
		t.Fatalf("APIFromSource: %s", err)
	}
	return clientAPI
}

// The path parameters of the entity's Get and Events methods in the client
// API are exactly the primary keys, in declaration order; paging and query
// stay query parameters.
func TestSeedC17_3_ClientPathParameters(t *testing.T) {
	tf := newTestFiles()
	tf.tAddJ5SFile("local/v1/section.j5s",
		"entity Section {",
		"  key pageId key:id62 {",
		"    primary = true",
		"  }",
		"  key sectionId key:id62 {",
		"    primary = true",
		"  }",
		"  data title string",
		"  status DRAFT",
		"  status LIVE",
		"  event Create {",
		"    field title string",
		"  }",
		"}",
	)

	files := testCompile(t, tf, newTestDeps(), "local.v1")
	api := seedClientAPI(t, files, "local.v1")

	var entity *client_j5pb.StateEntity
	for _, pkg := range api.Packages {
		for _, ent := range pkg.StateEntities {
			if ent.Name == "section" {
				entity = ent
			}
		}
	}
	if entity == nil {
		t.Fatalf("no state entity 'section' in client API")
	}

	wantKeys := []string{"pageId", "sectionId"}
	if !reflect.DeepEqual(entity.PrimaryKey, wantKeys) {
		t.Errorf("primary keys: got %v want %v", entity.PrimaryKey, wantKeys)
	}


	for _, method := range entity.QueryService.Methods {
		var path, query []string
		for _, p := range method.Request.PathParameters {
			path = append(path, p.Name)
		}
		for _, p := range method.Request.QueryParameters {
			query = append(query, p.Name)
		}
		t.Logf("%s %s path=%v query=%v", method.Name, method.HttpPath, path, query)

		switch method.Name {
		case "SectionGet":
			if !reflect.DeepEqual(path, wantKeys) {
				t.Errorf("SectionGet path parameters: got %v want %v", path, wantKeys)
			}
		case "SectionEvents":
			if !reflect.DeepEqual(path, wantKeys) {
				t.Errorf("SectionEvents path parameters: got %v want %v", path, wantKeys)
			}
			if !reflect.DeepEqual(query, []string{"page", "query"}) {
				t.Errorf("SectionEvents query parameters: got %v want [page query]", query)
			}
		case "SectionList":
			if len(path) != 0 {
				t.Errorf("SectionList path parameters: got %v want none", path)
			}
			if !reflect.DeepEqual(query, []string{"page", "query"}) {
				t.Errorf("SectionList query parameters: got %v want [page query]", query)
			}
		default:
			t.Errorf("unexpected query method %s", method.Name)
		}
	}
}
