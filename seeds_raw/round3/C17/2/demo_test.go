// copy to: internal/j5s/protobuild/
package protobuild

import (
	"testing"

	"github.com/pentops/j5/gen/j5/ext/v1/ext_j5pb"
	"google.golang.org/protobuf/proto"
	"google.golang.org/protobuf/reflect/protoreflect"
)

// Every command service of an entity carries the entity annotation, also a
// second, named command service which declares service options of its own.
func TestSeedC17_2_CommandServiceAnnotation(t *testing.T) {
	tf := newTestFiles()
	tf.tAddJ5SFile("local/v1/foo.j5s",
		"entity FooBar {",
		"  key fooId key:id62 {",
		"    primary = true",
		"  }",
		"  data name string",
		"  status ACTIVE",
		"  event Create {",
		"    field name string",
		"  }",
		"  command {",
		"    method Create {",
		"      httpMethod = \"POST\"",
		"      httpPath = \":fooId/create\"",
		"      request {",
		"        field fooId key:id62",
		"      }",
		"      response {",
		"      }",
		"    }",
		"  }",
		"  command Admin {",
		"    basePath = \"admin\"",
		"    options.audience = [\"internal\"]",
		"    method Purge {",
		"      httpMethod = \"POST\"",
		"      httpPath = \":fooId/purge\"",
		"      request {",
		"        field fooId key:id62",
		"      }",
		"      response {",
		"      }",
		"    }",
		"  }",
		"}",
	)

	files := testCompile(t, tf, newTestDeps(), "local.v1")
	serviceFile := files.expectFile(t, "local/v1/service/foo.p.j5s.proto")

	for _, name := range []protoreflect.Name{"FooBarCommandService", "AdminCommandService"} {
		svc := serviceFile.Services().ByName(name)
		if svc == nil {
			t.Errorf("missing service %s", name)
			continue
		}
		opts, _ := proto.GetExtension(svc.Options(), ext_j5pb.E_Service).(*ext_j5pb.ServiceOptions)
		if got := opts.GetStateCommand().GetEntity(); got != "foo_bar" {
			t.Errorf("%s: state_command entity annotation is %q, want %q", name, got, "foo_bar")
		}
	}

	query := serviceFile.Services().ByName("FooBarQueryService")
	if query == nil {
		t.Fatalf("missing query service")
	}
	qopts, _ := proto.GetExtension(query.Options(), ext_j5pb.E_Service).(*ext_j5pb.ServiceOptions)
	if got := qopts.GetStateQuery().GetEntity(); got != "foo_bar" {
		t.Errorf("query service entity annotation is %q", got)
	}
}
