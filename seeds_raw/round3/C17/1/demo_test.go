// copy to: internal/j5s/protobuild/
package protobuild

import (
	"testing"

	"google.golang.org/genproto/googleapis/api/annotations"
	"google.golang.org/protobuf/proto"
	"google.golang.org/protobuf/reflect/protoreflect"
)

// Primary keys must appear in the Get and Events URL in the order they are
// declared, also when one of the later ones carries the shard marker.
func TestSeedC17_1_PrimaryKeyPathOrder(t *testing.T) {
	tf := newTestFiles()
	tf.tAddJ5SFile("local/v1/order.j5s",
		"entity Order {",
		"  key orderId key:id62 {",
		"    primary = true",
		"  }",
		"  key regionId key:id62 {",
		"    primary = true",
		"    shardKey = true",
		"  }",
		"  key lineId key:id62 {",
		"    primary = true",
		"  }",
		"  data name string",
		"  status ACTIVE",
		"  status CLOSED",
		"  event Create {",
		"    field name string",
		"  }",
		"}",
	)

	files := testCompile(t, tf, newTestDeps(), "local.v1")
	serviceFile := files.expectFile(t, "local/v1/service/order.p.j5s.proto")

	svc := serviceFile.Services().ByName("OrderQueryService")
	if svc == nil {
		t.Fatalf("no OrderQueryService")
	}

	getPath := func(method protoreflect.Name) string {
		m := svc.Methods().ByName(method)
		if m == nil {
			t.Fatalf("no method %s", method)
		}
		rule := proto.GetExtension(m.Options(), annotations.E_Http).(*annotations.HttpRule)
		return rule.GetGet()
	}

	for method, want := range map[protoreflect.Name]string{
		"OrderGet":    "/local/v1/order/q/{order_id}/{region_id}/{line_id}",
		"OrderEvents": "/local/v1/order/q/{order_id}/{region_id}/{line_id}/events",
		"OrderList":   "/local/v1/order/q/{region_id}",
	} {
		if got := getPath(method); got != want {
			t.Errorf("%s path: got %q, want %q (primary keys in declaration order)", method, got, want)
		}
	}

	// the request message keeps the declaration order as well
	req := svc.Methods().ByName("OrderGet").Input()
	var names []string
	for i := 0; i < req.Fields().Len(); i++ {
		names = append(names, string(req.Fields().Get(i).Name()))
	}
	if len(names) != 3 || names[0] != "order_id" || names[1] != "region_id" || names[2] != "line_id" {
		t.Errorf("OrderGetRequest fields: %v", names)
	}
}
