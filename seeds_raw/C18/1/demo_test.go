// copy to: internal/codec/   (run: go test -vet=off -count=1 -run TestSeedC18_1 ./internal/codec/)
package codec

import (
	"testing"

	"github.com/pentops/j5/lib/j5schema"
	"google.golang.org/protobuf/proto"
	"google.golang.org/protobuf/reflect/protodesc"
	"google.golang.org/protobuf/reflect/protoreflect"
	"google.golang.org/protobuf/reflect/protoregistry"
	"google.golang.org/protobuf/types/descriptorpb"
	"google.golang.org/protobuf/types/dynamicpb"
)

// A proto3 message with a map field `user_ID` (proto JSON name "userID") and a
// string field `user_id` (proto JSON name "userId"). The descriptor links fine
// and the two proto JSON names are distinct, so the reflected object must have
// two distinctly named properties and must round-trip through the codec.
func seedC18_1_desc(t *testing.T) protoreflect.MessageDescriptor {
	t.Helper()
	str := descriptorpb.FieldDescriptorProto_TYPE_STRING.Enum()
	fdp := &descriptorpb.FileDescriptorProto{
		Name:    proto.String("seedc18/v1/one.proto"),
		Package: proto.String("seedc18.v1"),
		Syntax:  proto.String("proto3"),
		MessageType: []*descriptorpb.DescriptorProto{{
			Name: proto.String("Account"),
			Field: []*descriptorpb.FieldDescriptorProto{{
				Name:     proto.String("user_ID"),
				Number:   proto.Int32(1),
				Label:    descriptorpb.FieldDescriptorProto_LABEL_REPEATED.Enum(),
				Type:     descriptorpb.FieldDescriptorProto_TYPE_MESSAGE.Enum(),
				TypeName: proto.String(".seedc18.v1.Account.UserIDEntry"),
			}, {
				Name:   proto.String("user_id"),
				Number: proto.Int32(2),
				Label:  descriptorpb.FieldDescriptorProto_LABEL_OPTIONAL.Enum(),
				Type:   str,
			}},
			NestedType: []*descriptorpb.DescriptorProto{{
				Name: proto.String("UserIDEntry"),
				Field: []*descriptorpb.FieldDescriptorProto{{
					Name: proto.String("key"), Number: proto.Int32(1), Type: str,
					Label: descriptorpb.FieldDescriptorProto_LABEL_OPTIONAL.Enum(),
				}, {
					Name: proto.String("value"), Number: proto.Int32(2), Type: str,
					Label: descriptorpb.FieldDescriptorProto_LABEL_OPTIONAL.Enum(),
				}},
				Options: &descriptorpb.MessageOptions{MapEntry: proto.Bool(true)},
			}},
		}},
	}
	file, err := protodesc.NewFile(fdp, protoregistry.GlobalFiles)
	if err != nil {
		t.Fatalf("descriptor does not link: %s", err)
	}
	return file.Messages().Get(0)
}

func TestSeedC18_1_UniqueNames(t *testing.T) {
	desc := seedC18_1_desc(t)

	root, err := j5schema.NewSchemaCache().Schema(desc)
	if err != nil {
		t.Skipf("schema build returned an error, which the property allows: %s", err)
	}
	obj, ok := root.(*j5schema.ObjectSchema)
	if !ok {
		t.Fatalf("expected object schema, got %T", root)
	}

	seen := map[string]bool{}
	for _, prop := range obj.ClientProperties() {
		if seen[prop.JSONName] {
			t.Errorf("property name %q appears more than once in %s", prop.JSONName, obj.FullName())
		}
		seen[prop.JSONName] = true

		// the recorded path must still resolve to a field of this message
		if len(prop.ProtoField) != 1 || desc.Fields().ByNumber(prop.ProtoField[0]) == nil {
			t.Errorf("property %q has bad proto path %v", prop.JSONName, prop.ProtoField)
		}
	}
}

func TestSeedC18_1_RoundTrip(t *testing.T) {
	desc := seedC18_1_desc(t)
	cc := NewCodec()

	// empty
	if _, err := cc.ProtoToJSON(dynamicpb.NewMessage(desc)); err != nil {
		t.Fatalf("encode empty: %s", err)
	}

	// populated
	msg := dynamicpb.NewMessage(desc)
	mapField := desc.Fields().ByNumber(1)
	msg.Mutable(mapField).Map().Set(protoreflect.ValueOfString("k").MapKey(), protoreflect.ValueOfString("v"))
	msg.Set(desc.Fields().ByNumber(2), protoreflect.ValueOfString("u-1"))

	encoded, err := cc.ProtoToJSON(msg)
	if err != nil {
		t.Fatalf("encode populated: %s", err)
	}
	t.Logf("encoded: %s", string(encoded))

	back := dynamicpb.NewMessage(desc)
	if err := cc.JSONToProto(encoded, back); err != nil {
		t.Fatalf("decode populated: %s (json was %s)", err, string(encoded))
	}
	if !proto.Equal(msg, back) {
		t.Fatalf("round trip mismatch:\n  in:  %v\n  out: %v\n  json: %s", msg, back, string(encoded))
	}
}
