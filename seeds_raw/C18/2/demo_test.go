// copy to: internal/codec/   (run: go test -vet=off -count=1 -run TestSeedC18_2 ./internal/codec/)
package codec

import (
	"testing"

	"github.com/pentops/j5/lib/j5schema"
	"google.golang.org/protobuf/proto"
	"google.golang.org/protobuf/reflect/protodesc"
	"google.golang.org/protobuf/reflect/protoreflect"
	"google.golang.org/protobuf/reflect/protoregistry"
	"google.golang.org/protobuf/types/descriptorpb"
	"google.golang.org/protobuf/types/dynamicpb"
)

// proto3, no annotations. Two different messages called "Detail", one nested
// two levels deep (Order.Item.Detail) and one nested in a top level message
// which has the same name as the middle level (Item.Detail):
//
//	message Cart  { Order order = 1; Item item = 2; }
//	message Order {
//	  message Item {
//	    message Detail { string sku = 1; }
//	    Detail detail = 1;
//	  }
//	  Item item = 1;
//	}
//	message Item {
//	  message Detail { int64 qty = 5; }
//	  Detail detail = 1;
//	}
func seedC18_2_file(t *testing.T) protoreflect.FileDescriptor {
	t.Helper()
	opt := descriptorpb.FieldDescriptorProto_LABEL_OPTIONAL.Enum()
	msgT := descriptorpb.FieldDescriptorProto_TYPE_MESSAGE.Enum()
	msgField := func(name string, num int32, typeName string) *descriptorpb.FieldDescriptorProto {
		return &descriptorpb.FieldDescriptorProto{
			Name: proto.String(name), Number: proto.Int32(num), Label: opt,
			Type: msgT, TypeName: proto.String(typeName),
		}
	}
	fdp := &descriptorpb.FileDescriptorProto{
		Name:    proto.String("seedc18/v1/two.proto"),
		Package: proto.String("seedc18two.v1"),
		Syntax:  proto.String("proto3"),
		MessageType: []*descriptorpb.DescriptorProto{{
			Name: proto.String("Cart"),
			Field: []*descriptorpb.FieldDescriptorProto{
				msgField("order", 1, ".seedc18two.v1.Order"),
				msgField("item", 2, ".seedc18two.v1.Item"),
			},
		}, {
			Name: proto.String("Order"),
			Field: []*descriptorpb.FieldDescriptorProto{
				msgField("item", 1, ".seedc18two.v1.Order.Item"),
			},
			NestedType: []*descriptorpb.DescriptorProto{{
				Name: proto.String("Item"),
				Field: []*descriptorpb.FieldDescriptorProto{
					msgField("detail", 1, ".seedc18two.v1.Order.Item.Detail"),
				},
				NestedType: []*descriptorpb.DescriptorProto{{
					Name: proto.String("Detail"),
					Field: []*descriptorpb.FieldDescriptorProto{{
						Name: proto.String("sku"), Number: proto.Int32(1), Label: opt,
						Type: descriptorpb.FieldDescriptorProto_TYPE_STRING.Enum(),
					}},
				}},
			}},
		}, {
			Name: proto.String("Item"),
			Field: []*descriptorpb.FieldDescriptorProto{
				msgField("detail", 1, ".seedc18two.v1.Item.Detail"),
			},
			NestedType: []*descriptorpb.DescriptorProto{{
				Name: proto.String("Detail"),
				Field: []*descriptorpb.FieldDescriptorProto{{
					Name: proto.String("qty"), Number: proto.Int32(5), Label: opt,
					Type: descriptorpb.FieldDescriptorProto_TYPE_INT64.Enum(),
				}},
			}},
		}},
	}
	file, err := protodesc.NewFile(fdp, protoregistry.GlobalFiles)
	if err != nil {
		t.Fatalf("descriptor does not link: %s", err)
	}
	return file
}

// checks that every property of the schema resolves, in the message the
// schema describes, to a field of the matching kind; follows object fields.
func seedC18_2_checkObject(t *testing.T, obj *j5schema.ObjectSchema, desc protoreflect.MessageDescriptor, depth int) {
	t.Helper()
	if depth > 8 {
		return
	}
	names := map[string]bool{}
	for _, prop := range obj.ClientProperties() {
		if names[prop.JSONName] {
			t.Errorf("%s: duplicate property %q", desc.FullName(), prop.JSONName)
		}
		names[prop.JSONName] = true

		if len(prop.ProtoField) != 1 {
			t.Errorf("%s.%s: unexpected path %v", desc.FullName(), prop.JSONName, prop.ProtoField)
			continue
		}
		field := desc.Fields().ByNumber(prop.ProtoField[0])
		if field == nil {
			t.Errorf("schema %s describes message %s, but property %q has proto path %v which does not resolve there",
				obj.FullName(), desc.FullName(), prop.JSONName, prop.ProtoField)
			continue
		}
		switch ft := prop.Schema.(type) {
		case *j5schema.ScalarSchema:
			if ft.WellKnownTypeName == "" && ft.Kind != field.Kind() {
				t.Errorf("%s.%s: schema kind %s, proto kind %s", desc.FullName(), prop.JSONName, ft.Kind, field.Kind())
			}
		case *j5schema.ObjectField:
			if field.Kind() != protoreflect.MessageKind {
				t.Errorf("%s.%s: object field on proto kind %s", desc.FullName(), prop.JSONName, field.Kind())
				continue
			}
			seedC18_2_checkObject(t, ft.Schema(), field.Message(), depth+1)
		}
	}
	if len(names) != desc.Fields().Len() {
		t.Errorf("schema %s has %d properties, message %s has %d fields", obj.FullName(), len(names), desc.FullName(), desc.Fields().Len())
	}
}

func TestSeedC18_2_Paths(t *testing.T) {
	file := seedC18_2_file(t)

	// on-demand cache, starting at the root which refers to everything
	cache := j5schema.NewSchemaCache()
	cartDesc := file.Messages().ByName("Cart")
	root, err := cache.Schema(cartDesc)
	if err != nil {
		t.Fatalf("schema: %s", err)
	}
	seedC18_2_checkObject(t, root.(*j5schema.ObjectSchema), cartDesc, 0)

	// and asking the same cache for each message directly
	var all []protoreflect.MessageDescriptor
	var collect func(protoreflect.MessageDescriptors)
	collect = func(msgs protoreflect.MessageDescriptors) {
		for i := 0; i < msgs.Len(); i++ {
			all = append(all, msgs.Get(i))
			collect(msgs.Get(i).Messages())
		}
	}
	collect(file.Messages())
	for _, desc := range all {
		schema, err := cache.Schema(desc)
		if err != nil {
			t.Errorf("schema for %s: %s", desc.FullName(), err)
			continue
		}
		seedC18_2_checkObject(t, schema.(*j5schema.ObjectSchema), desc, 0)
	}

	// whole-file builder: one schema per message
	files := &protoregistry.Files{}
	if err := files.RegisterFile(file); err != nil {
		t.Fatal(err)
	}
	set, err := j5schema.SchemaSetFromFiles(files, func(protoreflect.FileDescriptor) bool { return true })
	if err != nil {
		t.Fatalf("schema set: %s", err)
	}
	count := 0
	for _, pkg := range set.Packages {
		count += len(pkg.Schemas)
	}
	if count != len(all) {
		t.Errorf("schema set has %d schemas for %d messages", count, len(all))
	}
}

func TestSeedC18_2_RoundTrip(t *testing.T) {
	file := seedC18_2_file(t)
	cartDesc := file.Messages().ByName("Cart")
	orderDesc := file.Messages().ByName("Order")
	orderItemDesc := orderDesc.Messages().ByName("Item")
	orderDetailDesc := orderItemDesc.Messages().ByName("Detail")
	itemDesc := file.Messages().ByName("Item")
	itemDetailDesc := itemDesc.Messages().ByName("Detail")

	msgVal := func(m *dynamicpb.Message) protoreflect.Value { return protoreflect.ValueOfMessage(m) }

	orderDetail := dynamicpb.NewMessage(orderDetailDesc)
	orderDetail.Set(orderDetailDesc.Fields().ByName("sku"), protoreflect.ValueOfString("sku-1"))
	orderItem := dynamicpb.NewMessage(orderItemDesc)
	orderItem.Set(orderItemDesc.Fields().ByName("detail"), msgVal(orderDetail))
	order := dynamicpb.NewMessage(orderDesc)
	order.Set(orderDesc.Fields().ByName("item"), msgVal(orderItem))

	itemDetail := dynamicpb.NewMessage(itemDetailDesc)
	itemDetail.Set(itemDetailDesc.Fields().ByName("qty"), protoreflect.ValueOfInt64(3))
	item := dynamicpb.NewMessage(itemDesc)
	item.Set(itemDesc.Fields().ByName("detail"), msgVal(itemDetail))

	cart := dynamicpb.NewMessage(cartDesc)
	cart.Set(cartDesc.Fields().ByName("order"), msgVal(order))
	cart.Set(cartDesc.Fields().ByName("item"), msgVal(item))

	for _, tc := range []struct {
		name string
		msg  *dynamicpb.Message
		want string
	}{
		{"empty", dynamicpb.NewMessage(cartDesc), `{}`},
		{"populated", cart, `{"order":{"item":{"detail":{"sku":"sku-1"}}},"item":{"detail":{"qty":"3"}}}`},
	} {
		t.Run(tc.name, func(t *testing.T) {
			defer func() {
				if r := recover(); r != nil {
					t.Fatalf("codec panicked: %v", r)
				}
			}()
			cc := NewCodec()
			encoded, err := cc.ProtoToJSON(tc.msg)
			if err != nil {
				t.Fatalf("encode: %s", err)
			}
			if string(encoded) != tc.want {
				t.Errorf("encoded %s, want %s", string(encoded), tc.want)
			}
			back := dynamicpb.NewMessage(cartDesc)
			if err := cc.JSONToProto(encoded, back); err != nil {
				t.Fatalf("decode: %s (json %s)", err, string(encoded))
			}
			if !proto.Equal(tc.msg, back) {
				t.Fatalf("round trip mismatch:\n  in:  %v\n  out: %v\n  json: %s", tc.msg, back, string(encoded))
			}
		})
	}
}
