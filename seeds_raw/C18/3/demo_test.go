// copy to: internal/codec/   (run: go test -vet=off -count=1 -run TestSeedC18_3 ./internal/codec/)
package codec

import (
	"testing"

	"github.com/pentops/j5/gen/j5/ext/v1/ext_j5pb"
	"github.com/pentops/j5/lib/j5schema"
	"google.golang.org/protobuf/proto"
	"google.golang.org/protobuf/reflect/protodesc"
	"google.golang.org/protobuf/reflect/protoreflect"
	"google.golang.org/protobuf/reflect/protoregistry"
	"google.golang.org/protobuf/types/descriptorpb"
	"google.golang.org/protobuf/types/dynamicpb"
)

// proto3, flatten inside flatten:
//
//	message Customer { Contact contact = 1 [(j5.ext.v1.field).message.flatten = true]; string name = 2; }
//	message Contact  { string email = 1; Address address = 3 [(j5.ext.v1.field).message.flatten = true]; }
//	message Address  { string city = 1; string zip = 2; }
func seedC18_3_file(t *testing.T) protoreflect.FileDescriptor {
	t.Helper()
	opt := descriptorpb.FieldDescriptorProto_LABEL_OPTIONAL.Enum()
	msgT := descriptorpb.FieldDescriptorProto_TYPE_MESSAGE.Enum()
	strT := descriptorpb.FieldDescriptorProto_TYPE_STRING.Enum()
	flatten := func() *descriptorpb.FieldOptions {
		opts := &descriptorpb.FieldOptions{}
		proto.SetExtension(opts, ext_j5pb.E_Field, &ext_j5pb.FieldOptions{
			Type: &ext_j5pb.FieldOptions_Message{
				Message: &ext_j5pb.MessageFieldOptions{Flatten: true},
			},
		})
		return opts
	}
	fdp := &descriptorpb.FileDescriptorProto{
		Name:       proto.String("seedc18/v1/three.proto"),
		Package:    proto.String("seedc18three.v1"),
		Syntax:     proto.String("proto3"),
		Dependency: []string{"j5/ext/v1/annotations.proto"},
		MessageType: []*descriptorpb.DescriptorProto{{
			Name: proto.String("Customer"),
			Field: []*descriptorpb.FieldDescriptorProto{{
				Name: proto.String("contact"), Number: proto.Int32(1), Label: opt,
				Type: msgT, TypeName: proto.String(".seedc18three.v1.Contact"),
				Options: flatten(),
			}, {
				Name: proto.String("name"), Number: proto.Int32(2), Label: opt, Type: strT,
			}},
		}, {
			Name: proto.String("Contact"),
			Field: []*descriptorpb.FieldDescriptorProto{{
				Name: proto.String("email"), Number: proto.Int32(1), Label: opt, Type: strT,
			}, {
				Name: proto.String("address"), Number: proto.Int32(3), Label: opt,
				Type: msgT, TypeName: proto.String(".seedc18three.v1.Address"),
				Options: flatten(),
			}},
		}, {
			Name: proto.String("Address"),
			Field: []*descriptorpb.FieldDescriptorProto{{
				Name: proto.String("city"), Number: proto.Int32(1), Label: opt, Type: strT,
			}, {
				Name: proto.String("zip"), Number: proto.Int32(2), Label: opt, Type: strT,
			}},
		}},
	}
	file, err := protodesc.NewFile(fdp, protoregistry.GlobalFiles)
	if err != nil {
		t.Fatalf("descriptor does not link: %s", err)
	}
	return file
}

func TestSeedC18_3_Paths(t *testing.T) {
	file := seedC18_3_file(t)
	desc := file.Messages().ByName("Customer")
	root, err := j5schema.NewSchemaCache().Schema(desc)
	if err != nil {
		t.Fatalf("schema: %s", err)
	}
	obj := root.(*j5schema.ObjectSchema)

	want := map[string]protoreflect.FullName{
		"email": "seedc18three.v1.Contact.email",
		"city":  "seedc18three.v1.Address.city",
		"zip":   "seedc18three.v1.Address.zip",
		"name":  "seedc18three.v1.Customer.name",
	}
	seen := map[string]bool{}
	for _, prop := range obj.ClientProperties() {
		if seen[prop.JSONName] {
			t.Errorf("duplicate property %q", prop.JSONName)
		}
		seen[prop.JSONName] = true

		walk := desc
		var last protoreflect.FieldDescriptor
		for _, num := range prop.ProtoField {
			if walk == nil {
				t.Fatalf("property %q: path %v walks through a non-message", prop.JSONName, prop.ProtoField)
			}
			last = walk.Fields().ByNumber(num)
			if last == nil {
				t.Fatalf("property %q: path %v does not resolve", prop.JSONName, prop.ProtoField)
			}
			walk = last.Message()
		}
		if last.FullName() != want[prop.JSONName] {
			t.Errorf("property %q resolves to %s, want %s", prop.JSONName, last.FullName(), want[prop.JSONName])
		}
	}
	if len(seen) != len(want) {
		t.Errorf("got properties %v, want %d", seen, len(want))
	}
}

func TestSeedC18_3_RoundTrip(t *testing.T) {
	file := seedC18_3_file(t)
	customerDesc := file.Messages().ByName("Customer")
	contactDesc := file.Messages().ByName("Contact")
	addressDesc := file.Messages().ByName("Address")

	str := protoreflect.ValueOfString

	nameOnly := dynamicpb.NewMessage(customerDesc)
	nameOnly.Set(customerDesc.Fields().ByName("name"), str("Ann"))

	// only the first level of the flattened chain is present
	emailOnly := dynamicpb.NewMessage(customerDesc)
	{
		contact := dynamicpb.NewMessage(contactDesc)
		contact.Set(contactDesc.Fields().ByName("email"), str("ann@example.com"))
		emailOnly.Set(customerDesc.Fields().ByName("contact"), protoreflect.ValueOfMessage(contact))
	}

	// everything set, two levels deep
	full := dynamicpb.NewMessage(customerDesc)
	{
		address := dynamicpb.NewMessage(addressDesc)
		address.Set(addressDesc.Fields().ByName("city"), str("Oslo"))
		address.Set(addressDesc.Fields().ByName("zip"), str("0150"))
		contact := dynamicpb.NewMessage(contactDesc)
		contact.Set(contactDesc.Fields().ByName("email"), str("ann@example.com"))
		contact.Set(contactDesc.Fields().ByName("address"), protoreflect.ValueOfMessage(address))
		full.Set(customerDesc.Fields().ByName("contact"), protoreflect.ValueOfMessage(contact))
		full.Set(customerDesc.Fields().ByName("name"), str("Ann"))
	}

	for _, tc := range []struct {
		name string
		msg  *dynamicpb.Message
		want string
	}{
		{"empty", dynamicpb.NewMessage(customerDesc), `{}`},
		{"name only", nameOnly, `{"name":"Ann"}`},
		{"first level only", emailOnly, `{"email":"ann@example.com"}`},
		{"fully populated", full, `{"email":"ann@example.com","city":"Oslo","zip":"0150","name":"Ann"}`},
	} {
		t.Run(tc.name, func(t *testing.T) {
			defer func() {
				if r := recover(); r != nil {
					t.Fatalf("codec panicked: %v", r)
				}
			}()
			cc := NewCodec()
			encoded, err := cc.ProtoToJSON(tc.msg)
			if err != nil {
				t.Fatalf("encode: %s", err)
			}
			if string(encoded) != tc.want {
				t.Errorf("encoded %s, want %s", string(encoded), tc.want)
			}
			back := dynamicpb.NewMessage(customerDesc)
			if err := cc.JSONToProto(encoded, back); err != nil {
				t.Fatalf("decode: %s (json %s)", err, string(encoded))
			}
			if !proto.Equal(tc.msg, back) {
				t.Fatalf("round trip mismatch:\n  in:  %v\n  out: %v\n  json: %s", tc.msg, back, string(encoded))
			}
		})
	}
}
