// copy to: lib/j5schema/
package j5schema

import (
	"testing"

	"github.com/pentops/j5/gen/j5/ext/v1/ext_j5pb"
	"google.golang.org/protobuf/proto"
	"google.golang.org/protobuf/reflect/protodesc"
	"google.golang.org/protobuf/reflect/protoregistry"
	"google.golang.org/protobuf/types/descriptorpb"
)

func seed1FlattenField(name string, number int32, typeName string) *descriptorpb.FieldDescriptorProto {
	opts := &descriptorpb.FieldOptions{}
	proto.SetExtension(opts, ext_j5pb.E_Field, &ext_j5pb.FieldOptions{
		Type: &ext_j5pb.FieldOptions_Message{
			Message: &ext_j5pb.MessageFieldOptions{Flatten: true},
		},
	})
	return &descriptorpb.FieldDescriptorProto{
		Name:     proto.String(name),
		Number:   proto.Int32(number),
		Type:     descriptorpb.FieldDescriptorProto_TYPE_MESSAGE.Enum(),
		TypeName: proto.String(typeName),
		Options:  opts,
	}
}

func seed1StringField(name string, number int32) *descriptorpb.FieldDescriptorProto {
	return &descriptorpb.FieldDescriptorProto{
		Name:   proto.String(name),
		Number: proto.Int32(number),
		Type:   descriptorpb.FieldDescriptorProto_TYPE_STRING.Enum(),
	}
}

// Outer { string name = 1; Mid mid = 2 [flatten] }
// Mid   { Inner inner = 1 [flatten]; string other = 2 }
// Inner { string name = 1 }
//
// 'name' reaches the JSON object of Outer twice: directly, and lifted through
// two levels of flattening.
func TestSeed1TwoLevelFlattenNameCollision(t *testing.T) {
	fd := &descriptorpb.FileDescriptorProto{
		Name:    proto.String("seed1/v1/seed1.proto"),
		Package: proto.String("seed1.v1"),
		Syntax:  proto.String("proto3"),
		Dependency: []string{
			"j5/ext/v1/annotations.proto",
		},
		MessageType: []*descriptorpb.DescriptorProto{{
			Name: proto.String("Outer"),
			Field: []*descriptorpb.FieldDescriptorProto{
				seed1StringField("name", 1),
				seed1FlattenField("mid", 2, ".seed1.v1.Mid"),
			},
		}, {
			Name: proto.String("Mid"),
			Field: []*descriptorpb.FieldDescriptorProto{
				seed1FlattenField("inner", 1, ".seed1.v1.Inner"),
				seed1StringField("other", 2),
			},
		}, {
			Name: proto.String("Inner"),
			Field: []*descriptorpb.FieldDescriptorProto{
				seed1StringField("name", 1),
			},
		}},
	}

	file, err := protodesc.NewFile(fd, protoregistry.GlobalFiles)
	if err != nil {
		t.Fatal(err)
	}

	cache := NewSchemaCache()
	schema, err := cache.Schema(file.Messages().ByName("Outer"))
	if err != nil {
		t.Logf("rejected, as it should be: %s", err)
		return
	}

	obj, ok := schema.(*ObjectSchema)
	if !ok {
		t.Fatalf("expected an object schema, got %T", schema)
	}
	seen := map[string]bool{}
	for _, prop := range obj.ClientProperties() {
		if seen[prop.JSONName] {
			t.Errorf("schema was built, but property name %q is not unique in %s (proto path %v)", prop.JSONName, obj.FullName(), prop.ProtoField)
		}
		seen[prop.JSONName] = true
	}
}
