// copy to: internal/codec/
package codec

import (
	"testing"

	"google.golang.org/protobuf/proto"
	"google.golang.org/protobuf/reflect/protodesc"
	"google.golang.org/protobuf/reflect/protoreflect"
	"google.golang.org/protobuf/reflect/protoregistry"
	"google.golang.org/protobuf/types/descriptorpb"
	"google.golang.org/protobuf/types/dynamicpb"
)

// Shape {
//   oneof type { Circle circle = 1; Square square = 2; }
//   string note = 3;        // NOT a member of the oneof
// }
//
// The message has exactly one oneof, it is called 'type' and all of its members
// are messages, but the message also carries a plain field, so it is an
// ordinary object and not a J5 oneof wrapper.
func TestSeed3OneofNamedTypeWithExtraField(t *testing.T) {
	msgField := func(name string, number int32, typeName string) *descriptorpb.FieldDescriptorProto {
		return &descriptorpb.FieldDescriptorProto{
			Name:       proto.String(name),
			Number:     proto.Int32(number),
			Type:       descriptorpb.FieldDescriptorProto_TYPE_MESSAGE.Enum(),
			TypeName:   proto.String(typeName),
			OneofIndex: proto.Int32(0),
		}
	}
	sizeMsg := func(name string) *descriptorpb.DescriptorProto {
		return &descriptorpb.DescriptorProto{
			Name: proto.String(name),
			Field: []*descriptorpb.FieldDescriptorProto{{
				Name:   proto.String("size"),
				Number: proto.Int32(1),
				Type:   descriptorpb.FieldDescriptorProto_TYPE_INT32.Enum(),
			}},
		}
	}

	fd := &descriptorpb.FileDescriptorProto{
		Name:    proto.String("seed3/v1/seed3.proto"),
		Package: proto.String("seed3.v1"),
		Syntax:  proto.String("proto3"),
		MessageType: []*descriptorpb.DescriptorProto{{
			Name: proto.String("Shape"),
			Field: []*descriptorpb.FieldDescriptorProto{
				msgField("circle", 1, ".seed3.v1.Circle"),
				msgField("square", 2, ".seed3.v1.Square"),
				{
					Name:   proto.String("note"),
					Number: proto.Int32(3),
					Type:   descriptorpb.FieldDescriptorProto_TYPE_STRING.Enum(),
				},
			},
			OneofDecl: []*descriptorpb.OneofDescriptorProto{{
				Name: proto.String("type"),
			}},
		}, sizeMsg("Circle"), sizeMsg("Square")},
	}

	file, err := protodesc.NewFile(fd, protoregistry.GlobalFiles)
	if err != nil {
		t.Fatal(err)
	}
	shapeDesc := file.Messages().ByName("Shape")
	circleDesc := file.Messages().ByName("Circle")

	cc := NewCodec()

	// empty message
	empty := dynamicpb.NewMessage(shapeDesc)
	if _, err := cc.ProtoToJSON(empty); err != nil {
		t.Fatalf("encode empty: %s", err)
	}

	// populated message: one member of the oneof, plus the plain field
	circle := dynamicpb.NewMessage(circleDesc)
	circle.Set(circleDesc.Fields().ByName("size"), protoreflect.ValueOfInt32(7))
	populated := dynamicpb.NewMessage(shapeDesc)
	populated.Set(shapeDesc.Fields().ByName("circle"), protoreflect.ValueOfMessage(circle))
	populated.Set(shapeDesc.Fields().ByName("note"), protoreflect.ValueOfString("hello"))

	jsonData, err := cc.ProtoToJSON(populated)
	if err != nil {
		t.Fatalf("encode populated: %s", err)
	}
	t.Logf("JSON: %s", string(jsonData))

	back := dynamicpb.NewMessage(shapeDesc)
	if err := cc.JSONToProto(jsonData, back); err != nil {
		t.Fatalf("decode populated: %s", err)
	}
	if !proto.Equal(populated, back) {
		t.Fatalf("round trip changed the message:\n  in:  %v\n  out: %v", populated, back)
	}
}
