// copy to: lib/j5reflect/
package j5reflect

import (
	"testing"

	"google.golang.org/protobuf/proto"
	"google.golang.org/protobuf/reflect/protodesc"
	"google.golang.org/protobuf/reflect/protoregistry"
	"google.golang.org/protobuf/types/descriptorpb"
	"google.golang.org/protobuf/types/dynamicpb"
)

// A message with a field kind J5 does not support (fixed32) can not be
// reflected. Asking for it a second time from the same Reflector (the normal
// situation for a long-lived codec, which keeps one SchemaCache) must give the
// same answer as the first time: an error.
func TestSeed2SecondLookupAfterFailedBuild(t *testing.T) {
	fd := &descriptorpb.FileDescriptorProto{
		Name:    proto.String("seed2/v1/seed2.proto"),
		Package: proto.String("seed2.v1"),
		Syntax:  proto.String("proto3"),
		MessageType: []*descriptorpb.DescriptorProto{{
			Name: proto.String("Bad"),
			Field: []*descriptorpb.FieldDescriptorProto{{
				Name:   proto.String("label"),
				Number: proto.Int32(1),
				Type:   descriptorpb.FieldDescriptorProto_TYPE_STRING.Enum(),
			}, {
				Name:   proto.String("checksum"),
				Number: proto.Int32(2),
				Type:   descriptorpb.FieldDescriptorProto_TYPE_FIXED32.Enum(),
			}},
		}},
	}

	file, err := protodesc.NewFile(fd, protoregistry.GlobalFiles)
	if err != nil {
		t.Fatal(err)
	}
	desc := file.Messages().ByName("Bad")

	refl := New()

	attempt := func(n int) {
		defer func() {
			if r := recover(); r != nil {
				t.Fatalf("attempt %d: panic: %v", n, r)
			}
		}()

		msg := dynamicpb.NewMessage(desc)
		obj, err := refl.NewObject(msg)
		if err == nil {
			t.Fatalf("attempt %d: expected an error for the unsupported fixed32 field, got object %v", n, obj)
		}
		t.Logf("attempt %d: error, as expected: %s", n, err)
	}

	attempt(1)
	attempt(2)
}
