// copy to: internal/codec/
package codec

import (
	"encoding/json"
	"testing"

	"github.com/pentops/j5/gen/test/schema/v1/schema_testpb"
	"google.golang.org/protobuf/proto"
	"google.golang.org/protobuf/types/known/anypb"
)

// An Any value is always {"!type": ..., "value": <json>}. That has to hold
// when the wrapped message has nothing set: its protobuf encoding is then zero
// bytes long, and its J5 JSON is {}.
func TestSeedC08_2_AnyOfEmptyMessage(t *testing.T) {
	c := NewCodec()

	for _, tc := range []struct {
		name  string
		inner proto.Message
		want  string
	}{{
		name:  "populated",
		inner: &schema_testpb.Bar{BarId: "id"},
		want:  `{"barId":"id"}`,
	}, {
		name:  "empty message",
		inner: &schema_testpb.Bar{},
		want:  `{}`,
	}, {
		name:  "explicit defaults only",
		inner: &schema_testpb.Baz{BazId: ""},
		want:  `{}`,
	}} {
		t.Run(tc.name, func(t *testing.T) {
			pbAny, err := anypb.New(tc.inner)
			if err != nil {
				t.Fatal(err)
			}

			msg := &schema_testpb.FullSchema{
				SString: "before",
				Pbany:   pbAny,
			}

			out, err := c.ProtoToJSON(msg.ProtoReflect())
			if err != nil {
				t.Fatalf("encode failed: %v", err)
			}
			if !json.Valid(out) {
				t.Fatalf("output is not well-formed JSON: %s", out)
			}

			var back struct {
				Pbany map[string]json.RawMessage `json:"pbany"`
			}
			if err := json.Unmarshal(out, &back); err != nil {
				t.Fatal(err)
			}
			if len(back.Pbany) != 2 {
				t.Fatalf("any should have exactly !type and value: %s", out)
			}
			wantType := `"` + string(tc.inner.ProtoReflect().Descriptor().FullName()) + `"`
			if string(back.Pbany["!type"]) != wantType {
				t.Errorf("!type = %s, want %s", back.Pbany["!type"], wantType)
			}
			if string(back.Pbany["value"]) != tc.want {
				t.Errorf("value = %s, want %s", back.Pbany["value"], tc.want)
			}
		})
	}
}
