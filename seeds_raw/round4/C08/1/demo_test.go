// copy to: internal/codec/
package codec

import (
	"encoding/json"
	"testing"

	"github.com/pentops/j5/gen/test/schema/v1/schema_testpb"
)

// Every C0 control character in a string value (and in a map key) must come
// out as a well-formed JSON escape: the short forms \b \t \n \f \r, and
// \u00XX (exactly four hex digits) for the rest.
func TestSeedC08_1_ControlCharEscapes(t *testing.T) {
	c := NewCodec()

	for r := rune(0); r < 0x20; r++ {
		in := "a" + string(r) + "z"

		msg := &schema_testpb.FullSchema{
			SString:         in,
			RString:         []string{"first", in},
			MapStringString: map[string]string{in: "v"},
		}

		out, err := c.ProtoToJSON(msg.ProtoReflect())
		if err != nil {
			t.Errorf("U+%04X: encode failed: %v", r, err)
			continue
		}

		if !json.Valid(out) {
			t.Errorf("U+%04X: output is not well-formed JSON: %s", r, out)
			continue
		}

		var back struct {
			SString         string            `json:"sString"`
			RString         []string          `json:"rString"`
			MapStringString map[string]string `json:"mapStringString"`
		}
		if err := json.Unmarshal(out, &back); err != nil {
			t.Errorf("U+%04X: %v in %s", r, err, out)
			continue
		}
		if back.SString != in || len(back.RString) != 2 || back.RString[1] != in {
			t.Errorf("U+%04X: string changed: %q / %q from %s", r, back.SString, back.RString, out)
		}
		if _, ok := back.MapStringString[in]; !ok {
			t.Errorf("U+%04X: map key changed: %q from %s", r, back.MapStringString, out)
		}
	}
}
