// copy to: internal/codec/
package codec

import (
	"encoding/json"
	"testing"

	"github.com/pentops/j5/gen/j5/ext/v1/ext_j5pb"
	"google.golang.org/protobuf/proto"
	"google.golang.org/protobuf/reflect/protodesc"
	"google.golang.org/protobuf/reflect/protoreflect"
	"google.golang.org/protobuf/reflect/protoregistry"
	"google.golang.org/protobuf/types/descriptorpb"
	"google.golang.org/protobuf/types/dynamicpb"
)

// seedC08_3_File is:
//
//	message Outer {
//	  string name = 1;
//	  Inner inner = 2 [(j5.ext.v1.field).message.flatten = true];
//	}
//
//	message Inner {
//	  string label = 1;
//	  oneof choice {
//	    option (j5.ext.v1.oneof).expose = true;
//	    string text = 2;
//	    int64 count = 3;
//	  }
//	}
func seedC08_3_File(t testing.TB) protoreflect.FileDescriptor {
	flatten := &descriptorpb.FieldOptions{}
	proto.SetExtension(flatten, ext_j5pb.E_Field, &ext_j5pb.FieldOptions{
		Type: &ext_j5pb.FieldOptions_Message{
			Message: &ext_j5pb.MessageFieldOptions{Flatten: true},
		},
	})

	expose := &descriptorpb.OneofOptions{}
	proto.SetExtension(expose, ext_j5pb.E_Oneof, &ext_j5pb.OneofOptions{Expose: true})

	str := descriptorpb.FieldDescriptorProto_TYPE_STRING.Enum()
	i64 := descriptorpb.FieldDescriptorProto_TYPE_INT64.Enum()
	msgT := descriptorpb.FieldDescriptorProto_TYPE_MESSAGE.Enum()
	opt := descriptorpb.FieldDescriptorProto_LABEL_OPTIONAL.Enum()

	fdp := &descriptorpb.FileDescriptorProto{
		Name:       proto.String("seed/c08/v1/flat_oneof.proto"),
		Package:    proto.String("seed.c08.v1"),
		Syntax:     proto.String("proto3"),
		Dependency: []string{"j5/ext/v1/annotations.proto"},
		MessageType: []*descriptorpb.DescriptorProto{{
			Name: proto.String("Outer"),
			Field: []*descriptorpb.FieldDescriptorProto{{
				Name: proto.String("name"), JsonName: proto.String("name"),
				Number: proto.Int32(1), Type: str, Label: opt,
			}, {
				Name: proto.String("inner"), JsonName: proto.String("inner"),
				Number: proto.Int32(2), Type: msgT, Label: opt,
				TypeName: proto.String(".seed.c08.v1.Inner"),
				Options:  flatten,
			}},
		}, {
			Name: proto.String("Inner"),
			Field: []*descriptorpb.FieldDescriptorProto{{
				Name: proto.String("label"), JsonName: proto.String("label"),
				Number: proto.Int32(1), Type: str, Label: opt,
			}, {
				Name: proto.String("text"), JsonName: proto.String("text"),
				Number: proto.Int32(2), Type: str, Label: opt,
				OneofIndex: proto.Int32(0),
			}, {
				Name: proto.String("count"), JsonName: proto.String("count"),
				Number: proto.Int32(3), Type: i64, Label: opt,
				OneofIndex: proto.Int32(0),
			}},
			OneofDecl: []*descriptorpb.OneofDescriptorProto{{
				Name:    proto.String("choice"),
				Options: expose,
			}},
		}},
	}

	fd, err := protodesc.NewFile(fdp, protoregistry.GlobalFiles)
	if err != nil {
		t.Fatal(err)
	}
	return fd
}

// A flattened object is inlined into its parent, an exposed oneof is an object
// with "!type" plus the key it names, and unset members are omitted. The three
// rules meet when the flattened message holds an exposed oneof.
func TestSeedC08_3_ExposedOneofInFlattenedMessage(t *testing.T) {
	fd := seedC08_3_File(t)
	outerDesc := fd.Messages().ByName("Outer")
	innerDesc := fd.Messages().ByName("Inner")

	build := func(name string, inner map[string]protoreflect.Value) protoreflect.Message {
		outer := dynamicpb.NewMessage(outerDesc)
		if name != "" {
			outer.Set(outerDesc.Fields().ByName("name"), protoreflect.ValueOfString(name))
		}
		if inner != nil {
			im := dynamicpb.NewMessage(innerDesc)
			for k, v := range inner {
				im.Set(innerDesc.Fields().ByName(protoreflect.Name(k)), v)
			}
			outer.Set(outerDesc.Fields().ByName("inner"), protoreflect.ValueOfMessage(im))
		}
		return outer
	}

	for _, tc := range []struct {
		name string
		msg  protoreflect.Message
		want string
	}{{
		name: "oneof set",
		msg: build("n", map[string]protoreflect.Value{
			"label": protoreflect.ValueOfString("l"),
			"count": protoreflect.ValueOfInt64(7),
		}),
		want: `{"name":"n","label":"l","choice":{"!type":"count","count":"7"}}`,
	}, {
		name: "flattened message absent",
		msg:  build("n", nil),
		want: `{"name":"n"}`,
	}, {
		name: "flattened message present, oneof unset",
		msg: build("n", map[string]protoreflect.Value{
			"label": protoreflect.ValueOfString("l"),
		}),
		want: `{"name":"n","label":"l"}`,
	}, {
		name: "flattened message present but empty",
		msg:  build("n", map[string]protoreflect.Value{}),
		want: `{"name":"n"}`,
	}} {
		t.Run(tc.name, func(t *testing.T) {
			// a fresh codec per case: the same schema is used either way
			out, err := NewCodec().ProtoToJSON(tc.msg)
			if err != nil {
				t.Fatalf("encode failed: %v", err)
			}
			if !json.Valid(out) {
				t.Fatalf("output is not well-formed JSON: %s", out)
			}
			if string(out) != tc.want {
				t.Errorf("got  %s\nwant %s", out, tc.want)
			}
		})
	}
}
