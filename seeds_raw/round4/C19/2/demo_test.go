// copy to: internal/bcl/internal/parser/
package parser

import (
	"fmt"
	"strings"
	"testing"
)

// A block comment spanning several lines, with another fragment (`}`, a line
// comment, an assignment, a second block comment) after it on its closing line.
func TestDemoC19FragmentAfterMultiLineComment(t *testing.T) {
	for _, input := range []string{
		"foo {\n/* a\nb */ }\nx=1",
		"/* a\n b */ c = 2\n",
		"foo {\n\ta = 1\n\t/* one\n\t   two */ // tail\n}\n",
		"/* a\n*/ /* b */\n\n\nd=3\n",
	} {
		demoCheck(t, input)
	}
}

// demoApplyEdits applies line edits the way an LSP client does: each edit
// replaces the text from (FromLine,0) up to (ToLine,0); a position on the line
// after the last one is the end of the document. It also checks that the
// edits are well formed: ascending, not overlapping, start <= end <= #lines.
func demoApplyEdits(input string, diffs []FmtDiff) (string, error) {
	lines := strings.Split(input, "\n")
	offs := make([]int, 0, len(lines)+1)
	o := 0
	for _, l := range lines {
		offs = append(offs, o)
		o += len(l) + 1
	}
	offs = append(offs, len(input))
	for i := range offs {
		if offs[i] > len(input) {
			offs[i] = len(input)
		}
	}
	var sb strings.Builder
	prev, last := 0, 0
	for i, d := range diffs {
		if d.FromLine < 0 || d.FromLine > d.ToLine || d.ToLine > len(lines) {
			return "", fmt.Errorf("edit %d malformed: %d..%d in a document of %d lines", i, d.FromLine, d.ToLine, len(lines))
		}
		if d.FromLine < last {
			return "", fmt.Errorf("edit %d (from line %d) overlaps or precedes the previous edit (ends at line %d)", i, d.FromLine, last)
		}
		last = d.ToLine
		sb.WriteString(input[prev:offs[d.FromLine]])
		sb.WriteString(d.NewText)
		prev = offs[d.ToLine]
	}
	sb.WriteString(input[prev:])
	return sb.String(), nil
}

func demoCheck(t *testing.T, input string) {
	t.Helper()
	want, err := Fmt(input)
	if err != nil {
		t.Fatalf("formatter rejects %q: %v", input, err)
	}
	var diffs []FmtDiff
	func() {
		defer func() {
			if r := recover(); r != nil {
				err = fmt.Errorf("panic: %v", r)
			}
		}()
		diffs, err = FmtDiffs(input)
	}()
	if err != nil {
		t.Errorf("FmtDiffs failed for %q: %v", input, err)
		return
	}
	got, err := demoApplyEdits(input, diffs)
	if err != nil {
		t.Errorf("input %q: %v\n edits: %#v", input, err, diffs)
		return
	}
	if strings.TrimRight(got, "\n") != strings.TrimRight(want, "\n") {
		t.Errorf("input %q\n edits applied: %q\n formatter:     %q\n edits: %#v", input, got, want, diffs)
	}
}
