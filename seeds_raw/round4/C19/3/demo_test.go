// copy to: internal/bcl/genlsp/
package genlsp

import (
	"context"
	"fmt"
	"strings"
	"testing"

	"github.com/pentops/j5/internal/bcl/internal/parser"
	"go.lsp.dev/protocol"
)

// The last statement of a document that does NOT end in a newline needs
// reformatting: its edit ends on the line after the last one.
func TestDemoC19LSPEditsOnUnterminatedLastLine(t *testing.T) {
	for _, input := range []string{
		"a=1",
		"a = 1\nb=2",
		"foo {\n\ta = 1\n  }",
		"a = 1\n\n\n\nb = [1,2]   // c",
		// controls: terminated documents and untouched last lines
		"a=1\nb=2\n",
		"a=1\nb = 2",
	} {
		demoCheckLSP(t, input)
	}
}

func demoCheckLSP(t *testing.T, input string) {
	t.Helper()
	want, err := parser.Fmt(input)
	if err != nil {
		t.Fatalf("formatter rejects %q: %v", input, err)
	}
	edits, err := astFormatter{}.Format(context.Background(), &protocol.TextDocumentItem{
		URI:  "file:///demo.bcl",
		Text: input,
	})
	if err != nil {
		t.Errorf("Format failed for %q: %v", input, err)
		return
	}
	got, err := demoApplyTextEdits(input, edits)
	if err != nil {
		t.Errorf("input %q: %v\n edits: %v", input, err, edits)
		return
	}
	if strings.TrimRight(got, "\n") != strings.TrimRight(want, "\n") {
		t.Errorf("input %q\n edits applied: %q\n formatter:     %q\n edits: %v", input, got, want, edits)
	}
}

// demoApplyTextEdits applies the edits like an LSP client: positions are
// (line, character), a position past the last line is the end of the document.
func demoApplyTextEdits(input string, edits []protocol.TextEdit) (string, error) {
	lines := strings.Split(input, "\n")
	offs := make([]int, len(lines))
	o := 0
	for i, l := range lines {
		offs[i] = o
		o += len(l) + 1
	}
	offset := func(p protocol.Position) int {
		if int(p.Line) >= len(lines) {
			return len(input)
		}
		return offs[p.Line] + min(int(p.Character), len(lines[p.Line]))
	}
	var sb strings.Builder
	prev := 0
	for i, e := range edits {
		if int(e.Range.End.Line) > len(lines) {
			return "", fmt.Errorf("edit %d ends at line %d of %d", i, e.Range.End.Line, len(lines))
		}
		from, to := offset(e.Range.Start), offset(e.Range.End)
		if from > to {
			return "", fmt.Errorf("edit %d has an inverted range", i)
		}
		if from < prev {
			return "", fmt.Errorf("edit %d overlaps or precedes the previous edit", i)
		}
		sb.WriteString(input[prev:from])
		sb.WriteString(e.NewText)
		prev = to
	}
	sb.WriteString(input[prev:])
	return sb.String(), nil
}
