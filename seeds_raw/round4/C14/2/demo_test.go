// copy to: internal/j5s/protobuild/
package protobuild

import (
	"context"
	"fmt"
	"strings"
	"testing"

	"github.com/pentops/j5/internal/j5s/protoprint"
	"google.golang.org/protobuf/proto"
	"google.golang.org/protobuf/reflect/protodesc"
)

// demoOrderedFiles is a LocalFileSource which lists the files of the bundle in
// exactly the order it was given (the interface does not promise any order).
type demoOrderedFiles struct {
	packages []string
	order    []string
	content  map[string]string
}

func (of *demoOrderedFiles) ListPackages() []string { return of.packages }

func (of *demoOrderedFiles) ListSourceFiles(ctx context.Context, prefix string) ([]string, error) {
	out := []string{}
	for _, name := range of.order {
		if strings.HasPrefix(name, prefix) {
			out = append(out, name)
		}
	}
	return out, nil
}

func (of *demoOrderedFiles) GetLocalFile(ctx context.Context, filename string) ([]byte, error) {
	if c, ok := of.content[filename]; ok {
		return []byte(c), nil
	}
	return nil, fmt.Errorf("file not found: %s", filename)
}

func demoPermutations(in []string) [][]string {
	if len(in) <= 1 {
		return [][]string{append([]string{}, in...)}
	}
	out := [][]string{}
	for i := range in {
		rest := append(append([]string{}, in[:i]...), in[i+1:]...)
		for _, p := range demoPermutations(rest) {
			out = append(out, append([]string{in[i]}, p...))
		}
	}
	return out
}

// The bundle has one package, foo.v1, made of two j5s files, and one
// hand-written proto in the service sub-directory (proto package
// foo.v1.service) which happens to declare a message with the same simple name
// as an object of foo.v1. All listings of these three files must compile to the
// same descriptors and the same text.
func TestDemoFileListingOrder(t *testing.T) {
	ctx := context.Background()

	content := map[string]string{
		"foo/v1/foo.j5s": strings.Join([]string{
			"package foo.v1",
			"object Foo {",
			"  | the real Foo",
			"  field fooId string",
			"}",
		}, "\n"),
		"foo/v1/holder.j5s": strings.Join([]string{
			"package foo.v1",
			"object Holder {",
			"  field foo object:Foo",
			"}",
		}, "\n"),
		"foo/v1/service/view.proto": strings.Join([]string{
			`syntax = "proto3";`,
			`package foo.v1.service;`,
			`// a trimmed down view, in the service package`,
			`message Foo {`,
			`  string label = 1;`,
			`}`,
		}, "\n"),
	}
	names := []string{"foo/v1/foo.j5s", "foo/v1/holder.j5s", "foo/v1/service/view.proto"}

	type output struct {
		text string
		desc []byte
	}
	var firstOrder []string
	first := map[string]output{}

	for _, order := range demoPermutations(names) {
		src := &demoOrderedFiles{
			packages: []string{"foo.v1"},
			order:    order,
			content:  content,
		}
		ps, err := NewPackageSet(newTestDeps(), src)
		if err != nil {
			t.Fatal(err)
		}
		files, err := ps.CompilePackage(ctx, "foo.v1")
		if err != nil {
			t.Fatalf("listing %v: compile: %s", order, err)
		}
		got := map[string]output{}
		for _, f := range files {
			if !strings.HasSuffix(f.Path(), ".j5s.proto") {
				continue
			}
			text, err := protoprint.PrintFile(ctx, f, "gen")
			if err != nil {
				t.Fatalf("listing %v: print %s: %s", order, f.Path(), err)
			}
			desc, err := proto.MarshalOptions{Deterministic: true}.Marshal(protodesc.ToFileDescriptorProto(f))
			if err != nil {
				t.Fatal(err)
			}
			got[f.Path()] = output{text: text, desc: desc}
		}
		if firstOrder == nil {
			firstOrder = order
			first = got
			continue
		}
		if len(got) != len(first) {
			t.Errorf("listing %v: %d generated files, listing %v gave %d", order, len(got), firstOrder, len(first))
		}
		for name, w := range first {
			g := got[name]
			if g.text != w.text {
				t.Errorf("%s differs between listing %v and listing %v\n--- first\n%s\n--- this\n%s", name, firstOrder, order, w.text, g.text)
			} else if string(g.desc) != string(w.desc) {
				t.Errorf("descriptor of %s differs between listing %v and listing %v", name, firstOrder, order)
			}
		}
	}
}
