// copy to: internal/j5s/protobuild/
package protobuild

import (
	"context"
	"testing"

	"github.com/pentops/j5/internal/j5s/protoprint"
)

// TestDemoPrintedOptionOrderIsStable compiles one j5s bundle containing an
// entity (its Keys / Data / State / Event messages carry two message options,
// (j5.ext.v1.psm) and (j5.ext.v1.message); the generated query service methods
// carry (google.api.http) and (j5.ext.v1.method)) and prints every generated
// file many times. Every print of the same file must give the same text.
//
// None of these options has a source location (the file is generated from
// j5s), so their order comes only from the tie-break in optionsByLocation.
func TestDemoPrintedOptionOrderIsStable(t *testing.T) {
	ctx := context.Background()

	tf := newTestFiles()
	tf.tAddJ5SFile("app/v1/foo.j5s",
		"entity Foo {",
		"  | Foo is lorem ipsum",
		"  key fooId key:id62 {",
		"    primary = true",
		"  }",
		"  data name string",
		"  status ACTIVE",
		"  status INACTIVE",
		"  event Create {",
		"    field name string",
		"  }",
		"}",
	)
	td := newTestDeps()

	const rounds = 60

	first := map[string]string{}
	for round := 0; round < rounds; round++ {
		// a fresh PackageSet per round: fresh descriptors, fresh option maps
		ps, err := NewPackageSet(td, tf)
		if err != nil {
			t.Fatal(err)
		}
		files, err := ps.CompilePackage(ctx, "app.v1")
		if err != nil {
			t.Fatal(err)
		}
		for _, f := range files {
			// and several prints of the same linked file
			for rep := 0; rep < 5; rep++ {
				out, err := protoprint.PrintFile(ctx, f, "gen")
				if err != nil {
					t.Fatal(err)
				}
				prev, ok := first[f.Path()]
				if !ok {
					first[f.Path()] = out
					continue
				}
				if prev != out {
					t.Fatalf("round %d rep %d: printed text of %s differs from the first print\n--- first\n%s\n--- now\n%s",
						round, rep, f.Path(), prev, out)
				}
			}
		}
	}
}
