// copy to: internal/j5s/protobuild/
package protobuild

import (
	"context"
	"testing"

	"github.com/pentops/j5/internal/j5s/protoprint"
	"google.golang.org/protobuf/proto"
	"google.golang.org/protobuf/reflect/protodesc"
)

// Two packages in one bundle: app.v1 refers to types of base.v1.
// Every package is compiled with CompilePackage on ONE PackageSet, once in the
// order (base.v1, app.v1) and once in the order (app.v1, base.v1), and also on
// a fresh PackageSet each. The printed text and the descriptor of every file
// must not depend on that.
func demoOrderBundle() *testFiles {
	tf := newTestFiles()
	tf.tAddJ5SFile("base/v1/base.j5s",
		"enum Colour {",
		"  | The colour of a thing",
		"  option RED",
		"  option BLUE",
		"}",
		"",
		"object Thing {",
		"  | A Thing is shared between the packages",
		"  field name string {",
		"    | the display name",
		"  }",
		"  field colour enum:Colour",
		"}",
	)
	tf.tAddJ5SFile("app/v1/app.j5s",
		"import base.v1:base",
		"",
		"object Holder {",
		"  | Holder refers to the other package",
		"  field thing object:base.Thing",
		"}",
	)
	return tf
}

type demoOutput struct {
	text string
	desc []byte
}

func demoCompileInOrder(t *testing.T, ps *PackageSet, order []string) map[string]demoOutput {
	t.Helper()
	ctx := context.Background()
	got := map[string]demoOutput{}
	for _, pkg := range order {
		files, err := ps.CompilePackage(ctx, pkg)
		if err != nil {
			t.Fatalf("compile %s: %s", pkg, err)
		}
		for _, f := range files {
			text, err := protoprint.PrintFile(ctx, f, "gen")
			if err != nil {
				t.Fatalf("print %s: %s", f.Path(), err)
			}
			desc, err := proto.MarshalOptions{Deterministic: true}.Marshal(protodesc.ToFileDescriptorProto(f))
			if err != nil {
				t.Fatal(err)
			}
			got[f.Path()] = demoOutput{text: text, desc: desc}
		}
	}
	return got
}

func TestDemoCompileOrderOnOnePackageSet(t *testing.T) {
	td := newTestDeps()

	newSet := func() *PackageSet {
		ps, err := NewPackageSet(td, demoOrderBundle())
		if err != nil {
			t.Fatal(err)
		}
		return ps
	}

	// reference: every package on its own fresh PackageSet
	want := map[string]demoOutput{}
	for _, pkg := range []string{"base.v1", "app.v1"} {
		for name, out := range demoCompileInOrder(t, newSet(), []string{pkg}) {
			want[name] = out
		}
	}

	orders := [][]string{
		{"base.v1", "app.v1"},
		{"app.v1", "base.v1"},
	}
	for _, order := range orders {
		got := demoCompileInOrder(t, newSet(), order)
		if len(got) != len(want) {
			t.Errorf("order %v: got %d files, want %d", order, len(got), len(want))
		}
		for name, w := range want {
			g, ok := got[name]
			if !ok {
				t.Errorf("order %v: file %s missing", order, name)
				continue
			}
			if g.text != w.text {
				t.Errorf("order %v: printed text of %s differs from the fresh compile\n--- fresh\n%s\n--- this order\n%s", order, name, w.text, g.text)
			}
			if string(g.desc) != string(w.desc) {
				t.Errorf("order %v: descriptor bytes of %s differ from the fresh compile", order, name)
			}
		}
	}
}
