// copy to: internal/bcl/internal/parser/
package parser

import (
	"fmt"
	"strings"
	"testing"
)

// seedC09x3Paragraphs reduces a description to its paragraphs, each a list of
// words: the layout independent content of a description.
func seedC09x3Paragraphs(value string) [][]string {
	out := [][]string{}
	var current []string
	for _, line := range strings.Split(value, "\n") {
		words := strings.Fields(line)
		if len(words) == 0 {
			if current != nil {
				out = append(out, current)
				current = nil
			}
			continue
		}
		current = append(current, words...)
	}
	if current != nil {
		out = append(out, current)
	}
	return out
}

func seedC09x3Dump(sb *strings.Builder, depth int, body Body) {
	ind := strings.Repeat("  ", depth)
	for _, stmt := range body.Statements {
		switch s := stmt.(type) {
		case *Block:
			fmt.Fprintf(sb, "%sblock %s %#v\n", ind, s.Type.String(), s.Tags)
			seedC09x3Dump(sb, depth+1, s.Body)
		case *Assignment:
			fmt.Fprintf(sb, "%sassign %s %#v\n", ind, s.Key.String(), s.Value)
		case *Description:
			fmt.Fprintf(sb, "%sdescription %q\n", ind, seedC09x3Paragraphs(s.Value))
		default:
			fmt.Fprintf(sb, "%s%T\n", ind, s)
		}
	}
}

func seedC09x3Tree(t *testing.T, src string) string {
	t.Helper()
	file, err := ParseFile(src, true)
	if err != nil {
		t.Fatalf("source is not accepted by the parser: %s\n---\n%s", err, src)
	}
	sb := &strings.Builder{}
	seedC09x3Dump(sb, 0, file.Body)
	return sb.String()
}

func TestSeedC09x3DescriptionParagraphs(t *testing.T) {
	s := func(s ...string) string { return strings.Join(s, "\n") + "\n" }

	for name, input := range map[string]string{
		"two paragraphs": s(
			"| The first paragraph",
			"|",
			"| The second paragraph",
		),
		"three paragraphs": s(
			"| The first paragraph",
			"|",
			"| The second paragraph",
			"|",
			"| The third paragraph",
		),
		"single word second paragraph": s(
			"| The first paragraph",
			"|",
			"| Deprecated",
			"|",
			"| Use the other field instead",
		),
		"single word paragraphs in a block": s(
			"object Foo {",
			"\t| Summary of the object",
			"\t|",
			"\t| https://example.com/docs/foo",
			"\t|",
			"\t| Note",
			"\t|",
			"\t| Closing words",
			"",
			"\tfield name string",
			"}",
		),
	} {
		t.Run(name, func(t *testing.T) {
			want := seedC09x3Tree(t, input)

			out, err := Fmt(input)
			if err != nil {
				t.Fatalf("Fmt: %s", err)
			}
			t.Logf("formatted:\n%s", out)

			got := seedC09x3Tree(t, out)
			if got != want {
				t.Errorf("formatting changed the document\nbefore:\n%s\nafter:\n%s", want, got)
			}

			again, err := Fmt(out)
			if err != nil {
				t.Fatalf("Fmt of output: %s", err)
			}
			if again != out {
				t.Errorf("not idempotent\nfirst:\n%s\nsecond:\n%s", out, again)
			}
		})
	}
}
