// copy to: internal/bcl/internal/parser/
package parser

import (
	"fmt"
	"strings"
	"testing"
)

// seedC09x1Dump renders a parsed file as a position-free tree.
func seedC09x1Dump(sb *strings.Builder, depth int, body Body) {
	ind := strings.Repeat("  ", depth)
	for _, stmt := range body.Statements {
		switch s := stmt.(type) {
		case *Block:
			fmt.Fprintf(sb, "%sblock %s open=%v", ind, s.Type.String(), s.Open)
			for _, tag := range s.Tags {
				fmt.Fprintf(sb, " tag(%d,%s)", tag.Mark, seedC09x1Tag(tag))
			}
			for _, q := range s.Qualifiers {
				fmt.Fprintf(sb, " qual(%d,%s)", q.Mark, seedC09x1Tag(q))
			}
			if s.Description != nil {
				fmt.Fprintf(sb, " desc(%q)", s.Description.Value)
			}
			sb.WriteString("\n")
			seedC09x1Dump(sb, depth+1, s.Body)
		case *Assignment:
			op := "="
			if s.Append {
				op = "+="
			}
			fmt.Fprintf(sb, "%sassign %s %s %s\n", ind, s.Key.String(), op, seedC09x1Value(s.Value))
		case *Description:
			fmt.Fprintf(sb, "%sdescription %q\n", ind, strings.Fields(s.Value))
		default:
			fmt.Fprintf(sb, "%s%T\n", ind, s)
		}
	}
}

func seedC09x1Tag(tag TagValue) string {
	if tag.Value != nil {
		return seedC09x1Value(*tag.Value)
	}
	if tag.Reference != nil {
		return "ref:" + tag.Reference.String()
	}
	return "<nil>"
}

func seedC09x1Value(v Value) string {
	if v.array != nil {
		parts := make([]string, 0, len(v.array))
		for _, item := range v.array {
			parts = append(parts, seedC09x1Value(item))
		}
		return "[" + strings.Join(parts, ", ") + "]"
	}
	return fmt.Sprintf("%s:%q", v.token.Type, v.token.Lit)
}

func seedC09x1Tree(t *testing.T, src string) string {
	t.Helper()
	file, err := ParseFile(src, true)
	if err != nil {
		t.Fatalf("source is not accepted by the parser: %s\n---\n%s", err, src)
	}
	sb := &strings.Builder{}
	seedC09x1Dump(sb, 0, file.Body)
	return sb.String()
}

func TestSeedC09x1EmptyArray(t *testing.T) {
	for _, input := range []string{
		"a = []\n",
		"a += []\n",
		"block foo {\n\titems = [[1, 2], [], [3]]\n}\n",
		"a = [[]]\nb = 1\n",
	} {
		t.Run(input, func(t *testing.T) {
			want := seedC09x1Tree(t, input)

			out, err := Fmt(input)
			if err != nil {
				t.Fatalf("Fmt: %s", err)
			}
			t.Logf("formatted:\n%s", out)

			got := seedC09x1Tree(t, out)
			if got != want {
				t.Errorf("formatting changed the document\nbefore:\n%s\nafter:\n%s", want, got)
			}

			again, err := Fmt(out)
			if err != nil {
				t.Fatalf("Fmt of output: %s", err)
			}
			if again != out {
				t.Errorf("not idempotent\nfirst:\n%s\nsecond:\n%s", out, again)
			}
		})
	}
}
