// copy to: internal/bcl/internal/parser/
package parser

import (
	"fmt"
	"strings"
	"testing"
)

// seedC09x2Dump renders a parsed file as a position-free tree.
func seedC09x2Dump(sb *strings.Builder, depth int, body Body) {
	ind := strings.Repeat("  ", depth)
	for _, stmt := range body.Statements {
		switch s := stmt.(type) {
		case *Block:
			fmt.Fprintf(sb, "%sblock %s open=%v", ind, s.Type.String(), s.Open)
			for _, tag := range s.Tags {
				fmt.Fprintf(sb, " tag(%d,%s)", tag.Mark, seedC09x2Tag(tag))
			}
			for _, q := range s.Qualifiers {
				fmt.Fprintf(sb, " qual(%d,%s)", q.Mark, seedC09x2Tag(q))
			}
			if s.Description != nil {
				fmt.Fprintf(sb, " desc(%q)", s.Description.Value)
			}
			sb.WriteString("\n")
			seedC09x2Dump(sb, depth+1, s.Body)
		case *Assignment:
			op := "="
			if s.Append {
				op = "+="
			}
			fmt.Fprintf(sb, "%sassign %s %s %s\n", ind, s.Key.String(), op, seedC09x2Value(s.Value))
		case *Description:
			fmt.Fprintf(sb, "%sdescription %q\n", ind, strings.Fields(s.Value))
		default:
			fmt.Fprintf(sb, "%s%T\n", ind, s)
		}
	}
}

func seedC09x2Tag(tag TagValue) string {
	if tag.Value != nil {
		return seedC09x2Value(*tag.Value)
	}
	if tag.Reference != nil {
		return "ref:" + tag.Reference.String()
	}
	return "<nil>"
}

func seedC09x2Value(v Value) string {
	if v.array != nil {
		parts := make([]string, 0, len(v.array))
		for _, item := range v.array {
			parts = append(parts, seedC09x2Value(item))
		}
		return "[" + strings.Join(parts, ", ") + "]"
	}
	return fmt.Sprintf("%s:%q", v.token.Type, v.token.Lit)
}

func seedC09x2Tree(t *testing.T, src string) string {
	t.Helper()
	file, err := ParseFile(src, true)
	if err != nil {
		t.Fatalf("source is not accepted by the parser: %s\n---\n%s", err, src)
	}
	sb := &strings.Builder{}
	seedC09x2Dump(sb, 0, file.Body)
	return sb.String()
}

// seedC09x2Comments lists the text of every comment token in the source.
func seedC09x2Comments(t *testing.T, src string) []string {
	t.Helper()
	tokens, ok, err := NewLexer(src).AllTokens(true)
	if err != nil || !ok {
		t.Fatalf("lexer rejected source: %v\n---\n%s", err, src)
	}
	out := []string{}
	for _, tok := range tokens {
		if tok.Type == COMMENT || tok.Type == BLOCK_COMMENT {
			out = append(out, fmt.Sprintf("%s:%q", tok.Type, tok.Lit))
		}
	}
	return out
}

func TestSeedC09x2NestedMultiLineTokens(t *testing.T) {
	for name, input := range map[string]string{
		// the same shapes at the top level, where nothing is indented
		"top level string":  "text = \"first\\\nsecond\"\n",
		"top level comment": "/* first\nsecond */\na = 1\n",

		// a string literal holding an escaped newline, one and two blocks deep
		"string in block":        "block foo {\n\ttext = \"first\\\nsecond\"\n}\n",
		"string in nested block": "outer {\n\tinner {\n\t\tvalues = [\"a\", \"b\\\nc\"]\n\t}\n}\n",
		"string tag in block":    "outer {\n\tfield \"long\\\nname\" {\n\t\ta = 1\n\t}\n}\n",

		// a block comment spanning lines inside a block
		"comment in block": "block foo {\n\t/* first\n\t   second */\n\ta = 1\n}\n",
	} {
		t.Run(name, func(t *testing.T) {
			want := seedC09x2Tree(t, input)
			wantComments := seedC09x2Comments(t, input)

			out, err := Fmt(input)
			if err != nil {
				t.Fatalf("Fmt: %s", err)
			}
			t.Logf("formatted:\n%s", out)

			got := seedC09x2Tree(t, out)
			if got != want {
				t.Errorf("formatting changed the document\nbefore:\n%s\nafter:\n%s", want, got)
			}
			gotComments := seedC09x2Comments(t, out)
			if fmt.Sprint(gotComments) != fmt.Sprint(wantComments) {
				t.Errorf("formatting changed the comments\nbefore: %q\nafter:  %q", wantComments, gotComments)
			}

			again, err := Fmt(out)
			if err != nil {
				t.Fatalf("Fmt of output: %s", err)
			}
			if again != out {
				t.Errorf("not idempotent\nfirst:\n%q\nsecond:\n%q", out, again)
			}
		})
	}
}
