// copy to: internal/codec/
package codec

import (
	"net/url"
	"testing"

	"github.com/pentops/j5/gen/test/schema/v1/schema_testpb"
)

// A query parameter that addresses a container field (object / oneof) must be
// a JSON object. Any other text -- including an empty or all-blank value, as in
// "?sBar=" or "?wrappedOneof=%20" -- has to be rejected with an error, never
// with a panic.
func TestSeedC06_1_QueryContainerBlankValue(t *testing.T) {
	codec := NewCodec()

	for _, tc := range []struct {
		name  string
		query url.Values
	}{
		{"object empty", url.Values{"sBar": {""}}},
		{"object blank", url.Values{"sBar": {"  "}}},
		{"oneof empty", url.Values{"wrappedOneof": {""}}},
		{"nested object empty", url.Values{"wrappedOneof.wOneofBar": {"\t"}}},
		{"parsed", mustParseQuery(t, "sString=x&sBar=")},
	} {
		t.Run(tc.name, func(t *testing.T) {
			defer func() {
				if r := recover(); r != nil {
					t.Fatalf("QueryToProto panicked: %v", r)
				}
			}()
			msg := &schema_testpb.FullSchema{}
			err := codec.QueryToProto(tc.query, msg.ProtoReflect())
			if err == nil {
				t.Fatalf("expected an error for %v", tc.query)
			}
			t.Logf("error (as expected): %s", err)
		})
	}

	// sanity: the well-formed form still works
	msg := &schema_testpb.FullSchema{}
	if err := codec.QueryToProto(url.Values{"sBar": {` {"barId":"a"}`}}, msg.ProtoReflect()); err != nil {
		t.Fatal(err)
	}
	if msg.SBar.GetBarId() != "a" {
		t.Fatalf("unexpected message %v", msg)
	}
}

func mustParseQuery(t *testing.T, q string) url.Values {
	t.Helper()
	v, err := url.ParseQuery(q)
	if err != nil {
		t.Fatal(err)
	}
	return v
}
