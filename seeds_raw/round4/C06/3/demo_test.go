// copy to: internal/codec/
package codec

import (
	"net/url"
	"testing"

	"github.com/pentops/flowtest/prototest"
	"google.golang.org/protobuf/types/dynamicpb"
)

// Decoding must be total for every target message type, including those J5
// cannot fully represent. A message with an integer-keyed map is such a type:
// whatever the codec decides to do with it (reject the type, reject the value,
// or decode it), it must come back with a result and not crash.
func TestSeedC06_3_IntegerKeyedMapTarget(t *testing.T) {
	for _, fieldDef := range []string{
		"map<int32, string> m = 1;",
		"map<int64, string> m = 1;",
		"map<uint32, bool> m = 1;",
		"map<uint64, Inner> m = 1; } message Inner { string id = 1;",
	} {
		for _, input := range []string{
			`{}`,
			`{"m": null}`,
			`{"m": {}}`,
			`{"m": {"1": "a"}}`,
			`{"m": {"1": true}}`,
			`{"m": {"1": {"id": "x"}}}`,
			`{"m": {"not-a-number": "a"}}`,
		} {
			t.Run(fieldDef+" "+input, func(t *testing.T) {
				// every SingleMessage is called test.Wrapper, and a codec caches
				// schemas by name: use a fresh codec per target type
				codec := NewCodec()
				desc := prototest.SingleMessage(t, fieldDef)
				msg := dynamicpb.NewMessage(desc)
				defer func() {
					if r := recover(); r != nil {
						t.Fatalf("JSONToProto panicked: %v", r)
					}
				}()
				err := codec.JSONToProto([]byte(input), msg.ProtoReflect())
				t.Logf("result: %v / %v", err, msg)
			})
		}

		t.Run(fieldDef+" query", func(t *testing.T) {
			codec := NewCodec()
			desc := prototest.SingleMessage(t, fieldDef)
			msg := dynamicpb.NewMessage(desc)
			defer func() {
				if r := recover(); r != nil {
					t.Fatalf("QueryToProto panicked: %v", r)
				}
			}()
			// an empty query never looks at the fields
			err := codec.QueryToProto(url.Values{}, msg.ProtoReflect())
			t.Logf("result: %v", err)
		})
	}
}
