// copy to: internal/codec/
package codec

import (
	"testing"

	"github.com/pentops/j5/gen/test/schema/v1/schema_testpb"
)

// An Any field is written {"!type": "<name>", "value": {...}}. Every incomplete
// form has to be reported as an error: only the type, only the value, and the
// empty object, which carries neither.
func TestSeedC06_2_AnyWithoutTypeOrValue(t *testing.T) {
	for _, codec := range []*Codec{NewCodec(), NewCodec(WithProtoToAny())} {
		for _, input := range []string{
			`{"j5any": {"!type": "test.schema.v1.Bar"}}`,
			`{"j5any": {"value": {"barId": "x"}}}`,
			`{"j5any": {}}`,
			`{"pbany": {}}`,
			`{"sString": "x", "j5any": {}, "sBool": true}`,
		} {
			t.Run(input, func(t *testing.T) {
				defer func() {
					if r := recover(); r != nil {
						t.Fatalf("JSONToProto panicked: %v", r)
					}
				}()
				msg := &schema_testpb.FullSchema{}
				err := codec.JSONToProto([]byte(input), msg.ProtoReflect())
				if err == nil {
					t.Fatalf("expected an error")
				}
				t.Logf("error (as expected): %s", err)
			})
		}
	}

	// sanity: null and the complete form are accepted
	for _, input := range []string{
		`{"j5any": null}`,
		`{"j5any": {"!type": "test.schema.v1.Bar", "value": {"barId": "x"}}}`,
	} {
		msg := &schema_testpb.FullSchema{}
		if err := NewCodec().JSONToProto([]byte(input), msg.ProtoReflect()); err != nil {
			t.Fatalf("%s: %s", input, err)
		}
	}
}
