// copy to: internal/codec/
package codec

import (
	"net/url"
	"testing"

	"github.com/pentops/j5/gen/test/schema/v1/schema_testpb"
	"google.golang.org/protobuf/proto"
)

// Scalar values supplied as URL query parameters must produce the same message
// as the canonical JSON spelling - for every scalar kind, singular or repeated.
func TestSeedQueryRepeatedBool(t *testing.T) {
	codec := NewCodec()

	fromJSON := &schema_testpb.FullSchema{}
	if err := codec.JSONToProto([]byte(`{"sBool": true, "oBool": false, "rBool": [true, false, true]}`), fromJSON.ProtoReflect()); err != nil {
		t.Fatalf("JSONToProto: %s", err)
	}
	want := &schema_testpb.FullSchema{
		SBool: true,
		OBool: proto.Bool(false),
		RBool: []bool{true, false, true},
	}
	if !proto.Equal(want, fromJSON) {
		t.Fatalf("JSON decode gave %v", fromJSON)
	}

	fromQuery := &schema_testpb.FullSchema{}
	err := codec.QueryToProto(url.Values{
		"sBool": []string{"true"},
		"oBool": []string{"false"},
		"rBool": []string{"true", "false", "true"},
	}, fromQuery.ProtoReflect())
	if err != nil {
		t.Fatalf("QueryToProto rejected the query spelling of a valid message: %s", err)
	}
	if !proto.Equal(want, fromQuery) {
		t.Fatalf("query decode gave %v, want %v", fromQuery, want)
	}

	// other repeated scalars still work either way
	other := &schema_testpb.FullSchema{}
	if err := codec.QueryToProto(url.Values{
		"rString": []string{"a", "b"},
		"rFloat":  []string{"1.5", "2.5"},
	}, other.ProtoReflect()); err != nil {
		t.Fatalf("QueryToProto: %s", err)
	}
	if !proto.Equal(&schema_testpb.FullSchema{RString: []string{"a", "b"}, RFloat: []float32{1.5, 2.5}}, other) {
		t.Fatalf("query decode gave %v", other)
	}
}
