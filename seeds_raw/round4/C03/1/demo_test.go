// copy to: internal/codec/
package codec

import (
	"testing"

	"github.com/pentops/j5/gen/test/schema/v1/schema_testpb"
	"google.golang.org/protobuf/proto"
)

// A "!type" that contradicts the key present in a oneof must be rejected,
// wherever the "!type" member appears in the object (member order is not
// significant in JSON).
func TestSeedOneofTypeContradictionAnyOrder(t *testing.T) {
	codec := NewCodec()

	// sanity: matching !type is accepted in both orders and gives the same message
	want := &schema_testpb.FullSchema{
		WrappedOneof: &schema_testpb.WrappedOneof{
			Type: &schema_testpb.WrappedOneof_WOneofString{WOneofString: "x"},
		},
	}
	for _, doc := range []string{
		`{"wrappedOneof": {"!type": "wOneofString", "wOneofString": "x"}}`,
		`{"wrappedOneof": {"wOneofString": "x", "!type": "wOneofString"}}`,
	} {
		msg := &schema_testpb.FullSchema{}
		if err := codec.JSONToProto([]byte(doc), msg.ProtoReflect()); err != nil {
			t.Fatalf("valid document %s rejected: %s", doc, err)
		}
		if !proto.Equal(want, msg) {
			t.Fatalf("valid document %s decoded to %v", doc, msg)
		}
	}

	for _, doc := range []string{
		// !type first
		`{"wrappedOneof": {"!type": "wOneofFloat", "wOneofString": "x"}}`,
		// !type after the key it contradicts
		`{"wrappedOneof": {"wOneofString": "x", "!type": "wOneofFloat"}}`,
		// same, in an array element (second element)
		`{"wrappedOneofs": [{"wOneofString": "a"}, {"wOneofString": "x", "!type": "wOneofFloat"}]}`,
		// same, exposed oneof nested in an object
		`{"nestedExposedOneof": {"type": {"de1": "v", "!type": "de2"}}}`,
	} {
		msg := &schema_testpb.FullSchema{}
		err := codec.JSONToProto([]byte(doc), msg.ProtoReflect())
		if err == nil {
			t.Errorf("document %s has a !type contradicting its key but was accepted as %v", doc, msg)
		}
	}
}
