// copy to: internal/codec/
package codec

import (
	"math"
	"testing"

	"github.com/pentops/j5/gen/test/schema/v1/schema_testpb"
	"google.golang.org/protobuf/proto"
)

// An out-of-range number must be rejected, whether it is spelled bare or
// quoted; an in-range number must be stored exactly in either spelling.
func TestSeedInt64BareOverflow(t *testing.T) {
	codec := NewCodec()

	// in range: both spellings, same message
	for _, doc := range []string{
		`{"sInt64": 9223372036854775807, "sUint64": 18446744073709551615}`,
		`{"sInt64": "9223372036854775807", "sUint64": "18446744073709551615"}`,
	} {
		msg := &schema_testpb.FullSchema{}
		if err := codec.JSONToProto([]byte(doc), msg.ProtoReflect()); err != nil {
			t.Fatalf("valid document %s rejected: %s", doc, err)
		}
		want := &schema_testpb.FullSchema{SInt64: math.MaxInt64, SUint64: math.MaxUint64}
		if !proto.Equal(want, msg) {
			t.Fatalf("document %s decoded to %v", doc, msg)
		}
	}

	// out of range for the target field: must be rejected in both spellings
	for _, doc := range []string{
		`{"sInt64": "9223372036854775808"}`,
		`{"sInt64": 9223372036854775808}`,
		`{"sInt64": 18446744073709551615}`,
		`{"sInt32": 9223372036854775808}`,
		`{"sUint32": 9223372036854775808}`,
		`{"sUint64": 18446744073709551616}`,
		`{"sBar": {"barId": "x"}, "sInt64": 9223372036854775808}`,
	} {
		msg := &schema_testpb.FullSchema{}
		err := codec.JSONToProto([]byte(doc), msg.ProtoReflect())
		if err == nil {
			t.Errorf("out-of-range document %s was accepted as %v", doc, msg)
		}
	}
}
