// copy to: internal/bcl/internal/parser/
package parser

import (
	"fmt"
	"strings"
	"testing"
	"time"
	"unicode/utf8"

	"github.com/pentops/j5/internal/bcl/errpos"
)

// checkProperty runs ParseFile in both modes and returns a description of the
// first violation of the "parser is total / positions are inside the file" property.
func checkProperty(input string) (res string) {
	done := make(chan string, 1)
	go func() {
		defer func() {
			if r := recover(); r != nil {
				done <- fmt.Sprintf("panic: %v", r)
			}
		}()
		done <- checkPropertyInner(input)
	}()
	select {
	case r := <-done:
		return r
	case <-time.After(3 * time.Second):
		return "timeout (non-termination)"
	}
}

func pointOK(lines []string, p errpos.Point) bool {
	if p.Line < 0 || p.Line >= len(lines) {
		return false
	}
	if p.Column < 0 || p.Column > utf8.RuneCountInString(lines[p.Line]) {
		return false
	}
	return true
}

func posOK(lines []string, what string, s, e errpos.Point) string {
	if !pointOK(lines, s) {
		return fmt.Sprintf("%s: start %d:%d outside input", what, s.Line, s.Column)
	}
	if !pointOK(lines, e) {
		return fmt.Sprintf("%s: end %d:%d outside input", what, e.Line, e.Column)
	}
	if s.Line > e.Line || (s.Line == e.Line && s.Column > e.Column) {
		return fmt.Sprintf("%s: start %d:%d after end %d:%d", what, s.Line, s.Column, e.Line, e.Column)
	}
	return ""
}

func checkPropertyInner(input string) string {
	lines := strings.Split(input, "\n")
	var first [2]*errpos.Err
	for i, failFast := range []bool{true, false} {
		tree, err := ParseFile(input, failFast)
		if err == nil {
			if tree == nil {
				return "nil tree and nil error"
			}
			if msg := checkBody(lines, tree.Body); msg != "" {
				return msg
			}
			continue
		}
		ws, ok := errpos.AsErrorsWithSource(err)
		if !ok {
			return fmt.Sprintf("error is not a diagnostics list: %T %v", err, err)
		}
		if len(ws.Errors) == 0 {
			return "empty diagnostics list"
		}
		for _, e := range ws.Errors {
			if e.Pos == nil {
				return "diagnostic without position"
			}
			if msg := posOK(lines, "diagnostic "+e.Err.Error(), e.Pos.Start, e.Pos.End); msg != "" {
				return msg
			}
		}
		for _, ctx := range []int{0, 1, 3} {
			out := ws.HumanString(ctx)
			if strings.Contains(out, "out of range") {
				return "HumanString: " + out
			}
		}
		first[i] = ws.Errors[0]
	}
	if (first[0] == nil) != (first[1] == nil) {
		return "modes disagree on success"
	}
	if first[0] != nil {
		a, b := first[0], first[1]
		if a.Pos.Start != b.Pos.Start || a.Pos.End != b.Pos.End || a.Err.Error() != b.Err.Error() {
			return fmt.Sprintf("first diagnostic differs: failfast %s / collect %s", a.Error(), b.Error())
		}
	}
	return ""
}

func checkSN(lines []string, what string, sn SourceNode) string {
	if msg := posOK(lines, what, sn.Start, sn.End); msg != "" {
		return msg
	}
	if sn.Comment != nil {
		return posOK(lines, what+" comment", sn.Comment.Start, sn.Comment.End)
	}
	return ""
}

func checkRef(lines []string, what string, r Reference) string {
	if msg := checkSN(lines, what, r.SourceNode); msg != "" {
		return msg
	}
	for _, id := range r.Idents {
		if msg := checkSN(lines, what+" ident "+id.Value, id.SourceNode); msg != "" {
			return msg
		}
	}
	return ""
}

func checkValue(lines []string, what string, v Value) string {
	if msg := checkSN(lines, what, v.SourceNode); msg != "" {
		return msg
	}
	for i, vv := range v.array {
		if msg := checkValue(lines, fmt.Sprintf("%s[%d]", what, i), vv); msg != "" {
			return msg
		}
	}
	return ""
}

func checkTag(lines []string, what string, tv TagValue) string {
	if msg := checkSN(lines, what, tv.SourceNode); msg != "" {
		return msg
	}
	if tv.Reference != nil {
		if msg := checkRef(lines, what+" ref", *tv.Reference); msg != "" {
			return msg
		}
	}
	if tv.Value != nil {
		if msg := checkValue(lines, what+" value", *tv.Value); msg != "" {
			return msg
		}
	}
	if tv.Mark != TagMarkNone {
		if msg := posOK(lines, what+" mark", tv.MarkToken.Start, tv.MarkToken.End); msg != "" {
			return msg
		}
	}
	return ""
}

func checkBody(lines []string, body Body) string {
	for _, stmt := range body.Statements {
		switch s := stmt.(type) {
		case *Block:
			what := "block " + s.Type.String()
			if msg := checkSN(lines, what, s.SourceNode); msg != "" {
				return msg
			}
			if msg := checkRef(lines, what+" type", s.Type); msg != "" {
				return msg
			}
			for i, tag := range s.Tags {
				if msg := checkTag(lines, fmt.Sprintf("%s tag %d", what, i), tag); msg != "" {
					return msg
				}
			}
			for i, tag := range s.Qualifiers {
				if msg := checkTag(lines, fmt.Sprintf("%s qualifier %d", what, i), tag); msg != "" {
					return msg
				}
			}
			if s.Description != nil {
				if msg := checkSN(lines, what+" description", s.Description.SourceNode); msg != "" {
					return msg
				}
			}
			if msg := checkBody(lines, s.Body); msg != "" {
				return msg
			}
		case *Assignment:
			what := "assign " + s.Key.String()
			if msg := checkSN(lines, what, s.SourceNode); msg != "" {
				return msg
			}
			if msg := checkRef(lines, what+" key", s.Key); msg != "" {
				return msg
			}
			if msg := checkValue(lines, what+" value", s.Value); msg != "" {
				return msg
			}
		case *Description:
			if msg := checkSN(lines, "description", s.SourceNode); msg != "" {
				return msg
			}
			for _, tok := range s.Tokens {
				if msg := posOK(lines, "description token", tok.Start, tok.End); msg != "" {
					return msg
				}
			}
		}
	}
	return ""
}

// A qualifier separator ':' or a tag mark '!' / '?' (or a /regex/ in tag position)
// which is NOT followed by a name: popTag hands a non-identifier to popReference,
// whose error path builds NewReference() from an empty ident list.
func TestDemoC11_1(t *testing.T) {
	inputs := []string{
		// controls (well-formed marks / qualifiers, and the same errors in other positions)
		"field foo:bar\n",
		"field !foo ?bar : baz {\n}\n",
		"field foo.\n",
		// qualifier colon followed by end of line (what an editor sees mid-typing)
		"field foo :\n",
		// qualifier colon followed by the block opener
		"object Foo : {\n}\n",
		// mark without a name, last thing in the file
		"field !",
		// second qualifier missing, first one is fine
		"oneof a:b: | desc\n",
		// regex in tag position
		"field /re/ {\n}\n",
	}
	for _, in := range inputs {
		if msg := checkProperty(in); msg != "" {
			t.Errorf("input %q: %s", in, msg)
		}
	}
}
