// copy to: internal/j5s/j5convert/
package j5convert

import (
	"regexp"
	"testing"

	"buf.build/gen/go/bufbuild/protovalidate/protocolbuffers/go/buf/validate"
	"github.com/pentops/j5/gen/j5/schema/v1/schema_j5pb"
	"github.com/pentops/j5/gen/j5/sourcedef/v1/sourcedef_j5pb"
	"github.com/pentops/j5/lib/id62"
	"google.golang.org/protobuf/proto"
)

// Every key:id62, wherever it appears, must be compiled with the published
// ID62 pattern as its string validation rule, and that rule must accept
// rendered identifiers and reject anything else.
func TestDemoId62PatternInArrays(t *testing.T) {
	id62Key := func() *schema_j5pb.Field {
		return &schema_j5pb.Field{
			Type: &schema_j5pb.Field_Key{
				Key: &schema_j5pb.KeyField{
					Format: &schema_j5pb.KeyFormat{
						Type: &schema_j5pb.KeyFormat_Id62{Id62: &schema_j5pb.KeyFormat_ID62{}},
					},
				},
			},
		}
	}
	arrayOf := func(rules *schema_j5pb.ArrayField_Rules) *schema_j5pb.Field {
		return &schema_j5pb.Field{
			Type: &schema_j5pb.Field_Array{
				Array: &schema_j5pb.ArrayField{
					Items: id62Key(),
					Rules: rules,
				},
			},
		}
	}

	obj := &sourcedef_j5pb.RootElement{
		Type: &sourcedef_j5pb.RootElement_Object{
			Object: &sourcedef_j5pb.Object{
				Def: &schema_j5pb.Object{
					Name: "Thing",
					Properties: []*schema_j5pb.ObjectProperty{
						{Name: "id", Schema: id62Key()},
						{Name: "plainIds", Schema: arrayOf(nil)},
						{Name: "uniqueIds", Schema: arrayOf(&schema_j5pb.ArrayField_Rules{UniqueItems: proto.Bool(true)})},
						{Name: "boundedIds", Schema: arrayOf(&schema_j5pb.ArrayField_Rules{MinItems: proto.Uint64(1), MaxItems: proto.Uint64(10)})},
					},
				},
			},
		},
	}

	deps := &testDeps{pkg: "test.v1", types: map[string]*TypeRef{}}
	files, err := ConvertJ5File(deps, &sourcedef_j5pb.SourceFile{
		Package:  &sourcedef_j5pb.Package{Name: "test.v1"},
		Path:     "test/v1/test.j5s",
		Elements: []*sourcedef_j5pb.RootElement{obj},
	})
	if err != nil {
		t.Fatalf("ConvertJ5File: %v", err)
	}

	msg := files[0].MessageType[0]
	if len(msg.Field) != 4 {
		t.Fatalf("expected 4 fields, got %d", len(msg.Field))
	}

	sample := id62.UUID{0, 0, 0, 1, 2, 3, 4, 5, 6, 7, 8, 9, 10, 11, 12, 13}.String()

	for _, field := range msg.Field {
		t.Run(field.GetName(), func(t *testing.T) {
			constraints, _ := proto.GetExtension(field.Options, validate.E_Field).(*validate.FieldConstraints)
			if constraints == nil {
				t.Fatalf("no validation rules at all")
			}
			itemRules := constraints
			if rep := constraints.GetRepeated(); rep != nil {
				itemRules = rep.Items
				t.Logf("repeated rules: %s", rep)
			}
			pattern := itemRules.GetString_().GetPattern()
			if pattern != id62.PatternString {
				t.Fatalf("id62 key compiled with pattern %q, want %q", pattern, id62.PatternString)
			}
			re := regexp.MustCompile(pattern)
			if !re.MatchString(sample) {
				t.Errorf("rendered identifier %q rejected by compiled pattern", sample)
			}
			if re.MatchString("not-an-id") {
				t.Errorf("compiled pattern accepts garbage")
			}
		})
	}
}
