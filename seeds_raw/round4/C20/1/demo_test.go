// copy to: lib/id62/
package id62

import (
	"math/big"
	"testing"
)

// Values that do not fit in 16 bytes must be rejected by Parse; in particular
// the first value above the all-ones identifier (2^128), and no rejected /
// accepted string may alias the rendering of another identifier.
func TestDemoParseBoundary(t *testing.T) {
	pad := func(i *big.Int) string {
		s := i.Text(62)
		for len(s) < 22 {
			s = "0" + s
		}
		return s
	}

	two128 := new(big.Int).Lsh(big.NewInt(1), 128)

	// 2^128 - 1 : largest identifier, must parse to all-ones
	maxStr := pad(new(big.Int).Sub(two128, big.NewInt(1)))
	got, err := Parse(maxStr)
	if err != nil {
		t.Fatalf("Parse(%q) (2^128-1): unexpected error %v", maxStr, err)
	}
	for _, b := range got {
		if b != 0xff {
			t.Fatalf("Parse(%q) = %x, want all ones", maxStr, got[:])
		}
	}

	// 2^128, 2^128+1, 62^22-1: all 22 characters, all matching the pattern, none fit
	for _, v := range []*big.Int{
		two128,
		new(big.Int).Add(two128, big.NewInt(1)),
		new(big.Int).Sub(new(big.Int).Exp(big.NewInt(62), big.NewInt(22), nil), big.NewInt(1)),
	} {
		s := pad(v)
		if len(s) != 22 || !Pattern.MatchString(s) {
			t.Fatalf("test setup: %q should be 22 pattern-conforming characters", s)
		}
		id, err := Parse(s)
		if err == nil {
			t.Errorf("Parse(%q) (value %s, needs %d bits) was accepted as %x (renders as %q); want an error", s, v.String(), v.BitLen(), id[:], id.String())
		}
	}
}
