// copy to: lib/id62/
package id62

import (
	"crypto/sha1"
	"strings"
	"testing"
)

// NewHash must be a pure function of (namespace, inputs): the result of a call
// may not depend on which other calls were made before it.
func TestDemoNewHashIsPure(t *testing.T) {
	reference := func(namespace string, inputs ...string) UUID {
		sum := sha1.Sum([]byte(namespace + strings.Join(inputs, "")))
		var id UUID
		copy(id[:], sum[:])
		return id
	}

	type call struct {
		namespace string
		inputs    []string
	}

	// a history of calls; every single result must equal the history-free reference
	history := []call{
		{"tenant", []string{"a", "b"}},
		{"tenant", []string{"a", "b"}}, // repeated
		{"tenant", []string{"b", "a"}},
		{"tenant", nil},
		{"tenant", []string{""}},
		{"files", []string{"usr/local"}},
		{"files", []string{"usr", "local"}}, // same inputs, split differently
		{"files", []string{"usr", "", "local"}},
		{"a/b", []string{"c"}},
		{"a", []string{"b", "c"}},
		{"files", []string{"usr/local"}},
	}

	for idx, c := range history {
		got := NewHash(c.namespace, c.inputs...)
		want := reference(c.namespace, c.inputs...)
		if got != want {
			t.Errorf("call #%d NewHash(%q, %q) = %s, want %s (result depends on earlier calls)", idx, c.namespace, c.inputs, got, want)
		}
		if len(got.String()) != 22 || !Pattern.MatchString(got.String()) {
			t.Errorf("call #%d: rendering %q does not match the pattern", idx, got.String())
		}
	}
}
