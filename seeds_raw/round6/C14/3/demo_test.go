// copy to: internal/j5s/protobuild/
package protobuild

import (
	"context"
	"testing"

	"github.com/pentops/j5/internal/j5s/protoprint"
)

// The query service generated for an entity has methods carrying two options
// which are declared in two different proto files: (google.api.http) and
// (j5.ext.v1.method). Descriptors converted from j5s have no source positions
// for options. Printing the same compiled files must always give the same text,
// whatever order the options come back from the options message's extension
// map (a Go map: the order differs from call to call).
func TestDemoEntityMethodOptionsPrintIsStable(t *testing.T) {
	tf := newTestFiles()
	tf.tAddJ5SFile("local/v1/foo.j5s",
		"entity Foo {",
		"  key foo_id key:uuid",
		"",
		"  data name string",
		"",
		"  status ACTIVE",
		"  status CLOSED",
		"",
		"  event Created {",
		"    field name string",
		"  }",
		"}",
	)

	ctx := context.Background()
	first := map[string]string{}
	for run := 0; run < 100; run++ {
		// a fresh PackageSet per run: nothing is shared between the runs
		cc, err := NewPackageSet(newTestDeps(), tf)
		if err != nil {
			t.Fatal(err.Error())
		}
		out, err := cc.CompilePackage(ctx, "local.v1")
		if err != nil {
			t.Fatal(err.Error())
		}
		for _, file := range out {
			text, err := protoprint.PrintFile(ctx, file, "gen")
			if err != nil {
				t.Fatal(err.Error())
			}
			if run == 0 {
				first[file.Path()] = text
				t.Log(text)
				continue
			}
			if text != first[file.Path()] {
				t.Fatalf("run %d printed different text for %s from the same source:\n--- first\n%s\n--- now\n%s", run, file.Path(), first[file.Path()], text)
			}
		}
	}
}
