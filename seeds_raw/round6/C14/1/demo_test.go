// copy to: internal/j5s/protobuild/
package protobuild

import (
	"context"
	"testing"

	"github.com/pentops/j5/internal/j5s/protoprint"
)

// An enum option carrying several 'info' entries becomes a
// (j5.ext.v1.enum_value).info map option. Printing the same compiled file must
// always give the same text, whatever order Go's map iteration yields.
func TestDemoEnumInfoMapPrintIsStable(t *testing.T) {
	tf := newTestFiles()
	tf.tAddJ5SFile("local/v1/status.j5s",
		"enum Status {",
		"  option ACTIVE {",
		`    info.label = "Active"`,
		`    info.color = "green"`,
		`    info.icon = "tick"`,
		`    info.group = "open"`,
		`    info.audience = "all"`,
		`    info.weight = "10"`,
		"  }",
		"  option CLOSED {",
		`    info.label = "Closed"`,
		`    info.color = "grey"`,
		"  }",
		"}",
	)

	ctx := context.Background()
	var first string
	for run := 0; run < 200; run++ {
		// a fresh PackageSet per run: nothing is shared between the runs
		cc, err := NewPackageSet(newTestDeps(), tf)
		if err != nil {
			t.Fatal(err.Error())
		}
		out, err := cc.CompilePackage(ctx, "local.v1")
		if err != nil {
			t.Fatal(err.Error())
		}
		if len(out) != 1 {
			t.Fatalf("expected one file, got %d", len(out))
		}
		text, err := protoprint.PrintFile(ctx, out[0], "gen")
		if err != nil {
			t.Fatal(err.Error())
		}
		if run == 0 {
			first = text
			t.Log(text)
			continue
		}
		if text != first {
			t.Fatalf("run %d printed different text for the same source:\n--- first\n%s\n--- now\n%s", run, first, text)
		}
	}
}
