// copy to: internal/bcl/internal/parser/
package parser

import (
	"strings"
	"testing"
	"unicode/utf8"

	"github.com/pentops/j5/internal/bcl/errpos"
)

// Every diagnostic must carry a start and end position inside the input
// (0 <= line < number of lines, 0 <= column <= rune length of that line),
// with start not after end; and collect-all must report the fail-fast
// diagnostic first, with the same range.

func c11s2InBounds(lines []string, p errpos.Point) bool {
	if p.Line < 0 || p.Line >= len(lines) {
		return false
	}
	return p.Column >= 0 && p.Column <= utf8.RuneCountInString(lines[p.Line])
}

func c11s2After(a, b errpos.Point) bool {
	if a.Line != b.Line {
		return a.Line > b.Line
	}
	return a.Column > b.Column
}

func c11s2Diagnostics(t *testing.T, input string, failFast bool) errpos.Errors {
	t.Helper()
	file, err := ParseFile(input, failFast)
	if err == nil {
		if file == nil {
			t.Fatalf("no tree and no error")
		}
		return nil
	}
	withSource, ok := errpos.AsErrorsWithSource(err)
	if !ok {
		t.Fatalf("error without source: %T %s", err, err)
	}
	if len(withSource.Errors) == 0 {
		t.Fatalf("error with an empty list of diagnostics")
	}
	_ = withSource.HumanString(2)
	return withSource.Errors
}

func TestC11Seed2DiagnosticRanges(t *testing.T) {
	for _, tc := range []struct {
		name      string
		input     string
		wantError bool
	}{
		// controls: single-line unexpected tokens, valid multi-line tokens
		{"single line operator", "block Foo }", true},
		{"single line literal", "a = 1 \"extra\"", true},
		{"single line block comment", "block Foo /* c */ {\n}", true},
		{"valid multi-line string", "a = \"one\\\ntwo\"\n", false},
		{"valid multi-line block comment", "/* one\n two */\nblock Foo\n", false},

		// the unexpected token spans more than one line
		{"block comment before brace", "block Foo /* c\n */ {\n}\n", true},
		{"escaped newline string after value", "a = 1 \"x\\\ny\"\n", true},
		{"long tail of block comment", "x = 1 /*\n        long tail */\n", true},
		{"second error is the multi-line one", "a = = 1\nblock Foo /* c\n*/ {\n", true},
	} {
		t.Run(tc.name, func(t *testing.T) {
			lines := strings.Split(tc.input, "\n")
			first := c11s2Diagnostics(t, tc.input, true)
			all := c11s2Diagnostics(t, tc.input, false)
			if tc.wantError != (len(all) > 0) {
				t.Fatalf("wantError=%v, got diagnostics %v", tc.wantError, all)
			}
			if !tc.wantError {
				return
			}
			if len(first) != 1 {
				t.Fatalf("fail-fast reported %d diagnostics", len(first))
			}
			if *first[0].Pos != *all[0].Pos || first[0].Err.Error() != all[0].Err.Error() {
				t.Errorf("collect-all does not start with the fail-fast diagnostic: %s vs %s", all[0], first[0])
			}
			for _, diag := range append(first, all...) {
				if diag.Pos == nil {
					t.Errorf("diagnostic without position: %s", diag)
					continue
				}
				start, end := diag.Pos.Start, diag.Pos.End
				if !c11s2InBounds(lines, start) {
					t.Errorf("%q: start %d:%d (0-based) outside the input", diag, start.Line, start.Column)
				}
				if !c11s2InBounds(lines, end) {
					t.Errorf("%q: end %d:%d (0-based) outside the input", diag, end.Line, end.Column)
				}
				if c11s2After(start, end) {
					t.Errorf("%q: start %d:%d is after end %d:%d", diag, start.Line, start.Column, end.Line, end.Column)
				}
			}
		})
	}
}
