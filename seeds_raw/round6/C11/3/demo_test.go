// copy to: internal/bcl/internal/parser/
package parser

import (
	"testing"

	"github.com/pentops/j5/internal/bcl/errpos"
)

// Collect-all mode must report the fail-fast diagnostic first: the single
// diagnostic of ParseFile(input, true) is element 0 of ParseFile(input, false).

func c11s3Diagnostics(t *testing.T, input string, failFast bool) errpos.Errors {
	t.Helper()
	file, err := ParseFile(input, failFast)
	if err == nil {
		if file == nil {
			t.Fatalf("no tree and no error")
		}
		return nil
	}
	withSource, ok := errpos.AsErrorsWithSource(err)
	if !ok {
		t.Fatalf("error without source: %T %s", err, err)
	}
	if len(withSource.Errors) == 0 {
		t.Fatalf("error with an empty list of diagnostics")
	}
	_ = withSource.HumanString(2)
	return withSource.Errors
}

func TestC11Seed3CollectAllStartsWithFailFast(t *testing.T) {
	for _, tc := range []struct {
		name  string
		input string
	}{
		// controls: only syntax errors, or only brace errors
		{"syntax only", "a = = 1\nb = 2\nc = ]\n"},
		{"syntax inside closed block", "block Foo {\n  a = = 1\n}\n"},
		{"stray close only", "a = 1\n}\n"},
		{"unclosed only", "block Foo {\n  a = 1\n"},
		{"two stray closes", "}\n}\n"},

		// a syntax error together with unbalanced braces in the lines that
		// survive the recovery
		{"syntax error then stray close", "a = = 1\n}\n"},
		{"stray close then syntax error", "}\na = = 1\n"},
		{"broken block header, its close brace is left over", "block Foo bar = {\n  x = 1\n}\n"},
		{"syntax error inside unclosed block", "block Foo {\n  a = = 1\n  b = 2\n"},
	} {
		t.Run(tc.name, func(t *testing.T) {
			first := c11s3Diagnostics(t, tc.input, true)
			all := c11s3Diagnostics(t, tc.input, false)
			if len(first) == 0 || len(all) == 0 {
				t.Fatalf("expected diagnostics in both modes, got %d and %d", len(first), len(all))
			}
			ff, ca := first[0], all[0]
			if ff.Pos == nil || ca.Pos == nil {
				t.Fatalf("diagnostic without position")
			}
			if ff.Pos.Start != ca.Pos.Start || ff.Pos.End != ca.Pos.End || ff.Err.Error() != ca.Err.Error() {
				t.Errorf("collect-all starts with %q but fail-fast reports %q", ca.Error(), ff.Error())
			}
		})
	}
}
