// copy to: internal/bcl/internal/parser/
package parser

import (
	"strings"
	"testing"
	"unicode/utf8"

	"github.com/pentops/j5/internal/bcl/errpos"
)

// Every token, tree node and diagnostic must carry positions that lie inside
// the input, measured in runes: 0 <= line < number of lines and
// 0 <= column <= rune-length of that line (the column one past the last rune is
// where EOL / EOF live), and start must not be after end.

func c11s1InBounds(lines []string, p Position) bool {
	if p.Line < 0 || p.Line >= len(lines) {
		return false
	}
	if p.Column < 0 || p.Column > utf8.RuneCountInString(lines[p.Line]) {
		return false
	}
	return true
}

func c11s1After(a, b Position) bool {
	if a.Line != b.Line {
		return a.Line > b.Line
	}
	return a.Column > b.Column
}

func c11s1CheckRange(t *testing.T, what string, lines []string, start, end Position) {
	t.Helper()
	if !c11s1InBounds(lines, start) {
		t.Errorf("%s: start %d:%d (0-based) is outside the input", what, start.Line, start.Column)
	}
	if !c11s1InBounds(lines, end) {
		t.Errorf("%s: end %d:%d (0-based) is outside the input (line has %d runes)", what, end.Line, end.Column,
			func() int {
				if end.Line >= 0 && end.Line < len(lines) {
					return utf8.RuneCountInString(lines[end.Line])
				}
				return -1
			}())
	}
	if c11s1After(start, end) {
		t.Errorf("%s: start %d:%d is after end %d:%d", what, start.Line, start.Column, end.Line, end.Column)
	}
}

func c11s1WalkBody(t *testing.T, lines []string, body Body) {
	for _, stmt := range body.Statements {
		src := stmt.Source()
		c11s1CheckRange(t, "statement node", lines, src.Start, src.End)
		if block, ok := stmt.(*Block); ok {
			c11s1CheckRange(t, "block type reference", lines, block.Type.Start, block.Type.End)
			for _, tag := range block.Tags {
				c11s1CheckRange(t, "block tag", lines, tag.Start, tag.End)
			}
			for _, q := range block.Qualifiers {
				c11s1CheckRange(t, "block qualifier", lines, q.Start, q.End)
			}
			c11s1WalkBody(t, lines, block.Body)
		}
		if assign, ok := stmt.(*Assignment); ok {
			c11s1CheckRange(t, "assignment key", lines, assign.Key.Start, assign.Key.End)
			c11s1CheckRange(t, "assignment value", lines, assign.Value.Start, assign.Value.End)
		}
	}
}

func TestC11Seed1PositionsInsideInput(t *testing.T) {
	for _, input := range []string{
		// plain ASCII controls
		"block Foo",
		"object Foo {\n  field name string\n}\n",
		"a = 1 extra",
		// identifiers with multi-byte letters, at the end of a line
		"block ñandú",
		"enum Größe {\n  option KLEIN_äöü\n}",
		"größe.länge = wörter",
		"block Foo:日本語",
		// ... and as the unexpected token of a diagnostic
		"a = 1 ñandúü",
	} {
		for _, failFast := range []bool{true, false} {
			t.Run(input, func(t *testing.T) {
				lines := strings.Split(input, "\n")

				toks, ok, err := NewLexer(input).AllTokens(failFast)
				if err != nil {
					t.Fatal(err)
				}
				if ok {
					for _, tok := range toks {
						c11s1CheckRange(t, "token "+tok.String(), lines, tok.Start, tok.End)
					}
				}

				file, err := ParseFile(input, failFast)
				if err != nil {
					withSource, ok := errpos.AsErrorsWithSource(err)
					if !ok {
						t.Fatalf("error without source: %T %s", err, err)
					}
					if len(withSource.Errors) == 0 {
						t.Fatalf("no diagnostics")
					}
					for _, diag := range withSource.Errors {
						if diag.Pos == nil {
							t.Errorf("diagnostic without position: %s", diag)
							continue
						}
						c11s1CheckRange(t, "diagnostic "+diag.Error(), lines, diag.Pos.Start, diag.Pos.End)
					}
					_ = withSource.HumanString(2)
					return
				}
				if file == nil {
					t.Fatalf("no tree and no error")
				}
				c11s1WalkBody(t, lines, file.Body)
			})
		}
	}
}
