// copy to: lib/j5schema/
package j5schema

import (
	"testing"

	"buf.build/gen/go/bufbuild/protovalidate/protocolbuffers/go/buf/validate"
	"google.golang.org/protobuf/proto"
	"google.golang.org/protobuf/reflect/protodesc"
	"google.golang.org/protobuf/reflect/protoreflect"
	"google.golang.org/protobuf/reflect/protoregistry"
	"google.golang.org/protobuf/types/descriptorpb"
)

// A (buf.validate.field) option which carries list rules without item rules
// and sets 'ignore', placed on fields which are and are not lists. The rule is
// inconsistent with the singular fields; reflection must still return a schema
// or an error, never panic.
func seedC18_1_file(t *testing.T) protoreflect.FileDescriptor {
	t.Helper()

	listRuleNoItems := func() *descriptorpb.FieldOptions {
		opts := &descriptorpb.FieldOptions{}
		proto.SetExtension(opts, validate.E_Field, &validate.FieldConstraints{
			Ignore: validate.Ignore_IGNORE_IF_UNPOPULATED.Enum(),
			Type: &validate.FieldConstraints_Repeated{
				Repeated: &validate.RepeatedRules{
					MinItems: proto.Uint64(1),
				},
			},
		})
		return opts
	}

	fdp := &descriptorpb.FileDescriptorProto{
		Name:       proto.String("seed/c18_1/v1/demo.proto"),
		Package:    proto.String("seed.c18_1.v1"),
		Syntax:     proto.String("proto3"),
		Dependency: []string{"buf/validate/validate.proto"},
		MessageType: []*descriptorpb.DescriptorProto{{
			// consistent use: the field is a list
			Name: proto.String("ListOK"),
			Field: []*descriptorpb.FieldDescriptorProto{{
				Name:     proto.String("tags"),
				JsonName: proto.String("tags"),
				Number:   proto.Int32(1),
				Label:    descriptorpb.FieldDescriptorProto_LABEL_REPEATED.Enum(),
				Type:     descriptorpb.FieldDescriptorProto_TYPE_STRING.Enum(),
				Options:  listRuleNoItems(),
			}},
		}, {
			// inconsistent use: the same option on a singular string
			Name: proto.String("SingularString"),
			Field: []*descriptorpb.FieldDescriptorProto{{
				Name:     proto.String("name"),
				JsonName: proto.String("name"),
				Number:   proto.Int32(1),
				Label:    descriptorpb.FieldDescriptorProto_LABEL_OPTIONAL.Enum(),
				Type:     descriptorpb.FieldDescriptorProto_TYPE_STRING.Enum(),
				Options:  listRuleNoItems(),
			}},
		}, {
			// inconsistent use: the same option on a singular int64, second field
			Name: proto.String("SingularInt"),
			Field: []*descriptorpb.FieldDescriptorProto{{
				Name:     proto.String("id"),
				JsonName: proto.String("id"),
				Number:   proto.Int32(1),
				Label:    descriptorpb.FieldDescriptorProto_LABEL_OPTIONAL.Enum(),
				Type:     descriptorpb.FieldDescriptorProto_TYPE_STRING.Enum(),
			}, {
				Name:     proto.String("count"),
				JsonName: proto.String("count"),
				Number:   proto.Int32(2),
				Label:    descriptorpb.FieldDescriptorProto_LABEL_OPTIONAL.Enum(),
				Type:     descriptorpb.FieldDescriptorProto_TYPE_INT64.Enum(),
				Options:  listRuleNoItems(),
			}},
		}},
	}

	fd, err := protodesc.NewFile(fdp, protoregistry.GlobalFiles)
	if err != nil {
		t.Fatalf("descriptor does not link: %s", err)
	}
	return fd
}

func seedC18_1_noPanic(t *testing.T, label string, f func() error) {
	t.Helper()
	var err error
	panicked := false
	func() {
		defer func() {
			if r := recover(); r != nil {
				t.Errorf("%s: PANIC (must be a schema or an error): %v", label, r)
				panicked = true
			}
		}()
		err = f()
	}()
	if panicked {
		return
	}
	if err != nil {
		t.Logf("%s: returned error (allowed): %s", label, err)
	} else {
		t.Logf("%s: returned a schema", label)
	}
}

func TestSeedC18_1_ListRuleWithIgnoreOnSingularField(t *testing.T) {
	fd := seedC18_1_file(t)

	for _, name := range []string{"ListOK", "SingularString", "SingularInt"} {
		msg := fd.Messages().ByName(protoreflect.Name(name))

		seedC18_1_noPanic(t, "SchemaCache.Schema("+name+")", func() error {
			_, err := NewSchemaCache().Schema(msg)
			return err
		})
	}

	seedC18_1_noPanic(t, "SchemaSetFromFiles", func() error {
		files := &protoregistry.Files{}
		if err := files.RegisterFile(fd); err != nil {
			return err
		}
		_, err := SchemaSetFromFiles(files, func(protoreflect.FileDescriptor) bool { return true })
		return err
	})

	seedC18_1_noPanic(t, "ScalarSchemaFromProto(SingularString.name)", func() error {
		_, _, err := ScalarSchemaFromProto(fd.Messages().ByName("SingularString").Fields().ByName("name"))
		return err
	})
}
