// copy to: internal/codec/
package codec

import (
	"testing"

	"github.com/pentops/j5/gen/j5/ext/v1/ext_j5pb"
	"github.com/pentops/j5/lib/j5schema"
	"google.golang.org/protobuf/proto"
	"google.golang.org/protobuf/reflect/protodesc"
	"google.golang.org/protobuf/reflect/protoreflect"
	"google.golang.org/protobuf/reflect/protoregistry"
	"google.golang.org/protobuf/types/descriptorpb"
	"google.golang.org/protobuf/types/dynamicpb"
)

// A flattened message which itself flattens a message: members are lifted
// two levels up.
//
//	message Top {
//	  string code   = 1;
//	  Middle middle = 2 [(j5.ext.v1.field).message.flatten = true];
//	}
//	message Middle {
//	  string extra  = 1;
//	  Bottom bottom = 2 [(j5.ext.v1.field).message.flatten = true];
//	}
//	message Bottom {
//	  string code   = 1; // same JSON name as Top.code, two levels down
//	  string detail = 2;
//	}
//
//	message TopOne {   // control (in a second file): the collision is only one level down
//	  string code   = 1;
//	  Bottom bottom = 2 [(j5.ext.v1.field).message.flatten = true];
//	}
//
//	message TopClean { // control: two levels, no collision
//	  string name   = 1;
//	  Middle middle = 2 [(j5.ext.v1.field).message.flatten = true];
//	}
type seedC18_3_resolver struct {
	local *protoregistry.Files
}

func (r seedC18_3_resolver) FindFileByPath(path string) (protoreflect.FileDescriptor, error) {
	if fd, err := r.local.FindFileByPath(path); err == nil {
		return fd, nil
	}
	return protoregistry.GlobalFiles.FindFileByPath(path)
}

func (r seedC18_3_resolver) FindDescriptorByName(name protoreflect.FullName) (protoreflect.Descriptor, error) {
	if d, err := r.local.FindDescriptorByName(name); err == nil {
		return d, nil
	}
	return protoregistry.GlobalFiles.FindDescriptorByName(name)
}

// returns the file under test and a second file holding the TopOne control
func seedC18_3_files(t *testing.T) (protoreflect.FileDescriptor, protoreflect.FileDescriptor) {
	t.Helper()

	flatten := func() *descriptorpb.FieldOptions {
		opts := &descriptorpb.FieldOptions{}
		proto.SetExtension(opts, ext_j5pb.E_Field, &ext_j5pb.FieldOptions{
			Type: &ext_j5pb.FieldOptions_Message{
				Message: &ext_j5pb.MessageFieldOptions{Flatten: true},
			},
		})
		return opts
	}

	strField := func(name string, num int32) *descriptorpb.FieldDescriptorProto {
		return &descriptorpb.FieldDescriptorProto{
			Name: proto.String(name), JsonName: proto.String(name), Number: proto.Int32(num),
			Label: descriptorpb.FieldDescriptorProto_LABEL_OPTIONAL.Enum(),
			Type:  descriptorpb.FieldDescriptorProto_TYPE_STRING.Enum(),
		}
	}
	flatField := func(name string, num int32, typeName string) *descriptorpb.FieldDescriptorProto {
		return &descriptorpb.FieldDescriptorProto{
			Name: proto.String(name), JsonName: proto.String(name), Number: proto.Int32(num),
			Label:    descriptorpb.FieldDescriptorProto_LABEL_OPTIONAL.Enum(),
			Type:     descriptorpb.FieldDescriptorProto_TYPE_MESSAGE.Enum(),
			TypeName: proto.String(".seed.c18_3.v1." + typeName),
			Options:  flatten(),
		}
	}

	fdp := &descriptorpb.FileDescriptorProto{
		Name:       proto.String("seed/c18_3/v1/demo.proto"),
		Package:    proto.String("seed.c18_3.v1"),
		Syntax:     proto.String("proto3"),
		Dependency: []string{"j5/ext/v1/annotations.proto"},
		MessageType: []*descriptorpb.DescriptorProto{{
			Name:  proto.String("Top"),
			Field: []*descriptorpb.FieldDescriptorProto{strField("code", 1), flatField("middle", 2, "Middle")},
		}, {
			Name:  proto.String("Middle"),
			Field: []*descriptorpb.FieldDescriptorProto{strField("extra", 1), flatField("bottom", 2, "Bottom")},
		}, {
			Name:  proto.String("Bottom"),
			Field: []*descriptorpb.FieldDescriptorProto{strField("code", 1), strField("detail", 2)},
		}, {
			Name:  proto.String("TopClean"),
			Field: []*descriptorpb.FieldDescriptorProto{strField("name", 1), flatField("middle", 2, "Middle")},
		}},
	}

	control := &descriptorpb.FileDescriptorProto{
		Name:       proto.String("seed/c18_3/v1/control.proto"),
		Package:    proto.String("seed.c18_3.v1"),
		Syntax:     proto.String("proto3"),
		Dependency: []string{"j5/ext/v1/annotations.proto", "seed/c18_3/v1/demo.proto"},
		MessageType: []*descriptorpb.DescriptorProto{{
			Name:  proto.String("TopOne"),
			Field: []*descriptorpb.FieldDescriptorProto{strField("code", 1), flatField("bottom", 2, "Bottom")},
		}},
	}

	local := &protoregistry.Files{}
	fd, err := protodesc.NewFile(fdp, seedC18_3_resolver{local})
	if err != nil {
		t.Fatalf("descriptor does not link: %s", err)
	}
	if err := local.RegisterFile(fd); err != nil {
		t.Fatal(err)
	}
	controlFD, err := protodesc.NewFile(control, seedC18_3_resolver{local})
	if err != nil {
		t.Fatalf("control descriptor does not link: %s", err)
	}
	return fd, controlFD
}

// populate sets every string field, recursing into message fields, with a
// value unique to the field's full name.
func seedC18_3_populate(msg protoreflect.Message) {
	fields := msg.Descriptor().Fields()
	for i := 0; i < fields.Len(); i++ {
		fd := fields.Get(i)
		switch fd.Kind() {
		case protoreflect.StringKind:
			msg.Set(fd, protoreflect.ValueOfString("value of "+string(fd.FullName())))
		case protoreflect.MessageKind:
			seedC18_3_populate(msg.Mutable(fd).Message())
		}
	}
}

// checkReflected: schema building may fail; if it succeeds the client
// properties must have unique names, and a populated message must survive the
// codec.
func seedC18_3_check(t *testing.T, desc protoreflect.MessageDescriptor) {
	t.Helper()
	t.Run(string(desc.Name()), func(t *testing.T) {
		defer func() {
			if r := recover(); r != nil {
				t.Fatalf("PANIC: %v", r)
			}
		}()

		schema, err := j5schema.NewSchemaCache().Schema(desc)
		if err != nil {
			t.Logf("schema rejected (allowed): %s", err)
			return
		}

		obj, ok := schema.(*j5schema.ObjectSchema)
		if !ok {
			t.Fatalf("expected an object schema, got %T", schema)
		}
		seen := map[string]bool{}
		for _, prop := range obj.ClientProperties() {
			t.Logf("property %-8s proto path %v", prop.JSONName, prop.ProtoField)
			if seen[prop.JSONName] {
				t.Errorf("schema accepted, but property name %q is not unique within %s", prop.JSONName, schema.FullName())
			}
			seen[prop.JSONName] = true
		}

		cc := NewCodec()
		in := dynamicpb.NewMessage(desc)
		seedC18_3_populate(in)

		encoded, err := cc.ProtoToJSON(in)
		if err != nil {
			t.Fatalf("encode of a populated message failed: %s", err)
		}
		t.Logf("encoded: %s", encoded)

		out := dynamicpb.NewMessage(desc)
		if err := cc.JSONToProto(encoded, out); err != nil {
			t.Fatalf("decode of the codec's own output failed: %s", err)
		}
		if !proto.Equal(in, out) {
			t.Errorf("round trip changed the message\n  in  %s\n  out %s", in, out)
		}
	})
}

func TestSeedC18_3_NameLiftedThroughTwoFlattens(t *testing.T) {
	fd, controlFD := seedC18_3_files(t)

	seedC18_3_check(t, controlFD.Messages().ByName("TopOne"))
	for _, name := range []string{"Bottom", "Middle", "TopClean", "Top"} {
		seedC18_3_check(t, fd.Messages().ByName(protoreflect.Name(name)))
	}

	t.Run("SchemaSetFromFiles", func(t *testing.T) {
		files := &protoregistry.Files{}
		if err := files.RegisterFile(fd); err != nil {
			t.Fatal(err)
		}
		set, err := j5schema.SchemaSetFromFiles(files, func(f protoreflect.FileDescriptor) bool {
			return f.Path() == fd.Path()
		})
		if err != nil {
			t.Logf("schema set rejected (allowed): %s", err)
			return
		}
		for _, pkg := range set.Packages {
			for name, ref := range pkg.Schemas {
				obj, ok := ref.To.(*j5schema.ObjectSchema)
				if !ok {
					continue
				}
				seen := map[string]bool{}
				for _, prop := range obj.ClientProperties() {
					if seen[prop.JSONName] {
						t.Errorf("schema set accepted, but %s.%s has two properties named %q", pkg.Name, name, prop.JSONName)
					}
					seen[prop.JSONName] = true
				}
			}
		}
	})
}
