// copy to: internal/codec/
package codec

import (
	"encoding/json"
	"reflect"
	"testing"

	"github.com/pentops/j5/gen/j5/ext/v1/ext_j5pb"
	"google.golang.org/protobuf/proto"
	"google.golang.org/protobuf/reflect/protodesc"
	"google.golang.org/protobuf/reflect/protoreflect"
	"google.golang.org/protobuf/reflect/protoregistry"
	"google.golang.org/protobuf/types/descriptorpb"
	"google.golang.org/protobuf/types/dynamicpb"
)

// Two language features combined: a message with an *exposed* oneof is
// *flattened* into its parent.
//
//	message Outer {
//	  Inner  inner = 1 [(j5.ext.v1.field).message.flatten = true];
//	  string label = 2;
//	  int64  total = 3;
//	}
//	message Inner {
//	  string note = 1;
//	  oneof choice {
//	    option (j5.ext.v1.oneof).expose = true;
//	    string text   = 2;
//	    int64  number = 3;
//	  }
//	}
//
// The members of 'choice' are fields of Inner. Outer happens to use the same
// field numbers (2, 3) with the same kinds for unrelated fields.
func seedC18_2_file(t *testing.T) protoreflect.FileDescriptor {
	t.Helper()

	flatten := &descriptorpb.FieldOptions{}
	proto.SetExtension(flatten, ext_j5pb.E_Field, &ext_j5pb.FieldOptions{
		Type: &ext_j5pb.FieldOptions_Message{
			Message: &ext_j5pb.MessageFieldOptions{Flatten: true},
		},
	})

	expose := &descriptorpb.OneofOptions{}
	proto.SetExtension(expose, ext_j5pb.E_Oneof, &ext_j5pb.OneofOptions{Expose: true})

	str := descriptorpb.FieldDescriptorProto_TYPE_STRING.Enum()
	i64 := descriptorpb.FieldDescriptorProto_TYPE_INT64.Enum()
	opt := descriptorpb.FieldDescriptorProto_LABEL_OPTIONAL.Enum()

	fdp := &descriptorpb.FileDescriptorProto{
		Name:       proto.String("seed/c18_2/v1/demo.proto"),
		Package:    proto.String("seed.c18_2.v1"),
		Syntax:     proto.String("proto3"),
		Dependency: []string{"j5/ext/v1/annotations.proto"},
		MessageType: []*descriptorpb.DescriptorProto{{
			Name: proto.String("Outer"),
			Field: []*descriptorpb.FieldDescriptorProto{{
				Name: proto.String("inner"), JsonName: proto.String("inner"), Number: proto.Int32(1), Label: opt,
				Type:     descriptorpb.FieldDescriptorProto_TYPE_MESSAGE.Enum(),
				TypeName: proto.String(".seed.c18_2.v1.Inner"),
				Options:  flatten,
			}, {
				Name: proto.String("label"), JsonName: proto.String("label"), Number: proto.Int32(2), Label: opt, Type: str,
			}, {
				Name: proto.String("total"), JsonName: proto.String("total"), Number: proto.Int32(3), Label: opt, Type: i64,
			}},
		}, {
			Name: proto.String("Inner"),
			Field: []*descriptorpb.FieldDescriptorProto{{
				Name: proto.String("note"), JsonName: proto.String("note"), Number: proto.Int32(1), Label: opt, Type: str,
			}, {
				Name: proto.String("text"), JsonName: proto.String("text"), Number: proto.Int32(2), Label: opt, Type: str,
				OneofIndex: proto.Int32(0),
			}, {
				Name: proto.String("number"), JsonName: proto.String("number"), Number: proto.Int32(3), Label: opt, Type: i64,
				OneofIndex: proto.Int32(0),
			}},
			OneofDecl: []*descriptorpb.OneofDescriptorProto{{
				Name:    proto.String("choice"),
				Options: expose,
			}},
		}},
	}

	fd, err := protodesc.NewFile(fdp, protoregistry.GlobalFiles)
	if err != nil {
		t.Fatalf("descriptor does not link: %s", err)
	}
	return fd
}

func seedC18_2_roundTrip(t *testing.T, name string, msg *dynamicpb.Message, wantJSON string) {
	t.Helper()
	t.Run(name, func(t *testing.T) {
		defer func() {
			if r := recover(); r != nil {
				t.Fatalf("PANIC: %v", r)
			}
		}()

		cc := NewCodec()

		got, err := cc.ProtoToJSON(msg.ProtoReflect())
		if err != nil {
			t.Fatalf("encode of a populated message failed: %s", err)
		}
		t.Logf("encoded: %s", got)

		var gotVal, wantVal interface{}
		if err := json.Unmarshal(got, &gotVal); err != nil {
			t.Fatalf("encoder wrote invalid JSON %q: %s", got, err)
		}
		if err := json.Unmarshal([]byte(wantJSON), &wantVal); err != nil {
			t.Fatal(err)
		}
		if !reflect.DeepEqual(gotVal, wantVal) {
			t.Errorf("encoded\n  got  %s\n  want %s", got, wantJSON)
		}

		back := dynamicpb.NewMessage(msg.Descriptor())
		if err := cc.JSONToProto(got, back.ProtoReflect()); err != nil {
			t.Fatalf("decode of the codec's own output failed: %s", err)
		}
		if !proto.Equal(msg, back) {
			t.Errorf("round trip changed the message\n  in  %s\n  out %s", msg, back)
		}

		// and the expected JSON decodes to the same message
		fromWant := dynamicpb.NewMessage(msg.Descriptor())
		if err := cc.JSONToProto([]byte(wantJSON), fromWant.ProtoReflect()); err != nil {
			t.Fatalf("decode of %s failed: %s", wantJSON, err)
		}
		if !proto.Equal(msg, fromWant) {
			t.Errorf("decode of %s\n  got  %s\n  want %s", wantJSON, fromWant, msg)
		}
	})
}

func TestSeedC18_2_ExposedOneofBelowFlatten(t *testing.T) {
	fd := seedC18_2_file(t)
	outerDesc := fd.Messages().ByName("Outer")
	innerDesc := fd.Messages().ByName("Inner")

	outerField := func(n string) protoreflect.FieldDescriptor { return outerDesc.Fields().ByName(protoreflect.Name(n)) }
	innerField := func(n string) protoreflect.FieldDescriptor { return innerDesc.Fields().ByName(protoreflect.Name(n)) }

	{
		empty := dynamicpb.NewMessage(outerDesc)
		seedC18_2_roundTrip(t, "empty", empty, `{}`)
	}

	{
		// only the oneof member inside the flattened message
		inner := dynamicpb.NewMessage(innerDesc)
		inner.Set(innerField("text"), protoreflect.ValueOfString("T"))
		outer := dynamicpb.NewMessage(outerDesc)
		outer.Set(outerField("inner"), protoreflect.ValueOfMessage(inner))
		seedC18_2_roundTrip(t, "member only", outer, `{"choice":{"!type":"text","text":"T"}}`)
	}

	{
		// the oneof member, plus the parent's own field with the same number
		inner := dynamicpb.NewMessage(innerDesc)
		inner.Set(innerField("note"), protoreflect.ValueOfString("N"))
		inner.Set(innerField("number"), protoreflect.ValueOfInt64(7))
		outer := dynamicpb.NewMessage(outerDesc)
		outer.Set(outerField("inner"), protoreflect.ValueOfMessage(inner))
		outer.Set(outerField("label"), protoreflect.ValueOfString("L"))
		seedC18_2_roundTrip(t, "member and same-numbered parent field", outer,
			`{"note":"N","choice":{"!type":"number","number":"7"},"label":"L"}`)
	}

	{
		// both parent fields set: a oneof read from the wrong message sees two members
		inner := dynamicpb.NewMessage(innerDesc)
		inner.Set(innerField("text"), protoreflect.ValueOfString("T"))
		outer := dynamicpb.NewMessage(outerDesc)
		outer.Set(outerField("inner"), protoreflect.ValueOfMessage(inner))
		outer.Set(outerField("label"), protoreflect.ValueOfString("L"))
		outer.Set(outerField("total"), protoreflect.ValueOfInt64(9))
		seedC18_2_roundTrip(t, "both parent fields", outer,
			`{"choice":{"!type":"text","text":"T"},"label":"L","total":"9"}`)
	}
}
