// copy to: internal/codec/
package codec

import (
	"fmt"
	"net/url"
	"testing"

	"github.com/pentops/j5/gen/test/schema/v1/schema_testpb"
)

// C06 seed 1: URL-query decoding must return success or an error for every
// field kind, including a repeated enum addressed by a query key.
func TestSeedC06_1_QueryRepeatedEnum(t *testing.T) {
	codec := NewCodec()

	run := func(name string, query url.Values) {
		t.Run(name, func(t *testing.T) {
			defer func() {
				if r := recover(); r != nil {
					t.Fatalf("QueryToProto panicked: %v", r)
				}
			}()
			msg := &schema_testpb.FullSchema{}
			err := codec.QueryToProto(query, msg.ProtoReflect())
			t.Logf("err=%v msg=%s", err, fmt.Sprint(msg))
		})
	}

	// control: singular enum and repeated bool
	run("singular enum", url.Values{"enum": {"VALUE1"}})
	run("repeated bool", url.Values{"rBool": {"true", "false"}})

	// the shape that matters: a repeated enum in the query string
	run("repeated enum", url.Values{"rEnum": {"VALUE1", "VALUE2"}})
	run("repeated enum bad value", url.Values{"rEnum": {"NOPE"}})
}
