// copy to: internal/codec/
package codec

import (
	"testing"

	"github.com/pentops/j5/gen/test/schema/v1/schema_testpb"
)

// C06 seed 3: decoding an Any with a codec that also fills the proto encoding
// (WithProtoToAny) resolves "!type" in the type registry. Whatever the name
// resolves to -- a message, nothing, or a registered descriptor which is not a
// message (an enum, an extension) -- decoding must return success or an error.
func TestSeedC06_3_AnyTypeNameOfNonMessage(t *testing.T) {
	codec := NewCodec(WithProtoToAny())

	for _, tc := range []struct {
		name    string
		input   string
		wantErr bool
	}{
		// controls
		{"message type", `{"j5any": {"!type": "test.schema.v1.Bar", "value": {"barId": "x"}}}`, false},
		{"unknown type", `{"j5any": {"!type": "test.schema.v1.Nope", "value": {}}}`, true},
		{"empty type", `{"j5any": {"!type": "", "value": {}}}`, true},
		// the shapes that matter: the name is registered, but is not a message
		{"enum type in j5 any", `{"j5any": {"!type": "test.schema.v1.Enum", "value": {}}}`, true},
		{"enum type in pb any", `{"pbany": {"!type": "test.schema.v1.Enum", "value": {}}}`, true},
		{"extension name", `{"j5any": {"!type": "j5.ext.v1.field", "value": {}}}`, true},
	} {
		t.Run(tc.name, func(t *testing.T) {
			defer func() {
				if r := recover(); r != nil {
					t.Fatalf("JSONToProto panicked: %v", r)
				}
			}()
			msg := &schema_testpb.FullSchema{}
			err := codec.JSONToProto([]byte(tc.input), msg.ProtoReflect())
			t.Logf("err=%v", err)
			if tc.wantErr && err == nil {
				t.Fatalf("expected an error")
			}
			if !tc.wantErr && err != nil {
				t.Fatalf("unexpected error: %v", err)
			}
		})
	}
}
