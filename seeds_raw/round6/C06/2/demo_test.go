// copy to: internal/codec/
package codec

import (
	"testing"
	"time"

	"github.com/pentops/j5/gen/test/schema/v1/schema_testpb"
	"google.golang.org/protobuf/proto"
)

// C06 seed 2: the work done (and memory produced) by decoding must be bounded
// by the size of the input. A decimal written with a huge NEGATIVE power of
// ten is a ~30 byte input; it must be rejected, not expanded into tens of
// megabytes of leading fractional zeros.
func TestSeedC06_2_DecimalNegativeExponent(t *testing.T) {
	codec := NewCodec()

	for _, tc := range []struct {
		name  string
		input string
	}{
		// controls
		{"small negative exponent", `{"decimal": "1e-3"}`},
		{"huge positive exponent", `{"decimal": "1e30000000"}`},
		// the shapes that matter
		{"huge negative exponent, quoted", `{"decimal": "1e-30000000"}`},
		{"huge negative exponent, number", `{"decimal": 1e-30000000}`},
		{"huge negative exponent, second array element", `{"rDecimal": ["1.5", "25E-30000000"]}`},
	} {
		t.Run(tc.name, func(t *testing.T) {
			msg := &schema_testpb.FullSchema{}
			start := time.Now()
			err := codec.JSONToProto([]byte(tc.input), msg.ProtoReflect())
			elapsed := time.Since(start)
			size := proto.Size(msg)
			t.Logf("input %d bytes, err=%v, decoded proto %d bytes, %s", len(tc.input), err != nil, size, elapsed)
			if err != nil {
				return
			}
			// a decoded message can not legitimately be orders of magnitude
			// larger than the text it was decoded from
			if size > 1000*len(tc.input) {
				t.Fatalf("decoding %d bytes of input produced a %d byte message (%s): work is not bounded by the input size", len(tc.input), size, elapsed)
			}
		})
	}
}
