// copy to: lib/id62/
package id62

import (
	"crypto/sha1"
	"testing"
)

// reference: the first 16 bytes of sha1(namespace || inputs...)
func refHash(namespace string, inputs ...string) UUID {
	h := sha1.New()
	h.Write([]byte(namespace))
	for _, in := range inputs {
		h.Write([]byte(in))
	}
	var out UUID
	copy(out[:], h.Sum(nil))
	return out
}

// NewHash must be a pure function of (namespace, inputs): what it returns for
// one argument list must not depend on which other argument lists were hashed
// earlier in the process.
func TestDemoNewHashIsHistoryIndependent(t *testing.T) {
	type call struct {
		namespace string
		inputs    []string
	}
	for _, history := range [][]call{
		// one input containing a comma, then the same text split in two inputs
		{{"demo-a", []string{"x,y"}}, {"demo-a", []string{"x", "y"}}},
		// the other way around
		{{"demo-b", []string{"x", "y"}}, {"demo-b", []string{"x,y"}}},
		// three parts against two, later elements rather than the first
		{{"demo-c", []string{"k", "1,2", "3"}}, {"demo-c", []string{"k", "1", "2,3"}}, {"demo-c", []string{"k", "1", "2", "3"}}},
		// empty trailing input against a trailing comma
		{{"demo-d", []string{"v", ""}}, {"demo-d", []string{"v,"}}},
		// ordinary repeats for good measure
		{{"demo-e", []string{"x"}}, {"demo-e", []string{"x"}}, {"demo-e", nil}, {"demo-e", []string{}}},
	} {
		for idx, c := range history {
			want := refHash(c.namespace, c.inputs...)
			got := NewHash(c.namespace, c.inputs...)
			if got != want {
				t.Errorf("call %d: NewHash(%q, %q) = %s, want %s (differs after the earlier calls of this history)",
					idx, c.namespace, c.inputs, got, want)
			}
			// and asking again gives the same answer
			if again := NewHash(c.namespace, c.inputs...); again != want {
				t.Errorf("call %d repeated: NewHash(%q, %q) = %s, want %s", idx, c.namespace, c.inputs, again, want)
			}
		}
	}

	// distinct derived identifiers have distinct renderings
	a := NewHash("demo-f", "left,right")
	b := NewHash("demo-f", "left", "right")
	if a == b || a.String() == b.String() {
		t.Errorf("NewHash(demo-f, \"left,right\") and NewHash(demo-f, left, right) are both %s", a)
	}
}
