// copy to: lib/id62/
package id62

import (
	"math/big"
	"testing"
)

// Parse must never panic, and must reject every value that does not fit in 16
// bytes. The interesting strings are those whose value is just beyond 2^128:
// all 22-character strings above "7N42dgm5tFLK9N8MT7fHC7" (the rendering of the
// all-ones identifier) and the smallest 23-character strings.
func TestDemoParseJustAbove128Bits(t *testing.T) {
	pow := func(bits uint) *big.Int {
		return new(big.Int).Lsh(big.NewInt(1), bits)
	}
	minus1 := func(v *big.Int) *big.Int {
		return new(big.Int).Sub(v, big.NewInt(1))
	}

	maxID := UUID{0xff, 0xff, 0xff, 0xff, 0xff, 0xff, 0xff, 0xff, 0xff, 0xff, 0xff, 0xff, 0xff, 0xff, 0xff, 0xff}
	if got, err := Parse(maxID.String()); err != nil || got != maxID {
		t.Fatalf("max id does not round trip: %v %v", got, err)
	}

	for _, tc := range []struct {
		name string
		str  string
	}{
		{"2^128", pow(128).Text(62)},
		{"2^128+1", new(big.Int).Add(pow(128), big.NewInt(1)).Text(62)},
		{"22 x z", "zzzzzzzzzzzzzzzzzzzzzz"},
		{"22 x Z", "ZZZZZZZZZZZZZZZZZZZZZZ"},
		{"8 then zeros", "8000000000000000000000"},
		{"2^135-1", minus1(pow(135)).Text(62)},
		{"2^135", pow(135).Text(62)},
		{"2^136-1", minus1(pow(136)).Text(62)},
		{"2^136", pow(136).Text(62)},
		{"2^144", pow(144).Text(62)},
		{"40 x z", "zzzzzzzzzzzzzzzzzzzzzzzzzzzzzzzzzzzzzzzz"},
	} {
		t.Run(tc.name, func(t *testing.T) {
			defer func() {
				if r := recover(); r != nil {
					t.Errorf("Parse(%q) panicked: %v", tc.str, r)
				}
			}()
			got, err := Parse(tc.str)
			if err == nil {
				t.Errorf("Parse(%q) = %x, want an error: the value does not fit in 16 bytes", tc.str, got[:])
			}
		})
	}
}
