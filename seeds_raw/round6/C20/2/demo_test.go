// copy to: internal/j5s/j5convert/
package j5convert

import (
	"testing"

	"buf.build/gen/go/bufbuild/protovalidate/protocolbuffers/go/buf/validate"
	"github.com/pentops/golib/gl"
	"github.com/pentops/j5/gen/j5/schema/v1/schema_j5pb"
	"github.com/pentops/j5/gen/j5/sourcedef/v1/sourcedef_j5pb"
	"github.com/pentops/j5/lib/id62"
	"github.com/pentops/j5/lib/j5schema"
	"google.golang.org/protobuf/proto"
	"google.golang.org/protobuf/reflect/protodesc"
	"google.golang.org/protobuf/reflect/protoregistry"
)

// Every key:id62 the compiler emits must carry the published ID62 pattern as
// its validation rule, including the items of an array that also declares
// rules of its own (min / max items, unique items), and the schema reflection
// must recognise the items as key:id62 again.
func TestDemoId62ArrayItemsKeepPattern(t *testing.T) {
	id62Key := func() *schema_j5pb.Field {
		return &schema_j5pb.Field{
			Type: &schema_j5pb.Field_Key{
				Key: &schema_j5pb.KeyField{
					Format: &schema_j5pb.KeyFormat{
						Type: &schema_j5pb.KeyFormat_Id62{Id62: &schema_j5pb.KeyFormat_ID62{}},
					},
				},
			},
		}
	}
	arrayOf := func(rules *schema_j5pb.ArrayField_Rules) *schema_j5pb.Field {
		return &schema_j5pb.Field{
			Type: &schema_j5pb.Field_Array{
				Array: &schema_j5pb.ArrayField{
					Items: id62Key(),
					Rules: rules,
				},
			},
		}
	}

	props := []*schema_j5pb.ObjectProperty{
		{Name: "single", Schema: id62Key()},
		{Name: "plainArray", Schema: arrayOf(nil)},
		{Name: "minArray", Schema: arrayOf(&schema_j5pb.ArrayField_Rules{MinItems: gl.Ptr(uint64(1))})},
		{Name: "uniqueArray", Schema: arrayOf(&schema_j5pb.ArrayField_Rules{UniqueItems: gl.Ptr(true), MaxItems: gl.Ptr(uint64(10))})},
	}

	deps := &testDeps{pkg: "test.v1", types: map[string]*TypeRef{}}
	gotFiles, err := ConvertJ5File(deps, &sourcedef_j5pb.SourceFile{
		Package: &sourcedef_j5pb.Package{Name: "test.v1"},
		Path:    "test/v1/test.j5s",
		Elements: []*sourcedef_j5pb.RootElement{{
			Type: &sourcedef_j5pb.RootElement_Object{
				Object: &sourcedef_j5pb.Object{
					Def: &schema_j5pb.Object{
						Name:       "Holder",
						Properties: props,
					},
				},
			},
		}},
	})
	if err != nil {
		t.Fatalf("ConvertJ5File failed: %v", err)
	}
	file := gotFiles[0]
	file.SourceCodeInfo = nil

	msg := file.MessageType[0]
	if len(msg.Field) != len(props) {
		t.Fatalf("got %d fields, want %d", len(msg.Field), len(props))
	}

	// 1. the compiled validation rule of every id62 key is the ID62 pattern
	for _, field := range msg.Field {
		constraints, _ := proto.GetExtension(field.Options, validate.E_Field).(*validate.FieldConstraints)
		if constraints == nil {
			t.Errorf("field %s: no validation rules", field.GetName())
			continue
		}
		stringRules := constraints.GetString_()
		if rep := constraints.GetRepeated(); rep != nil {
			stringRules = rep.GetItems().GetString_()
		}
		if stringRules == nil || stringRules.Pattern == nil {
			t.Errorf("field %s: id62 key compiled without a pattern: %v", field.GetName(), constraints)
			continue
		}
		if got := stringRules.GetPattern(); got != id62.PatternString {
			t.Errorf("field %s: pattern %q, want %q", field.GetName(), got, id62.PatternString)
		}
	}

	// 2. reading the compiled descriptor back gives key:id62 for all of them
	fileDesc, err := protodesc.NewFile(file, protoregistry.GlobalFiles)
	if err != nil {
		t.Fatalf("building descriptor: %v", err)
	}
	root, err := j5schema.NewSchemaCache().Schema(fileDesc.Messages().Get(0))
	if err != nil {
		t.Fatalf("reflecting schema: %v", err)
	}
	obj, ok := root.(*j5schema.ObjectSchema)
	if !ok {
		t.Fatalf("root schema is %T", root)
	}
	for _, prop := range obj.Properties {
		field := prop.Schema.ToJ5Field()
		item := field
		if arr := field.GetArray(); arr != nil {
			item = arr.Items
		}
		if item.GetKey().GetFormat().GetId62() == nil {
			t.Errorf("property %s: read back as %s, want key:id62", prop.JSONName, item)
		}
	}
}
