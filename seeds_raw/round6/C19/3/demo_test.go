// copy to: internal/bcl/internal/parser/
package parser

import (
	"strings"
	"testing"
)

// demoApplyFmtDiffs3 checks that the edits from FmtDiffs are well formed
// (ascending, not overlapping, start <= end <= number of lines) and that
// applying them to the input gives the output of Fmt up to trailing blank
// lines.
func demoApplyFmtDiffs3(t *testing.T, input string) {
	t.Helper()
	want, err := Fmt(input)
	if err != nil {
		t.Fatalf("input is not accepted by Fmt: %v", err)
	}
	diffs, err := FmtDiffs(input)
	if err != nil {
		t.Fatalf("FmtDiffs: %v", err)
	}
	lines := strings.Split(input, "\n")
	last := 0
	for i, d := range diffs {
		if d.FromLine < last || d.FromLine > d.ToLine || d.ToLine > len(lines) {
			t.Fatalf("edit %d is malformed: %+v (previous end %d, %d lines)", i, d, last, len(lines))
		}
		last = d.ToLine
	}
	for i := len(diffs) - 1; i >= 0; i-- {
		d := diffs[i]
		var repl []string
		if d.NewText != "" {
			repl = strings.Split(strings.TrimSuffix(d.NewText, "\n"), "\n")
		}
		next := append([]string{}, lines[:d.FromLine]...)
		next = append(next, repl...)
		next = append(next, lines[d.ToLine:]...)
		lines = next
	}
	got := strings.TrimRight(strings.Join(lines, "\n"), "\n")
	if got != strings.TrimRight(want, "\n") {
		t.Fatalf("applied edits differ from Fmt\ninput %q\ngot   %q\nwant  %q\nedits %+v", input, got, want, diffs)
	}
}

func TestDemoC19Seed3(t *testing.T) {
	for _, input := range []string{
		// controls: LF input, and CRLF input whose lines all need reformatting
		"a = 1\n\nb = 2\n",
		"a=1\r\nb=2\r\n",
		// CRLF input whose lines are otherwise already in canonical form
		"a = 1\r\nb = 2\r\n",
		"block foo {\r\n\tkey = \"v\"\r\n}\r\n",
		// mixed: only the line that needs no other change keeps its CR
		"a=1\r\nb = 2\r\nc=3\r\n",
		// a one line gap that holds only a CR
		"a = 1\n\r\nb = 2\n",
	} {
		t.Run("", func(t *testing.T) { demoApplyFmtDiffs3(t, input) })
	}
}
