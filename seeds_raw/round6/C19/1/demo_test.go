// copy to: internal/bcl/internal/parser/
package parser

import (
	"strings"
	"testing"
)

// demoApplyFmtDiffs1 checks that the edits from FmtDiffs are well formed
// (ascending, not overlapping, start <= end <= number of lines) and that
// applying them to the input gives the output of Fmt up to trailing blank
// lines.
func demoApplyFmtDiffs1(t *testing.T, input string) {
	t.Helper()
	want, err := Fmt(input)
	if err != nil {
		t.Fatalf("input is not accepted by Fmt: %v", err)
	}
	diffs, err := FmtDiffs(input)
	if err != nil {
		t.Fatalf("FmtDiffs: %v", err)
	}
	lines := strings.Split(input, "\n")
	last := 0
	for i, d := range diffs {
		if d.FromLine < last || d.FromLine > d.ToLine || d.ToLine > len(lines) {
			t.Fatalf("edit %d is malformed: %+v (previous end %d, %d lines)", i, d, last, len(lines))
		}
		last = d.ToLine
	}
	for i := len(diffs) - 1; i >= 0; i-- {
		d := diffs[i]
		var repl []string
		if d.NewText != "" {
			repl = strings.Split(strings.TrimSuffix(d.NewText, "\n"), "\n")
		}
		next := append([]string{}, lines[:d.FromLine]...)
		next = append(next, repl...)
		next = append(next, lines[d.ToLine:]...)
		lines = next
	}
	got := strings.TrimRight(strings.Join(lines, "\n"), "\n")
	if got != strings.TrimRight(want, "\n") {
		t.Fatalf("applied edits differ from Fmt\ninput %q\ngot   %q\nwant  %q\nedits %+v", input, got, want, diffs)
	}
}

func TestDemoC19Seed1(t *testing.T) {
	for _, input := range []string{
		// controls: shared lines where the second fragment is on one line
		"a {\n} }\n",
		"/* c */ a = 1\nb = 2\n",
		// a block comment followed, on the same line, by an assignment whose
		// string value continues on the next line
		"/* c */ a = \"x\\\ny\"\nb = 1\n",
		// a closing brace followed by a description that continues below
		"block a {\n} | d\n| e\nx = 1\n",
		// same at the end of the file, the second description line is left behind
		"block a {\n} | one\n| two\n",
	} {
		t.Run("", func(t *testing.T) { demoApplyFmtDiffs1(t, input) })
	}
}
