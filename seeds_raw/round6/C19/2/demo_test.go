// copy to: internal/bcl/internal/parser/
package parser

import (
	"strings"
	"testing"
)

// demoApplyFmtDiffs2 checks that the edits from FmtDiffs are well formed
// (ascending, not overlapping, start <= end <= number of lines) and that
// applying them to the input gives the output of Fmt up to trailing blank
// lines.
func demoApplyFmtDiffs2(t *testing.T, input string) {
	t.Helper()
	want, err := Fmt(input)
	if err != nil {
		t.Fatalf("input is not accepted by Fmt: %v", err)
	}
	diffs, err := FmtDiffs(input)
	if err != nil {
		t.Fatalf("FmtDiffs: %v", err)
	}
	lines := strings.Split(input, "\n")
	last := 0
	for i, d := range diffs {
		if d.FromLine < last || d.FromLine > d.ToLine || d.ToLine > len(lines) {
			t.Fatalf("edit %d is malformed: %+v (previous end %d, %d lines)", i, d, last, len(lines))
		}
		last = d.ToLine
	}
	for i := len(diffs) - 1; i >= 0; i-- {
		d := diffs[i]
		var repl []string
		if d.NewText != "" {
			repl = strings.Split(strings.TrimSuffix(d.NewText, "\n"), "\n")
		}
		next := append([]string{}, lines[:d.FromLine]...)
		next = append(next, repl...)
		next = append(next, lines[d.ToLine:]...)
		lines = next
	}
	got := strings.TrimRight(strings.Join(lines, "\n"), "\n")
	if got != strings.TrimRight(want, "\n") {
		t.Fatalf("applied edits differ from Fmt\ninput %q\ngot   %q\nwant  %q\nedits %+v", input, got, want, diffs)
	}
}

func TestDemoC19Seed2(t *testing.T) {
	for _, input := range []string{
		// controls: a string with an escaped newline as a plain value, and an
		// array of one-line values
		"a = \"x\\\ny\"\n",
		"a = [\"x\", \"y\"]\n",
		// an array holding a string that continues on the next line, as the last
		// statement of the file
		"a = [\"x\\\ny\"]\n",
		"a = 1\nb += [\"p\", \"q\\\nr\"] // c\n",
		// ... and not yet formatted
		"a=[ \"x\\\ny\" ,\"z\" ]",
	} {
		t.Run("", func(t *testing.T) { demoApplyFmtDiffs2(t, input) })
	}
}
