// copy to: internal/bcl/internal/parser/
package parser

import (
	"fmt"
	"strings"
	"testing"
)

// Position-free rendering of a parsed document, used to compare the meaning of
// a source text with the meaning of its formatted form.

func seed2DumpValue(v Value) string {
	if v.array != nil {
		parts := make([]string, 0, len(v.array))
		for _, e := range v.array {
			parts = append(parts, seed2DumpValue(e))
		}
		return "[" + strings.Join(parts, ",") + "]"
	}
	return fmt.Sprintf("%s(%q)", v.token.Type, v.token.Lit)
}

func seed2DumpTag(t TagValue) string {
	out := fmt.Sprintf("mark=%d ", t.Mark)
	if t.Value != nil {
		out += "val=" + seed2DumpValue(*t.Value)
	}
	if t.Reference != nil {
		out += "ref=" + t.Reference.String()
	}
	return out
}

func seed2DumpDescription(s string) string {
	paras := []string{}
	cur := []string{}
	for _, line := range strings.Split(s, "\n") {
		words := strings.Fields(line)
		if len(words) == 0 {
			if len(cur) > 0 {
				paras = append(paras, strings.Join(cur, " "))
				cur = []string{}
			}
			continue
		}
		cur = append(cur, words...)
	}
	if len(cur) > 0 {
		paras = append(paras, strings.Join(cur, " "))
	}
	return strings.Join(paras, " <P> ")
}

func seed2DumpBody(sb *strings.Builder, body Body, depth int) {
	ind := strings.Repeat("  ", depth)
	for _, stmt := range body.Statements {
		switch s := stmt.(type) {
		case *Block:
			fmt.Fprintf(sb, "%sblock %s open=%v\n", ind, s.Type.String(), s.Open)
			for _, t := range s.Tags {
				fmt.Fprintf(sb, "%s  tag %s\n", ind, seed2DumpTag(t))
			}
			for _, t := range s.Qualifiers {
				fmt.Fprintf(sb, "%s  qualifier %s\n", ind, seed2DumpTag(t))
			}
			if s.Description != nil {
				fmt.Fprintf(sb, "%s  description %s\n", ind, seed2DumpDescription(s.Description.Value))
			}
			seed2DumpBody(sb, s.Body, depth+1)
		case *Assignment:
			fmt.Fprintf(sb, "%sassign %s append=%v %s\n", ind, s.Key.String(), s.Append, seed2DumpValue(s.Value))
		case *Description:
			fmt.Fprintf(sb, "%sdescription %s\n", ind, seed2DumpDescription(s.Value))
		default:
			fmt.Fprintf(sb, "%s%T\n", ind, stmt)
		}
	}
}

func seed2Tree(t *testing.T, what, src string) string {
	t.Helper()
	file, err := ParseFile(src, true)
	if err != nil {
		t.Fatalf("%s is not accepted by the parser: %v\n--- source ---\n%s", what, err, src)
	}
	sb := &strings.Builder{}
	seed2DumpBody(sb, file.Body, 0)
	return sb.String()
}

func TestSeed2FmtKeepsMarks(t *testing.T) {
	inputs := map[string]string{
		"marks on tags":           "field foo ! bar ? baz.qux:object:a.b.C\n",
		"plain qualifiers":        "field foo:object:a.b.C | description\nblock a \"str\":\"q 1\":q2 {\n}\n",
		"bang on qualifier":       "field foo:!object\n",
		"question on qualifier":   "field foo : ? object.v1.Foo | described\n",
		"mark on second qualifer": "field foo ! bar:array:!object:a.b.C {\n\trequired = true\n}\n",
		"mark on string qualifer": "field foo:! \"a string\"\n",
	}

	for name, input := range inputs {
		t.Run(name, func(t *testing.T) {
			before := seed2Tree(t, "input", input)

			formatted, err := Fmt(input)
			if err != nil {
				t.Fatalf("Fmt: %v", err)
			}
			after := seed2Tree(t, "formatter output", formatted)
			if before != after {
				t.Errorf("formatting changed the document\n--- before ---\n%s--- after ---\n%s--- formatted ---\n%s", before, after, formatted)
			}

			again, err := Fmt(formatted)
			if err != nil {
				t.Fatalf("Fmt of formatter output: %v", err)
			}
			if again != formatted {
				t.Errorf("not idempotent\n--- first ---\n%s--- second ---\n%s", formatted, again)
			}
		})
	}
}
