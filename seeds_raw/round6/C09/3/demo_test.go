// copy to: internal/bcl/internal/parser/
package parser

import (
	"fmt"
	"strings"
	"testing"
)

// Position-free rendering of a parsed document, used to compare the meaning of
// a source text with the meaning of its formatted form.

func seed3DumpValue(v Value) string {
	if v.array != nil {
		parts := make([]string, 0, len(v.array))
		for _, e := range v.array {
			parts = append(parts, seed3DumpValue(e))
		}
		return "[" + strings.Join(parts, ",") + "]"
	}
	return fmt.Sprintf("%s(%q)", v.token.Type, v.token.Lit)
}

func seed3DumpTag(t TagValue) string {
	out := fmt.Sprintf("mark=%d ", t.Mark)
	if t.Value != nil {
		out += "val=" + seed3DumpValue(*t.Value)
	}
	if t.Reference != nil {
		out += "ref=" + t.Reference.String()
	}
	return out
}

func seed3DumpDescription(s string) string {
	paras := []string{}
	cur := []string{}
	for _, line := range strings.Split(s, "\n") {
		words := strings.Fields(line)
		if len(words) == 0 {
			if len(cur) > 0 {
				paras = append(paras, strings.Join(cur, " "))
				cur = []string{}
			}
			continue
		}
		cur = append(cur, words...)
	}
	if len(cur) > 0 {
		paras = append(paras, strings.Join(cur, " "))
	}
	return strings.Join(paras, " <P> ")
}

func seed3DumpBody(sb *strings.Builder, body Body, depth int) {
	ind := strings.Repeat("  ", depth)
	for _, stmt := range body.Statements {
		switch s := stmt.(type) {
		case *Block:
			fmt.Fprintf(sb, "%sblock %s open=%v\n", ind, s.Type.String(), s.Open)
			for _, t := range s.Tags {
				fmt.Fprintf(sb, "%s  tag %s\n", ind, seed3DumpTag(t))
			}
			for _, t := range s.Qualifiers {
				fmt.Fprintf(sb, "%s  qualifier %s\n", ind, seed3DumpTag(t))
			}
			if s.Description != nil {
				fmt.Fprintf(sb, "%s  description %s\n", ind, seed3DumpDescription(s.Description.Value))
			}
			seed3DumpBody(sb, s.Body, depth+1)
		case *Assignment:
			fmt.Fprintf(sb, "%sassign %s append=%v %s\n", ind, s.Key.String(), s.Append, seed3DumpValue(s.Value))
		case *Description:
			fmt.Fprintf(sb, "%sdescription %s\n", ind, seed3DumpDescription(s.Value))
		default:
			fmt.Fprintf(sb, "%s%T\n", ind, stmt)
		}
	}
}

func seed3Tree(t *testing.T, what, src string) string {
	t.Helper()
	file, err := ParseFile(src, true)
	if err != nil {
		t.Fatalf("%s is not accepted by the parser: %v\n--- source ---\n%s", what, err, src)
	}
	sb := &strings.Builder{}
	seed3DumpBody(sb, file.Body, 0)
	return sb.String()
}

func TestSeed3FmtKeepsDescriptionWords(t *testing.T) {
	longURL := "https://example.com/" + strings.Repeat("very/long/path/", 5) + "index.html"
	if len(longURL) <= 80 {
		t.Fatalf("test setup: url is only %d long", len(longURL))
	}
	// 70 bytes: wider than the 68 columns available three blocks deep, but
	// narrower than the 80 available at the top level
	mediumWord := strings.Repeat("abcdefghij", 7)

	inputs := map[string]string{
		"short words": "| one two three\n| four\n|\n| five\n",
		"long word first in paragraph": strings.Join([]string{
			"| " + longURL + " has the details",
			"|",
			"| " + longURL,
			"",
		}, "\n"),
		"long word after text": strings.Join([]string{
			"object Foo {",
			"\t| The full specification is published at " + longURL + " and must be followed.",
			"}",
			"",
		}, "\n"),
		"long word on its own source line": strings.Join([]string{
			"| See also:",
			"| " + longURL,
			"| for background.",
			"",
		}, "\n"),
		"word too long only when nested": strings.Join([]string{
			"| token " + mediumWord + " end",
			"a {",
			"\tb {",
			"\t\tc {",
			"\t\t\t| token " + mediumWord + " end",
			"\t\t}",
			"\t}",
			"}",
			"",
		}, "\n"),
	}

	for name, input := range inputs {
		t.Run(name, func(t *testing.T) {
			before := seed3Tree(t, "input", input)

			formatted, err := Fmt(input)
			if err != nil {
				t.Fatalf("Fmt: %v", err)
			}
			after := seed3Tree(t, "formatter output", formatted)
			if before != after {
				t.Errorf("formatting changed the document\n--- before ---\n%s--- after ---\n%s--- formatted ---\n%s", before, after, formatted)
			}

			again, err := Fmt(formatted)
			if err != nil {
				t.Fatalf("Fmt of formatter output: %v", err)
			}
			if again != formatted {
				t.Errorf("not idempotent\n--- first ---\n%s--- second ---\n%s", formatted, again)
			}
		})
	}
}
