// copy to: internal/codec/
package codec

import (
	"net/url"
	"testing"

	"github.com/pentops/flowtest/prototest"
	"google.golang.org/protobuf/proto"
	"google.golang.org/protobuf/types/dynamicpb"

	"github.com/pentops/j5/gen/test/schema/v1/schema_testpb"
)

// Quoted and bare numbers are alternate spellings of the same value: a number
// that is out of range for the target field must be rejected in both.
func TestSeedC03QuotedUint32OutOfRange(t *testing.T) {
	codec := NewCodec()

	// sanity: the boundary value is accepted in both spellings and in a query
	want := &schema_testpb.FullSchema{SUint32: 4294967295}
	for _, input := range []string{
		`{"sUint32": 4294967295}`,
		`{"sUint32": "4294967295"}`,
	} {
		msg := &schema_testpb.FullSchema{}
		if err := codec.JSONToProto([]byte(input), msg.ProtoReflect()); err != nil {
			t.Fatalf("valid input %s rejected: %s", input, err)
		}
		if !proto.Equal(want, msg) {
			t.Fatalf("input %s: got %v want %v", input, msg, want)
		}
	}
	{
		msg := &schema_testpb.FullSchema{}
		if err := codec.QueryToProto(url.Values{"sUint32": {"4294967295"}}, msg.ProtoReflect()); err != nil {
			t.Fatalf("valid query rejected: %s", err)
		}
		if !proto.Equal(want, msg) {
			t.Fatalf("query: got %v want %v", msg, want)
		}
	}

	for name, input := range map[string]string{
		"bare, max+1":       `{"sUint32": 4294967296}`,
		"quoted, max+1":     `{"sUint32": "4294967296"}`,
		"bare, 2^32+1":      `{"sUint32": 4294967297}`,
		"quoted, 2^32+1":    `{"sUint32": "4294967297"}`,
		"quoted, max int64": `{"sUint32": "9223372036854775807"}`,
		"quoted, negative":  `{"sUint32": "-1"}`,
	} {
		t.Run(name, func(t *testing.T) {
			msg := &schema_testpb.FullSchema{}
			err := codec.JSONToProto([]byte(input), msg.ProtoReflect())
			if err == nil {
				t.Fatalf("out of range value accepted: %s decoded to %q", input, msg.String())
			}
		})
	}

	t.Run("query", func(t *testing.T) {
		msg := &schema_testpb.FullSchema{}
		err := codec.QueryToProto(url.Values{"sUint32": {"4294967297"}}, msg.ProtoReflect())
		if err == nil {
			t.Fatalf("out of range query value accepted: sUint32=4294967297 decoded to %q", msg.String())
		}
	})

	t.Run("array element and map value", func(t *testing.T) {
		desc := prototest.SingleMessage(t,
			"repeated uint32 r = 1;",
			"map<string, uint32> m = 2;",
		)
		for _, input := range []string{
			`{"r": [1, "4294967298"]}`,
			`{"m": {"a": "4294967298"}}`,
		} {
			msg := dynamicpb.NewMessage(desc)
			if err := codec.JSONToProto([]byte(input), msg); err == nil {
				t.Errorf("out of range value accepted: %s decoded to %v", input, msg)
			}
		}
	})
}
