// copy to: internal/codec/
package codec

import (
	"testing"

	"github.com/pentops/flowtest/prototest"
	"google.golang.org/protobuf/proto"
	"google.golang.org/protobuf/reflect/protoreflect"
	"google.golang.org/protobuf/types/dynamicpb"
)

// An enum where the short name of a later option begins with the enum prefix
// and the remainder is the short name of an earlier option:
//
//	LEVEL_UNSPECIFIED -> UNSPECIFIED
//	LEVEL_HIGH        -> HIGH
//	LEVEL_LEVEL_HIGH  -> LEVEL_HIGH   (canonical JSON spelling "LEVEL_HIGH")
//
// The canonical spelling of option 2 must decode back to option 2.
func TestSeedC03EnumShortNameBeginsWithPrefix(t *testing.T) {
	rs := prototest.DescriptorsFromSource(t, map[string]string{
		"seedc03/v1/level.proto": `
		syntax = "proto3";
		package seedc03.v1;

		enum Level {
			LEVEL_UNSPECIFIED = 0;
			LEVEL_HIGH = 1;
			LEVEL_LEVEL_HIGH = 2;
		}

		message Reading {
			Level level = 1;
			repeated Level levels = 2;
			map<string, Level> by_key = 3;
		}
		`,
	})
	desc := rs.MessageByName(t, "seedc03.v1.Reading")
	levelField := desc.Fields().ByName("level")
	levelsField := desc.Fields().ByName("levels")
	byKeyField := desc.Fields().ByName("by_key")

	codec := NewCodec()

	// canonical encoding of every option, in every position, decodes to the same message
	for number := protoreflect.EnumNumber(0); number <= 2; number++ {
		msgIn := dynamicpb.NewMessage(desc)
		msgIn.Set(levelField, protoreflect.ValueOfEnum(number))
		msgIn.Mutable(levelsField).List().Append(protoreflect.ValueOfEnum(1))
		msgIn.Mutable(levelsField).List().Append(protoreflect.ValueOfEnum(number))
		msgIn.Mutable(byKeyField).Map().Set(protoreflect.ValueOfString("k").MapKey(), protoreflect.ValueOfEnum(number))

		asJSON, err := codec.ProtoToJSON(msgIn)
		if err != nil {
			t.Fatal(err)
		}
		t.Logf("option %d encodes as %s", number, asJSON)

		msgOut := dynamicpb.NewMessage(desc)
		if err := codec.JSONToProto(asJSON, msgOut); err != nil {
			t.Fatalf("decoding canonical %s: %s", asJSON, err)
		}
		if !proto.Equal(msgIn, msgOut) {
			t.Errorf("option %d: canonical JSON %s decoded to a different message\n got  %v\n want %v", number, asJSON, msgOut, msgIn)
		}
	}

	// explicit spellings
	for input, want := range map[string]protoreflect.EnumNumber{
		`{"level": "HIGH"}`:             1,
		`{"level": "LEVEL_HIGH"}`:       2, // exact short name of option 2
		`{"level": "LEVEL_LEVEL_HIGH"}`: 2, // full proto name of option 2
	} {
		msgOut := dynamicpb.NewMessage(desc)
		if err := codec.JSONToProto([]byte(input), msgOut); err != nil {
			t.Fatalf("decoding %s: %s", input, err)
		}
		if got := msgOut.Get(levelField).Enum(); got != want {
			t.Errorf("%s decoded to enum number %d, want %d", input, got, want)
		}
	}

	// query parameters take the same route
	msgOut := dynamicpb.NewMessage(desc)
	if err := codec.QueryToProto(map[string][]string{"level": {"LEVEL_HIGH"}}, msgOut); err != nil {
		t.Fatal(err)
	}
	if got := msgOut.Get(levelField).Enum(); got != 2 {
		t.Errorf("query level=LEVEL_HIGH decoded to enum number %d, want 2", got)
	}
}
