// copy to: internal/codec/
package codec

import (
	"testing"

	"google.golang.org/protobuf/proto"

	"github.com/pentops/j5/gen/test/schema/v1/schema_testpb"
)

// A "!type" member that contradicts the key present in a oneof must be
// rejected wherever it sits in the object: JSON members are unordered.
func TestSeedC03OneofTypeAfterKey(t *testing.T) {
	codec := NewCodec()

	// sanity: a matching "!type" is accepted before and after the key, and
	// both orders give the same message
	want := &schema_testpb.FullSchema{
		WrappedOneof: &schema_testpb.WrappedOneof{
			Type: &schema_testpb.WrappedOneof_WOneofString{WOneofString: "x"},
		},
	}
	for _, input := range []string{
		`{"wrappedOneof": {"!type": "wOneofString", "wOneofString": "x"}}`,
		`{"wrappedOneof": {"wOneofString": "x", "!type": "wOneofString"}}`,
	} {
		msg := &schema_testpb.FullSchema{}
		if err := codec.JSONToProto([]byte(input), msg.ProtoReflect()); err != nil {
			t.Fatalf("valid input %s rejected: %s", input, err)
		}
		if !proto.Equal(want, msg) {
			t.Fatalf("input %s: got %v want %v", input, msg, want)
		}
	}

	for name, input := range map[string]string{
		"type first, property":      `{"wrappedOneof": {"!type": "wOneofFloat", "wOneofString": "x"}}`,
		"type last, property":       `{"wrappedOneof": {"wOneofString": "x", "!type": "wOneofFloat"}}`,
		"type last, array element":  `{"wrappedOneofs": [{"wOneofString": "ok"}, {"wOneofString": "x", "!type": "wOneofFloat"}]}`,
		"type last, exposed nested": `{"nestedExposedOneof": {"type": {"de1": "v", "!type": "de2"}}}`,
		"type last, unknown type":   `{"wrappedOneof": {"wOneofString": "x", "!type": "noSuchArm"}}`,
	} {
		t.Run(name, func(t *testing.T) {
			msg := &schema_testpb.FullSchema{}
			err := codec.JSONToProto([]byte(input), msg.ProtoReflect())
			if err == nil {
				t.Fatalf("contradicting !type accepted: %s decoded to %v", input, msg)
			}
			t.Logf("rejected: %s", err)
		})
	}

	t.Run("root oneof", func(t *testing.T) {
		msg := &schema_testpb.WrappedOneof{}
		err := codec.JSONToProto([]byte(`{"wOneofString": "x", "!type": "wOneofBar"}`), msg.ProtoReflect())
		if err == nil {
			t.Fatalf("contradicting !type accepted at root: %v", msg)
		}
	})
}
