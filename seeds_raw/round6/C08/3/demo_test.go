// copy to: internal/codec/
package codec

import (
	"encoding/json"
	"reflect"
	"testing"

	"github.com/pentops/flowtest/prototest"
	_ "github.com/pentops/j5/gen/j5/ext/v1/ext_j5pb"
	"google.golang.org/protobuf/reflect/protoreflect"
	"google.golang.org/protobuf/types/dynamicpb"
)

// Flattened objects are inlined into their parent. That holds at every depth:
// when a flattened object itself has a flattened member, the members of both
// appear directly in the outermost (non-flattened) object.
func TestSeedNestedFlatten(t *testing.T) {
	rs := prototest.DescriptorsFromSource(t, map[string]string{
		"seed/v1/seed.proto": `
		syntax = "proto3";
		package seed.v1;
		import "j5/ext/v1/annotations.proto";

		message Outer {
			string outer_field = 1;
			Middle middle = 2 [(j5.ext.v1.field).message.flatten = true];
			Inner plain = 3;
		}

		message Middle {
			string middle_field = 1;
			Inner inner = 2 [(j5.ext.v1.field).message.flatten = true];
		}

		message Inner {
			string inner_field = 1;
			int64 inner_count = 2;
		}
		`,
	})

	outerDesc := rs.MessageByName(t, "seed.v1.Outer")
	middleDesc := rs.MessageByName(t, "seed.v1.Middle")
	innerDesc := rs.MessageByName(t, "seed.v1.Inner")

	field := func(md protoreflect.MessageDescriptor, name string) protoreflect.FieldDescriptor {
		fd := md.Fields().ByName(protoreflect.Name(name))
		if fd == nil {
			t.Fatalf("no field %s in %s", name, md.FullName())
		}
		return fd
	}

	newInner := func(s string, n int64) *dynamicpb.Message {
		inner := dynamicpb.NewMessage(innerDesc)
		inner.Set(field(innerDesc, "inner_field"), protoreflect.ValueOfString(s))
		inner.Set(field(innerDesc, "inner_count"), protoreflect.ValueOfInt64(n))
		return inner
	}

	codec := NewCodec()

	t.Run("single level", func(t *testing.T) {
		// sanity: one level of flattening
		middle := dynamicpb.NewMessage(middleDesc)
		middle.Set(field(middleDesc, "middle_field"), protoreflect.ValueOfString("M"))
		middle.Set(field(middleDesc, "inner"), protoreflect.ValueOfMessage(newInner("I", 7)))

		out, err := codec.ProtoToJSON(middle)
		if err != nil {
			t.Fatalf("ProtoToJSON: %s", err)
		}
		assertJSONObject(t, out, map[string]any{
			"middleField": "M",
			"innerField":  "I",
			"innerCount":  "7",
		})
	})

	t.Run("two levels", func(t *testing.T) {
		middle := dynamicpb.NewMessage(middleDesc)
		middle.Set(field(middleDesc, "middle_field"), protoreflect.ValueOfString("M"))
		middle.Set(field(middleDesc, "inner"), protoreflect.ValueOfMessage(newInner("I", 7)))

		outer := dynamicpb.NewMessage(outerDesc)
		outer.Set(field(outerDesc, "outer_field"), protoreflect.ValueOfString("O"))
		outer.Set(field(outerDesc, "middle"), protoreflect.ValueOfMessage(middle))
		outer.Set(field(outerDesc, "plain"), protoreflect.ValueOfMessage(newInner("P", 8)))

		out, err := codec.ProtoToJSON(outer)
		if err != nil {
			t.Fatalf("ProtoToJSON: %s", err)
		}
		assertJSONObject(t, out, map[string]any{
			"outerField":  "O",
			"middleField": "M",
			"innerField":  "I",
			"innerCount":  "7",
			"plain": map[string]any{
				"innerField": "P",
				"innerCount": "8",
			},
		})
	})
}

func assertJSONObject(t *testing.T, gotJSON []byte, want map[string]any) {
	t.Helper()
	t.Logf("output: %s", gotJSON)
	got := map[string]any{}
	if err := json.Unmarshal(gotJSON, &got); err != nil {
		t.Fatalf("output is not a valid JSON object: %s", err)
	}
	if !reflect.DeepEqual(got, want) {
		t.Fatalf("wrong document\n got: %s\nwant: %#v", gotJSON, want)
	}
}
