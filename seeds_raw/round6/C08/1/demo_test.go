// copy to: internal/codec/
package codec

import (
	"encoding/json"
	"testing"

	"github.com/pentops/j5/gen/test/schema/v1/schema_testpb"
)

// Map keys are arbitrary user strings. The encoder must emit them as properly
// escaped JSON strings, so that the document is well formed and the key is
// read back unchanged by any JSON parser.
func TestSeedMapKeyEscaping(t *testing.T) {
	codec := NewCodec()

	for _, key := range []string{
		`plain`,
		`say "hi"`,
		`back\slash`,
		"line\nbreak",
		"tab\tkey",
		"nul\x00key",
	} {
		t.Run(key, func(t *testing.T) {
			msg := &schema_testpb.FullSchema{
				MapStringString: map[string]string{
					key: "v",
				},
				MapStringBar: map[string]*schema_testpb.Bar{
					key: {BarId: "id"},
				},
			}

			out, err := codec.ProtoToJSON(msg.ProtoReflect())
			if err != nil {
				t.Fatalf("ProtoToJSON: %s", err)
			}
			t.Logf("output: %s", out)

			if !json.Valid(out) {
				t.Fatalf("output is not well-formed JSON: %s", out)
			}

			got := struct {
				MapStringString map[string]string            `json:"mapStringString"`
				MapStringBar    map[string]map[string]string `json:"mapStringBar"`
			}{}
			if err := json.Unmarshal(out, &got); err != nil {
				t.Fatalf("unmarshal: %s", err)
			}

			if len(got.MapStringString) != 1 || got.MapStringString[key] != "v" {
				t.Errorf("mapStringString: key %q was not preserved, got %#v", key, got.MapStringString)
			}
			if len(got.MapStringBar) != 1 || got.MapStringBar[key]["barId"] != "id" {
				t.Errorf("mapStringBar: key %q was not preserved, got %#v", key, got.MapStringBar)
			}
		})
	}
}
