// copy to: internal/codec/
package codec

import (
	"encoding/json"
	"testing"
	"time"

	"github.com/pentops/j5/gen/test/schema/v1/schema_testpb"
	"google.golang.org/protobuf/types/known/timestamppb"
)

// Timestamps are emitted as RFC3339 in UTC, for the whole range of
// google.protobuf.Timestamp (0001-01-01T00:00:00Z to 9999-12-31T23:59:59.999999999Z).
func TestSeedTimestampRange(t *testing.T) {
	codec := NewCodec()

	for _, tc := range []struct {
		name    string
		seconds int64
		nanos   int32
		want    string
	}{
		{name: "epoch", seconds: 0, want: "1970-01-01T00:00:00Z"},
		{name: "recent", seconds: 1577836800, nanos: 5000, want: "2020-01-01T00:00:00.000005Z"},
		{name: "before epoch", seconds: -1, nanos: 500000000, want: "1969-12-31T23:59:59.5Z"},
		{name: "year 2262", seconds: 9214646400, want: "2262-01-01T00:00:00Z"},
		{name: "year 2263", seconds: 9246182400, want: "2263-01-01T00:00:00Z"},
		{name: "year 1600", seconds: -11676096000, want: "1600-01-01T00:00:00Z"},
		{name: "max", seconds: 253402300799, nanos: 999999999, want: "9999-12-31T23:59:59.999999999Z"},
		{name: "min", seconds: -62135596800, want: "0001-01-01T00:00:00Z"},
	} {
		t.Run(tc.name, func(t *testing.T) {
			ts := &timestamppb.Timestamp{Seconds: tc.seconds, Nanos: tc.nanos}
			if err := ts.CheckValid(); err != nil {
				t.Fatalf("bad test case: %s", err)
			}
			// cross check the expectation with the standard library
			if std := ts.AsTime().UTC().Format(time.RFC3339Nano); std != tc.want {
				t.Fatalf("bad test case: stdlib says %s, case says %s", std, tc.want)
			}

			msg := &schema_testpb.FullSchema{
				Ts:  ts,
				RTs: []*timestamppb.Timestamp{ts},
			}

			out, err := codec.ProtoToJSON(msg.ProtoReflect())
			if err != nil {
				t.Fatalf("ProtoToJSON: %s", err)
			}
			t.Logf("output: %s", out)

			got := struct {
				Ts  string   `json:"ts"`
				RTs []string `json:"rTs"`
			}{}
			if err := json.Unmarshal(out, &got); err != nil {
				t.Fatalf("output is not valid JSON: %s", err)
			}

			if got.Ts != tc.want {
				t.Errorf("ts: got %q, want %q", got.Ts, tc.want)
			}
			if len(got.RTs) != 1 || got.RTs[0] != tc.want {
				t.Errorf("rTs: got %q, want [%q]", got.RTs, tc.want)
			}
		})
	}
}
