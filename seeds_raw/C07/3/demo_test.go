// copy to: internal/j5s/protobuild/
package protobuild

import (
	"context"
	"fmt"
	"strings"
	"testing"
)

func seedC07_3_compile(body ...string) (err error) {
	defer func() {
		if r := recover(); r != nil {
			err = fmt.Errorf("PANIC: %v", r)
		}
	}()
	tf := newTestFiles()
	tf.tAddJ5SFile("local/v1/foo.j5s", body...)
	cc, err := NewPackageSet(newTestDeps(), tf)
	if err != nil {
		return err
	}
	_, err = cc.CompilePackage(context.Background(), "local.v1")
	return err
}

// Structurally valid files with a semantic error placed inside an option of a
// oneof. The compiler must report an ordinary error, not panic.
func TestSeedC07_3_SemanticErrorInsideOneofOption(t *testing.T) {
	cases := map[string]struct {
		body []string
		want string
	}{
		"unknown-type": {
			body: []string{
				"oneof Foo {",
				"  option a string",
				"  option b object:Nope",
				"}",
			},
			want: "Nope not found",
		},
		"enum-ref-used-as-object": {
			body: []string{
				"enum E {",
				"  option X",
				"}",
				"oneof Foo {",
				"  option a object:E",
				"}",
			},
			want: "not a message",
		},
		"inline-oneof-in-object": {
			body: []string{
				"object Outer {",
				"  field choice oneof {",
				"    option a string",
				"    option b object:Missing",
				"  }",
				"}",
			},
			want: "Missing not found",
		},
		// control: the same error in an object field
		"control-object": {
			body: []string{
				"object Foo {",
				"  field b object:Nope",
				"}",
			},
			want: "Nope not found",
		},
	}
	for name, tc := range cases {
		t.Run(name, func(t *testing.T) {
			err := seedC07_3_compile(tc.body...)
			if err == nil {
				t.Fatalf("expected an error")
			}
			if strings.HasPrefix(err.Error(), "PANIC") {
				t.Fatalf("compiler panicked instead of returning an error: %s", err)
			}
			if !strings.Contains(err.Error(), tc.want) {
				t.Fatalf("expected error containing %q, got: %s", tc.want, err)
			}
		})
	}
}
