// copy to: internal/j5s/protobuild/
package protobuild

import (
	"context"
	"testing"
)

// foo.v1 refers to another local package (bar.v1) ONLY through the value type
// of a map field. The dependency on bar.v1 must be discovered from that map
// field alone; no other declaration in foo.v1 mentions bar.v1.
func TestSeedC07_2_MapValueIsOnlyCrossPackageRef(t *testing.T) {
	cases := map[string][2][]string{
		"map-of-object": {
			{"import bar.v1", "object Foo {", "  field m map:object:bar.v1.Bar", "}"},
			{"object Bar {", "  field g string", "}"},
		},
		"map-of-enum": {
			{"import bar.v1", "object Foo {", "  field m map:enum:bar.v1.Bar", "}"},
			{"enum Bar {", "  option A", "  option B", "}"},
		},
	}
	for name, files := range cases {
		t.Run(name, func(t *testing.T) {
			tf := newTestFiles()
			tf.tAddJ5SFile("foo/v1/foo.j5s", files[0]...)
			tf.tAddJ5SFile("bar/v1/bar.j5s", files[1]...)
			cc, err := NewPackageSet(newTestDeps(), tf)
			if err != nil {
				t.Fatalf("NewPackageSet: %s", err)
			}
			out, err := cc.CompilePackage(context.Background(), "foo.v1")
			if err != nil {
				t.Fatalf("valid package was rejected: %s", err)
			}
			if len(out) != 1 {
				t.Fatalf("expected 1 linked file, got %d", len(out))
			}
		})
	}

	// Control: the same reference through an array, and through a map when an
	// unrelated direct reference to bar.v1 is also present, must also work.
	t.Run("control-array", func(t *testing.T) {
		tf := newTestFiles()
		tf.tAddJ5SFile("foo/v1/foo.j5s", "import bar.v1", "object Foo {", "  field m array:object:bar.v1.Bar", "}")
		tf.tAddJ5SFile("bar/v1/bar.j5s", "object Bar {", "  field g string", "}")
		cc, err := NewPackageSet(newTestDeps(), tf)
		if err != nil {
			t.Fatalf("NewPackageSet: %s", err)
		}
		if _, err := cc.CompilePackage(context.Background(), "foo.v1"); err != nil {
			t.Fatalf("valid package was rejected: %s", err)
		}
	})
}
