// copy to: internal/j5s/protobuild/
package protobuild

import (
	"context"
	"testing"
)

// A package consisting of a single file with a single object whose only field
// is both required and carries a type rule. Nothing else in the file pulls in
// buf/validate/validate.proto, so the generated descriptor must import it on
// behalf of this field alone.
func TestSeedC07_1_RequiredFieldWithRuleAlone(t *testing.T) {
	cases := map[string][]string{
		"string": {
			"object Foo {",
			"  field f ! string {",
			"    rules.minLength = 1",
			"  }",
			"}",
		},
		"bool": {
			"object Foo {",
			"  field f ! bool {",
			"    rules.const = true",
			"  }",
			"}",
		},
		"integer": {
			"object Foo {",
			"  field f ! integer:INT32 {",
			"    rules.minimum = 1",
			"  }",
			"}",
		},
	}
	for name, body := range cases {
		t.Run(name, func(t *testing.T) {
			tf := newTestFiles()
			tf.tAddJ5SFile("local/v1/foo.j5s", body...)
			cc, err := NewPackageSet(newTestDeps(), tf)
			if err != nil {
				t.Fatalf("NewPackageSet: %s", err)
			}
			out, err := cc.CompilePackage(context.Background(), "local.v1")
			if err != nil {
				t.Fatalf("valid single-field package was rejected: %s", err)
			}
			if len(out) != 1 {
				t.Fatalf("expected 1 linked file, got %d", len(out))
			}
		})
	}
}
