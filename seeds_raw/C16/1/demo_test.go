// copy to: internal/j5client/
package j5client

// Demonstration for C16 seed 1: a schema that is only reachable through a
// *path parameter* of a method (here an enum) must still be present in the
// client API's schema set.

import (
	"context"
	"testing"
	"testing/fstest"

	"github.com/pentops/j5/gen/j5/client/v1/client_j5pb"
	"github.com/pentops/j5/gen/j5/source/v1/source_j5pb"
	"github.com/pentops/j5/internal/j5s/protobuild"
	"github.com/pentops/j5/internal/source"
	"github.com/pentops/j5/internal/structure"
	"github.com/pentops/j5/lib/j5codec"
	"google.golang.org/protobuf/reflect/protodesc"
	"google.golang.org/protobuf/reflect/protoreflect"
)

// seedC16n1Build compiles a single j5s file (package demo.v1) with the real
// compiler, wraps the emitted descriptors in a source image, and runs the
// image -> source API -> client API -> J5 JSON pipeline.
func seedC16n1Build(t *testing.T, j5s string) *client_j5pb.API {
	t.Helper()
	ctx := context.Background()
	fs := fstest.MapFS{
		"j5.yaml":                &fstest.MapFile{Data: []byte("---\nbundles:\n  - name: demo\n    dir: proto\n")},
		"proto/j5.yaml":          &fstest.MapFile{Data: []byte("---\npackages:\n  - name: demo.v1\n\noptions:\n  subPackages:\n    - name: \"service\"\n")},
		"proto/demo/v1/demo.j5s": &fstest.MapFile{Data: []byte(j5s)},
	}
	root, err := source.NewFSRepoRoot(ctx, fs, nil)
	if err != nil {
		t.Fatalf("repo root: %v", err)
	}
	bundle, err := root.BundleSource("demo")
	if err != nil {
		t.Fatalf("bundle: %v", err)
	}
	deps, err := bundle.GetDependencies(ctx, root)
	if err != nil {
		t.Fatalf("deps: %v", err)
	}
	localFiles, err := protobuild.NewBundleResolver(ctx, bundle)
	if err != nil {
		t.Fatalf("resolver: %v", err)
	}
	compiler, err := protobuild.NewPackageSet(deps, localFiles)
	if err != nil {
		t.Fatalf("package set: %v", err)
	}

	img := &source_j5pb.SourceImage{
		Packages: []*source_j5pb.PackageInfo{{Name: "demo.v1", Label: "Demo"}},
	}
	seen := map[string]bool{}
	var addFile func(fd protoreflect.FileDescriptor)
	addFile = func(fd protoreflect.FileDescriptor) {
		if seen[fd.Path()] {
			return
		}
		seen[fd.Path()] = true
		imports := fd.Imports()
		for i := 0; i < imports.Len(); i++ {
			addFile(imports.Get(i).FileDescriptor)
		}
		img.File = append(img.File, protodesc.ToFileDescriptorProto(fd))
	}
	for _, pkg := range localFiles.ListPackages() {
		out, err := compiler.CompilePackage(ctx, pkg)
		if err != nil {
			t.Fatalf("compile %s: %v", pkg, err)
		}
		for _, file := range out {
			addFile(file)
			img.SourceFilenames = append(img.SourceFilenames, file.Path())
		}
	}

	sourceAPI, err := structure.APIFromImage(img)
	if err != nil {
		t.Fatalf("source API from image: %v", err)
	}
	clientAPI, err := APIFromSource(sourceAPI)
	if err != nil {
		t.Fatalf("client API from source: %v", err)
	}
	if _, err := j5codec.Global.ProtoToJSON(clientAPI.ProtoReflect()); err != nil {
		t.Fatalf("J5 JSON of client API: %v", err)
	}
	return clientAPI
}

func TestSeedC16n1PathParameterSchemaReachable(t *testing.T) {
	api := seedC16n1Build(t, `package demo.v1

enum Kind {
	option SMALL
	option LARGE
}

enum Colour {
	option RED
	option BLUE
}

object Thing {
	field name string
	field colour enum:Colour
}

service Thing {
	basePath = "/demo/v1"

	method GetThing {
		httpMethod = GET
		httpPath = "/thing/:kind/:id"
		request {
			field kind enum:Kind
			field id string
			field verbose bool
		}
		response {
			field thing object:Thing
		}
	}
}
`)

	var pkg *client_j5pb.Package
	for _, p := range api.Packages {
		if p.Name == "demo.v1" {
			pkg = p
		}
	}
	if pkg == nil {
		t.Fatal("package demo.v1 missing from client API")
	}
	if len(pkg.Services) != 1 || len(pkg.Services[0].Methods) != 1 {
		t.Fatalf("expected one service with one method, got %v", pkg.Services)
	}
	method := pkg.Services[0].Methods[0]
	if len(method.Request.PathParameters) != 2 {
		t.Fatalf("expected 2 path parameters, got %d", len(method.Request.PathParameters))
	}

	// every enum/object/oneof ref used by a path parameter must resolve
	for _, param := range method.Request.PathParameters {
		ref := param.Schema.GetEnum().GetRef()
		if ref == nil {
			continue
		}
		if ref.Package != "demo.v1" {
			t.Fatalf("unexpected ref package %q", ref.Package)
		}
		if _, ok := pkg.Schemas[ref.Schema]; !ok {
			have := []string{}
			for name := range pkg.Schemas {
				have = append(have, name)
			}
			t.Errorf("path parameter %q references %s.%s, which is not in the client API schemas (have %v)", param.Name, ref.Package, ref.Schema, have)
		}
	}

	// sanity: schemas reachable via the response are there in any case
	for _, want := range []string{"Thing", "Colour"} {
		if _, ok := pkg.Schemas[want]; !ok {
			t.Errorf("schema %q missing", want)
		}
	}
}
