// copy to: internal/j5client/
package j5client

// Demonstration for C16 seed 3: the client API must list exactly the declared
// methods, each with the declared verb and path - for every verb the j5s
// language accepts (GET, POST, PUT, PATCH, DELETE).

import (
	"context"
	"testing"
	"testing/fstest"

	"github.com/pentops/j5/gen/j5/client/v1/client_j5pb"
	"github.com/pentops/j5/gen/j5/source/v1/source_j5pb"
	"github.com/pentops/j5/internal/j5s/protobuild"
	"github.com/pentops/j5/internal/source"
	"github.com/pentops/j5/internal/structure"
	"github.com/pentops/j5/lib/j5codec"
	"google.golang.org/protobuf/reflect/protodesc"
	"google.golang.org/protobuf/reflect/protoreflect"
)

// seedC16n3Build compiles a single j5s file (package demo.v1) with the real
// compiler, wraps the emitted descriptors in a source image, and runs the
// image -> source API -> client API -> J5 JSON pipeline.
func seedC16n3Build(t *testing.T, j5s string) *client_j5pb.API {
	t.Helper()
	ctx := context.Background()
	fs := fstest.MapFS{
		"j5.yaml":                &fstest.MapFile{Data: []byte("---\nbundles:\n  - name: demo\n    dir: proto\n")},
		"proto/j5.yaml":          &fstest.MapFile{Data: []byte("---\npackages:\n  - name: demo.v1\n\noptions:\n  subPackages:\n    - name: \"service\"\n")},
		"proto/demo/v1/demo.j5s": &fstest.MapFile{Data: []byte(j5s)},
	}
	root, err := source.NewFSRepoRoot(ctx, fs, nil)
	if err != nil {
		t.Fatalf("repo root: %v", err)
	}
	bundle, err := root.BundleSource("demo")
	if err != nil {
		t.Fatalf("bundle: %v", err)
	}
	deps, err := bundle.GetDependencies(ctx, root)
	if err != nil {
		t.Fatalf("deps: %v", err)
	}
	localFiles, err := protobuild.NewBundleResolver(ctx, bundle)
	if err != nil {
		t.Fatalf("resolver: %v", err)
	}
	compiler, err := protobuild.NewPackageSet(deps, localFiles)
	if err != nil {
		t.Fatalf("package set: %v", err)
	}

	img := &source_j5pb.SourceImage{
		Packages: []*source_j5pb.PackageInfo{{Name: "demo.v1", Label: "Demo"}},
	}
	seen := map[string]bool{}
	var addFile func(fd protoreflect.FileDescriptor)
	addFile = func(fd protoreflect.FileDescriptor) {
		if seen[fd.Path()] {
			return
		}
		seen[fd.Path()] = true
		imports := fd.Imports()
		for i := 0; i < imports.Len(); i++ {
			addFile(imports.Get(i).FileDescriptor)
		}
		img.File = append(img.File, protodesc.ToFileDescriptorProto(fd))
	}
	for _, pkg := range localFiles.ListPackages() {
		out, err := compiler.CompilePackage(ctx, pkg)
		if err != nil {
			t.Fatalf("compile %s: %v", pkg, err)
		}
		for _, file := range out {
			addFile(file)
			img.SourceFilenames = append(img.SourceFilenames, file.Path())
		}
	}

	sourceAPI, err := structure.APIFromImage(img)
	if err != nil {
		t.Fatalf("source API from image: %v", err)
	}
	clientAPI, err := APIFromSource(sourceAPI)
	if err != nil {
		t.Fatalf("client API from source: %v", err)
	}
	if _, err := j5codec.Global.ProtoToJSON(clientAPI.ProtoReflect()); err != nil {
		t.Fatalf("J5 JSON of client API: %v", err)
	}
	return clientAPI
}

func TestSeedC16n3DeclaredVerbAndPath(t *testing.T) {
	api := seedC16n3Build(t, `package demo.v1

object Thing {
	field name string
}

service Thing {
	basePath = "/demo/v1"

	method GetThing {
		httpMethod = GET
		httpPath = "/thing/:id"
		request {
			field id string
		}
		response {
			field thing object:Thing
		}
	}

	method CreateThing {
		httpMethod = POST
		httpPath = "/thing"
		request {
			field thing object:Thing
		}
		response {
			field thing object:Thing
		}
	}

	method ReplaceThing {
		httpMethod = PUT
		httpPath = "/thing/:id"
		request {
			field id string
			field thing object:Thing
		}
		response {
			field thing object:Thing
		}
	}

	method ModifyThing {
		httpMethod = PATCH
		httpPath = "/thing/:id"
		request {
			field id string
			field name string
		}
		response {
			field thing object:Thing
		}
	}

	method DeleteThing {
		httpMethod = DELETE
		httpPath = "/thing/:id"
		request {
			field id string
		}
		response {
			field thing object:Thing
		}
	}
}
`)

	var pkg *client_j5pb.Package
	for _, p := range api.Packages {
		if p.Name == "demo.v1" {
			pkg = p
		}
	}
	if pkg == nil {
		t.Fatal("package demo.v1 missing from client API")
	}
	if len(pkg.Services) != 1 || pkg.Services[0].Name != "ThingService" {
		t.Fatalf("expected exactly service ThingService, got %v", pkg.Services)
	}

	type decl struct {
		verb client_j5pb.HTTPMethod
		path string
	}
	want := map[string]decl{
		"GetThing":     {client_j5pb.HTTPMethod_GET, "/demo/v1/thing/:id"},
		"CreateThing":  {client_j5pb.HTTPMethod_POST, "/demo/v1/thing"},
		"ReplaceThing": {client_j5pb.HTTPMethod_PUT, "/demo/v1/thing/:id"},
		"ModifyThing":  {client_j5pb.HTTPMethod_PATCH, "/demo/v1/thing/:id"},
		"DeleteThing":  {client_j5pb.HTTPMethod_DELETE, "/demo/v1/thing/:id"},
	}

	seen := map[string]bool{}
	routes := map[string]string{}
	for _, method := range pkg.Services[0].Methods {
		w, ok := want[method.Name]
		if !ok {
			t.Errorf("undeclared method %q", method.Name)
			continue
		}
		if seen[method.Name] {
			t.Errorf("method %q listed twice", method.Name)
		}
		seen[method.Name] = true
		if method.HttpMethod != w.verb {
			t.Errorf("%s: verb %s, declared %s", method.Name, method.HttpMethod, w.verb)
		}
		if method.HttpPath != w.path {
			t.Errorf("%s: path %q, declared %q", method.Name, method.HttpPath, w.path)
		}
		route := method.HttpMethod.String() + " " + method.HttpPath
		if other, clash := routes[route]; clash {
			t.Errorf("%s and %s are both routed as %s", other, method.Name, route)
		}
		routes[route] = method.Name
	}
	for name := range want {
		if !seen[name] {
			t.Errorf("declared method %q missing", name)
		}
	}
}
