// copy to: internal/j5client/
package j5client

// Demonstration for C16 seed 2: request properties are split into
// path / query / body as the verb dictates. The compiler emits `body: "*"` for
// every verb except GET, so for a DELETE method the non-path request
// properties belong in the request body, not in the query string.

import (
	"context"
	"reflect"
	"testing"
	"testing/fstest"

	"github.com/pentops/j5/gen/j5/client/v1/client_j5pb"
	"github.com/pentops/j5/gen/j5/schema/v1/schema_j5pb"
	"github.com/pentops/j5/gen/j5/source/v1/source_j5pb"
	"github.com/pentops/j5/internal/j5s/protobuild"
	"github.com/pentops/j5/internal/source"
	"github.com/pentops/j5/internal/structure"
	"github.com/pentops/j5/lib/j5codec"
	"google.golang.org/protobuf/reflect/protodesc"
	"google.golang.org/protobuf/reflect/protoreflect"
)

// seedC16n2Build compiles a single j5s file (package demo.v1) with the real
// compiler, wraps the emitted descriptors in a source image, and runs the
// image -> source API -> client API -> J5 JSON pipeline.
func seedC16n2Build(t *testing.T, j5s string) *client_j5pb.API {
	t.Helper()
	ctx := context.Background()
	fs := fstest.MapFS{
		"j5.yaml":                &fstest.MapFile{Data: []byte("---\nbundles:\n  - name: demo\n    dir: proto\n")},
		"proto/j5.yaml":          &fstest.MapFile{Data: []byte("---\npackages:\n  - name: demo.v1\n\noptions:\n  subPackages:\n    - name: \"service\"\n")},
		"proto/demo/v1/demo.j5s": &fstest.MapFile{Data: []byte(j5s)},
	}
	root, err := source.NewFSRepoRoot(ctx, fs, nil)
	if err != nil {
		t.Fatalf("repo root: %v", err)
	}
	bundle, err := root.BundleSource("demo")
	if err != nil {
		t.Fatalf("bundle: %v", err)
	}
	deps, err := bundle.GetDependencies(ctx, root)
	if err != nil {
		t.Fatalf("deps: %v", err)
	}
	localFiles, err := protobuild.NewBundleResolver(ctx, bundle)
	if err != nil {
		t.Fatalf("resolver: %v", err)
	}
	compiler, err := protobuild.NewPackageSet(deps, localFiles)
	if err != nil {
		t.Fatalf("package set: %v", err)
	}

	img := &source_j5pb.SourceImage{
		Packages: []*source_j5pb.PackageInfo{{Name: "demo.v1", Label: "Demo"}},
	}
	seen := map[string]bool{}
	var addFile func(fd protoreflect.FileDescriptor)
	addFile = func(fd protoreflect.FileDescriptor) {
		if seen[fd.Path()] {
			return
		}
		seen[fd.Path()] = true
		imports := fd.Imports()
		for i := 0; i < imports.Len(); i++ {
			addFile(imports.Get(i).FileDescriptor)
		}
		img.File = append(img.File, protodesc.ToFileDescriptorProto(fd))
	}
	for _, pkg := range localFiles.ListPackages() {
		out, err := compiler.CompilePackage(ctx, pkg)
		if err != nil {
			t.Fatalf("compile %s: %v", pkg, err)
		}
		for _, file := range out {
			addFile(file)
			img.SourceFilenames = append(img.SourceFilenames, file.Path())
		}
	}

	sourceAPI, err := structure.APIFromImage(img)
	if err != nil {
		t.Fatalf("source API from image: %v", err)
	}
	clientAPI, err := APIFromSource(sourceAPI)
	if err != nil {
		t.Fatalf("client API from source: %v", err)
	}
	if _, err := j5codec.Global.ProtoToJSON(clientAPI.ProtoReflect()); err != nil {
		t.Fatalf("J5 JSON of client API: %v", err)
	}
	return clientAPI
}

func TestSeedC16n2RequestSplitFollowsVerb(t *testing.T) {
	api := seedC16n2Build(t, `package demo.v1

object Thing {
	field name string
}

service Thing {
	basePath = "/demo/v1"

	method GetThing {
		httpMethod = GET
		httpPath = "/thing/:id"
		request {
			field id string
			field verbose bool
		}
		response {
			field thing object:Thing
		}
	}

	method UpdateThing {
		httpMethod = POST
		httpPath = "/thing/:id"
		request {
			field id string
			field thing object:Thing
		}
		response {
			field thing object:Thing
		}
	}

	method DeleteThing {
		httpMethod = DELETE
		httpPath = "/thing/:id"
		request {
			field id string
			field reason string
			field force bool
		}
		response {
			field thing object:Thing
		}
	}
}
`)

	var pkg *client_j5pb.Package
	for _, p := range api.Packages {
		if p.Name == "demo.v1" {
			pkg = p
		}
	}
	if pkg == nil {
		t.Fatal("package demo.v1 missing from client API")
	}
	if len(pkg.Services) != 1 {
		t.Fatalf("expected one service, got %d", len(pkg.Services))
	}

	names := func(props []*schema_j5pb.ObjectProperty) []string {
		out := []string{}
		for _, p := range props {
			out = append(out, p.Name)
		}
		return out
	}

	type split struct {
		verb              client_j5pb.HTTPMethod
		path, query, body []string
	}
	want := map[string]split{
		"GetThing":    {verb: client_j5pb.HTTPMethod_GET, path: []string{"id"}, query: []string{"verbose"}, body: nil},
		"UpdateThing": {verb: client_j5pb.HTTPMethod_POST, path: []string{"id"}, query: []string{}, body: []string{"thing"}},
		"DeleteThing": {verb: client_j5pb.HTTPMethod_DELETE, path: []string{"id"}, query: []string{}, body: []string{"reason", "force"}},
	}

	seen := 0
	for _, method := range pkg.Services[0].Methods {
		w, ok := want[method.Name]
		if !ok {
			t.Errorf("undeclared method %q", method.Name)
			continue
		}
		seen++
		if method.HttpMethod != w.verb {
			t.Errorf("%s: verb %s, want %s", method.Name, method.HttpMethod, w.verb)
		}
		if method.HttpPath != "/demo/v1/thing/:id" {
			t.Errorf("%s: path %q", method.Name, method.HttpPath)
		}
		if got := names(method.Request.PathParameters); !reflect.DeepEqual(got, w.path) {
			t.Errorf("%s: path parameters %v, want %v", method.Name, got, w.path)
		}
		if got := names(method.Request.QueryParameters); !reflect.DeepEqual(got, w.query) {
			t.Errorf("%s: query parameters %v, want %v", method.Name, got, w.query)
		}
		if w.body == nil {
			if method.Request.Body != nil {
				t.Errorf("%s: unexpected request body %v", method.Name, names(method.Request.Body.Properties))
			}
		} else {
			if method.Request.Body == nil {
				t.Errorf("%s: request body missing, want properties %v", method.Name, w.body)
			} else if got := names(method.Request.Body.Properties); !reflect.DeepEqual(got, w.body) {
				t.Errorf("%s: body properties %v, want %v", method.Name, got, w.body)
			}
		}
	}
	if seen != len(want) {
		t.Errorf("expected %d methods, saw %d", len(want), seen)
	}
}
