#!/bin/bash
# seedmatrix.sh [seed...]: run every seeded change against the check of its property (and the cross checks
# listed below) on the current /repo HEAD; writes seeded/RESULTS.tsv (seed, check, tier, exit, violations, first signature)
cd /verif
declare -A EXTRA=( [C08-7]="C01" [C17-13]="C04" [C20-13]="C12" [C01-12]="C18" [C20-10]="C12" [C14-9]="C05" [C18-10]="C01" [C03-10]="C01" [C17-11]="C04" [C16-11]="C07" [C04-11]="C02" [C05-11]="C02" [C20-7]="C12" [C20-8]="C10" [C02-6]="C07" [C17-8]="C16" [C01-8]="C08" [C12-8]="C17" [C20-5]="C10" [C17-5]="C04" [C20-3]="C10" [C18-1]="C08" [C08-1]="C01" [C13-1]="C02" [C17-1]="C02" )
seeds="$@"; [ -z "$seeds" ] && seeds=$(ls seeded | grep -E '^C[0-9]+-[0-9]+$')
out=seeded/RESULTS.tsv
[ $# -eq 0 ] && : > $out
for s in $seeds; do
  own=${s%-*}
  for chk in $own ${EXTRA[$s]:-}; do
    line=$(./seedrun.sh $s $chk quick 2>&1 | tail -1)
    rc=$(echo "$line" | sed -n 's/.*exit=\([0-9]*\).*/\1/p'); v=$(echo "$line" | sed -n 's/.*violations=\([0-9]*\).*/\1/p')
    sig=$(grep -a -m1 "signature:" /tmp/seedrun-$s-$chk.log | sed "s/.*signature: //" | cut -c1-160)
    [ -z "$rc" ] && rc="ERR:$line"
    printf "%s\t%s\tquick\t%s\t%s\t%s\n" "$s" "$chk" "$rc" "$v" "$sig" >> $out
  done
done
git -C /repo status --short | head -3
