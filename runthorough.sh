#!/bin/bash
# runthorough.sh [ID...]: run the thorough tier of the given (default: all) checks one after the other; summary in .work/thorough-summary.txt
cd /verif
ids="$@"; [ -z "$ids" ] && ids=$(python3 -c "import json;print(' '.join(c['property_id'] for c in json.load(open('MANIFEST.json'))['checks']))")
for id in $ids; do
  start=$(date +%s)
  ./check $id thorough > .work/thorough-$id.log 2>&1; rc=$?
  echo "$id exit=$rc secs=$(( $(date +%s) - start )) :: $(grep -a "^$id thorough" .work/thorough-$id.log | tail -1)" >> .work/thorough-summary.txt
done
