#!/bin/bash
# seedrun.sh <seed-name> <ID> [tier]: apply /verif/seeded/<seed-name>/patch.diff to /repo, run ./check <ID>, undo.
set -u
NAME="$1"; ID="$2"; TIER="${3:-quick}"
cd /repo && git diff --quiet || { echo "repo dirty"; exit 2; }
git -C /repo apply /verif/seeded/$NAME/patch.diff || { echo "patch does not apply"; exit 2; }
cd /verif && VERIF_SEEDRUN=1 ./check "$ID" "$TIER" > /tmp/seedrun-$NAME-$ID.log 2>&1; rc=$?
git -C /repo checkout -- .
v=$(grep -c '^VIOLATION' /tmp/seedrun-$NAME-$ID.log)
echo "SEEDRUN $NAME $ID $TIER: exit=$rc violations=$v :: $(grep -m1 'signature' /tmp/seedrun-$NAME-$ID.log | cut -c1-160)"
