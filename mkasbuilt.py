#!/usr/bin/env python3
# mkasbuilt.py: (re)write section 10 of DESIGN.md from asbuilt.md + known_findings.json + seeded/RESULTS.tsv
import json, subprocess, re
design = open('/verif/DESIGN.md').read()
i = design.find('\n## 10. As built')
if i >= 0:
    design = design[:i]
body = open('/verif/asbuilt.md').read()
kf = json.load(open('/verif/known_findings.json'))['findings']
fixed = [f for f in kf if f['status'] == 'fixed']
opened = [f for f in kf if f['status'] == 'open']
out = [body.rstrip(), '', '### 10.5 Genuine defects repaired in /repo (%d entries, %d `fix:` commits)' % (len(fixed), len({c for f in fixed for c in f['commit'].split('+')})), '',
       'Each is one unguarded commit whose message starts `fix:`; the repository\'s test suite, unedited, passes after each (re-run in full after the last one). The check named first is the one that reported it. A fixed entry suppresses nothing: the signature is reported again if it returns.', '',
       '| property | commit | what failed | reported as |', '|---|---|---|---|']
for f in fixed:
    out.append('| %s | %s | %s | `%s` |' % (f['property'], f.get('commit', ''), f['what'].replace('|', '/'), f['signature'].replace('|', '/')[:90]))
out += ['', '### 10.6 Open known findings (%d; genuine defects recorded, not repaired)' % len(opened), '',
        'Not repaired because the repair is not small and safe (needs a schema change and regenerated code, changes a documented naming rule, or an attempted repair broke an existing test — noted per entry). Each is matched by its exact signature; any other violation of the same property is still reported.', '',
        '| property | id | what fails | example |', '|---|---|---|---|']
for f in opened:
    out.append('| %s | %s | %s | `%s` |' % (f['property'], f['id'], f['what'].replace('|', '/'), str(f.get('example', '')).replace('|', '/').replace('\n', ' ')[:120]))
table = subprocess.run(['python3', '/verif/mkseedmeta.py'], capture_output=True, text=True).stdout
out += ['', '### 10.7 Seeded changes and the checks that catch them', '',
        'Fresh sub-agents, given only a property\'s text and their own scratch worktree, proposed three property-breaking changes per property that compile and pass the existing suite. Each was re-confirmed here with `seedverify.sh` (applies to HEAD, builds, whole suite passes, demonstration fails with / passes without) and stored under `seeded/<id>/` (patch.diff, demo_test.go.txt, notes.md, meta.json). `seedmatrix.sh` applies each to /repo, runs the quick check of its property (plus the cross checks noted) and reverts; `seeded/RESULTS.tsv` is its output on the last commit. Checks were strengthened where a seed was first missed: C08 history oracle (aliasing between earlier and later outputs), C03 strict canonical equality, C06 key pairs, C04 cache path and explicit UNSPECIFIED, C05 exact comments, C10 scenarios L–N, C14 file sequence and `maps.Keys` ownership, C15 package layouts, C18 odd-name context via C08. Dropped proposals: `seeded/DROPPED.md`.', '',
        open('/verif/seedrounds.md').read().strip(), '', table.rstrip(), '']
open('/verif/DESIGN.md', 'w').write(design.rstrip() + '\n\n' + '\n'.join(out) + '\n')
print('DESIGN.md section 10 written: %d fixed, %d open' % (len(fixed), len(opened)))
