#!/bin/bash
# seedverify.sh <src-dir> <dest-name> : confirm a seeded change in a scratch worktree of /repo HEAD
#   - patch applies, project builds, whole test suite passes with it
#   - the demonstration fails with the patch and passes without it
# then store it as /verif/seeded/<dest-name>/ (patch.diff, demo, meta.json is written by hand/afterwards)
set -u
SRC="$1"; NAME="$2"
. /verif/env.sh
WT=/tmp/sv/$NAME
rm -rf "$WT"; git -C /repo worktree prune
git -C /repo worktree add -q --detach "$WT" HEAD || exit 2
cleanup() { git -C /repo worktree remove --force "$WT" 2>/dev/null; }
trap cleanup EXIT
cd "$WT"
if ! git apply "$SRC/patch.diff" 2>/tmp/sv/$NAME.applyerr; then
  if ! git apply --3way "$SRC/patch.diff" 2>>/tmp/sv/$NAME.applyerr; then echo "RESULT $NAME: PATCH-DOES-NOT-APPLY"; cat /tmp/sv/$NAME.applyerr | head -5; exit 1; fi
  git reset -q
fi
git diff > /tmp/sv/$NAME.patch
if ! $VGO build ./... 2>/tmp/sv/$NAME.build; then echo "RESULT $NAME: BUILD-FAILS"; head -5 /tmp/sv/$NAME.build; exit 1; fi
suite=$($VGO test -vet=off -count=1 ./... 2>&1 | grep -v '^ok\|no test files' | head -5)
if [ -n "$suite" ]; then echo "RESULT $NAME: SUITE-FAILS-WITH-PATCH"; echo "$suite"; exit 1; fi
demo="$SRC/demo_test.go"
if [ ! -f "$demo" ]; then echo "RESULT $NAME: NO-DEMO-TEST (manual)"; exit 3; fi
dir=$(head -1 "$demo" | sed -n 's/.*copy to: *\([^ ]*\).*/\1/p' | sed 's/`//g')
[ -z "$dir" ] && { echo "RESULT $NAME: NO-COPY-TO-LINE"; exit 3; }
cp "$demo" "$WT/$dir/zz_seed_demo_test.go"
with=$($VGO test ${SEED_TEST_FLAGS:-} -vet=off -count=1 ./$dir 2>&1 | tail -3)
wrc=$?
$VGO test ${SEED_TEST_FLAGS:-} -vet=off -count=1 ./$dir >/dev/null 2>&1; wrc=$?
git apply -R /tmp/sv/$NAME.patch
$VGO test ${SEED_TEST_FLAGS:-} -vet=off -count=1 ./$dir >/dev/null 2>&1; orc=$?
if [ $wrc -ne 0 ] && [ $orc -eq 0 ]; then
  echo "RESULT $NAME: CONFIRMED (suite passes with patch; demo fails with patch, passes without)"
  mkdir -p /verif/seeded/$NAME
  cp /tmp/sv/$NAME.patch /verif/seeded/$NAME/patch.diff
  cp "$demo" /verif/seeded/$NAME/demo_test.go.txt
  [ -f "$SRC/notes.md" ] && cp "$SRC/notes.md" /verif/seeded/$NAME/notes.md
  exit 0
fi
echo "RESULT $NAME: NOT-CONFIRMED (demo with patch rc=$wrc, without rc=$orc)"
exit 1
