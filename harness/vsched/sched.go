// Package vsched is the controlled scheduler of engine E2. Exactly one
// registered thread runs at a time (GOMAXPROCS=1); control is handed over by
// spinning on a plain word inside //go:norace functions, so the hand-off is
// invisible to the Go race detector and creates no happens-before edge: the
// real -race runtime keeps acting as the access monitor of the code under test.
//
// All scheduler state shared between goroutines lives in fixed-size arrays and
// scalars that are only touched from //go:norace functions (no maps, no append:
// the runtime's own race hooks for those would otherwise see them).
package vsched

import (
	"runtime"
)

const (
	MaxThreads = 8
	MaxLocks   = 64
	MaxPoints  = 4096
)

type OpKind int32

const (
	OpStart OpKind = iota
	OpCall
	OpCallEnd
	OpLock
	OpUnlock
	OpRLock
	OpRUnlock
	OpOnce
	OpAtomic
	OpMapOp
	OpPoolOp
	OpWait
	OpEnd
)

var opNames = [...]string{"start", "call", "call-end", "lock", "unlock", "rlock", "runlock", "once", "atomic", "syncmap", "pool", "wait", "end"}

func (k OpKind) String() string { return opNames[k] }

type lockState struct {
	addr    uintptr
	writer  int32 // thread id + 1 holding exclusively, 0 = free
	readers int32
}

type threadState struct {
	used     bool
	finished bool
	pendKind OpKind  // operation the thread is about to perform
	pendObj  uintptr // lock address for lock operations
	ops      int32
}

// Point records one decision of an execution.
type PointRec struct {
	Enabled [MaxThreads]int8 // canonical order, -1 terminated
	NEn     int8
	Chosen  int8 // index into Enabled
	Running int8 // thread that ran before this point (-1 none)
	RunningEnabled bool
	Kind    OpKind // pending op of the chosen thread
}

var (
	active   bool
	current  int32 = -1 // thread allowed to run; -1 = scheduler
	threads  [MaxThreads]threadState
	nthreads int32
	locks    [MaxLocks]lockState
	nlocks   int32

	points  [MaxPoints]PointRec
	npoints int32

	prefix    [MaxPoints]int8
	nprefix   int32
	diverged  bool // an out-of-range prefix choice was seen
	deadlock  bool
	overflow  bool
	lastRun   int32 = -1
)

//go:norace
func Active() bool { return active }

//go:norace
func cur() int32 { return current }

// Reset prepares a new execution that replays the given choice prefix.
//
//go:norace
func Reset(pfx []int8) {
	active = false
	current = -1
	nthreads = 0
	nlocks = 0
	npoints = 0
	diverged = false
	deadlock = false
	overflow = false
	lastRun = -1
	for i := range threads {
		threads[i] = threadState{}
	}
	nprefix = int32(len(pfx))
	for i, c := range pfx {
		prefix[i] = c
	}
}

// Register adds a thread (called by the scheduler goroutine before Run).
//
//go:norace
func Register() int32 {
	id := nthreads
	threads[id] = threadState{used: true, pendKind: OpStart}
	nthreads++
	return id
}

// ThreadMain must wrap the body of every registered thread.
//
//go:norace
func ThreadMain(id int32, body func()) {
	waitTurn(id)
	body()
	threads[id].finished = true
	threads[id].pendKind = OpEnd
	current = -1
}

//go:norace
func waitTurn(id int32) {
	for current != id {
		runtime.Gosched()
	}
}

// Yield is a scheduling point of the running thread: it announces the
// operation it is about to perform and gives control back to the scheduler.
//
//go:norace
func Yield(kind OpKind, obj uintptr) {
	if !active {
		return
	}
	id := current
	if id < 0 {
		return // not a registered thread (set-up code on the scheduler goroutine)
	}
	threads[id].pendKind = kind
	threads[id].pendObj = obj
	threads[id].ops++
	current = -1
	waitTurn(id)
}

//go:norace
func findLock(addr uintptr) *lockState {
	for i := int32(0); i < nlocks; i++ {
		if locks[i].addr == addr {
			return &locks[i]
		}
	}
	if nlocks >= MaxLocks {
		overflow = true
		return &locks[MaxLocks-1]
	}
	locks[nlocks] = lockState{addr: addr}
	nlocks++
	return &locks[nlocks-1]
}

// Acquired / Released keep the scheduler's model of who holds what, so that a
// thread whose next operation is a Lock on a held mutex is not enabled.
//
//go:norace
func Acquired(addr uintptr, shared bool) {
	if !active || current < 0 {
		return
	}
	l := findLock(addr)
	if shared {
		l.readers++
	} else {
		l.writer = current + 1
	}
}

//go:norace
func Released(addr uintptr, shared bool) {
	if !active || current < 0 {
		return
	}
	l := findLock(addr)
	if shared {
		if l.readers > 0 {
			l.readers--
		}
	} else {
		l.writer = 0
	}
}

//go:norace
func enabled(id int32) bool {
	t := &threads[id]
	if !t.used || t.finished {
		return false
	}
	switch t.pendKind {
	case OpLock:
		l := findLock(t.pendObj)
		return l.writer == 0 && l.readers == 0
	case OpRLock:
		l := findLock(t.pendObj)
		return l.writer == 0
	}
	return true
}

// Run drives the registered threads to completion. The caller must have
// started one goroutine per thread running ThreadMain.
//
//go:norace
func Run() {
	active = true
	for {
		// enabled threads in canonical order: the thread that ran last first
		// (if still enabled), then ascending ids
		var p PointRec
		p.Running = int8(lastRun)
		n := int8(0)
		if lastRun >= 0 && enabled(lastRun) {
			p.Enabled[n] = int8(lastRun)
			n++
			p.RunningEnabled = true
		}
		for id := int32(0); id < nthreads; id++ {
			if id != lastRun && enabled(id) {
				p.Enabled[n] = int8(id)
				n++
			}
		}
		p.NEn = n
		if n == 0 {
			all := true
			for id := int32(0); id < nthreads; id++ {
				if !threads[id].finished {
					all = false
				}
			}
			if !all {
				deadlock = true
			}
			break
		}
		choice := int8(0)
		if npoints < nprefix {
			choice = prefix[npoints]
			if choice >= n {
				diverged = true
				choice = 0
			}
		}
		p.Chosen = choice
		tid := int32(p.Enabled[choice])
		p.Kind = threads[tid].pendKind
		if npoints >= MaxPoints {
			overflow = true
			break
		}
		points[npoints] = p
		npoints++
		lastRun = tid
		// hand over and wait until the thread reaches its next point
		current = tid
		for current != -1 {
			runtime.Gosched()
		}
	}
	active = false
}

// Result of the last execution.
//
//go:norace
func Points() []PointRec {
	out := make([]PointRec, npoints)
	for i := int32(0); i < npoints; i++ {
		out[i] = points[i]
	}
	return out
}

//go:norace
func Status() (dead, div, over bool) { return deadlock, diverged, overflow }

// Blocked lists the unfinished threads and what they wait for (after a deadlock).
//
//go:norace
func Blocked() []string {
	var out []string
	for id := int32(0); id < nthreads; id++ {
		if threads[id].used && !threads[id].finished {
			out = append(out, "thread "+string(rune('0'+id))+" blocked at "+threads[id].pendKind.String())
		}
	}
	return out
}
