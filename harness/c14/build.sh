#!/bin/bash
# build.sh <out> : instrument the compile / print packages (E3), then build the C14 harness.
set -u
HERE="$(cd "$(dirname "$0")/../.." && pwd)"
. "$HERE/env.sh"
out="$1"; shift
work="$HERE/.work/c14-instr"
rm -rf "$work"; mkdir -p "$work" "$HERE/bin"
if [ ! -x "$HERE/bin/vinstr" ] || [ "$HERE/tools/vinstr/main.go" -nt "$HERE/bin/vinstr" ]; then
  (cd "$HERE/tools/vinstr" && "$VGO" build -o "$HERE/bin/vinstr" .) || exit 2
fi
PKGS="internal/j5s/sourcewalk internal/j5s/j5convert internal/j5s/j5parse internal/j5s/protobuild internal/j5s/protoprint internal/j5s/protoprint/optionreflect internal/bcl internal/bcl/internal/parser internal/bcl/internal/walker internal/bcl/internal/walker/schema internal/bcl/errpos lib/j5schema lib/j5reflect lib/patherr internal/source"
VGO="$VGO" "$HERE/bin/vinstr" "$REPO" "$work" $PKGS || exit 2
cp "$work/sites.json" "$HERE/.work/c14-sites.json"
ov="$HERE/.work/overlay-c14.json"
python3 "$HERE/overlay.py" "$ov" "$work/overlay.json" || exit 2
cd "$REPO" && "$VGO" build -overlay "$ov" "$@" -o "$out" ./internal/zzverif/c14
