// C14: compilation and printing are deterministic.
package main

import (
	"context"
	"crypto/sha256"
	"encoding/hex"
	"fmt"
	"os"
	"os/exec"
	"sort"
	"strings"

	"github.com/pentops/j5/internal/zzverif/gj5s"
	"github.com/pentops/j5/internal/zzverif/vk"
	"github.com/pentops/j5/internal/zzverif/vorder"
	"google.golang.org/protobuf/proto"
	"google.golang.org/protobuf/reflect/protodesc"
)

var ctx = context.Background()

func main() {
	gj5s.Silence()
	if len(os.Args) > 1 && os.Args[1] == "--canon" {
		fmt.Println(canonHash())
		return
	}
	vk.Main(&vk.Check{
		ID:   "C14",
		Rule: "bundles: 7 multi-file / multi-package programs (cross-package references both ways, four sibling imports, entity + service + topic over two files, many annotations per field, nested inline types, hand-written proto files referring to j5s types and back) plus every multi-file program of the reference and mixed families. Explored against the canonical run's bytes: (1) every permutation of the file listing x every permutation of the package listing (n <= 4: all n!; larger: reversal, rotations, adjacent transpositions); (2) every sequence of <= 3 CompilePackage calls (with repetition) on one PackageSet; (3) every ordered pair of bundles compiled one after the other in one process; (4) E3: every iteration order at every owned choice point (Go map ranges, protoreflect Message / Map Range, RangeFiles, RangeExtensions in the 14 compile / print packages) with <= 1 (quick, 5 rich bundles) / <= 2 (thorough, all bundles) points deviating from the sorted order; (5) reported only: 3 fresh processes. A case = one bundle x one listing / call sequence / first deviating choice point",
		Assumptions: []string{
			"owned choice points are the ones tools/vinstr rewrote (listed in the evidence notes with the sites it left alone); iteration inside protocompile / protobuf-go that is not visible at their API is not owned",
			"generated protobuf messages deliver known fields in a fixed order and only extension fields in map order (protobuf-go impl); dynamicpb messages deliver every field in map order: vorder permutes exactly those",
			"choice points that only run while process-wide caches fill (first compile in a process) are explored by the fresh-process family only",
		},
		QuickBudget:    1500,
		ThoroughBudget: 14400,
		Run:            run,
	})
}

type outputs map[string]string

// compileAll compiles the given packages in order on one fresh PackageSet.
func compileAll(b *gj5s.Bundle, order []string) (outputs, error) {
	ps, err := b.NewPackageSet()
	if err != nil {
		return nil, err
	}
	out := outputs{}
	for _, pkg := range order {
		files, err := ps.CompilePackage(ctx, pkg)
		if err != nil {
			return nil, fmt.Errorf("compile %s: %w", pkg, err)
		}
		var seq []string
		for _, f := range files {
			seq = append(seq, f.Path())
		}
		out["sequence "+pkg] = strings.Join(seq, " ")
		for _, f := range files {
			bb, err := proto.MarshalOptions{Deterministic: true}.Marshal(protodesc.ToFileDescriptorProto(f))
			if err != nil {
				return nil, err
			}
			out["descriptor "+f.Path()] = hex.EncodeToString(bb)
			txt, err := gj5s.Print(f)
			if err != nil {
				return nil, fmt.Errorf("print %s: %w", f.Path(), err)
			}
			out["text "+f.Path()] = txt
		}
	}
	return out, nil
}

func diff(want, got outputs) string {
	var keys []string
	for k := range want {
		keys = append(keys, k)
	}
	for k := range got {
		if _, ok := want[k]; !ok {
			keys = append(keys, k)
		}
	}
	sort.Strings(keys)
	for _, k := range keys {
		w, wok := want[k]
		g, gok := got[k]
		switch {
		case !wok:
			return k + ": extra output"
		case !gok:
			continue // the sequence did not compile this package
		case w != g:
			if strings.HasPrefix(k, "sequence ") {
				return fmt.Sprintf("%s: files returned as [%s] vs [%s]", k, w, g)
			}
			if strings.HasPrefix(k, "text ") {
				wl, gl := strings.Split(w, "\n"), strings.Split(g, "\n")
				for i := 0; i < len(wl) && i < len(gl); i++ {
					if wl[i] != gl[i] {
						return fmt.Sprintf("%s: line %d: %q vs %q", k, i+1, wl[i], gl[i])
					}
				}
				return k + ": length differs"
			}
			return k + ": bytes differ"
		}
	}
	return ""
}

func diffKind(d string) string {
	if i := strings.Index(d, " "); i > 0 {
		return d[:i]
	}
	return d
}

func perms(n int) [][]int {
	var out [][]int
	for c := 0; c < vorder.Alternatives(n); c++ {
		out = append(out, vorder.Perm(n, c))
	}
	return out
}

func apply(p []int, s []string) []string {
	out := make([]string, len(s))
	for i, idx := range p {
		out[i] = s[idx]
	}
	return out
}

type bundleCase struct {
	c     *gj5s.Case
	b     *gj5s.Bundle
	files []string
	canon outputs
	src   string
}

func prepare(c *gj5s.Case) *bundleCase {
	b := c.P.Bundle()
	bc := &bundleCase{c: c, b: b}
	for _, f := range c.P.Files {
		if f.IsDep {
			bc.src += "// dependency " + f.OutPath() + "\n" + f.Render() + "\n"
			continue
		}
		bc.files = append(bc.files, f.Path())
		bc.src += "// " + f.Path() + "\n" + b.Files[f.Path()] + "\n"
	}
	sort.Strings(bc.files)
	return bc
}

func (bc *bundleCase) fresh() *gj5s.Bundle {
	nb := gj5s.NewBundle()
	nb.Deps, nb.ImageDeps = bc.b.Deps, bc.b.ImageDeps
	for _, f := range bc.c.P.Files {
		if f.IsDep {
			continue
		}
		if f.ListedOnly {
			nb.Files[f.Path()] = bc.b.Files[f.Path()]
			continue
		}
		nb.Add(f.Path(), bc.b.Files[f.Path()])
	}
	return nb
}

func (bc *bundleCase) canonical() (outputs, error) {
	if bc.canon != nil {
		return bc.canon, nil
	}
	out, err := compileAll(bc.fresh(), bc.b.Packages)
	if err != nil {
		return nil, err
	}
	bc.canon = out
	return out, nil
}

func allBundles() []*bundleCase {
	var out []*bundleCase
	for _, c := range append(append(gj5s.DeterminismBundles(), gj5s.StaleGeneratedBundles()...), gj5s.SiblingDependencyBundles()...) {
		out = append(out, prepare(c))
	}
	// hand-written proto files in the mix
	for _, c := range gj5s.MixedLanguageCases() {
		if c.ID == "mixed-language:both-ways:object:array" || c.ID == "mixed-language:j5s-uses-proto-other-package:enum:map" {
			c.Family = "bundles"
			out = append(out, prepare(c))
		}
	}
	return out
}

func multiFile() []*bundleCase {
	var out []*bundleCase
	cases := append(gj5s.ReferenceCases(), gj5s.ServiceCases()...)
	cases = append(cases, gj5s.MixedLanguageCases()...)
	cases = append(cases, gj5s.ShapeCases()...)
	for _, c := range cases {
		if c.ID == "mixed-language:both-ways:object:array" || c.ID == "mixed-language:j5s-uses-proto-other-package:enum:map" {
			continue // already among the rich bundles
		}
		if len(c.P.Files) > 1 {
			out = append(out, prepare(c))
		}
	}
	return out
}

func canonHash() string {
	h := sha256.New()
	for _, bc := range allBundles() {
		out, err := bc.canonical()
		if err != nil {
			return "error: " + err.Error()
		}
		var keys []string
		for k := range out {
			keys = append(keys, k)
		}
		sort.Strings(keys)
		for _, k := range keys {
			h.Write([]byte(k))
			h.Write([]byte(out[k]))
		}
	}
	return hex.EncodeToString(h.Sum(nil))
}

func run(r *vk.Runner) {
	rich := allBundles()
	var all []*bundleCase
	all = append(all, rich...)
	all = append(all, multiFile()...)

	// (1) listing permutations
	r.Family("listing")
	for _, bc := range all {
		bc := bc
		for fi, fp := range perms(len(bc.files)) {
			for pi, pp := range perms(len(bc.b.Packages)) {
				if r.Stopped() {
					return
				}
				fp, pp := fp, pp
				r.Do(fmt.Sprintf("listing:%s:f%d:p%d", bc.c.ID, fi, pi), func(t *vk.T) {
					t.Coord("listing|" + bc.c.Coord)
					t.SigCoord("listing|" + bc.c.Family)
					if fi != 0 || pi != 0 {
						t.Nontrivial()
					}
					want, cerr := bc.canonical()
					nb := bc.fresh()
					nb.ListOrder = apply(fp, bc.files)
					nb.Packages = apply(pp, bc.b.Packages)
					t.Key(fmt.Sprint(bc.c.ID, nb.ListOrder, nb.Packages))
					got, err := compileAll(nb, nb.Packages)
					t.Steps(len(nb.Packages))
					input := fmt.Sprintf("file listing %v, package listing %v\n%s", nb.ListOrder, nb.Packages, bc.src)
					if cerr != nil {
						// rejected in the default order: then it must be rejected in every order (why it
						// is rejected is C07's business)
						if err == nil {
							t.Violation("listing-order|compiles-only-in-some-orders|"+bc.c.Family+"|"+vk.ErrTail(cerr), "the bundle is rejected in the default listing order ("+cerr.Error()+") but compiles in this one\n"+input, input, nil, cerr.Error())
							return
						}
						t.Class("does-not-compile")
						return
					}
					if err != nil {
						t.Violation("listing-order|compile-fails|"+bc.c.Family+"|"+vk.ErrTail(err), "the bundle compiles in the default listing order but not in this one: "+err.Error()+"\n"+input, input, nil, err.Error())
						return
					}
					if d := diff(want, got); d != "" {
						t.Violation("listing-order|"+diffKind(d)+"|"+bc.c.Family, "output depends on the listing order: "+d+"\n"+input, input, nil, d)
						return
					}
					if fi == 1 && pi == 0 {
						t.Sample(input)
					}
				})
			}
		}
	}

	// (2) call sequences on one PackageSet
	r.Family("call-order")
	for _, bc := range all {
		bc := bc
		pk := bc.b.Packages
		var seqs [][]string
		var rec func(cur []string)
		rec = func(cur []string) {
			if len(cur) > 0 {
				seqs = append(seqs, append([]string{}, cur...))
			}
			if len(cur) == 3 {
				return
			}
			for _, p := range pk {
				rec(append(cur, p))
			}
		}
		rec(nil)
		for _, seq := range seqs {
			seq := seq
			if r.Stopped() {
				return
			}
			r.Do(fmt.Sprintf("calls:%s:%v", bc.c.ID, seq), func(t *vk.T) {
				t.Coord("call-order|" + bc.c.Coord)
				t.SigCoord("call-order|" + bc.c.Family)
				if len(seq) > 1 {
					t.Nontrivial()
				}
				t.Key(fmt.Sprint(bc.c.ID, seq))
				want, err := bc.canonical()
				if err != nil {
					t.Class("does-not-compile")
					return
				}
				ps, err := bc.fresh().NewPackageSet()
				if err != nil {
					panic(err)
				}
				input := fmt.Sprintf("CompilePackage calls on one PackageSet: %v\n%s", seq, bc.src)
				for i, pkg := range seq {
					files, err := ps.CompilePackage(ctx, pkg)
					t.Step()
					if err != nil {
						t.Violation("call-order|compile-fails|"+bc.c.Family+"|"+vk.ErrTail(err), fmt.Sprintf("call %d (%s) fails after %v: %v\n%s", i+1, pkg, seq[:i], err, input), input, nil, err.Error())
						return
					}
					got := outputs{}
					var fseq []string
					for _, f := range files {
						fseq = append(fseq, f.Path())
					}
					got["sequence "+pkg] = strings.Join(fseq, " ")
					for _, f := range files {
						bb, _ := proto.MarshalOptions{Deterministic: true}.Marshal(protodesc.ToFileDescriptorProto(f))
						got["descriptor "+f.Path()] = hex.EncodeToString(bb)
						txt, err := gj5s.Print(f)
						if err != nil {
							t.Violation("call-order|print-fails|"+bc.c.Family, fmt.Sprintf("printing %s fails after calls %v: %v\n%s", f.Path(), seq[:i+1], err, input), input, nil, err.Error())
							return
						}
						got["text "+f.Path()] = txt
					}
					if d := diff(want, got); d != "" {
						t.Violation("call-order|"+diffKind(d)+"|"+bc.c.Family, fmt.Sprintf("output of call %d (%s) depends on the earlier calls %v: %s\n%s", i+1, pkg, seq[:i], d, input), input, nil, d)
						return
					}
				}
			})
		}
	}

	// (3) what else was compiled earlier in the same process
	r.Family("history")
	for _, first := range rich {
		for _, second := range all {
			first, second := first, second
			if first == second {
				continue
			}
			if r.Stopped() {
				return
			}
			r.Do(fmt.Sprintf("history:%s:then:%s", first.c.ID, second.c.ID), func(t *vk.T) {
				t.Coord("history|" + second.c.Coord)
				t.SigCoord("history|" + second.c.Family)
				t.Nontrivial()
				t.Key(first.c.ID + ">" + second.c.ID)
				want, err := second.canonical()
				if err != nil {
					t.Class("does-not-compile")
					return
				}
				if _, err := compileAll(first.fresh(), first.b.Packages); err != nil {
					t.Class("does-not-compile")
					return
				}
				got, err := compileAll(second.fresh(), second.b.Packages)
				t.Steps(2)
				input := fmt.Sprintf("compiled first: %s\n%s", first.c.ID, second.src)
				if err != nil {
					t.Violation("history|compile-fails|"+second.c.Family, "compiles alone but not after another bundle: "+err.Error()+"\n"+input, input, nil, err.Error())
					return
				}
				if d := diff(want, got); d != "" {
					t.Violation("history|"+diffKind(d)+"|"+second.c.Family, "output depends on what was compiled earlier in the process: "+d+"\n"+input, input, nil, d)
				}
			})
		}
	}

	// (4) E3: owned iteration orders
	r.Family("iteration-order")
	bound := 1
	if !r.Quick() {
		bound = 2
	}
	r.Note("deviation_bound", bound)
	if sites, err := os.ReadFile(vk.VerifRoot + "/.work/c14-sites.json"); err == nil {
		r.Note("instrumented_sites", string(sites))
	}
	e3set := rich
	if !r.Quick() {
		e3set = all // thorough: every multi-file program as well
	}
	for _, bc := range e3set {
		bc := bc
		exec := func(prefix []int, expect []vorder.Point) ([]vorder.Point, outputs, error, string) {
			nb := bc.fresh()
			vorder.Begin(prefix, expect)
			out, err := compileAll(nb, nb.Packages)
			tr := vorder.End()
			return tr, out, err, vorder.Diverged
		}
		// warm process-wide caches, then take the default trace twice (determinism guard)
		exec(nil, nil)
		base, want, err, _ := exec(nil, nil)
		base2, want2, _, _ := exec(nil, nil)
		if err != nil {
			continue // C07's business; the listing family reports bundles that compile in some orders only
		}
		if fmt.Sprint(base) != fmt.Sprint(base2) || diff(want, want2) != "" {
			panic(fmt.Sprintf("harness: default execution of %s is not reproducible (%d vs %d choice points)", bc.c.ID, len(base), len(base2)))
		}
		if bc.canon == nil {
			bc.canon = want
		}
		r.Note("choice_points:"+bc.c.ID, len(base))
		for i := range base {
			i := i
			if r.Stopped() {
				return
			}
			r.Do(fmt.Sprintf("order:%s:point%d", bc.c.ID, i), func(t *vk.T) {
				t.Coord(fmt.Sprintf("iteration-order|%s|site=%s", bc.c.Coord, base[i].Site))
				t.SigCoord("iteration-order")
				t.Nontrivial()
				t.Key(fmt.Sprint(bc.c.ID, i))
				var explore func(prefix []int, parent []vorder.Point, from int, used int)
				explore = func(prefix []int, parent []vorder.Point, from int, used int) {
					for alt := 1; alt < parent[from].Alts; alt++ {
						p := append(append([]int{}, prefix...), make([]int, from-len(prefix))...)
						p = append(p, alt)
						tr, got, err, div := exec(p, parent)
						t.Step()
						input := fmt.Sprintf("iteration orders: %s\n%s", describe(tr), bc.src)
						if div != "" {
							panic("harness: replay diverged: " + div)
						}
						site := parent[from].Site
						if err != nil {
							t.Violation("iteration-order|compile-fails|site="+site, fmt.Sprintf("compiles with sorted iteration but fails when %s delivers its %d entries in another order: %v\n%s", site, parent[from].N, err, input), input, nil, err.Error())
							continue
						}
						if d := diff(want, got); d != "" {
							t.Violation("iteration-order|"+diffKind(d)+"|site="+site, fmt.Sprintf("output depends on the iteration order at %s (%d entries): %s\n%s", site, parent[from].N, d, input), input, nil, d)
							continue
						}
						if used+1 < bound {
							for j := from + 1; j < len(tr); j++ {
								explore(p, tr, j, used+1)
							}
						}
					}
				}
				explore(nil, base, i, 0)
			})
		}
	}

	// (5) fresh processes (reported)
	r.Family("fresh-process")
	r.Do("fresh-process", func(t *vk.T) {
		t.Coord("fresh-process")
		t.SigCoord("fresh-process")
		t.Nontrivial()
		own := canonHash()
		exe, _ := os.Executable()
		for i := 0; i < 3; i++ {
			out, err := exec.Command(exe, "--canon").Output()
			t.Step()
			if err != nil {
				panic(err)
			}
			if strings.TrimSpace(string(out)) != own {
				t.Violation("fresh-process|differs", fmt.Sprintf("canonical outputs differ between processes: %s vs %s", own, strings.TrimSpace(string(out))), "all bundles", own, strings.TrimSpace(string(out)))
				return
			}
		}
	})
}

func describe(tr []vorder.Point) string {
	var parts []string
	for i, p := range tr {
		if p.Choice != 0 {
			parts = append(parts, fmt.Sprintf("choice point %d at %s (%d entries) order %v", i, p.Site, p.N, vorder.Perm(p.N, p.Choice)))
		}
	}
	return strings.Join(parts, "; ")
}
