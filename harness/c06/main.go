// C06: decoder is total: no input crashes, hangs or exhausts the stack.
package main

import (
	_ "google.golang.org/protobuf/types/known/fieldmaskpb"
	_ "google.golang.org/protobuf/types/known/wrapperspb"
	_ "google.golang.org/protobuf/types/known/emptypb"
	"google.golang.org/protobuf/types/descriptorpb"
	"google.golang.org/protobuf/reflect/protoregistry"
	"google.golang.org/protobuf/reflect/protodesc"
	"google.golang.org/protobuf/proto"
	"runtime"
	"fmt"
	"net/url"
	"sort"
	"strconv"
	"strings"

	"github.com/pentops/j5/internal/zzverif/gpb"
	"github.com/pentops/j5/internal/zzverif/vk"
	"github.com/pentops/j5/lib/j5codec"
	"google.golang.org/protobuf/types/dynamicpb"
)

func main() {
	vk.Main(&vk.Check{
		ID:   "C06",
		Rule: "token sequences: every concatenation of <=N JSON tokens (N=4 quick / 5 thorough) over a 16-symbol alphabet decoded into each of 10 target types (field \"f\" of every structural kind, recursive types included); shape matrix: every (kind x label x context) schema x 40 JSON values of depth <=2 in the position of the field; prefixes and single-byte substitutions (12-byte alphabet) of one canonical document per schema; nesting bombs through every recursive path (depth 10..10^4 and 2x10^6 quick, also 10^5 thorough), huge numbers and strings; decimal exponents around every integer width; Any envelopes (22 type names x 13 value shapes x member order x 2 codec configurations); allocation growth of 20 input shapes at 2000 vs 8000 repetitions; url.Values: 20 keys x 11 value lists per schema; non-trivial = non-empty input; distinct by construction",
		Assumptions: []string{
			"'never loops forever' is decided by a progress watchdog (120 s per input of at most a few hundred kB), not by a termination proof",
			"workers run with Go's default 1 GB goroutine stack limit: a stack overflow is reported only if the real process would die too",
		},
		Bounds:         map[string]any{"token_alphabet": tokenSigma, "targets": targetNames()},
		Isolate:        true,
		MaxStackMB:     1024,
		QuickBudget:    900,
		ThoroughBudget: 7200,
		Run:            run,
	})
}

var tokenSigma = []string{"{", "}", "[", "]", ":", ",", "null", "true", "1", "-1", "1.5", "1e400", `""`, `"f"`, `"!type"`, `"zz"`}

type target struct {
	name string
	s    *gpb.Schema
}

func targetNames() []string {
	var n []string
	for _, t := range targets() {
		n = append(n, t.name)
	}
	return n
}

// rec builds the recursive type Rec{ f: Rec, a: repeated Rec, m: map<string,Rec>, w: RecWrap{ f: Rec }, s: string }.
func recSchema() *gpb.Schema {
	rec := &gpb.Message{Name: "Rec"}
	wrap := &gpb.Message{Name: "RecWrap", IsOneof: true}
	ff := gpb.F("f", 1, gpb.KObject, gpb.Single)
	ff.Msg = rec
	fa := gpb.F("a", 2, gpb.KObject, gpb.Repeated)
	fa.Msg = rec
	fm := gpb.F("m", 3, gpb.KObject, gpb.Map)
	fm.Msg = rec
	fw := gpb.F("w", 4, gpb.KOneof, gpb.Single)
	fw.Msg = wrap
	fo := gpb.F("o", 5, gpb.KOneof, gpb.Repeated)
	fo.Msg = wrap
	rec.Fields = []*gpb.Field{ff, fa, fm, fw, fo, gpb.F("s", 6, gpb.KString, gpb.Single), gpb.F("d", 7, gpb.KDecimal, gpb.Single), gpb.F("ds", 8, gpb.KDecimal, gpb.Repeated), gpb.F("x", 9, gpb.KDouble, gpb.Single), gpb.F("n", 10, gpb.KInt64, gpb.Single), gpb.F("t", 11, gpb.KTimestamp, gpb.Single)}
	wf := gpb.F("f", 1, gpb.KObject, gpb.Single)
	wf.Msg = rec
	wrap.Fields = []*gpb.Field{wf}
	return &gpb.Schema{Messages: []*gpb.Message{rec}, Root: rec, Enums: []*gpb.Enum{gpb.DefaultEnum}}
}

func simple(name string, k gpb.Kind, l gpb.Label) target {
	f := gpb.F("f", 1, k, l)
	switch k {
	case gpb.KEnum:
		f.Enum = gpb.DefaultEnum
	case gpb.KObject:
		inner := &gpb.Message{Name: "Inner", Fields: []*gpb.Field{gpb.F("f", 1, gpb.KInt64, gpb.Single), gpb.F("zz2", 2, gpb.KString, gpb.Repeated)}}
		f.Msg = inner
	case gpb.KOneof:
		armF := gpb.F("f", 1, gpb.KObject, gpb.Single)
		armF.Msg = &gpb.Message{Name: "ArmF", Fields: []*gpb.Field{gpb.F("f", 1, gpb.KBool, gpb.Single)}}
		armG := gpb.F("g", 2, gpb.KObject, gpb.Single)
		armG.Msg = &gpb.Message{Name: "ArmG"}
		f.Msg = &gpb.Message{Name: "W", IsOneof: true, Fields: []*gpb.Field{armF, armG}}
	}
	root := &gpb.Message{Name: "T", Fields: []*gpb.Field{f}}
	return target{name, &gpb.Schema{Messages: []*gpb.Message{root, gpb.NewSub()}, Root: root, Enums: []*gpb.Enum{gpb.DefaultEnum}}}
}

func targets() []target {
	ts := []target{
		simple("string", gpb.KString, gpb.Single),
		simple("array-int64", gpb.KInt64, gpb.Repeated),
		simple("object", gpb.KObject, gpb.Single),
		simple("oneof", gpb.KOneof, gpb.Single),
		simple("map-int32", gpb.KInt32, gpb.Map),
		simple("any", gpb.KJ5Any, gpb.Single),
		simple("enum", gpb.KEnum, gpb.Single),
		simple("array-oneof", gpb.KOneof, gpb.Repeated),
		simple("map-object", gpb.KObject, gpb.Map),
		{"recursive", recSchema()},
	}
	// exposed oneof with member f
	ef := gpb.F("f", 1, gpb.KString, gpb.Single)
	ef.Group = "zz"
	eg := gpb.F("g", 2, gpb.KBool, gpb.Single)
	eg.Group = "zz"
	root := &gpb.Message{Name: "T", Fields: []*gpb.Field{ef, eg}}
	ts = append(ts, target{"exposed-oneof", &gpb.Schema{Messages: []*gpb.Message{root}, Root: root}})
	// oneof wrapper as the root type
	rw := simple("oneof", gpb.KOneof, gpb.Single)
	rw.name = "root-oneof"
	rw.s.Root = rw.s.Messages[0].Fields[0].Msg
	ts = append(ts, rw)
	return ts
}

func decodeJSON(t *vk.T, s *gpb.Schema, codec *j5codec.Codec, doc string) {
	msg := dynamicpb.NewMessage(s.Desc(s.Root))
	err := codec.JSONToProto([]byte(doc), msg)
	t.Step()
	if err != nil {
		t.Class("error")
	} else {
		t.Class("accepted")
	}
}

func run(r *vk.Runner) {
	n := 4
	if !r.Quick() {
		n = 5
	}
	// ---- (1) token sequences ----
	for _, tg := range targets() {
		tg := tg
		if err := tg.s.Build(); err != nil {
			panic(fmt.Sprintf("harness: target %s: %v", tg.name, err))
		}
		codec := j5codec.NewCodec(j5codec.WithResolver(gpb.Resolver{S: tg.s}))
		r.Family("token-sequences:" + tg.name)
		idx := make([]int, 0, n)
		var sb strings.Builder
		var rec func(d int)
		rec = func(d int) {
			if r.Stopped() {
				return
			}
			if r.Mine() {
				sb.Reset()
				id := make([]string, len(idx))
				for i, k := range idx {
					sb.WriteString(tokenSigma[k])
					id[i] = strconv.Itoa(k)
				}
				doc := sb.String()
				r.Do("tok:"+tg.name+":"+strings.Join(id, "."), func(t *vk.T) {
					t.Coord("json|target=" + tg.name)
					t.SigCoord("json")
					if doc != "" {
						t.Nontrivial()
					}
					decodeJSON(t, tg.s, codec, doc)
					if len(idx) == n && idx[0] == 0 {
						t.Sample(doc)
					}
				})
			} else {
				r.SkipCase()
			}
			if d == n {
				return
			}
			for k := range tokenSigma {
				idx = append(idx, k)
				rec(d + 1)
				idx = idx[:len(idx)-1]
			}
		}
		rec(0)
	}

	// ---- (2) shape matrix, (3) prefixes / substitutions, (5) url.Values ----
	values := []string{
		`null`, `true`, `1`, `-1`, `1.5`, `1e400`, `""`, `"x"`, `[]`, `[null]`, `[[]]`, `[{}]`, `[1]`, `["x"]`, `[null,null]`, `[[[]]]`,
		`{}`, `{"a":null}`, `{"a":1}`, `{"!type":"armA"}`, `{"!type":null}`, `{"!type":1}`, `{"!type":"armA","armA":null}`, `{"!type":"armA","armA":{}}`,
		`{"armA":{}}`, `{"armA":{},"armB":{}}`, `{"armA":null,"armB":null}`, `{"k":null}`, `{"k":{}}`, `{"k":[]}`, `{"k":1}`, `{"k":{"k":{}}}`,
		`{"!type":"vt.v1.Sub"}`, `{"!type":"vt.v1.Sub","value":null}`, `{"!type":"vt.v1.Sub","value":{}}`, `{"!type":"vt.v1.Sub","value":1}`, `{"value":{}}`, `{"value":{},"value":{}}`,
		`{"sVal":null}`, `{"sVal":1}`, `{"nVal":"x"}`, `{"":1}`, `{"a":1,"a":2}`, `"!type"`, `{"!type":"armA","!type":"armB","armA":{}}`,
	}
	skeleton := map[string][2]string{
		"top":              {`{"fVal":`, `}`},
		"odd-name":         {`{"userID":`, `}`},
		"nested":           {`{"holder":{"fVal":`, `}}`},
		"flattened":        {`{"fVal":`, `,"other":"o"}`},
		"arm-message":      {`{"w":{"!type":"holder","holder":{"fVal":`, `}}}`},
		"array-element":    {`{"holders":[{"fVal":`, `}]}`},
		"map-value":        {`{"holderMap":{"k":{"fVal":`, `}}}`},
		"oneof-arm-scalar": {`{"w":{"!type":"fVal","fVal":`, `}}`},
		"exposed-oneof":    {`{"choice":{"!type":"fVal","fVal":`, `}}`},
	}
	qkeys := []string{"", "fVal", "f_val", "fVal.x", "fVal.x.y", ".", "fVal.", ".fVal", "zz", "holder", "holder.fVal", "holder.zz", "holder.fVal.x", "w", "w.holder.fVal", "w.fVal", "choice.fVal", "choice", "holders", "holderMap.k", "holderMap.k.fVal", "other"}
	qvals := [][]string{nil, {}, {""}, {"x"}, {"1"}, {"1", "2"}, {"{}"}, {"{"}, {` {"a":1}`}, {"true"}, {"null"}, {`{"!type":"armA"}`}}
	subst := []byte{0x00, 0xff, '\\', '"', '{', '}', '[', ']', ',', ':', '1', 'n'}
	for _, c := range gpb.SingleFieldCases() {
		c := c
		if r.Stopped() {
			return
		}
		if err := c.Schema.Build(); err != nil {
			panic(err)
		}
		codec := j5codec.NewCodec(j5codec.WithResolver(gpb.Resolver{S: c.Schema}))
		ctx := c.ID[strings.LastIndex(c.ID, "/")+1:]
		coord := "kind=" + c.Under.Kind.String() + "|label=" + c.Under.Label.String()
		sk := skeleton[ctx]
		r.Family("shape-matrix")
		for vi, v := range values {
			doc := sk[0] + v + sk[1]
			r.Do(fmt.Sprintf("shape:%s:%d", c.ID, vi), func(t *vk.T) {
				t.Coord("json|" + coord + "|context=" + ctx)
				t.SigCoord("json")
				t.Nontrivial()
				decodeJSON(t, c.Schema, codec, doc)
				if vi == 9 {
					t.Sample(doc)
				}
			})
		}
		// one canonical document per schema: the last (richest) message value
		mvs := gpb.MsgValues(c.Schema.Root)
		doc := gpb.Render(gpb.RefEncode(mvs[len(mvs)-1]), &gpb.RenderOpts{Target: -1})
		r.Family("prefixes")
		for i := 0; i <= len(doc); i++ {
			p := doc[:i]
			r.Do(fmt.Sprintf("prefix:%s:%d", c.ID, i), func(t *vk.T) {
				t.Coord("json-prefix|" + coord)
				t.SigCoord("json")
				if p != "" {
					t.Nontrivial()
				}
				decodeJSON(t, c.Schema, codec, p)
			})
		}
		r.Family("substitutions")
		for i := 0; i < len(doc); i++ {
			for _, b := range subst {
				if !r.Mine() {
					r.SkipCase()
					continue
				}
				m := doc[:i] + string([]byte{b}) + doc[i+1:]
				r.Do(fmt.Sprintf("subst:%s:%d:%02x", c.ID, i, b), func(t *vk.T) {
					t.Coord("json-substitution|" + coord)
					t.SigCoord("json")
					t.Nontrivial()
					decodeJSON(t, c.Schema, codec, m)
				})
			}
		}
		r.Family("url-values")
		for ki, k := range qkeys {
			for qi, qv := range qvals {
				k, qv := k, qv
				r.Do(fmt.Sprintf("query:%s:%d:%d", c.ID, ki, qi), func(t *vk.T) {
					t.Coord(fmt.Sprintf("query|%s|context=%s|key=%q|values=%q", coord, ctx, k, qv))
					t.SigCoord("query")
					t.Nontrivial()
					msg := dynamicpb.NewMessage(c.Schema.Desc(c.Schema.Root))
					err := codec.QueryToProto(url.Values{k: qv}, msg)
					t.Step()
					if err != nil {
						t.Class("error")
					} else {
						t.Class("accepted")
					}
					if ki == 10 && qi == 4 {
						t.Sample(map[string]any{"schema": c.ID, "query": url.Values{k: qv}})
					}
				})
			}
		}
	}

	// ---- (5b) url.Values with two keys (paths sharing a prefix, member pairs of one oneof) ----
	r.Family("url-values-pairs")
	pairKeys := []string{"fVal", "alt", "other", "tail", "holder.fVal", "holder.zz", "holder", "w.holder.fVal", "w.alt.zVal", "w.fVal", "w.alt", "choice.fVal", "choice.alt", "choice", "holders", "holderMap.k.fVal", "zz"}
	for _, c := range gpb.SingleFieldCases() {
		c := c
		if r.Stopped() {
			return
		}
		if c.Under.Label != gpb.Single {
			continue
		}
		if err := c.Schema.Build(); err != nil {
			panic(err)
		}
		codec := j5codec.NewCodec(j5codec.WithResolver(gpb.Resolver{S: c.Schema}))
		coord := "kind=" + c.Under.Kind.String() + "|label=" + c.Under.Label.String()
		for i, k1 := range pairKeys {
			for j, k2 := range pairKeys {
				if j <= i {
					continue
				}
				for vi, v := range []string{"1", "x", "{}"} {
					k1, k2, v := k1, k2, v
					r.Do(fmt.Sprintf("query2:%s:%d:%d:%d", c.ID, i, j, vi), func(t *vk.T) {
						t.Coord(fmt.Sprintf("query|%s|keys=%q,%q|value=%q", coord, k1, k2, v))
						t.SigCoord("query")
						t.Nontrivial()
						// url.Values is a Go map: both processing orders are reached by
						// repeating the call (not owned; see DESIGN.md C06)
						for rep := 0; rep < 4; rep++ {
							msg := dynamicpb.NewMessage(c.Schema.Desc(c.Schema.Root))
							err := codec.QueryToProto(url.Values{k1: {v}, k2: {v}}, msg)
							t.Step()
							if err != nil {
								t.Class("error")
							} else {
								t.Class("accepted")
							}
						}
					})
				}
			}
		}
	}

	// ---- (3b) target types the J5 reflection does not support: decoding must return an error, not crash ----
	r.Family("unsupported-targets")
	{
		str := func(x string) *string { return &x }
		fld := func(name string, num int32, t descriptorpb.FieldDescriptorProto_Type, typeName string) *descriptorpb.FieldDescriptorProto {
			f := &descriptorpb.FieldDescriptorProto{Name: str(name), Number: proto.Int32(num), Label: descriptorpb.FieldDescriptorProto_LABEL_OPTIONAL.Enum(), Type: t.Enum()}
			if typeName != "" {
				f.TypeName = str(typeName)
			}
			return f
		}
		mapMsg := func(name string, keyT descriptorpb.FieldDescriptorProto_Type) *descriptorpb.DescriptorProto {
			entry := &descriptorpb.DescriptorProto{Name: str("MEntry"), Options: &descriptorpb.MessageOptions{MapEntry: proto.Bool(true)},
				Field: []*descriptorpb.FieldDescriptorProto{fld("key", 1, keyT, ""), fld("value", 2, descriptorpb.FieldDescriptorProto_TYPE_STRING, "")}}
			m := fld("m", 1, descriptorpb.FieldDescriptorProto_TYPE_MESSAGE, ".ut.v1."+name+".MEntry")
			m.Label = descriptorpb.FieldDescriptorProto_LABEL_REPEATED.Enum()
			return &descriptorpb.DescriptorProto{Name: str(name), NestedType: []*descriptorpb.DescriptorProto{entry}, Field: []*descriptorpb.FieldDescriptorProto{m, fld("tail", 2, descriptorpb.FieldDescriptorProto_TYPE_STRING, "")}}
		}
		one := func(name string, t descriptorpb.FieldDescriptorProto_Type, typeName string) *descriptorpb.DescriptorProto {
			rep := fld("ms", 2, t, typeName)
			rep.Label = descriptorpb.FieldDescriptorProto_LABEL_REPEATED.Enum()
			return &descriptorpb.DescriptorProto{Name: str(name), Field: []*descriptorpb.FieldDescriptorProto{fld("m", 1, t, typeName), rep, fld("tail", 3, descriptorpb.FieldDescriptorProto_TYPE_STRING, "")}}
		}
		fdp := &descriptorpb.FileDescriptorProto{Name: str("ut/v1/t.proto"), Package: str("ut.v1"), Syntax: str("proto3"),
			Dependency: []string{"google/protobuf/empty.proto", "google/protobuf/wrappers.proto", "google/protobuf/field_mask.proto"},
			MessageType: []*descriptorpb.DescriptorProto{
				mapMsg("MapInt32", descriptorpb.FieldDescriptorProto_TYPE_INT32), mapMsg("MapInt64", descriptorpb.FieldDescriptorProto_TYPE_INT64),
				mapMsg("MapUint32", descriptorpb.FieldDescriptorProto_TYPE_UINT32), mapMsg("MapBool", descriptorpb.FieldDescriptorProto_TYPE_BOOL),
				one("Fixed64", descriptorpb.FieldDescriptorProto_TYPE_FIXED64, ""), one("Sfixed32", descriptorpb.FieldDescriptorProto_TYPE_SFIXED32, ""),
				one("Empty", descriptorpb.FieldDescriptorProto_TYPE_MESSAGE, ".google.protobuf.Empty"), one("StringValue", descriptorpb.FieldDescriptorProto_TYPE_MESSAGE, ".google.protobuf.StringValue"),
				one("FieldMask", descriptorpb.FieldDescriptorProto_TYPE_MESSAGE, ".google.protobuf.FieldMask"),
			}}
		fd, err := protodesc.NewFile(fdp, protoregistry.GlobalFiles)
		if err != nil {
			panic(err)
		}
		docs := []string{`{}`, `null`, `{"tail":"x"}`, `{"m":{"1":"a"}}`, `{"m":{"true":"a"}}`, `{"m":{}}`, `{"m":null}`, `{"m":"1"}`, `{"m":1}`, `{"m":{"a":1}}`, `{"m":[]}`, `{"ms":["1"]}`, `{"ms":[1,{}]}`, `{"ms":[]}`, `{"m":{"paths":["a"]}}`, `{"m":"a,b"}`}
		queries := []url.Values{{}, {"tail": {"x"}}, {"m": {"1"}}, {"m.1": {"a"}}, {"m.a": {"b"}}, {"ms": {"1", "2"}}, {"m": {""}}, {"m": {"{}"}}}
		for i := 0; i < fd.Messages().Len(); i++ {
			md := fd.Messages().Get(i)
			for di, doc := range docs {
				md, doc := md, doc
				r.Do(fmt.Sprintf("unsupported:%s:json:%d", md.Name(), di), func(t *vk.T) {
					t.Coord("unsupported-target|" + string(md.Name()))
					t.SigCoord("json")
					t.Nontrivial()
					// the same codec twice: the second call meets whatever the first left in the caches
					codec := j5codec.NewCodec()
					for k := 0; k < 2; k++ {
						err := codec.JSONToProto([]byte(doc), dynamicpb.NewMessage(md))
						t.Step()
						if err != nil {
							t.Class("error")
						} else {
							t.Class("accepted")
						}
					}
				})
			}
			for qi, q := range queries {
				md, q := md, q
				r.Do(fmt.Sprintf("unsupported:%s:query:%d", md.Name(), qi), func(t *vk.T) {
					t.Coord("unsupported-target|" + string(md.Name()))
					t.SigCoord("query")
					t.Nontrivial()
					codec := j5codec.NewCodec()
					for k := 0; k < 2; k++ {
						err := codec.QueryToProto(q, dynamicpb.NewMessage(md))
						t.Step()
						if err != nil {
							t.Class("error")
						} else {
							t.Class("accepted")
						}
					}
				})
			}
		}
	}

	// ---- (3c) Any envelopes: every type name x every value shape x both codec configurations ----
	r.Family("any-envelopes")
	for _, k := range []gpb.Kind{gpb.KJ5Any, gpb.KPbAny} {
		tg := simple("any", k, gpb.Single)
		if err := tg.s.Build(); err != nil {
			panic(err)
		}
		pkg := tg.s.Package
		// names the resolver knows as a message, does not know, or knows as something that is not a message
		typeNames := []string{
			`"` + pkg + `.Sub"`, `"` + pkg + `.T"`, `"` + pkg + `.Nope"`, `""`, `"."`, `".` + pkg + `.Sub"`, `"` + pkg + `.Sub."`, `"` + pkg + `"`,
			`"` + pkg + `.Color"`, `"google.protobuf.Timestamp"`, `"google.protobuf.Any"`, `"j5.types.any.v1.Any"`,
			`"google.protobuf.FieldDescriptorProto.Type"`, `"j5.ext.v1.field"`, `"j5.ext.v1.FieldOptions"`, `"google.protobuf"`, `"buf.validate.field"`,
			`"type.googleapis.com/` + pkg + `.Sub"`, `null`, `1`, `{}`, `["` + pkg + `.Sub"]`,
		}
		vals := []string{``, `"value":{}`, `"value":null`, `"value":"x"`, `"value":[]`, `"value":1`, `"value":{"zz":1}`, `"proto":"AA=="`, `"proto":""`, `"proto":"!"`, `"proto":null`, `"value":{},"proto":"CgF4"`, `"j5Json":"e30="`}
		for ci, opts := range [][]j5codec.CodecOption{{}, {j5codec.WithProtoToAny()}} {
			codec := j5codec.NewCodec(append([]j5codec.CodecOption{j5codec.WithResolver(gpb.Resolver{S: tg.s})}, opts...)...)
			for ti, tn := range typeNames {
				for vi, v := range vals {
					for oi, order := range []string{"type-first", "type-last", "no-type"} {
						var doc string
						switch order {
						case "type-first":
							doc = `{"!type":` + tn
							if v != "" {
								doc += "," + v
							}
							doc += "}"
						case "type-last":
							if v == "" {
								continue
							}
							doc = `{` + v + `,"!type":` + tn + `}`
						case "no-type":
							if ti != 0 {
								continue
							}
							doc = `{` + v + `}`
						}
						doc = `{"f":` + doc + `}`
						r.Do(fmt.Sprintf("anyenv:%s:%d:%d:%d:%d", k, ci, ti, vi, oi), func(t *vk.T) {
							t.Coord(fmt.Sprintf("json|kind=%s|any-envelope|codec=%d", k, ci))
							t.SigCoord("json")
							t.Nontrivial()
							decodeJSON(t, tg.s, codec, doc)
							if ti == 0 && vi == 1 {
								t.Sample(doc)
							}
						})
					}
				}
			}
		}
	}

	// ---- (4) nesting bombs and huge scalars ----
	r.Family("bombs")
	rs := recSchema()
	if err := rs.Build(); err != nil {
		panic(err)
	}
	codec := j5codec.NewCodec()
	// 2,000,000 levels are a document of 10-40 MB: deep enough that recursion proportional to the
	// nesting exhausts any stack
	depths := []int{10, 100, 1000, 10000, 2000000}
	if !r.Quick() {
		depths = append(depths, 100000)
	}
	paths := map[string][2]string{
		"object":       {`{"f":`, `}`},
		"array":        {`{"a":[`, `]}`},
		"map":          {`{"m":{"k":`, `}}`},
		"oneof":        {`{"w":{"!type":"f","f":`, `}}`},
		"array-oneof":  {`{"o":[{"f":`, `}]}`},
		"bare-arrays":  {`[`, `]`},
		"bare-objects": {`{"zz":`, `}`},
	}
	for _, name := range sortedKeys(paths) {
		p := paths[name]
		for _, d := range depths {
			for _, closed := range []bool{true, false} {
				name, p, d, closed := name, p, d, closed
				r.Do(fmt.Sprintf("bomb:%s:%d:%v", name, d, closed), func(t *vk.T) {
					t.Coord("bomb|" + name)
					t.SigCoord("json")
					t.Nontrivial()
					doc := strings.Repeat(p[0], d) + `{}`
					if closed {
						doc += strings.Repeat(p[1], d)
					}
					decodeJSON(t, rs, codec, doc)
				})
			}
		}
	}
	// ---- (4b) growth: work must grow linearly with the input, measured in allocated bytes (no clock) ----
	r.Family("growth")
	grow := func(name string, mk func(n int) string) {
		r.Do("growth:"+name, func(t *vk.T) {
			t.Coord("growth|" + name)
			t.SigCoord("json")
			t.Nontrivial()
			measure := func(n int) uint64 {
				doc := []byte(mk(n))
				msg := dynamicpb.NewMessage(rs.Desc(rs.Root))
				var a, b runtime.MemStats
				runtime.ReadMemStats(&a)
				_ = codec.JSONToProto(doc, msg)
				runtime.ReadMemStats(&b)
				t.Step()
				return b.TotalAlloc - a.TotalAlloc
			}
			measure(10) // warm the schema caches
			small, large := measure(2000), measure(8000)
			if small > 0 && large > 10*small {
				t.Violation("superlinear-growth|"+name, fmt.Sprintf("decoding %s: a 4x larger input allocates %.1fx more (%d -> %d bytes): work is not bounded by the input size", name, float64(large)/float64(small), small, large), name, "<= 10x (linear is 4x, quadratic 16x)", fmt.Sprintf("%.1fx", float64(large)/float64(small)))
			}
		})
	}
	for _, name := range sortedKeys(paths) {
		p := paths[name]
		for _, closed := range []bool{true, false} {
			p, closed := p, closed
			grow(fmt.Sprintf("%s:closed=%v", name, closed), func(n int) string {
				doc := strings.Repeat(p[0], n) + `{}`
				if closed {
					doc += strings.Repeat(p[1], n)
				}
				return doc
			})
		}
	}
	grow("many-keys", func(n int) string { return `{` + strings.Repeat(`"s":"x",`, n) + `"s":"y"}` })
	grow("many-elements", func(n int) string { return `{"a":[` + strings.Repeat(`{},`, n) + `{}]}` })
	grow("many-map-keys", func(n int) string {
		var sb strings.Builder
		sb.WriteString(`{"m":{`)
		for i := 0; i < n; i++ {
			fmt.Fprintf(&sb, `"k%d":{},`, i)
		}
		sb.WriteString(`"z":{}}}`)
		return sb.String()
	})
	grow("many-unknown-keys", func(n int) string {
		var sb strings.Builder
		sb.WriteString(`{"f":{`)
		for i := 0; i < n; i++ {
			fmt.Fprintf(&sb, `"s":"%d",`, i)
		}
		sb.WriteString(`"nope":1}}`)
		return sb.String()
	})
	grow("long-string", func(n int) string { return `{"s":"` + strings.Repeat(`\u0041`, n) + `"}` })
	grow("long-digits", func(n int) string { return `{"s":` + strings.Repeat("9", n) + `}` })
	// ---- (4c) amplification: a document of a few bytes must not make the decoder allocate megabytes ----
	r.Family("amplification")
	// decimal exponents around every width the implementation might hold them in
	var expDocs []string
	for _, e := range []string{"999", "1000", "1001", "32767", "32768", "65536", "2147483646", "2147483647", "2147483648", "2147483649", "4294967295", "4294967296", "4294967297", "9223372036854775807", "9223372036854775808", "18446744073709551616"} {
		for _, sign := range []string{"", "-", "+"} {
			for _, mant := range []string{"1", "1.0", "-1", "0", "0.1", "10"} {
				expDocs = append(expDocs, `{"d":"`+mant+`e`+sign+e+`"}`)
			}
			expDocs = append(expDocs, `{"d":1E`+sign+e+`}`, `{"ds":["1","1e`+sign+e+`"]}`)
		}
	}
	for _, doc := range append(expDocs, []string{`{"d":"1e3000000"}`, `{"d":1e3000000}`, `{"d":"1e-3000000"}`, `{"d":"-1E+3000000"}`, `{"ds":["1e3000000"]}`, `{"x":1e3000000}`, `{"x":"1e3000000"}`, `{"n":1e3000000}`, `{"n":"1e18"}`, `{"s":1e3000000}`, `{"t":"9999999999-01-01T00:00:00Z"}`, `{"d":"0.` + strings.Repeat("0", 40) + `1"}`}...) {
		doc := doc
		r.Do("amplification:"+doc[:min(len(doc), 48)], func(t *vk.T) {
			t.Coord("amplification")
			t.SigCoord("json")
			t.Nontrivial()
			msg := dynamicpb.NewMessage(rs.Desc(rs.Root))
			var a, b runtime.MemStats
			_ = codec.JSONToProto([]byte(`{"d":"1"}`), dynamicpb.NewMessage(rs.Desc(rs.Root)))
			runtime.ReadMemStats(&a)
			err := codec.JSONToProto([]byte(doc), msg)
			runtime.ReadMemStats(&b)
			t.Step()
			if got := b.TotalAlloc - a.TotalAlloc; got > 1<<20 {
				t.Violation("amplification|field="+strings.SplitN(strings.TrimPrefix(doc, "{\""), "\"", 2)[0], fmt.Sprintf("decoding the %d byte document %s allocates %d bytes (err=%v): work is not bounded by the input size", len(doc), doc, got, err), doc, "<= 1 MiB", got)
				return
			}
			if err != nil {
				t.Class("error")
			} else {
				t.Class("accepted")
			}
		})
	}
	for _, d := range []int{10, 1000, 100000} {
		d := d
		huge := map[string]string{
			"digits":        `{"s":` + strings.Repeat("9", d) + `}`,
			"quoted-digits": `{"s":"` + strings.Repeat("9", d) + `"}`,
			"long-key":      `{"` + strings.Repeat("k", d) + `":1}`,
			"exponent":      `{"s":1e` + strings.Repeat("9", d) + `}`,
			"escapes":       `{"s":"` + strings.Repeat(`\u0000`, d) + `"}`,
			"many-keys":     `{` + strings.Repeat(`"s":"x",`, d) + `"s":"y"}`,
			"many-elements": `{"a":[` + strings.Repeat(`{},`, d) + `{}]}`,
		}
		for _, name := range sortedKeys(huge) {
			name, doc := name, huge[name]
			r.Do(fmt.Sprintf("huge:%s:%d", name, d), func(t *vk.T) {
				t.Coord("huge|" + name)
				t.SigCoord("json")
				t.Nontrivial()
				decodeJSON(t, rs, codec, doc)
			})
		}
	}
}

func sortedKeys[V any](m map[string]V) []string {
	var ks []string
	for k := range m {
		ks = append(ks, k)
	}
	sort.Strings(ks)
	return ks
}
