// Package vorder owns every iteration order that Go / protobuf-go leave
// unspecified in the instrumented packages (E3). The instrumenter (tools/vinstr)
// routes map ranges and protoreflect Range calls through this package; the
// explorer chooses, per dynamic choice point, which order is delivered.
//
// Default order (choice 0): entries sorted by key. Alternatives: all
// permutations for n <= 4, otherwise reversal, rotations and adjacent
// transpositions.
//
// What is permuted mirrors what really varies between runs:
//   Go maps, protoreflect.Map, protoregistry.Files, proto.RangeExtensions: everything;
//   protoreflect.Message of dynamicpb: every populated field;
//   generated messages: known fields keep the (deterministic) order Range
//   gives them, only extension fields (kept in a Go map) are permuted.
package vorder

import (
	"fmt"
	"iter"
	"sort"

	"google.golang.org/protobuf/proto"
	"google.golang.org/protobuf/reflect/protoreflect"
	"google.golang.org/protobuf/reflect/protoregistry"
	"google.golang.org/protobuf/types/dynamicpb"
)

type Point struct {
	Site   string
	N      int
	Alts   int
	Choice int
}

var (
	Active bool
	Prefix []int
	Trace  []Point
	// Expect, when set, is the trace of the execution this one extends: the
	// replayed part must hit the same sites with the same sizes.
	Expect []Point
	Diverged string
)

// Begin starts a controlled execution replaying prefix, default order afterwards.
func Begin(prefix []int, expect []Point) {
	Active = true
	Prefix = prefix
	Expect = expect
	Trace = Trace[:0]
	Diverged = ""
}

func End() []Point {
	Active = false
	out := append([]Point(nil), Trace...)
	return out
}

func fact(n int) int {
	f := 1
	for i := 2; i <= n; i++ {
		f *= i
	}
	return f
}

// Alternatives returns the number of orders offered for n entries.
func Alternatives(n int) int {
	if n < 2 {
		return 1
	}
	if n <= 4 {
		return fact(n)
	}
	return 1 + 1 + (n - 1) + (n - 1) // identity, reversal, rotations, adjacent transpositions
}

// Perm returns the order for alternative c of n entries.
func Perm(n, c int) []int {
	p := make([]int, n)
	for i := range p {
		p[i] = i
	}
	if c == 0 || n < 2 {
		return p
	}
	if n <= 4 {
		// c-th permutation in lexicographic order
		avail := append([]int(nil), p...)
		out := make([]int, 0, n)
		k := c
		for i := n; i >= 1; i-- {
			f := fact(i - 1)
			idx := k / f
			k = k % f
			out = append(out, avail[idx])
			avail = append(avail[:idx], avail[idx+1:]...)
		}
		return out
	}
	switch {
	case c == 1:
		for i := range p {
			p[i] = n - 1 - i
		}
	case c < 1+n:
		r := c - 1 // rotation by 1..n-1
		for i := range p {
			p[i] = (i + r) % n
		}
	default:
		t := c - 1 - n // transposition of t, t+1
		p[t], p[t+1] = p[t+1], p[t]
	}
	return p
}

// choose registers a choice point over n entries and returns the order.
func choose(site string, n int) []int {
	if !Active || n < 2 {
		return Perm(n, 0)
	}
	alts := Alternatives(n)
	c := 0
	i := len(Trace)
	if i < len(Prefix) {
		c = Prefix[i]
		if i < len(Expect) && (Expect[i].Site != site || Expect[i].N != n) && Diverged == "" {
			Diverged = fmt.Sprintf("choice point %d: expected %s/%d, got %s/%d", i, Expect[i].Site, Expect[i].N, site, n)
		}
		if c >= alts {
			if Diverged == "" {
				Diverged = fmt.Sprintf("choice point %d at %s: choice %d of %d", i, site, c, alts)
			}
			c = 0
		}
	}
	Trace = append(Trace, Point{site, n, alts, c})
	return Perm(n, c)
}

type kv[K any, V any] struct {
	k K
	v V
	s string
}

func keyString(k any) string {
	switch t := k.(type) {
	case string:
		return t
	case protoreflect.FieldDescriptor:
		return fmt.Sprintf("%09d", t.Number())
	case protoreflect.MapKey:
		return t.String()
	case protoreflect.ExtensionType:
		return fmt.Sprintf("%09d", t.TypeDescriptor().Number())
	case protoreflect.FileDescriptor:
		return t.Path()
	case fmt.Stringer:
		return t.String()
	}
	return fmt.Sprintf("%v", k)
}

func deliver[K any, V any](entries []kv[K, V], site string, yield func(K, V) bool) {
	sort.SliceStable(entries, func(i, j int) bool { return entries[i].s < entries[j].s })
	for _, idx := range choose(site, len(entries)) {
		if !yield(entries[idx].k, entries[idx].v) {
			return
		}
	}
}

// Map is the replacement for ranging over a Go map.
func Map[M ~map[K]V, K comparable, V any](m M, site string) iter.Seq2[K, V] {
	return func(yield func(K, V) bool) {
		entries := make([]kv[K, V], 0, len(m))
		for k, v := range m {
			entries = append(entries, kv[K, V]{k, v, keyString(k)})
		}
		deliver(entries, site, yield)
	}
}

// Msg replaces protoreflect.Message.Range.
func Msg(m protoreflect.Message, f func(protoreflect.FieldDescriptor, protoreflect.Value) bool, site string) {
	var fixed, free []kv[protoreflect.FieldDescriptor, protoreflect.Value]
	_, dynamic := m.Interface().(*dynamicpb.Message)
	m.Range(func(fd protoreflect.FieldDescriptor, v protoreflect.Value) bool {
		e := kv[protoreflect.FieldDescriptor, protoreflect.Value]{fd, v, keyString(fd)}
		if dynamic || fd.IsExtension() {
			free = append(free, e)
		} else {
			fixed = append(fixed, e)
		}
		return true
	})
	for _, e := range fixed {
		if !f(e.k, e.v) {
			return
		}
	}
	deliver(free, site, f)
}

// PMap replaces protoreflect.Map.Range.
func PMap(m protoreflect.Map, f func(protoreflect.MapKey, protoreflect.Value) bool, site string) {
	var entries []kv[protoreflect.MapKey, protoreflect.Value]
	m.Range(func(k protoreflect.MapKey, v protoreflect.Value) bool {
		entries = append(entries, kv[protoreflect.MapKey, protoreflect.Value]{k, v, keyString(k)})
		return true
	})
	deliver(entries, site, f)
}

// Files replaces (*protoregistry.Files).RangeFiles.
func Files(r *protoregistry.Files, f func(protoreflect.FileDescriptor) bool, site string) {
	var entries []kv[protoreflect.FileDescriptor, struct{}]
	r.RangeFiles(func(fd protoreflect.FileDescriptor) bool {
		entries = append(entries, kv[protoreflect.FileDescriptor, struct{}]{fd, struct{}{}, keyString(fd)})
		return true
	})
	deliver(entries, site, func(fd protoreflect.FileDescriptor, _ struct{}) bool { return f(fd) })
}

// Ext replaces proto.RangeExtensions.
func Ext(rng func(proto.Message, func(protoreflect.ExtensionType, interface{}) bool), m proto.Message, f func(protoreflect.ExtensionType, interface{}) bool, site string) {
	var entries []kv[protoreflect.ExtensionType, interface{}]
	rng(m, func(t protoreflect.ExtensionType, v interface{}) bool {
		entries = append(entries, kv[protoreflect.ExtensionType, interface{}]{t, v, keyString(t)})
		return true
	})
	deliver(entries, site, f)
}

// Keys replaces golang.org/x/exp/maps.Keys.
func Keys[M ~map[K]V, K comparable, V any](_ func(M) []K, m M, site string) []K {
	out := make([]K, 0, len(m))
	for k := range Map(m, site) {
		out = append(out, k)
	}
	return out
}

// Values replaces golang.org/x/exp/maps.Values.
func Values[M ~map[K]V, K comparable, V any](_ func(M) []V, m M, site string) []V {
	out := make([]V, 0, len(m))
	for _, v := range Map(m, site) {
		out = append(out, v)
	}
	return out
}

// SeqKeys, SeqValues, SeqAll replace the iterators of the standard maps package.
func SeqKeys[M ~map[K]V, K comparable, V any](_ func(M) iter.Seq[K], m M, site string) iter.Seq[K] {
	return func(yield func(K) bool) {
		for k := range Map(m, site) {
			if !yield(k) {
				return
			}
		}
	}
}

func SeqValues[M ~map[K]V, K comparable, V any](_ func(M) iter.Seq[V], m M, site string) iter.Seq[V] {
	return func(yield func(V) bool) {
		for _, v := range Map(m, site) {
			if !yield(v) {
				return
			}
		}
	}
}

func SeqAll[M ~map[K]V, K comparable, V any](_ func(M) iter.Seq2[K, V], m M, site string) iter.Seq2[K, V] {
	return Map(m, site)
}
