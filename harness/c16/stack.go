package main

import "runtime"

func runtimeStack(buf []byte) int { return runtime.Stack(buf, false) }
