// C16: everything the compiler emits is consumable by the rest of the toolchain.
package main

import (
	"context"
	"encoding/json"
	"fmt"
	"os"
	"sort"
	"strings"
	"testing/fstest"

	"github.com/bufbuild/protocompile"
	"github.com/pentops/j5/gen/j5/client/v1/client_j5pb"
	"github.com/pentops/j5/gen/j5/schema/v1/schema_j5pb"
	"github.com/pentops/j5/gen/j5/source/v1/source_j5pb"
	"github.com/pentops/j5/internal/export"
	"github.com/pentops/j5/internal/j5client"
	"github.com/pentops/j5/internal/protosrc"
	"github.com/pentops/j5/internal/structure"
	"github.com/pentops/j5/internal/zzverif/gj5s"
	"github.com/pentops/j5/internal/zzverif/vk"
	"github.com/pentops/j5/lib/j5codec"
	"google.golang.org/protobuf/reflect/protoreflect"
)

var ctx = context.Background()

func main() {
	gj5s.Silence()
	vk.Main(&vk.Check{
		ID:   "C16",
		Rule: "programs: services (5 verbs x 6 path patterns x response / empty / none x 3 basePath forms), topics, entities (all single / pairwise deviations), mixed multi-file packages, and pipeline families: every field type in request (body / query), response and path position; list methods over filterable / sortable / searchable fields; self- and mutually-recursive objects in request, response, list items and entity data. Each is pushed through compile -> print -> ReadFSImage (in-memory FS) -> APIFromImage -> APIFromSource -> ProtoToJSON(client API) -> BuildSwagger -> json.Marshal; a case = one program; non-trivial = every case",
		Assumptions: []string{
			"the pipeline is chained as cmd/j5 'verify' / 'schema' chain it; printed files are served from an in-memory FS",
			"expected services, methods, verbs, paths and parameter split come from the program model: path parameters are the request fields named in the path; the remaining request fields are query parameters for GET and the body otherwise",
			"termination by the 120 s watchdog; stack exhaustion kills the worker and is attributed to the case",
		},
		Isolate:        true,
		QuickBudget:    900,
		ThoroughBudget: 3600,
		Run:            run,
	})
}

type noDeps struct{}

func (noDeps) FindFileByPath(path string) (protocompile.SearchResult, error) {
	return protocompile.SearchResult{}, fmt.Errorf("not found: %s", path)
}

func stage(t *vk.T, fam, name string, src string, fn func() error) bool {
	ok := true
	func() {
		defer func() {
			if e := recover(); e != nil {
				ok = false
				t.Violation("stage-panics|"+name+"|"+fam+"|"+vk.PanicSig(e, string(stackBuf())), fmt.Sprintf("stage %s panics: %v\n%s", name, e, src), src, nil, nil)
			}
		}()
		if err := fn(); err != nil {
			ok = false
			if name == "client-api" && strings.Contains(fam, "list-request:") {
				// a list-shaped request on a method whose response is not a list: the client API may
				// refuse it with an error (the documentation does not say it is valid); it must not crash
				t.Class("list-request-refused")
				return
			}
			t.Violation("stage-fails|"+name+"|"+fam+"|"+vk.ErrTail(err), fmt.Sprintf("stage %s fails: %v\n%s", name, err, src), src, nil, err.Error())
		}
	}()
	t.Step()
	return ok
}

func checkPipeline(t *vk.T, c *gj5s.Case) {
	fam := c.Family
	if c.Family == "pipeline" {
		fam = c.Coord
		if i := strings.Index(fam, "|type="); i > 0 {
			fam = fam[:i]
		}
		if strings.HasPrefix(fam, "pipeline|odd-name:") {
			fam = "pipeline|odd-name"
		}
	}
	t.Coord("pipeline|" + c.Coord)
	t.SigCoord("pipeline|" + fam)
	t.Nontrivial()
	b := c.P.Bundle()
	src := ""
	for _, f := range c.P.Files {
		src += "// " + f.Path() + "\n" + b.Files[f.Path()] + "\n"
	}
	t.Key(src)
	ps, err := b.NewPackageSet()
	if err != nil {
		panic(err)
	}
	mapFS := fstest.MapFS{}
	var pkgs []string
	for _, pkg := range b.Packages {
		out, err := ps.CompilePackage(ctx, pkg)
		t.Step()
		if err != nil {
			t.Class("does-not-compile") // C07's business
			return
		}
		pkgs = append(pkgs, pkg)
		for _, f := range out {
			txt, err := gj5s.PrintFD(f)
			if err != nil {
				t.Class("does-not-print") // C05's business
				return
			}
			mapFS[f.Path()] = &fstest.MapFile{Data: []byte(txt)}
		}
	}
	var img *source_j5pb.SourceImage
	if !stage(t, fam, "read-image", src, func() (err error) {
		img, err = protosrc.ReadFSImage(ctx, mapFS, nil, noDeps{})
		return err
	}) {
		return
	}
	for _, p := range pkgs {
		img.Packages = append(img.Packages, &source_j5pb.PackageInfo{Name: p})
	}
	var api *source_j5pb.API
	if !stage(t, fam, "api-from-image", src, func() (err error) { api, err = structure.APIFromImage(img); return err }) {
		return
	}
	var client *client_j5pb.API
	if !stage(t, fam, "client-api", src, func() (err error) { client, err = j5client.APIFromSource(api); return err }) {
		return
	}
	var js []byte
	if !stage(t, fam, "client-api-json", src, func() (err error) {
		js, err = j5codec.NewCodec().ProtoToJSON(client.ProtoReflect())
		return err
	}) {
		return
	}
	if os.Getenv("C16_DUMP") == c.ID {
		os.WriteFile("/tmp/c16dump.json", js, 0644)
		os.WriteFile("/tmp/c16dump.j5s", []byte(src), 0644)
	}
	if !json.Valid(js) {
		t.Violation("client-api-json-invalid|"+fam, "the J5 JSON rendering of the client API is not valid JSON\n"+src, src, nil, string(js))
		return
	}
	if !stage(t, fam, "swagger", src, func() error {
		doc, err := export.BuildSwagger(client)
		if err != nil {
			return err
		}
		_, err = json.Marshal(doc)
		return err
	}) {
		return
	}
	// ---- content oracle ----
	want := expectedMethods(c.P)
	got := map[string]*client_j5pb.Method{}
	schemas := map[string]bool{}
	for _, pkg := range client.Packages {
		for name := range pkg.Schemas {
			schemas[pkg.Name+"."+name] = true
		}
		add := func(s *client_j5pb.Service) {
			for _, m := range s.Methods {
				got[pkg.Name+"/"+s.Name+"/"+m.Name] = m
			}
		}
		for _, s := range pkg.Services {
			add(s)
		}
		for _, e := range pkg.StateEntities {
			if e.QueryService != nil {
				add(e.QueryService)
			}
			for _, s := range e.CommandServices {
				add(s)
			}
		}
	}
	var keys []string
	for k := range want {
		keys = append(keys, k)
	}
	sort.Strings(keys)
	for _, k := range keys {
		w := want[k]
		g := got[k]
		if g == nil {
			var have []string
			for x := range got {
				have = append(have, x)
			}
			sort.Strings(have)
			t.Violation("method-missing|"+fam, fmt.Sprintf("the client API does not list method %s (has %v)\n%s", k, have, src), src, k, have)
			return
		}
		if g.HttpMethod.String() != "HTTP_METHOD_"+w.verb || g.HttpPath != w.path {
			t.Violation("method-route|"+fam, fmt.Sprintf("method %s: %s %s expected, got %s %s\n%s", k, w.verb, w.path, g.HttpMethod, g.HttpPath, src), src, w.verb+" "+w.path, g.HttpMethod.String()+" "+g.HttpPath)
			return
		}
		names := func(ps []*schema_j5pb.ObjectProperty) []string {
			var out []string
			for _, p := range ps {
				out = append(out, p.Name)
			}
			sort.Strings(out)
			return out
		}
		var body []string
		if g.Request.GetBody() != nil {
			body = names(g.Request.Body.Properties)
		}
		same := func(got, raw, flat []string) bool {
			return fmt.Sprint(got) == fmt.Sprint(raw) || (flat != nil && fmt.Sprint(got) == fmt.Sprint(flat))
		}
		if fmt.Sprint(names(g.Request.GetPathParameters())) != fmt.Sprint(w.pathParams) || !same(names(g.Request.GetQueryParameters()), w.query, w.queryFlat) || !same(body, w.body, w.bodyFlat) {
			t.Violation("request-split|verb="+w.verb+"|"+fam, fmt.Sprintf("method %s (%s %s): path / query / body expected %v / %v / %v, got %v / %v / %v\n%s", k, w.verb, w.path, w.pathParams, w.query, w.body, names(g.Request.GetPathParameters()), names(g.Request.GetQueryParameters()), body, src), src, nil, nil)
			return
		}
		// every path parameter names a request property and occurs in the path
		for _, pp := range g.Request.GetPathParameters() {
			if !hasSeg(g.HttpPath, ":"+pp.Name) {
				t.Violation("path-parameter-not-in-path|"+fam, fmt.Sprintf("method %s: path parameter %s does not occur in %s\n%s", k, pp.Name, g.HttpPath, src), src, nil, nil)
				return
			}
		}
	}
	for k := range got {
		if want[k] == nil {
			t.Violation("method-unexpected|"+fam, fmt.Sprintf("the client API lists a method the source does not declare: %s\n%s", k, src), src, nil, k)
			return
		}
	}
	// list methods: the annotated field is offered exactly once, under its dotted JSON path
	if parts := strings.Split(c.Coord, "|"); len(parts) >= 4 && parts[1] == "list" {
		kind, path := parts[2], parts[3]
		m := got["t.v1/ItemService/ListItems"]
		var names []string
		if l := m.GetRequest().GetList(); l != nil {
			switch kind {
			case "searchable":
				for _, x := range l.SearchableFields {
					names = append(names, x.Name)
				}
			case "filterable":
				for _, x := range l.FilterableFields {
					names = append(names, x.Name)
				}
			case "sortable":
				for _, x := range l.SortableFields {
					names = append(names, x.Name)
				}
			}
		}
		if fmt.Sprint(names) != fmt.Sprint([]string{path}) {
			// the property does not say which fields a list request offers: recorded, not judged
			t.Class("ok, list request does not offer the annotated field (" + kind + " " + parts[len(parts)-1] + ")")
			return
		}
	}
	// twin fields: several fields of the row object have the same object type; what the list request
	// offers below one of them it must offer below the others (no statement about which fields)
	if i := strings.Index(c.ID, "list-twins:"); i >= 0 {
		twins := strings.Split(c.ID[i+len("list-twins:"):], ",")
		if l := got["t.v1/ItemService/ListItems"].GetRequest().GetList(); l != nil {
			offered := map[string][]string{}
			for _, x := range l.SearchableFields {
				offered["searchable"] = append(offered["searchable"], x.Name)
			}
			for _, x := range l.FilterableFields {
				offered["filterable"] = append(offered["filterable"], x.Name)
			}
			for _, x := range l.SortableFields {
				offered["sortable"] = append(offered["sortable"], x.Name)
			}
			for _, kind := range []string{"searchable", "filterable", "sortable"} {
				below := map[string][]string{}
				for _, name := range offered[kind] {
					for _, tw := range twins {
						if strings.HasPrefix(name, tw+".") {
							below[tw] = append(below[tw], strings.TrimPrefix(name, tw+"."))
						}
					}
				}
				for _, tw := range twins {
					sort.Strings(below[tw])
				}
				for _, tw := range twins[1:] {
					if fmt.Sprint(below[tw]) != fmt.Sprint(below[twins[0]]) {
						t.Violation("list-fields-asymmetric|"+kind+"|"+fam, fmt.Sprintf("the list request offers %v as %s below %q but %v below %q, both fields have the same type\n%s", below[twins[0]], kind, twins[0], below[tw], tw, src), src, below[twins[0]], below[tw])
						return
					}
				}
				if len(below[twins[0]]) > 0 {
					t.Class("list twins offered")
				}
			}
		}
	}
	// state entities: name, primary key, events
	for _, f := range c.P.Files {
		for _, d := range f.Decls {
			e, ok := d.(*gj5s.Entity)
			if !ok {
				continue
			}
			name := gj5s.Snake(gj5s.LowerFirst(gj5s.EntityCamel(e.Name)))
			var found *client_j5pb.StateEntity
			for _, pkg := range client.Packages {
				if pkg.Name != f.Package() {
					continue
				}
				for _, se := range pkg.StateEntities {
					if se.Name == name {
						found = se
					}
				}
			}
			if found == nil {
				t.Violation("entity-missing|"+fam, fmt.Sprintf("the client API has no state entity %s in %s\n%s", name, f.Package(), src), src, name, nil)
				return
			}
			var pk []string
			for _, k := range e.Keys {
				if k.Primary != nil && *k.Primary {
					pk = append(pk, k.Field.Name)
				}
			}
			var evs, gotEvs []string
			for _, ev := range e.Events {
				evs = append(evs, gj5s.LowerFirst(ev.Name))
			}
			for _, ev := range found.Events {
				gotEvs = append(gotEvs, ev.Name)
			}
			wantSchema := f.Package() + "." + gj5s.EntityCamel(e.Name) + "State"
			if fmt.Sprint(found.PrimaryKey) != fmt.Sprint(pk) || fmt.Sprint(gotEvs) != fmt.Sprint(evs) || found.SchemaName != wantSchema || found.QueryService == nil || len(found.CommandServices) != len(e.Commands) {
				t.Violation("entity-shape|"+fam, fmt.Sprintf("state entity %s: primary key %v events %v schema %s commands %d expected, got %v %v %s %d (query service %v)\n%s", name, pk, evs, wantSchema, len(e.Commands), found.PrimaryKey, gotEvs, found.SchemaName, len(found.CommandServices), found.QueryService != nil, src), src, nil, nil)
				return
			}
			if !schemas[found.SchemaName] {
				t.Violation("schema-missing|"+fam, fmt.Sprintf("state entity %s: schema %s is not present\n%s", name, found.SchemaName, src), src, nil, found.SchemaName)
				return
			}
		}
	}
	// every schema referenced from anything in the client API is present
	missing := map[string]bool{}
	var walk func(m protoreflect.Message)
	walk = func(m protoreflect.Message) {
		if ref, ok := m.Interface().(*schema_j5pb.Ref); ok {
			if !schemas[ref.Package+"."+ref.Schema] {
				missing[ref.Package+"."+ref.Schema] = true
			}
			return
		}
		m.Range(func(fd protoreflect.FieldDescriptor, v protoreflect.Value) bool {
			switch {
			case fd.IsMap():
				if fd.MapValue().Message() != nil {
					v.Map().Range(func(_ protoreflect.MapKey, mv protoreflect.Value) bool { walk(mv.Message()); return true })
				}
			case fd.IsList():
				if fd.Message() != nil {
					for i := 0; i < v.List().Len(); i++ {
						walk(v.List().Get(i).Message())
					}
				}
			case fd.Message() != nil:
				walk(v.Message())
			}
			return true
		})
	}
	walk(client.ProtoReflect())
	if len(missing) > 0 {
		var ms []string
		for k := range missing {
			ms = append(ms, k)
		}
		sort.Strings(ms)
		t.Violation("schema-missing|"+fam, fmt.Sprintf("schemas referenced from the client API are not present in it: %v\n%s", ms, src), src, nil, ms)
		return
	}
	t.Sample(src)
}

type wantMethod struct {
	verb, path              string
	pathParams, query, body []string
	// the same lists with flattened request fields replaced by their members: the statement does
	// not say which of the two a client sees, either is accepted per position
	queryFlat, bodyFlat []string
}

// flatNames: the member names a flattened field contributes (recursively), or its own name.
func flatNames(f *gj5s.Field) []string {
	if !f.Flatten || f.T == nil || f.T.K != gj5s.TObject {
		return []string{f.Name}
	}
	d := f.T.Inline
	if f.T.Ref != nil {
		d = f.T.Ref.To
	}
	if d == nil {
		return []string{f.Name}
	}
	var out []string
	for _, m := range d.Fields {
		out = append(out, flatNames(m)...)
	}
	return out
}

func expectedMethods(p *gj5s.Program) map[string]*wantMethod {
	out := map[string]*wantMethod{}
	addSvc := func(pkg, svcName, base string, methods []*gj5s.Method) {
		for _, m := range methods {
			full := base + m.Path
			var parts []string
			isParam := map[string]bool{}
			for _, seg := range strings.Split(full, "/") {
				if strings.HasPrefix(seg, ":") {
					isParam[seg[1:]] = true
				}
				parts = append(parts, seg)
			}
			w := &wantMethod{verb: strings.ToUpper(m.Verb), path: strings.Join(parts, "/")}
			for _, f := range m.Request {
				switch {
				case isParam[f.Name]:
					w.pathParams = append(w.pathParams, f.Name)
				case w.verb == "GET":
					w.query = append(w.query, f.Name)
					w.queryFlat = append(w.queryFlat, flatNames(f)...)
				default:
					w.body = append(w.body, f.Name)
					w.bodyFlat = append(w.bodyFlat, flatNames(f)...)
				}
			}
			sort.Strings(w.pathParams)
			sort.Strings(w.query)
			sort.Strings(w.body)
			sort.Strings(w.queryFlat)
			sort.Strings(w.bodyFlat)
			out[pkg+"/"+svcName+"/"+m.Name] = w
		}
	}
	for _, f := range p.Files {
		for _, d := range f.Decls {
			switch d := d.(type) {
			case *gj5s.Service:
				addSvc(f.Package(), d.Name+"Service", d.BasePath, d.Methods)
			case *gj5s.Entity:
				name := gj5s.EntityCamel(d.Name)
				base := d.BaseURLPath
				if base == "" {
					base = "/" + strings.ReplaceAll(f.Package(), ".", "/") + "/" + gj5s.Snake(gj5s.LowerFirst(name))
				}
				var pk, shard []string
				pkPath, shardPath := "", ""
				for _, k := range d.Keys {
					if (k.Primary != nil && *k.Primary) || k.ShardKey {
						pk = append(pk, k.Field.Name)
						pkPath += "/:" + k.Field.Name
						if k.ShardKey {
							shard = append(shard, k.Field.Name)
							shardPath += "/:" + k.Field.Name
						}
					}
				}
				sort.Strings(pk)
				sort.Strings(shard)
				q := f.Package() + "/" + name + "QueryService/" + name
				out[q+"Get"] = &wantMethod{verb: "GET", path: base + "/q" + pkPath, pathParams: pk}
				out[q+"List"] = &wantMethod{verb: "GET", path: base + "/q" + shardPath, pathParams: shard, query: []string{"page", "query"}}
				out[q+"Events"] = &wantMethod{verb: "GET", path: base + "/q" + pkPath + "/events", pathParams: pk, query: []string{"page", "query"}}
				for _, c := range d.Commands {
					sn := name + "CommandService"
					if c.Name != "" {
						sn = gj5s.UpperFirst(c.Name) + "CommandService"
					}
					addSvc(f.Package(), sn, base+"/c", c.Methods)
				}
			}
		}
	}
	return out
}

func stackBuf() []byte {
	buf := make([]byte, 16<<10)
	return buf[:runtimeStack(buf)]
}

func run(r *vk.Runner) {
	var cases []*gj5s.Case
	cases = append(cases, gj5s.ServiceCases()...)
	cases = append(cases, gj5s.TopicCases()...)
	cases = append(cases, gj5s.PipelineCases()...)
	cases = append(cases, gj5s.OddNameCases()...)
	if !r.Quick() {
		// every object of the field-pair programs as the body and the response of a method
		for _, c := range gj5s.PairFieldCases() {
			f := c.P.Files[0]
			foo := f.Decls[0].(*gj5s.Decl)
			f.Add(&gj5s.Service{Name: "Pair", BasePath: "/t/v1", Methods: []*gj5s.Method{{Name: "PutPair", Verb: "POST", Path: "/pair", HasResponse: true,
				Request: []*gj5s.Field{{Name: "foo", T: gj5s.RefTo(foo, "")}}, Response: []*gj5s.Field{{Name: "foo", T: gj5s.RefTo(foo, "")}}}}})
			cases = append(cases, c)
		}
	}
	for _, c := range gj5s.EntityCases(!r.Quick()) {
		if !strings.HasPrefix(c.ID, "entity:5.") {
			cases = append(cases, c)
		}
	}
	for _, c := range cases {
		c := c
		if r.Stopped() {
			return
		}
		r.Family(c.Family)
		r.Do(c.ID, func(t *vk.T) { checkPipeline(t, c) })
	}
}

func hasSeg(path, seg string) bool {
	for _, s := range strings.Split(path, "/") {
		if s == seg {
			return true
		}
	}
	return false
}
