// C17: entity declarations expand to a complete, mutually consistent API.
package main

import (
	"context"
	"fmt"
	"strings"

	"buf.build/gen/go/bufbuild/protovalidate/protocolbuffers/go/buf/validate"
	"github.com/pentops/j5/gen/j5/ext/v1/ext_j5pb"
	"github.com/pentops/j5/gen/j5/messaging/v1/messaging_j5pb"
	"github.com/pentops/j5/gen/j5/list/v1/list_j5pb"
	"github.com/pentops/j5/gen/j5/schema/v1/schema_j5pb"
	"github.com/pentops/j5/internal/zzverif/gj5s"
	"github.com/pentops/j5/internal/zzverif/vk"
	"google.golang.org/protobuf/reflect/protoreflect"
)

var ctx = context.Background()

func main() {
	gj5s.Silence()
	vk.Main(&vk.Check{
		ID:   "C17",
		Rule: "entity declarations: 3 name casings x 5 key sets (1-3 keys; id62 / uuid / plain; primary true / false / unspelled, tenant, foreign) x 0-3 data fields x 1-3 statuses x 0-3 events x 0-3 summaries x 0-2 command services x 4 query settings; every single and every pair of deviations from a default entity (quick), the small dimensions crossed in full (thorough); a case = one entity compiled on a fresh PackageSet; distinct by source text; non-trivial = every case",
		Assumptions: []string{
			"expected component names, layouts and annotations are the reference expansion in harness/gj5s/entity.go, written from README.md 'Entities'",
			"shard keys are not generated (their effect on paths is not documented)",
		},
		Isolate:        true,
		QuickBudget:    900,
		ThoroughBudget: 7200,
		Run:            run,
	})
}

func run(r *vk.Runner) {
	for _, c := range gj5s.EntityCases(!r.Quick()) {
		c := c
		if r.Stopped() {
			return
		}
		r.Family("entities")
		r.Do(c.ID, func(t *vk.T) { checkEntity(t, c) })
	}
}

func checkEntity(t *vk.T, c *gj5s.Case) {
	t.Coord("entity")
	t.Nontrivial()
	p := c.P
	b := p.Bundle()
	src := b.Files[p.Files[0].Path()]
	t.Key(src)
	ent := p.Files[0].Decls[0].(*gj5s.Entity)
	files, err := b.Compile("t.v1")
	t.Step()
	if err != nil {
		t.Violation("valid-entity-rejected|name="+nameClass(ent.Name)+"|"+vk.ErrTail(err), fmt.Sprintf("an entity of the documented language does not compile: %v\n%s", err, src), src, nil, err.Error())
		return
	}
	var fds []protoreflect.FileDescriptor
	for _, f := range files {
		fds = append(fds, f)
	}
	got := gj5s.Extract(fds)
	if diffs := gj5s.Diff(p.Expected(), got); len(diffs) > 0 {
		all := ""
		for _, x := range diffs {
			all += "  - " + x.Text + "\n"
		}
		t.Violation("expansion|name="+nameClass(ent.Name)+"|"+diffs[0].Clause, fmt.Sprintf("entity expansion differs from the documented one (%d differences):\n%s%s", len(diffs), all, src), src, nil, all)
		return
	}
	// annotations
	bad := func(clause, format string, a ...any) {
		t.Violation("annotation|"+clause, fmt.Sprintf(format, a...)+"\n"+src, src, nil, nil)
	}
	name := gj5s.EntityCamel(ent.Name)
	snake := gj5s.Snake(gj5s.LowerFirst(name))
	find := func(full string) protoreflect.MessageDescriptor {
		for _, fd := range fds {
			if d := fd.Messages().ByName(protoreflect.Name(strings.TrimPrefix(full, string(fd.Package())+"."))); d != nil {
				return d
			}
		}
		return nil
	}
	parts := map[string]schema_j5pb.EntityPart{"Keys": schema_j5pb.EntityPart_KEYS, "Data": schema_j5pb.EntityPart_DATA, "State": schema_j5pb.EntityPart_STATE, "Event": schema_j5pb.EntityPart_EVENT}
	for _, suffix := range []string{"Keys", "Data", "State", "Event"} {
		md := find("t.v1." + name + suffix)
		if md == nil {
			continue
		}
		psm := &ext_j5pb.PSMOptions{}
		if !gj5s.ExtractExt(md.Options(), ext_j5pb.E_Psm.TypeDescriptor(), psm) {
			bad("missing-entity-annotation", "%s carries no entity annotation", md.FullName())
			continue
		}
		if psm.EntityName != snake {
			bad("entity-name", "%s is annotated with entity %q, expected %q", md.FullName(), psm.EntityName, snake)
		}
		if psm.EntityPart == nil || *psm.EntityPart != parts[suffix] {
			bad("entity-part", "%s is annotated as part %v, expected %v", md.FullName(), psm.EntityPart, parts[suffix])
		}
	}
	required := func(fd protoreflect.FieldDescriptor) bool {
		fc := &validate.FieldConstraints{}
		return gj5s.ExtractExt(fd.Options(), validate.E_Field.TypeDescriptor(), fc) && fc.GetRequired()
	}
	if keys := find("t.v1." + name + "Keys"); keys != nil {
		for _, k := range ent.Keys {
			fd := keys.Fields().ByName(protoreflect.Name(gj5s.Snake(k.Field.Name)))
			if fd == nil {
				continue
			}
			ko := &ext_j5pb.PSMKeyFieldOptions{}
			has := gj5s.ExtractExt(fd.Options(), ext_j5pb.E_Key.TypeDescriptor(), ko)
			isPrimary := k.Primary != nil && *k.Primary
			if isPrimary != (has && ko.PrimaryKey) {
				bad("primary-key-marker", "key %s: primary=%v declared, compiled primary_key=%v", k.Field.Name, isPrimary, has && ko.PrimaryKey)
			}
			if isPrimary && !required(fd) {
				bad("primary-key-not-required", "primary key %s is not required", k.Field.Name)
			}
			if !isPrimary && !k.Field.Required && required(fd) {
				bad("non-primary-key-required", "key %s is not primary and not declared required, but compiled as required", k.Field.Name)
			}
			if k.Tenant != "" && (!has || ko.GetTenantType() != k.Tenant) {
				bad("tenant-marker", "key %s: tenant %q declared, compiled %q", k.Field.Name, k.Tenant, ko.GetTenantType())
			}
			if k.Foreign != "" && (!has || ko.ForeignKey == nil) {
				bad("foreign-marker", "key %s: foreign %q declared, compiled without foreign key", k.Field.Name, k.Foreign)
			}
		}
	}
	// the default status filter of the query block lands on State.status, naming the declared statuses
	if st := find("t.v1." + name + "State"); st != nil {
		if fd := st.Fields().ByName("status"); fd != nil {
			lc := &list_j5pb.FieldConstraint{}
			gj5s.ExtractExt(fd.Options(), list_j5pb.E_Field.TypeDescriptor(), lc)
			var want []string
			for _, sname := range ent.DefaultStatusFilter {
				want = append(want, gj5s.Screaming(name)+"_STATUS_"+sname)
			}
			got := lc.GetEnum().GetFiltering().GetDefaultFilters()
			if fmt.Sprint(got) != fmt.Sprint(want) {
				bad("default-status-filter", "State.status default filters %v, declared %v", got, want)
			}
		}
	}
	for _, suffix := range []string{"State", "Event"} {
		md := find("t.v1." + name + suffix)
		if md == nil {
			continue
		}
		for i := 0; i < md.Fields().Len(); i++ {
			fd := md.Fields().Get(i)
			if !required(fd) {
				bad("wrapper-field-not-required", "%s.%s is not required", md.Name(), fd.Name())
			}
			fo := &ext_j5pb.FieldOptions{}
			gj5s.ExtractExt(fd.Options(), ext_j5pb.E_Field.TypeDescriptor(), fo)
			flat := fo.GetObject().GetFlatten() || fo.GetMessage().GetFlatten()
			if (fd.Name() == "keys") != flat {
				bad("flatten", "%s.%s: flatten=%v", md.Name(), fd.Name(), flat)
			}
		}
	}
	// services
	for _, fd := range fds {
		for i := 0; i < fd.Services().Len(); i++ {
			sd := fd.Services().Get(i)
			so := &ext_j5pb.ServiceOptions{}
			hasSO := gj5s.ExtractExt(sd.Options(), ext_j5pb.E_Service.TypeDescriptor(), so)
			switch {
			case strings.HasSuffix(string(sd.Name()), "QueryService"):
				if !hasSO || so.GetStateQuery().GetEntity() != snake {
					bad("query-service-entity", "%s: state_query.entity = %q, expected %q", sd.Name(), so.GetStateQuery().GetEntity(), snake)
				}
				for j := 0; j < sd.Methods().Len(); j++ {
					md := sd.Methods().Get(j)
					mo := &ext_j5pb.MethodOptions{}
					gj5s.ExtractExt(md.Options(), ext_j5pb.E_Method.TypeDescriptor(), mo)
					sq := mo.GetStateQuery()
					want := map[string][3]bool{name + "Get": {true, false, false}, name + "List": {false, true, false}, name + "Events": {false, false, true}}[string(md.Name())]
					if [3]bool{sq.GetGet(), sq.GetList(), sq.GetListEvents()} != want {
						bad("query-method-role", "%s.%s: state_query = %v", sd.Name(), md.Name(), sq)
					}
				}
			case strings.HasSuffix(string(sd.Name()), "CommandService"):
				if !hasSO || so.GetStateCommand().GetEntity() != snake {
					bad("command-service-entity", "%s: state_command.entity = %q, expected %q", sd.Name(), so.GetStateCommand().GetEntity(), snake)
				}
			case strings.HasSuffix(string(sd.Name()), "Topic"):
				mc := &messaging_j5pb.ServiceConfig{}
				if !gj5s.ExtractExt(sd.Options(), messaging_j5pb.E_Service.TypeDescriptor(), mc) {
					bad("topic-config", "%s carries no messaging config", sd.Name())
					continue
				}
				en := ""
				switch r := mc.Role.(type) {
				case *messaging_j5pb.ServiceConfig_Event_:
					en = r.Event.GetEntityName()
				case *messaging_j5pb.ServiceConfig_Upsert_:
					en = r.Upsert.GetEntityName()
				}
				if en != "t.v1."+name {
					bad("topic-entity", "%s: entity_name %q, expected %q", sd.Name(), en, "t.v1."+name)
				}
			}
		}
	}
	t.Sample(src)
}

// nameClass: the casing class of an entity name (structural coordinate).
func nameClass(n string) string {
	switch {
	case strings.Contains(n, "_"):
		return "snake"
	case n != "" && n[0] >= 'a' && n[0] <= 'z':
		return "lowerCamel"
	}
	for i := 1; i < len(n); i++ {
		if n[i] >= 'A' && n[i] <= 'Z' && (i == len(n)-1 || (n[i-1] >= 'A' && n[i-1] <= 'Z')) {
			return "camel-with-trailing-or-adjacent-capital"
		}
	}
	return "camel"
}
