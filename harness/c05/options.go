package main

import (
	"fmt"
	"math"
	"strings"

	"google.golang.org/protobuf/proto"
	"google.golang.org/protobuf/reflect/protodesc"
	"google.golang.org/protobuf/reflect/protoreflect"
	"google.golang.org/protobuf/reflect/protoregistry"
	"google.golang.org/protobuf/types/descriptorpb"
	"google.golang.org/protobuf/types/dynamicpb"
)

type optionCase struct {
	id, host string
	build    func() ([]protoreflect.FileDescriptor, error)
}

func s(v string) *string { return &v }

func fieldP(name string, num int32, t descriptorpb.FieldDescriptorProto_Type, typeName string, repeated bool) *descriptorpb.FieldDescriptorProto {
	f := &descriptorpb.FieldDescriptorProto{Name: s(name), Number: proto.Int32(num), Type: t.Enum(), Label: descriptorpb.FieldDescriptorProto_LABEL_OPTIONAL.Enum()}
	if typeName != "" {
		f.TypeName = s(typeName)
	}
	if repeated {
		f.Label = descriptorpb.FieldDescriptorProto_LABEL_REPEATED.Enum()
	}
	return f
}

var hosts = []string{"MessageOptions", "FieldOptions", "OneofOptions", "EnumOptions", "EnumValueOptions", "ServiceOptions", "MethodOptions"}

// optionsFile: opt/v1/options.proto with one extension "v" of type OptVal per host.
func optionsFile() *descriptorpb.FileDescriptorProto {
	T := descriptorpb.FieldDescriptorProto_TYPE_STRING
	val := &descriptorpb.DescriptorProto{Name: s("OptVal"), Field: []*descriptorpb.FieldDescriptorProto{
		fieldP("s", 1, T, "", false),
		fieldP("i", 2, descriptorpb.FieldDescriptorProto_TYPE_INT64, "", false),
		fieldP("u", 3, descriptorpb.FieldDescriptorProto_TYPE_UINT64, "", false),
		fieldP("d", 4, descriptorpb.FieldDescriptorProto_TYPE_DOUBLE, "", false),
		fieldP("f", 5, descriptorpb.FieldDescriptorProto_TYPE_FLOAT, "", false),
		fieldP("b", 6, descriptorpb.FieldDescriptorProto_TYPE_BOOL, "", false),
		fieldP("y", 7, descriptorpb.FieldDescriptorProto_TYPE_BYTES, "", false),
		fieldP("e", 8, descriptorpb.FieldDescriptorProto_TYPE_ENUM, ".opt.v1.Shade", false),
		fieldP("nested", 9, descriptorpb.FieldDescriptorProto_TYPE_MESSAGE, ".opt.v1.OptVal", false),
		fieldP("rs", 10, T, "", true),
		fieldP("rm", 11, descriptorpb.FieldDescriptorProto_TYPE_MESSAGE, ".opt.v1.OptVal", true),
		fieldP("ms", 12, descriptorpb.FieldDescriptorProto_TYPE_MESSAGE, ".opt.v1.OptVal.MsEntry", true),
		fieldP("si", 13, descriptorpb.FieldDescriptorProto_TYPE_SINT32, "", false),
		fieldP("ri", 14, descriptorpb.FieldDescriptorProto_TYPE_INT32, "", true),
	}, NestedType: []*descriptorpb.DescriptorProto{{Name: s("MsEntry"), Options: &descriptorpb.MessageOptions{MapEntry: proto.Bool(true)},
		Field: []*descriptorpb.FieldDescriptorProto{fieldP("key", 1, T, "", false), fieldP("value", 2, T, "", false)}}}}
	f := &descriptorpb.FileDescriptorProto{
		Name: s("opt/v1/options.proto"), Package: s("opt.v1"), Syntax: s("proto3"), Dependency: []string{"google/protobuf/descriptor.proto"},
		MessageType: []*descriptorpb.DescriptorProto{val},
		EnumType: []*descriptorpb.EnumDescriptorProto{{Name: s("Shade"), Value: []*descriptorpb.EnumValueDescriptorProto{
			{Name: s("SHADE_UNSPECIFIED"), Number: proto.Int32(0)}, {Name: s("SHADE_DARK"), Number: proto.Int32(1)}, {Name: s("SHADE_LIGHT"), Number: proto.Int32(7)}}}},
	}
	for i, h := range hosts {
		x := fieldP("v_"+h, int32(90001+i), descriptorpb.FieldDescriptorProto_TYPE_MESSAGE, ".opt.v1.OptVal", false)
		x.Name = s("v" + fmt.Sprint(i))
		x.Extendee = s(".google.protobuf." + h)
		f.Extension = append(f.Extension, x)
		sx := fieldP("sv", int32(90101+i), T, "", false)
		sx.Name = s("sv" + fmt.Sprint(i))
		sx.Extendee = s(".google.protobuf." + h)
		f.Extension = append(f.Extension, sx)
	}
	return f
}

type optValue struct {
	name string
	set  func(m protoreflect.Message)
}

func optValues() []optValue {
	fd := func(m protoreflect.Message, n string) protoreflect.FieldDescriptor {
		return m.Descriptor().Fields().ByName(protoreflect.Name(n))
	}
	str := func(v string) optValue {
		return optValue{fmt.Sprintf("string %q", v), func(m protoreflect.Message) { m.Set(fd(m, "s"), protoreflect.ValueOfString(v)) }}
	}
	out := []optValue{
		str("plain"), str(`q"uote`), str(`back\slash`), str("new\nline"), str("tab\there"), str("cr\rx"), str("nul\x00x"), str("bell\x07"), str("é日本"), str("😀 astral"), str("'single'"), str("trail\\"), str("?? trigraph"), str(" lead space"), str("\x7f del   ls"),
		// a control character directly followed by hex digits / octal digits / letters that could extend an escape
		str("\x01f"), str("\x07Bell"), str("\x0fA0"), str("\x00" + "0"), str("\x1f1"), str("\x10ab"), str("a\x0bcd"), str("\x7f7f"), str("\\x41"), str("\u0080\u0081"),
		{"int64 min", func(m protoreflect.Message) { m.Set(fd(m, "i"), protoreflect.ValueOfInt64(math.MinInt64)) }},
		{"int64 max", func(m protoreflect.Message) { m.Set(fd(m, "i"), protoreflect.ValueOfInt64(math.MaxInt64)) }},
		{"uint64 max", func(m protoreflect.Message) { m.Set(fd(m, "u"), protoreflect.ValueOfUint64(math.MaxUint64)) }},
		{"sint32 min", func(m protoreflect.Message) { m.Set(fd(m, "si"), protoreflect.ValueOfInt32(math.MinInt32)) }},
		{"double inf", func(m protoreflect.Message) { m.Set(fd(m, "d"), protoreflect.ValueOfFloat64(math.Inf(1))) }},
		{"double -inf", func(m protoreflect.Message) { m.Set(fd(m, "d"), protoreflect.ValueOfFloat64(math.Inf(-1))) }},
		{"double nan", func(m protoreflect.Message) { m.Set(fd(m, "d"), protoreflect.ValueOfFloat64(math.NaN())) }},
		{"double 1e-7", func(m protoreflect.Message) { m.Set(fd(m, "d"), protoreflect.ValueOfFloat64(1e-7)) }},
		{"double max", func(m protoreflect.Message) { m.Set(fd(m, "d"), protoreflect.ValueOfFloat64(math.MaxFloat64)) }},
		{"double 1e21", func(m protoreflect.Message) { m.Set(fd(m, "d"), protoreflect.ValueOfFloat64(1e21)) }},
		{"double -0.5", func(m protoreflect.Message) { m.Set(fd(m, "d"), protoreflect.ValueOfFloat64(-0.5)) }},
		{"float 0.1", func(m protoreflect.Message) { m.Set(fd(m, "f"), protoreflect.ValueOfFloat32(0.1)) }},
		{"float max", func(m protoreflect.Message) { m.Set(fd(m, "f"), protoreflect.ValueOfFloat32(math.MaxFloat32)) }},
		{"bool true", func(m protoreflect.Message) { m.Set(fd(m, "b"), protoreflect.ValueOfBool(true)) }},
		{"bytes", func(m protoreflect.Message) { m.Set(fd(m, "y"), protoreflect.ValueOfBytes([]byte{0, 1, 0xff, '"', '\\', '\n', 'a'})) }},
		{"enum", func(m protoreflect.Message) { m.Set(fd(m, "e"), protoreflect.ValueOfEnum(7)) }},
		{"nested", func(m protoreflect.Message) {
			n := m.Mutable(fd(m, "nested")).Message()
			n.Set(fd(n, "s"), protoreflect.ValueOfString("in"))
			nn := n.Mutable(fd(n, "nested")).Message()
			nn.Set(fd(nn, "i"), protoreflect.ValueOfInt64(-1))
		}},
		{"nested empty", func(m protoreflect.Message) { m.Mutable(fd(m, "nested")) }},
		{"repeated strings", func(m protoreflect.Message) {
			l := m.Mutable(fd(m, "rs")).List()
			for _, v := range []string{"a", "", "b\"c", "a"} {
				l.Append(protoreflect.ValueOfString(v))
			}
		}},
		{"repeated one", func(m protoreflect.Message) { m.Mutable(fd(m, "rs")).List().Append(protoreflect.ValueOfString("only")) }},
		{"repeated ints", func(m protoreflect.Message) {
			l := m.Mutable(fd(m, "ri")).List()
			for _, v := range []int32{1, -2, 0} {
				l.Append(protoreflect.ValueOfInt32(v))
			}
		}},
		{"repeated messages", func(m protoreflect.Message) {
			l := m.Mutable(fd(m, "rm")).List()
			for _, v := range []string{"x", "y"} {
				e := l.NewElement()
				e.Message().Set(fd(e.Message(), "s"), protoreflect.ValueOfString(v))
				l.Append(e)
			}
			l.Append(l.NewElement())
		}},
		{"map", func(m protoreflect.Message) {
			mp := m.Mutable(fd(m, "ms")).Map()
			mp.Set(protoreflect.ValueOfString("k1").MapKey(), protoreflect.ValueOfString("v1"))
			mp.Set(protoreflect.ValueOfString("k \"2\"").MapKey(), protoreflect.ValueOfString(""))
			mp.Set(protoreflect.ValueOfString("").MapKey(), protoreflect.ValueOfString("empty key"))
		}},
		{"several fields", func(m protoreflect.Message) {
			m.Set(fd(m, "s"), protoreflect.ValueOfString("x"))
			m.Set(fd(m, "i"), protoreflect.ValueOfInt64(5))
			m.Set(fd(m, "b"), protoreflect.ValueOfBool(true))
			m.Set(fd(m, "e"), protoreflect.ValueOfEnum(1))
		}},
	}
	return out
}

func optionCases() []optionCase {
	var out []optionCase
	for hi, host := range hosts {
		for _, ov := range optValues() {
			hi, host, ov := hi, host, ov
			for _, scalarExt := range []bool{false, true} {
				scalarExt := scalarExt
				if scalarExt && !strings.HasPrefix(ov.name, "string") {
					continue
				}
				id := fmt.Sprintf("%s:%s:scalar-ext=%v", host, ov.name, scalarExt)
				out = append(out, optionCase{id: id, host: host, build: func() ([]protoreflect.FileDescriptor, error) {
					ofd, err := protodesc.NewFile(optionsFile(), protoregistry.GlobalFiles)
					if err != nil {
						return nil, err
					}
					reg := &protoregistry.Files{}
					if err := reg.RegisterFile(ofd); err != nil {
						return nil, err
					}
					types := dynamicpb.NewTypes(reg)
					xt, err := types.FindExtensionByName(protoreflect.FullName(fmt.Sprintf("opt.v1.v%d", hi)))
					if err != nil {
						return nil, err
					}
					sxt, err := types.FindExtensionByName(protoreflect.FullName(fmt.Sprintf("opt.v1.sv%d", hi)))
					if err != nil {
						return nil, err
					}
					setOn := func(opts proto.Message) {
						if scalarExt {
							probe := dynamicpb.NewMessage(ofd.Messages().ByName("OptVal"))
							ov.set(probe)
							proto.SetExtension(opts, sxt, probe.Get(probe.Descriptor().Fields().ByName("s")).String())
							return
						}
						v := dynamicpb.NewMessage(ofd.Messages().ByName("OptVal"))
						ov.set(v)
						proto.SetExtension(opts, xt, v)
					}
					use := &descriptorpb.FileDescriptorProto{Name: s("use/v1/u.proto"), Package: s("use.v1"), Syntax: s("proto3"), Dependency: []string{"opt/v1/options.proto"}}
					msg := &descriptorpb.DescriptorProto{Name: s("M"), Field: []*descriptorpb.FieldDescriptorProto{fieldP("a", 1, descriptorpb.FieldDescriptorProto_TYPE_STRING, "", false), fieldP("b", 2, descriptorpb.FieldDescriptorProto_TYPE_STRING, "", false)},
						OneofDecl: []*descriptorpb.OneofDescriptorProto{{Name: s("choice")}}}
					msg.Field[1].OneofIndex = proto.Int32(0)
					en := &descriptorpb.EnumDescriptorProto{Name: s("E"), Value: []*descriptorpb.EnumValueDescriptorProto{{Name: s("E_UNSPECIFIED"), Number: proto.Int32(0)}, {Name: s("E_ONE"), Number: proto.Int32(1)}}}
					svc := &descriptorpb.ServiceDescriptorProto{Name: s("S"), Method: []*descriptorpb.MethodDescriptorProto{{Name: s("Do"), InputType: s(".use.v1.M"), OutputType: s(".use.v1.M")}}}
					switch host {
					case "MessageOptions":
						msg.Options = &descriptorpb.MessageOptions{}
						setOn(msg.Options)
					case "FieldOptions":
						msg.Field[0].Options = &descriptorpb.FieldOptions{}
						setOn(msg.Field[0].Options)
					case "OneofOptions":
						msg.OneofDecl[0].Options = &descriptorpb.OneofOptions{}
						setOn(msg.OneofDecl[0].Options)
					case "EnumOptions":
						en.Options = &descriptorpb.EnumOptions{}
						setOn(en.Options)
					case "EnumValueOptions":
						en.Value[1].Options = &descriptorpb.EnumValueOptions{}
						setOn(en.Value[1].Options)
					case "ServiceOptions":
						svc.Options = &descriptorpb.ServiceOptions{}
						setOn(svc.Options)
					case "MethodOptions":
						svc.Method[0].Options = &descriptorpb.MethodOptions{}
						setOn(svc.Method[0].Options)
					}
					use.MessageType = []*descriptorpb.DescriptorProto{msg}
					use.EnumType = []*descriptorpb.EnumDescriptorProto{en}
					use.Service = []*descriptorpb.ServiceDescriptorProto{svc}
					ufd, err := protodesc.NewFile(use, reg)
					if err != nil {
						return nil, err
					}
					return []protoreflect.FileDescriptor{ofd, ufd}, nil
				}})
			}
		}
	}
	return out
}
